#!/bin/sh
# MANIFEST.setup_cmd: build the framework offline from files on disk.
set -e
cd "$(dirname "$0")"
export CARGO_NET_OFFLINE=true
mkdir -p .build evidence replays
(cd lean && lake build StrettoModel smdriver)
(cd harness && cargo build --offline --bin tracegen)
echo "setup ok"
