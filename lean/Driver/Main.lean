import Driver.Tiny
import Driver.Policy
import Driver.Cache
import Driver.Keys
import Driver.Hist
/-! `smdriver <component>`: replays a line-protocol trace from stdin through the model. -/
open Driver

partial def loopTiny (h : IO.FS.Stream) (st : TinySt) (tl : Tally) : IO Tally := do
  let line ← h.getLine
  if line.isEmpty then return tl
  let line := line.trimAscii.toString
  if line.isEmpty || line.startsWith "#" then loopTiny h st tl
  else
    let tl := { tl with lines := tl.lines + 1 }
    let (act, ans) := splitBar line
    let (st, tl) := stepTiny st tl act ans
    loopTiny h st tl

partial def loopPolicy (h : IO.FS.Stream) (st : PolSt) (tl : Tally) (prev : Option PolSnap) : IO Tally := do
  let line ← h.getLine
  if line.isEmpty then return tl
  let line := line.trimAscii.toString
  if line.isEmpty || line.startsWith "#" then loopPolicy h st tl prev
  else
    let tl := { tl with lines := tl.lines + 1 }
    let (act, ans) := splitBar line
    let (st, tl, prev) := stepPolicy st tl act ans prev
    loopPolicy h st tl prev

partial def loopCache (h : IO.FS.Stream) (st : CacheSt) (tl : Tally) : IO Tally := do
  let line ← h.getLine
  if line.isEmpty then return tl
  let line := line.trimAscii.toString
  if line.isEmpty || line.startsWith "#" then loopCache h st tl
  else
    let tl := { tl with lines := tl.lines + 1 }
    let (act, ans) := splitBar line
    let (st, tl) := stepCache st tl act ans
    loopCache h st tl

partial def loopKeys (h : IO.FS.Stream) (tl : Tally) : IO Tally := do
  let line ← h.getLine
  if line.isEmpty then return tl
  let line := line.trimAscii.toString
  if line.isEmpty || line.startsWith "#" then loopKeys h tl
  else
    let tl := { tl with lines := tl.lines + 1 }
    let (act, ans) := splitBar line
    loopKeys h (stepKeys tl act ans)

partial def loopHist (h : IO.FS.Stream) (st : HistSt) (tl : Tally) : IO Tally := do
  let line ← h.getLine
  if line.isEmpty then return tl
  let line := line.trimAscii.toString
  if line.isEmpty || line.startsWith "#" then loopHist h st tl
  else
    let tl := { tl with lines := tl.lines + 1 }
    let (act, ans) := splitBar line
    let (st, tl) := stepHist st tl act ans
    loopHist h st tl

def main (args : List String) : IO UInt32 := do
  let stdin ← IO.getStdin
  match args with
  | ["tiny"] =>
    let tl ← loopTiny stdin {} {}
    tl.report
    return (if tl.diverge + tl.monitorFail + tl.guardFail + tl.bad == 0 then 0 else 1)
  | ["policy"] =>
    let tl ← loopPolicy stdin {} {} none
    tl.report
    return (if tl.diverge + tl.monitorFail + tl.guardFail + tl.bad == 0 then 0 else 1)
  | ["keys"] =>
    let tl ← loopKeys stdin {}
    tl.report
    return (if tl.diverge + tl.monitorFail + tl.guardFail + tl.bad == 0 then 0 else 1)
  | ["hist"] =>
    let tl ← loopHist stdin {} {}
    tl.report
    return (if tl.diverge + tl.monitorFail + tl.guardFail + tl.bad == 0 then 0 else 1)
  | ["cache"] =>
    let tl ← loopCache stdin {} {}
    tl.report
    return (if tl.diverge + tl.monitorFail + tl.guardFail + tl.bad == 0 then 0 else 1)
  | _ =>
    IO.eprintln "usage: smdriver tiny < trace"
    return 2
