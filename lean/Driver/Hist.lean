import StrettoModel.Model.Histogram
import Driver.Util
/-!
Driver for histogram traces (C17).
```
h.new B1,B2,.. | count= min= max= mean=<f64 bits> buckets=.. p50= p75= unparsed=
h.update V | …          h.clear | …
```
-/
namespace Driver
open Stretto

structure HistSt where
  h : Option Hist := none

def meanBits (h : Hist) : Nat :=
  if h.count == 0 then 0 else (Float.ofInt h.sum / Float.ofInt h.count).toBits.toNat

def compareHist (tl : Tally) (what : String) (h : Hist) (r : List (String × String)) : Tally × Hist := Id.run do
  let mut tl := tl
  match getInt r "count", getInt r "min", getInt r "max", getNat r "mean", (lookup r "buckets").bind parseIntList,
        getInt r "p50", getInt r "p75", getNat r "unparsed" with
  | some count, some mn, some mx, some mean, some buckets, some p50, some p75, some unparsed =>
    -- monitors on the implementation's own numbers (C17)
    if count != buckets.foldl (· + ·) 0 then
      tl := tl.monitorAt "C17" s!"histogram count {count} ≠ sum of its buckets {buckets.foldl (· + ·) 0}"
    if unparsed != 0 then
      tl := tl.divergeAt s!"{what}.display" "every bucket line names one of the bounds" s!"{unparsed} bucket line(s) with another upper bound"
    if count != h.count then tl := tl.divergeAt s!"{what}.count" (toString h.count) (toString count)
    if buckets != h.buckets then tl := tl.divergeAt s!"{what}.buckets" (toString h.buckets) (toString buckets)
    if mn != h.min then tl := tl.divergeAt s!"{what}.min" (toString h.min) (toString mn)
    if mx != h.max then tl := tl.divergeAt s!"{what}.max" (toString h.max) (toString mx)
    if mean != meanBits h then tl := tl.divergeAt s!"{what}.mean" (toString (meanBits h)) (toString mean)
    if p50 != h.percentile 1 2 then tl := tl.divergeAt s!"{what}.p50" (toString (h.percentile 1 2)) (toString p50)
    if p75 != h.percentile 3 4 then tl := tl.divergeAt s!"{what}.p75" (toString (h.percentile 3 4)) (toString p75)
    -- re-synchronise the counters to the implementation (the sum is only visible through the mean)
    return (tl, { h with count := count, buckets := buckets, min := mn, max := mx })
  | _, _, _, _, _, _, _, _ => return (tl.badAt what, h)

def stepHist (st : HistSt) (tl : Tally) (act : String) (ans : String) : HistSt × Tally :=
  let a := splitWs act
  let r := kvs (splitWs ans)
  if ans == "PANIC" then (st, tl.monitorAt "C17" s!"the implementation panicked in `{act}`") else
  match a with
  | ["h.new", bs] =>
    match parseIntList bs with
    | some bounds =>
      let h := Hist.new bounds
      let (tl, h) := compareHist (tl.bump "h.new") "h.new" h r
      ({ st with h := some h }, { tl with ok := tl.ok + 1 })
    | none => (st, tl.badAt act)
  | ["h.update", v] =>
    match st.h, v.toInt? with
    | some h, some v =>
      let idx := Hist.bucketIdx h.bounds v
      let tl := tl.bump (if idx == 0 then "h.update.first" else if idx == h.bounds.length then "h.update.last"
        else if h.bounds.contains v then "h.update.on_bound" else "h.update.inner")
      let (tl, h') := compareHist tl "h.update" (h.update v) r
      ({ st with h := some { h' with sum := (h.update v).sum } }, { tl with ok := tl.ok + 1 })
    | _, _ => (st, tl.badAt act)
  | ["h.clear"] =>
    match st.h with
    | some h =>
      let (tl, h') := compareHist (tl.bump "h.clear") "h.clear" h.clear r
      ({ st with h := some { h' with sum := 0 } }, { tl with ok := tl.ok + 1 })
    | none => (st, tl.badAt act)
  | _ => (st, tl.badAt act)

end Driver
