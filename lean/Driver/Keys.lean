import StrettoModel.Model.Keys
import Driver.Util
/-! Driver for key-builder traces (C18): `key ty=T x=X | idx=I conf=C again=0/1`, `keystr … | same= borrowed_same=` -/
namespace Driver
open Stretto

def tyOf (s : String) : Option IntTy :=
  match s with
  | "u8" => some .u8 | "u16" => some .u16 | "u32" => some .u32 | "u64" => some .u64 | "usize" => some .usize
  | "i8" => some .i8 | "i16" => some .i16 | "i32" => some .i32 | "i64" => some .i64 | "isize" => some .isize
  | _ => none

def stepKeys (tl : Tally) (act : String) (ans : String) : Tally :=
  let a := kvs (splitWs act)
  let r := kvs (splitWs ans)
  match (splitWs act).head? with
  | some "key" =>
    match (lookup a "ty").bind tyOf, getInt a "x", getNat r "idx", getNat r "conf", getNat r "again" with
    | some ty, some x, some idx, some conf, some again =>
      let tl := tl.bump s!"key.{(lookup a "ty").getD ""}.{if x < 0 then "neg" else "nonneg"}"
      let (mi, mc) := transparentBuildKey x
      -- guard: the value is in the range of its type (the theorem's hypothesis)
      let tl := if decide (ty.lo ≤ x) && decide (x ≤ ty.hi) then tl else tl.guardAt s!"{x} outside the range of its type"
      let tl := if again == 1 then tl else tl.monitorAt "C18" s!"build_key({x}) gave two different answers"
      let tl := if idx == mi && conf == 0 then tl
        else tl.monitorAt "C18" s!"TransparentKeyBuilder mapped {x} to ({idx},{conf}), not to itself ({mi},0)"
      if idx == mi && conf == mc then { tl with ok := tl.ok + 1 }
      else tl.divergeAt "key" s!"{mi},{mc}" s!"{idx},{conf}"
    | _, _, _, _, _ => tl.badAt act
  | some "keystr" =>
    let tl := tl.bump "keystr"
    match getNat r "same", getNat r "borrowed_same" with
    | some s, some b =>
      let tl := if s == 1 then tl else tl.monitorAt "C18" "DefaultKeyBuilder gave two different pairs for one String"
      let tl := if b == 1 then tl else tl.monitorAt "C18" "DefaultKeyBuilder hashes a String and its &str borrow differently"
      { tl with ok := tl.ok + 1 }
    | _, _ => tl.badAt act
  | _ => tl.badAt act

end Driver
