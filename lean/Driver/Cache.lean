import StrettoModel.Model.Cache
import StrettoModel.Model.Builder
import Driver.Util
import Driver.Policy
/-!
Driver for whole-cache stepped traces (C02–C06, C08–C12, C15–C18, C20).

Every line carries the implementation's answer, the callbacks it made during the step and a
canonical snapshot of its state. The model takes the same step; answer and snapshot are compared
(`DIVERGE`), the model is then re-synchronised to the implementation's snapshot (for the parts a
snapshot determines), and the property monitors are evaluated on the implementation's behaviour.
-/
namespace Driver
open Stretto

-- snapshot -------------------------------------------------------------------------------------

structure CSnap where
  items : List (Nat × Nat × Nat × Nat × Nat)      -- key conflict val d created, sorted by key
  buckets : List (Nat × List (Nat × Nat))         -- bucket, [(key, conflict)] sorted
  charges : List (Nat × Int)
  used : Int
  max : Int
  buf : Nat
  ring : List Nat
  pq : Nat
  closed : Bool
  pclosed : Bool
  met : Option (List Nat)
  life : Option (Nat × List Nat)
  len : Nat
deriving BEq, Repr

def parseItems (s : String) : Option (List (Nat × Nat × Nat × Nat × Nat)) :=
  if s == "-" || s == "" then some [] else (s.splitOn ",").mapM fun t =>
    match (t.splitOn ":").mapM String.toNat? with
    | some [k, c, v, d, cr] => some (k, c, v, d, cr)
    | _ => none

def parseNatPairs (s : String) : Option (List (Nat × Nat)) :=
  if s == "-" || s == "" then some [] else (s.splitOn ",").mapM fun t =>
    match (t.splitOn ":").mapM String.toNat? with
    | some [k, c] => some (k, c)
    | _ => none

def parseBuckets (s : String) : Option (List (Nat × List (Nat × Nat))) :=
  if s == "-" || s == "" then some [] else (s.splitOn ";").mapM fun t =>
    match t.splitOn "/" with
    | [b, ks] => do pure ((← b.toNat?), (← parseNatPairs ks))
    | _ => none

def parseCSnap (r : List (String × String)) : Option CSnap := do
  let items ← (lookup r "items").bind parseItems
  let buckets ← (lookup r "buckets").bind parseBuckets
  let charges ← (lookup r "charges").bind parsePairs
  let used ← getInt r "used"
  let max ← getInt r "max"
  let buf ← getNat r "buf"
  let ring ← getNatList r "ring"
  let pq ← getNat r "pq"
  let closed ← getNat r "closed"
  let pclosed ← getNat r "pclosed"
  let len ← getNat r "len"
  let met := match lookup r "met" with
    | some "-" => none
    | some s => parseNatList s
    | none => none
  let life := match lookup r "life" with
    | some "-" => none
    | some s => match s.splitOn "/" with
      | [c, bs] => do pure ((← c.toNat?), (← parseNatList bs))
      | _ => none
    | none => none
  pure { items, buckets, charges, used, max, buf, ring, pq, closed := closed == 1,
         pclosed := pclosed == 1, met, life, len }

def modelSnap (c : Cache) : CSnap :=
  { items := (c.store.items.sorted).map fun (k, e) => (k, e.conflict, e.val, e.exp.d, e.exp.created)
    buckets := (c.store.em.sorted).map fun (b, ks) => (b, ks.sorted)
    charges := c.lfu.costs.sorted
    used := c.lfu.used
    max := c.lfu.maxCost
    buf := c.buf.length
    ring := c.ring
    pq := c.pq.length
    closed := c.closed
    pclosed := c.policyClosed
    met := if c.cfg.metricsOn then some c.metrics.toList else none
    life := if c.cfg.metricsOn then some (c.metrics.lifeCount, []) else none
    len := c.store.len }

/-- re-synchronise the model to the implementation's snapshot (what a snapshot determines) -/
def resync (c : Cache) (s : CSnap) : Cache :=
  let metrics := match s.met with
    | some [a, b, c1, d, e, f, g, h, i, j, k] =>
      { c.metrics with hit := a, miss := b, keyAdd := c1, keyUpdate := d, keyEvict := e, costAdd := f,
                       costEvict := g, dropSets := h, rejectSets := i, dropGets := j, keepGets := k }
    | _ => c.metrics
  let metrics := match s.life with
    | some (n, _) => { metrics with lifeCount := n }
    | none => metrics
  { c with
    store := { items := s.items.map fun (k, cf, v, d, cr) => (k, ⟨cf, v, ⟨d, cr⟩⟩),
               em := s.buckets }
    lfu := { c.lfu with costs := s.charges, used := s.used, maxCost := s.max }
    ring := s.ring
    closed := s.closed
    policyClosed := s.pclosed
    metrics := metrics }

def showCSnap (s : CSnap) : String :=
  let items := if s.items.isEmpty then "-" else ",".intercalate (s.items.map fun (k, c, v, d, cr) => s!"{k}:{c}:{v}:{d}:{cr}")
  let buckets := if s.buckets.isEmpty then "-" else ";".intercalate (s.buckets.map fun (b, ks) =>
    s!"{b}/" ++ (if ks.isEmpty then "-" else ",".intercalate (ks.map fun (k, c) => s!"{k}:{c}")))
  s!"items={items} buckets={buckets} charges={showPairs s.charges} used={s.used} max={s.max} buf={s.buf} ring={showNatList s.ring} pq={s.pq} closed={s.closed} pclosed={s.pclosed} met={(s.met.map showNatList).getD "-"} len={s.len}"

/-- field-by-field comparison so a check can listen only to the fields its property depends on -/
def compareCSnap (tl : Tally) (m i : CSnap) (what : String) : Tally := Id.run do
  let mut tl := tl
  if m.items != i.items then
    tl := tl.divergeAt s!"{what}.store" (showCSnap { m with buckets := [], charges := [] }) (showCSnap { i with buckets := [], charges := [] })
  -- a bucket that holds no key is not observable through the API (whether an emptied bucket is kept as an
  -- empty map until its second is swept, or dropped at once, is the implementation's business)
  let nonEmpty := fun (bs : List (Nat × List (Nat × Nat))) => bs.filter fun b => !b.2.isEmpty
  if nonEmpty m.buckets != nonEmpty i.buckets then
    tl := tl.divergeAt s!"{what}.expiry" (showCSnap { m with items := [], charges := [] }) (showCSnap { i with items := [], charges := [] })
  if m.charges != i.charges || m.used != i.used || m.max != i.max then
    tl := tl.divergeAt s!"{what}.policy" s!"charges={showPairs m.charges} used={m.used} max={m.max}" s!"charges={showPairs i.charges} used={i.used} max={i.max}"
  if m.buf != i.buf then
    tl := tl.divergeAt s!"{what}.buffer" (toString m.buf) (toString i.buf)
  if m.ring != i.ring || m.pq != i.pq then
    tl := tl.divergeAt s!"{what}.ring" s!"ring={showNatList m.ring} pq={m.pq}" s!"ring={showNatList i.ring} pq={i.pq}"
  if m.closed != i.closed || m.pclosed != i.pclosed then
    tl := tl.divergeAt s!"{what}.closed" s!"{m.closed}/{m.pclosed}" s!"{i.closed}/{i.pclosed}"
  if m.len != i.len then
    tl := tl.divergeAt s!"{what}.len" (toString m.len) (toString i.len)
  match m.met, i.met with
  | some a, some b => if a != b then tl := tl.divergeAt s!"{what}.metrics" (showNatList a) (showNatList b)
  | _, _ => pure ()
  match m.life, i.life with
  | some (a, _), some (b, _) => if a != b then tl := tl.divergeAt s!"{what}.life" (toString a) (toString b)
  | _, _ => pure ()
  return tl

-- callbacks --------------------------------------------------------------------------------------

def parseCbs (s : String) : Option (List CB) :=
  if s == "-" || s == "" then some [] else (s.splitOn ",").mapM fun t =>
    match t.splitOn ":" with
    | ["exit", v] => do pure (CB.exit (← v.toNat?))
    | ["evict", k, c, v, cost] => do pure (CB.evict (← k.toNat?) (← c.toNat?) (← v.toNat?) (← cost.toInt?))
    | ["reject", k, c, v, cost] => do pure (CB.reject (← k.toNat?) (← c.toNat?) (← v.toNat?) (← cost.toInt?))
    | _ => none

def showCb : CB → String
  | .exit v => s!"exit:{v}"
  | .evict k c v cost => s!"evict:{k}:{c}:{v}:{cost}"
  | .reject k c v cost => s!"reject:{k}:{c}:{v}:{cost}"

def showCbs (l : List CB) : String := if l.isEmpty then "-" else ",".intercalate (l.map showCb)

-- ghost bookkeeping for the monitors (all derived from the implementation's own lines) ------------

structure Ghost where
  now : Nat := 0
  validator : Nat := 0
  /-- `(prev, curr)` pairs the validator was consulted with during the current step (from the line) -/
  vseen : List (Nat × Nat) := []
  /-- clear requests the processor has served in this life -/
  clearsServed : Nat := 0
  /-- the callback of this life does not override `on_reject`: the trait's default hands a refused
  value to `on_exit` -/
  defaultReject : Bool := false
  /-- value id ↦ (index, conflict) it was written under -/
  origin : List (Nat × Nat × Nat) := []
  /-- values accepted by an insert that returned true -/
  accepted : List Nat := []
  /-- values handed to a callback, with multiplicity -/
  calledBack : List Nat := []
  /-- values that left without callback legitimately: cleared/closed, or overwritten in place via get_mut -/
  dropped : List Nat := []
  /-- values written before a clear()/close() that has since returned -/
  preClear : List Nat := []
  /-- clear/close calls in flight: id ↦ values written before the call -/
  clearing : List (Nat × List Nat) := []
  /-- every value written so far (insert attempts and get_mut writes) -/
  written : List Nat := []
  /-- last effective write per (index, conflict), for the quiescent last-write monitor -/
  lastWrite : List ((Nat × Nat) × Nat) := []
  /-- keys whose last write is known to have been applied or whose fate is otherwise settled are not tracked; -/
  lookups : Nat := 0
  dropsExpected : Nat := 0
  rejectsExpected : Nat := 0
  flushed : Nat := 0
  closeReturned : Bool := false
  /-- ids of blocked calls: (kind, id) -/
  blocked : List (String × Nat) := []
  /-- an error was reported by some operation (C06 speaks of error-free histories) -/
  errored : Bool := false
  /-- lookups made on the open cache since the last clear, plus what was pending in the ring then -/
  ringLookups : Nat := 0
  /-- values written under a key before a remove() of that key that has returned -/
  removedVals : List Nat := []
  /-- the policy refused or evicted something, or an insert was dropped, in this life: capacity
  pressure was felt, C04's premise no longer holds -/
  pressure : Bool := false
  /-- largest charge any insert asked for, per key, since the last clear (for C04's premise) -/
  keyCharges : List (Nat × Int) := []
  /-- the charge the latest insert asked for, per key; at quiescence (nothing in flight) the combined
  cost of the entries not yet reclaimed is the sum of these over the charged keys -/
  keyLatest : List (Nat × Int) := []
  /-- absolute deadline (0 = none) of the insert that wrote each value; a write through get_mut
  inherits the deadline of the entry it overwrites (C03 speaks of "since that insert") -/
  valDeadline : List (Nat × Nat) := []
  /-- keys whose resident value was replaced in place (unvetoed insert of a resident key, or a write
  through get_mut), with that value: until the key leaves the store or is written again, the cache
  must never show an older value for it (C02: "never rolled back") -/
  inPlace : List (Nat × Nat) := []
  /-- `remove(k, conflict)` calls made on the open cache whose queued `Delete` the processor has not
  handled yet, oldest first (entries whose item was dropped by a clear stay: they only make the C18
  monitor more lenient) -/
  pendingRemoves : List (Nat × Nat) := []
  /-- the charge each charged key is due according to the items the processor applied for it (given
  cost or Coster value + overhead, C16's formula); kept only for keys the implementation still charges -/
  due : List (Nat × Int) := []
  /-- lookups applied to the estimator (batches the policy worker took) since the cache was built or
  the last served clear(): while this is 0 the estimator is that of a fresh cache -/
  appliedSinceClear : Nat := 0
  /-- deadline (created + ttl, 0 = none) of the last effective write per key -/
  lastDeadline : List (Nat × Nat) := []
  /-- per blocked wait(): what had been removed / accepted before the call (the barrier's subject) -/
  waitSubjects : List (Nat × List Nat × List Nat) := []
  /-- blocked wait() calls in the order their markers were enqueued (from the implementation's lines) -/
  waitFifo : List Nat := []
  /-- blocked clear()/close() calls in request order -/
  clearFifo : List Nat := []
  /-- calls the processor has released, as far as the implementation's own lines show -/
  releasedG : List Nat := []
  /-- the processor took the stop branch -/
  stopped : Bool := false
  /-- resident values at the last snapshot -/
  prev : Option CSnap := none

def shouldUpdateOf (mode : Nat) (prev new : Nat) : Bool :=
  match mode with
  | 0 => true
  | 1 => false
  | 2 => new > prev
  | _ => new % 2 == prev % 2

structure CacheSt where
  c : Option Cache := none
  g : Ghost := {}
  /-- an insert parked after its closed-check: (call id, the `c.insert …` action it stands for, clock at begin) -/
  parkedInsert : Option (Nat × String × Nat) := none
  /-- the insert being replayed is the second half of a split insert: no closed-check -/
  bodyOnly : Bool := false
  /-- a step of a composite action of the asynchronous flavour: the implementation showed nothing at
  this point, so nothing is compared and the model is not re-synchronised -/
  mute : Bool := false
  /-- callbacks the model made during muted steps, to be compared at the next observed step -/
  pendingCbs : List CB := []

def residentVals (s : CSnap) : List Nat := s.items.map fun (_, _, v, _, _) => v

def itemExpired (now : Nat) (it : Nat × Nat × Nat × Nat × Nat) : Bool :=
  let (_, _, _, d, cr) := it
  d != 0 && now ≥ cr + d

def findItem (s : CSnap) (k : Nat) : Option (Nat × Nat × Nat × Nat × Nat) := s.items.find? (·.1 == k)

/-- `v` was written before `w` (`written` is newest first) -/
def writtenBefore (written : List Nat) (v w : Nat) : Bool :=
  ((written.dropWhile (· != w)).drop 1).contains v

/-- C02 "never rolled back": a key whose value was replaced in place still shows that value, a newer
one, or has left the store -/
def monitorRollback (tl : Tally) (g : Ghost) (s : CSnap) (cbs : List CB := []) : Tally × Ghost :=
  -- an entry the step itself evicted or swept (composite steps of the async traces apply several items at
  -- once: the key can leave and come back with an older queued value within one step) has not stayed resident
  let g := { g with inPlace := g.inPlace.filter fun (k, w) =>
    !(cbs.any fun cb => match cb with | .evict k' _ w' _ => k' == k && w' == w | _ => false) }
  g.inPlace.foldl (fun (acc : Tally × Ghost) (kw : Nat × Nat) =>
    let (tl, g) := acc
    let (k, w) := kw
    match s.items.find? (·.1 == k) with
    | none => (tl, { g with inPlace := g.inPlace.filter (·.1 != k) })
    | some (_, _, v, _, _) =>
      if v == w then (tl, g)
      else
        let tl := if writtenBefore g.written v w then
            tl.monitorAt "C02" s!"the value of resident key {k} was replaced in place by {w}, and nothing removed, evicted, expired or cleared the key since, yet the cache now holds the older value {v}: the update was rolled back"
          else tl
        (tl, { g with inPlace := g.inPlace.filter (·.1 != k) })) (tl, g)

/-- monitors evaluated on every snapshot -/
def monitorSnapshot (tl : Tally) (g : Ghost) (s : CSnap) (quiescentExtra : Bool) : Tally := Id.run do
  let mut tl := tl
  let quiescent := s.buf == 0 && g.blocked.isEmpty && quiescentExtra
  -- C06: resident set = charged set at quiescence (error-free histories)
  if quiescent && !g.errored then
    let rk := s.items.map (·.1)
    let ck := s.charges.map (·.1)
    if rk != ck then
      tl := tl.monitorAt "C06" s!"quiescent: resident keys {showNatList rk} ≠ charged keys {showNatList ck}"
    if s.len != s.items.length then
      tl := tl.monitorAt "C06" s!"len()={s.len} but {s.items.length} resident entries"
  -- C01 at cache level: used = Σ charges
  if s.used != sumCosts s.charges then
    tl := tl.monitorAt "C01" s!"used={s.used} but charges sum to {sumCosts s.charges}"
  -- C11 / C02: nothing written before a returned clear() is resident
  for v in residentVals s do
    if g.preClear.contains v then
      tl := tl.monitorAt "C11" s!"value {v}, written before a clear()/close() that has returned, is resident"
    if g.calledBack.contains v then
      tl := tl.monitorAt "C08" s!"value {v} was handed to a callback and is resident"
  -- C08: conservation at quiescence
  if quiescent then
    let res := residentVals s
    for v in g.accepted do
      let n := (if res.contains v then 1 else 0) + g.calledBack.count v + (if g.dropped.contains v then 1 else 0)
      if n != 1 then
        tl := tl.monitorAt "C08" s!"quiescent: accepted value {v} is resident={res.contains v}, callbacks={g.calledBack.count v}, dropped-by-clear/close/overwrite={g.dropped.contains v}"
  -- C17: conservation laws of the counters
  match s.met with
  | some [hit, miss, ka, _ku, ke, ca, ce, ds, rs, dg, kg] =>
    if quiescent then
      if u64 (ka - ke) != s.charges.length then
        tl := tl.monitorAt "C17" s!"keys_added - keys_evicted = {u64 (ka - ke)} but {s.charges.length} entries are charged"
        if g.clearsServed > 0 then
          tl := tl.monitorAt "C11" s!"after a served clear() the counters do not behave like those of a fresh cache: keys_added - keys_evicted = {u64 (ka - ke)} but {s.charges.length} entries are charged"
      if u64 (ca - ce) != u64 s.used then
        tl := tl.monitorAt "C17" s!"cost_added - cost_evicted = {u64 (ca - ce)} but used = {s.used}"
        if g.clearsServed > 0 then
          tl := tl.monitorAt "C11" s!"after a served clear() the counters do not behave like those of a fresh cache: cost_added - cost_evicted = {u64 (ca - ce)} but used = {s.used}"
    if !s.closed && hit + miss != g.lookups then
      tl := tl.monitorAt "C17" s!"hits + misses = {hit + miss} but {g.lookups} lookups were made on the open cache since the last clear"
    if !s.closed && ds != g.dropsExpected then
      tl := tl.monitorAt "C17" s!"sets_dropped = {ds} but {g.dropsExpected} inserts of non-resident keys returned false for lack of buffer space"
    if !s.closed && rs != g.rejectsExpected then
      tl := tl.monitorAt "C17" s!"sets_rejected = {rs} but the policy made {g.rejectsExpected} popularity rejections"
    if !s.pclosed && dg + kg + s.ring.length != g.ringLookups then
      tl := tl.monitorAt "C15" s!"gets_kept + gets_dropped + pending = {dg + kg} + {s.ring.length} but {g.ringLookups} lookups were recorded: a batch was accounted more or less than once"
  | _ => pure ()
  match s.life with
  | some (n, bs) => if n != bs.foldl (· + ·) 0 then
      tl := tl.monitorAt "C17" s!"life histogram count {n} ≠ sum of its buckets {bs.foldl (· + ·) 0}"
  | none => pure ()
  return tl

/-- C18: an action issued for key `(k, cf)` leaves a resident entry of a colliding key `(k, cf')`,
`cf' ≠ cf`, both non-zero, exactly as it was, and does not hand out its value -/
def monitorIsolation (tl : Tally) (g : Ghost) (snap : CSnap) (k cf : Nat) (what : String)
    (returned : Option Nat) (cbs : List CB) : Tally :=
  match g.prev.bind (fun p => findItem p k) with
  | some (_, pcf, pv, pd, pcr) =>
    if cf != 0 && pcf != 0 && cf != pcf then
      let tl := if findItem snap k == some (k, pcf, pv, pd, pcr) then tl
        else tl.monitorAt "C18" s!"{what} for key ({k},{cf}) changed or removed the entry of the colliding key ({k},{pcf})"
      let tl := if returned == some pv then
          tl.monitorAt "C18" s!"{what} for key ({k},{cf}) returned value {pv} of the colliding key ({k},{pcf})" else tl
      if cbs.any (·.val == pv) then
        tl.monitorAt "C18" s!"{what} for key ({k},{cf}) handed value {pv} of the colliding key ({k},{pcf}) to a callback" else tl
    else tl
  | none => tl

def noteCallbacks (g : Ghost) (cbs : List CB) : Ghost :=
  { g with calledBack := cbs.map CB.val ++ g.calledBack }

/-- common tail of every state-reporting line: compare, monitor, resync -/
def finishStep (st : CacheSt) (tl : Tally) (c' : Cache) (what : String) (cbsModel : List CB)
    (cbsImpl : List CB) (snap : CSnap) (g : Ghost) (quiescentExtra : Bool := true) : CacheSt × Tally :=
  if st.mute then
    -- no observation here: evolve the model and the ghost, remember the callbacks
    ({ st with c := some { c' with cbs := [] }, g := { g with prev := st.g.prev }, pendingCbs := st.pendingCbs ++ cbsModel }, tl)
  else
  let cbsModel := st.pendingCbs ++ cbsModel
  let cbsModel := if g.defaultReject then cbsModel.map (fun cb => match cb with | .reject _ _ v _ => CB.exit v | x => x) else cbsModel
  let st := { st with pendingCbs := [] }
  -- which callbacks were made, with which arguments, how often — not the order among the callbacks of one step
  -- (no property orders the `on_reject` of a newcomer against the `on_evict`s of the victims it displaced)
  let sameBag := cbsModel.length == cbsImpl.length && cbsModel.all fun cb => cbsModel.count cb == cbsImpl.count cb
  let tl := if sameBag then tl
    else tl.divergeAt s!"{what}.callbacks" (showCbs cbsModel) (showCbs cbsImpl)
  let tl := compareCSnap tl (modelSnap c') snap what
  let g := noteCallbacks g cbsImpl
  let tl := monitorSnapshot tl g snap quiescentExtra
  let (tl, g) := monitorRollback tl g snap cbsImpl
  -- nothing in flight: the combined cost of what is not yet reclaimed is what was last asked for
  -- each charged key (C04's premise follows the history, not the peak)
  let g := if snap.buf == 0 && g.blocked.isEmpty && quiescentExtra then
      { g with keyCharges := g.keyLatest.filter fun (k, _) => snap.charges.any (·.1 == k) }
    else g
  let g := { g with due := g.due.filter fun (k, _) => snap.charges.any (·.1 == k) || snap.items.any (·.1 == k) }
  ({ st with c := some (resync { c' with cbs := [] } snap), g := { g with prev := some snap } },
   { tl with ok := tl.ok + 1 })

def newCbs (before after : Cache) : List CB := (after.cbs.take (after.cbs.length - before.cbs.length)).reverse

def parseDesc (s : String) : Option Item :=
  match s.splitOn ":" with
  | ["new", k, c, cost, v, d, cr] => do
    pure (Item.new (← k.toNat?) (← c.toNat?) (← cost.toInt?) (← v.toNat?) ⟨← d.toNat?, ← cr.toNat?⟩)
  | ["update", k, cost, ext] => do pure (Item.update (← k.toNat?) (← cost.toInt?) (← ext.toInt?))
  | ["delete", k, c] => do pure (Item.delete (← k.toNat?) (← c.toNat?))
  | _ => none

def itemKind : Item → String
  | .new .. => "new" | .update .. => "update" | .delete .. => "delete" | .wait _ => "wait"

def sameItem (m : Item) (i : Item) : Bool :=
  match m, i with
  | .wait _, .wait _ => true
  | a, b => a == b

/-- the answer text of an unobserved sub-step of a composite action: the snapshot tokens are kept (so
that the line parses), the answer proper and the callbacks are replaced -/
def muteAns (ans : String) (lead : String) : String :=
  let toks := (splitWs ans).filter fun t =>
    !(t.startsWith "ret=" || t.startsWith "ok=" || t.startsWith "desc=" || t.startsWith "cbs=")
  -- the composite's callbacks travel along under another name: only the tie-break oracle reads them
  let all := ((splitWs ans).find? (·.startsWith "cbs=")).map fun t => "allcbs=" ++ (t.drop 4).toString
  lead ++ " cbs=- " ++ " ".intercalate toks ++ (match all with | some a => " " ++ a | none => "")

/-- `key@inc@obs/…`: what the eviction loops of one batch observed, in order -/
def parseGroups (s : String) : List (Nat × Int × String) :=
  if s == "-" || s == "" then [] else
    (s.splitOn "/").filterMap fun g =>
      match g.splitOn "@" with
      | [k, inc, obs] => match k.toNat?, inc.toInt? with
        | some k, some inc => some (k, inc, obs)
        | _, _ => none
      | _ => none

/-- `bufsize:8;items:4;metrics:1;ignore:0;cleanup:50;counters:9;max:7;hasher;keybuilder;coster;validator;callback` -/
def parseSetters (s : String) : Option (List Setter) :=
  if s == "-" || s == "" then some [] else (s.splitOn ";").mapM fun t =>
    match t.splitOn ":" with
    | ["bufsize", v] => v.toNat?.map Setter.bufferSize
    | ["items", v] => v.toNat?.map Setter.bufferItems
    | ["metrics", v] => v.toNat?.map fun n => Setter.metrics (n == 1)
    | ["ignore", v] => v.toNat?.map fun n => Setter.ignoreInternal (n == 1)
    | ["cleanup", v] => v.toNat?.map Setter.cleanup
    | ["counters", v] => v.toNat?.map Setter.numCounters
    | ["max", v] => v.toInt?.map Setter.maxCost
    | ["hasher"] => some (Setter.hasher 1)
    | ["keybuilder"] => some (Setter.keyBuilder 1)
    | ["coster"] => some (Setter.coster 1)
    | ["validator"] => some (Setter.validator 1)
    | ["callback"] => some (Setter.callback 1)
    | _ => none

partial def stepCache (st : CacheSt) (tl : Tally) (act : String) (ans : String) : CacheSt × Tally :=
  let a := splitWs act
  let r := kvs (splitWs ans)
  let g := st.g
  if ans.startsWith "PANIC" then
    (st, tl.monitorAt "C20" s!"the implementation panicked in `{act}`") else
  if ans.startsWith "HANG" then
    -- the harness' watchdog: a step of the implementation did not complete
    let tl := tl.monitorAt "C20" s!"the implementation did not complete `{act}` ({ans}): an operation or a worker step blocks for ever"
    let has := fun (w : String) => (act.splitOn w).length > 1
    let tl := if has "close" || has "stop" then tl.monitorAt "C12" s!"`{act}` did not complete ({ans}): close() / the workers' shutdown blocks" else tl
    let tl := if has "wait" then tl.monitorAt "C10" s!"`{act}` did not complete ({ans}): wait() blocks for ever" else tl
    let tl := if has "clear" then tl.monitorAt "C11" s!"`{act}` did not complete ({ans}): clear() blocks for ever" else tl
    (st, tl) else
  match a with
  | "c.init" :: rest =>
    let kv := kvs rest
    match getNat kv "itemsize", getNat kv "ignore", getNat kv "bufcap", getNat kv "ringcap", lookup kv "pqcap",
          getNat kv "metrics", getInt kv "max", getNat kv "samples", getNat kv "validator" with
    | some isz, some ign, some bc, some rc, some pq, some me, some mx, some sm, some vl =>
      -- what the built cache really uses (read back through the hooks), where the harness reports it
      let effIgn := (getNat kv "eff_ignore").getD ign
      let effRc := (getNat kv "eff_ringcap").getD rc
      let effMe := (getNat kv "eff_metrics").getD me
      let cfg : Cfg := { itemSize := isz, ignoreInternal := effIgn == 1, bufCap := bc, ringCap := effRc,
                         pqCap := pq.toNat?, metricsOn := effMe == 1 }
      let order := s!"setter order: late={(lookup kv "late").getD "?"}"
      let mism := fun (tl : Tally) (props : List String) (what : String) (want got : String) =>
        if want == got then tl else
          props.foldl (fun tl p => tl.monitorAt p s!"the builder was given {what} = {want} but the cache was built with {got} ({order})")
            (tl.divergeAt s!"c.init.{what}" want got)
      -- when the harness reports the chain of builder calls, what is expected comes from the builder model
      -- (`buildWith`, Props/C20 `build_uses_last_settings`): the last call for each field wins
      let built : Option Effective := match (lookup kv "setters").bind parseSetters, getNat kv "new_counters", getInt kv "new_max" with
        | some calls, some n0, some m0 => match buildWith n0 m0 calls with
          | .ok e => some e
          | .error _ => none
        | _, _, _ => none
      let tl := match (lookup kv "setters"), built with
        | some _, none => tl.monitorAt "C20" s!"the builder model rejects this chain of calls (or it does not parse), yet a cache was built: {(lookup kv "setters").getD ""}"
        | _, _ => tl
      let ign := match built with | some e => (if e.ignoreInternalCost then 1 else 0) | none => ign
      let rc := match built with | some e => e.ringCap | none => rc
      let me := match built with | some e => (if e.metricsOn then 1 else 0) | none => me
      let tl := match built, getNat kv "cfgbuf" with
        | some e, some want => if e.bufCap == want then tl else tl.guardAt s!"harness: configured buffer {want} but the chain of calls gives {e.bufCap}"
        | _, _ => tl
      let tl := mism tl ["C16", "C01", "C07", "C04", "C20"] "ignore_internal_cost" (toString ign) (toString effIgn)
      let tl := mism tl ["C15", "C20"] "buffer_items" (toString rc) (toString effRc)
      let tl := mism tl ["C17", "C20"] "metrics" (toString me) (toString effMe)
      let tl := match (built.map (·.numCounters)).orElse (fun _ => getNat kv "counters"), getNat kv "eff_counters" with
        | some want, some got => mism tl ["C13", "C15", "C07", "C20"] "num_counters" (toString want) (toString got)
        | _, _ => tl
      let tl := match (built.map (·.cleanupNs)).orElse (fun _ => getNat kv "cfgcleanup"), getNat kv "eff_cleanup" with
        | some want, some got => mism tl ["C05", "C20"] "cleanup_duration_ns" (toString want) (toString got)
        | _, _ => tl
      let tl := match (built.map (·.maxCost)).orElse (fun _ => getInt kv "cfgmax"), some mx with
        | some want, some got => mism tl ["C01", "C20"] "max_cost" (toString want) (toString got)
        | _, _ => tl
      -- C20: the cache was built with the buffer size that was asked for
      let tl := match (built.map (·.bufCap)).orElse (fun _ => getNat kv "cfgbuf") with
        | some want => if want == bc then tl else
            ["C20", "C10", "C04"].foldl (fun tl p => tl.monitorAt p
              s!"the builder was given insert buffer size {want} but the cache was built with {bc} (setter order: late={(lookup kv "late").getD "?"}): inserts are dropped and wait() reports a full buffer long before the configured buffer is full")
              (tl.divergeAt "c.init.bufcap" (toString want) (toString bc))
        | none => tl
      ({ c := some (Cache.init cfg mx sm), g := { validator := vl, defaultReject := (getNat kv "defrej").getD 0 == 1 } }, { tl with ok := tl.ok + 1 })
    | _, _, _, _, _, _, _, _, _ => (st, tl.badAt act)
  | "f.config" :: rest =>
    let kv := kvs rest
    match getNat kv "counters", getInt kv "max", getNat kv "buf", lookup r "ret" with
    | some nc, some mc, some bs, some ret =>
      let v := finalizeCheck nc mc bs
      let tl := tl.bump s!"finalize.{v.name}"
      -- C20 monitor: zero parameters are rejected with their own error, everything else is accepted
      let tl := if (nc == 0 || mc == 0 || bs == 0) && ret == "ok" then
          tl.monitorAt "C20" s!"finalize() accepted counters={nc} max_cost={mc} buffer={bs}" else tl
      let tl := if nc != 0 && mc != 0 && bs != 0 && ret != "ok" then
          tl.monitorAt "C20" s!"finalize() rejected the valid configuration counters={nc} max_cost={mc} buffer={bs} with {ret}" else tl
      if v.name == ret then (st, { tl with ok := tl.ok + 1 })
      else (st, (tl.divergeAt "f.config" v.name ret).monitorAt "C20" s!"finalize(counters={nc}, max_cost={mc}, buffer={bs}) = {ret}, expected {v.name}")
    | _, _, _, _ => (st, tl.badAt act)
  | ["c.clock", t] =>
    match t.toNat? with
    | some t =>
      let tl := if t ≥ g.now then tl else tl.guardAt "clock moved backwards"
      ({ st with g := { g with now := t } }, { tl with ok := tl.ok + 1 })
    | none => (st, tl.badAt act)
  | _ =>
  match st.c, parseCSnap r, (lookup r "cbs").bind parseCbs with
  | some c, some snap, some cbsImpl =>
    let su := shouldUpdateOf g.validator
    let now := g.now
    -- C18: the validator is only ever shown the stored value of the very key being written: a value written
    -- under the same index hash and a compatible conflict hash as the value it is asked to admit
    let vseen : List (Nat × Nat) := match lookup r "vseen" with
      | some t => if t == "-" || t == "" then [] else (t.splitOn ",").filterMap fun p =>
          match p.splitOn ":" with
          | [a, b] => match a.toNat?, b.toNat? with
            | some a, some b => some (a, b)
            | _, _ => none
          | _ => none
      | none => []
    let tl := vseen.foldl (fun tl (pc : Nat × Nat) =>
      -- the value being written by a client insert is not in the ghost yet: its key is on the line itself
      let currKey : Option (Nat × Nat × Nat) := match g.origin.find? (·.1 == pc.2) with
        | some o => some o
        | none => match a with
          | "c.insert" :: k :: cf :: v :: _ => match k.toNat?, cf.toNat?, v.toNat? with
            | some k, some cf, some v => if v == pc.2 then some (v, k, cf) else none
            | _, _, _ => none
          | _ => none
      match g.origin.find? (·.1 == pc.1), currKey with
      | some (_, pk, pcf), some (_, ck, ccf) =>
        if pk != ck || (pcf != 0 && ccf != 0 && pcf != ccf) then
          tl.monitorAt "C18" s!"the UpdateValidator was consulted with the stored value {pc.1} of key ({pk},{pcf}) while value {pc.2} was being written under the colliding key ({ck},{ccf}): an operation on one key read the other key's value"
        else tl
      | _, _ => tl) tl
    let retS := (lookup r "ret").getD ""
    -- an unobserved sub-step: run it muted, keep its coverage, drop its comparisons
    let muted := fun (st : CacheSt) (tl : Tally) (act : String) (lead : String) =>
      let (st', tlm) := stepCache { st with mute := true } tl act (muteAns ans lead)
      ({ st' with mute := false }, { tl with cover := tlm.cover, ok := tl.ok })
    -- the processor handles every buffered item of the model, the policy worker every queued batch
    let rec drainLoop (st : CacheSt) (tl : Tally) (groups : List (Nat × Int × String)) (fuel : Nat) :
        CacheSt × Tally × List (Nat × Int × String) :=
      match fuel, st.c with
      | 0, _ => (st, tl, groups)
      | _, none => (st, tl, groups)
      | fuel + 1, some c =>
        match c.buf with
        | it :: _ =>
          let c0 := ({ c with buf := c.buf.tail } : Cache).admitPending
          let (inc, obs, groups') := match it with
            | .new k _ cost _ _ =>
              let cost' := c0.internalCost cost
              if cost' ≤ c0.lfu.maxCost && (c0.lfu.costs.get k).isNone && c0.lfu.roomLeft cost' < 0 then
                match groups with
                | (gk, ginc, gobs) :: rest => if gk == k then (ginc, gobs, rest) else ((0 : Int), "-", groups)
                | [] => ((0 : Int), "-", groups)
              else ((0 : Int), "-", groups)
            | _ => ((0 : Int), "-", groups)
          let desc := match it with | .wait _ => "wait" | _ => "-"
          let (st', tl') := muted st tl s!"p.item inc={inc} obs={obs}" s!"desc={desc} ok=1"
          drainLoop st' tl' groups' fuel
        | [] =>
          match c.pq with
          | b :: _ =>
            let (st', tl') := muted st tl s!"w.items {showNatList b}" "ok=1"
            drainLoop st' tl' groups fuel
          | [] => (st, tl, groups)
    match a with
    | ["a.sync"] => finishStep st tl c "a.sync" [] cbsImpl snap g
    | "a.drain" :: rest =>
      let kv := kvs rest
      let groups := parseGroups ((lookup kv "groups").getD "-")
      let tl := tl.bump (if c.buf.length ≥ 2 then "a.drain.batch" else "a.drain.one")
      let (st1, tl1, left) := drainLoop st tl groups 100000
      let tl1 := if left.isEmpty then tl1 else tl1.guardAt s!"a.drain: {left.length} observed eviction loop(s) the model did not enter"
      stepCache st1 tl1 "a.sync" ans
    | "a.wait" :: id :: rest =>
      let kv := kvs rest
      let groups := parseGroups ((lookup kv "groups").getD "-")
      let (st1, tl1) := muted st (tl.bump "a.wait") s!"c.wait {id}" "ret=blocked"
      let (st2, tl2, _) := drainLoop st1 tl1 groups 100000
      stepCache st2 tl2 s!"c.ret wait {id}" ans
    | ["a.clear", id] =>
      let (st1, tl1) := muted st (tl.bump "a.clear") s!"c.clear {id}" "ret=blocked"
      let (st2, tl2) := muted st1 tl1 "p.clear" "ok=1"
      stepCache st2 tl2 s!"c.ret clear {id}" ans
    | ["a.close", id] =>
      let (st1, tl1) := muted st (tl.bump "a.close") s!"c.close {id}" "ret=blocked"
      let (st2, tl2) := muted st1 tl1 "p.clear" "ok=1"
      let (st3, tl3) := muted st2 tl2 "p.stop" "ok=1"
      let (st4, tl4) := muted st3 tl3 "w.stop" "ok=1"
      stepCache st4 tl4 s!"c.ret close {id}" ans
    | ["c.insert", k, cf, v, cost, ttl, coster, only] =>
      match k.toNat?, cf.toNat?, v.toNat?, cost.toInt?, ttl.toNat?, coster.toInt?, only.toNat? with
      | some k, some cf, some v, some cost, some ttl, some coster, some only =>
        let only := only == 1
        let (c', ret) := if st.bodyOnly then c.insertBody su k cf v cost ttl now coster only
          else c.insert su k cf v cost ttl now coster only
        let tl := if st.bodyOnly then tl.bump (if c.closed then "insert.split.closed_meanwhile" else "insert.split") else tl
        let retI := retS == "1"
        let before := g.prev.bind (fun s => findItem s k)
        -- coverage
        let resident := before.isSome
        let expiredRes := match before with | some it => itemExpired now it | none => false
        let tl := tl.bump (if c.closed then "insert.closed" else if only then
            (if ret then "iip.update" else if expiredRes then "iip.expired" else if resident then "iip.vetoed_or_conflict" else "iip.absent")
          else if !ret then "insert.dropped" else if (newCbs c c').isEmpty then
            (if resident then "insert.new_over_resident" else "insert.new") else "insert.update")
        let tl := if ttl != 0 then tl.bump "insert.ttl" else tl
        let tl := if ret && c'.buf.length == c.buf.length then tl.bump "insert.update_buffer_full" else tl
        -- monitors ---------------------------------------------------------------------------
        let tl := if retS == "err" then tl.monitorAt "C20" s!"insert returned an error: {act}" else tl
        let tl := if g.closeReturned && retS != "0" then tl.monitorAt "C12" s!"insert returned {retS} after close() had returned" else tl
        let vetoed := match before with
          | some (_, bcf, bv, _, _) => (cf == 0 || cf == bcf) && !su bv v
          | none => false
        -- C09: insert_if_present on an absent or expired key creates nothing
        let absentOrExpired := match before with
          | none => true
          | some it => itemExpired now it
        let unchanged := match g.prev with
          | some p => p.items == snap.items && p.buckets == snap.buckets && p.buf == snap.buf && p.charges == snap.charges
          | none => true
        let tl := if only && absentOrExpired && !c.closed && (retI || !unchanged) then
            tl.monitorAt "C09" s!"insert_if_present on an absent/expired key {k} returned {retS} and changed the cache={!unchanged}"
          else tl
        -- C09: a vetoed replacement leaves value and TTL as they were
        let tl := if vetoed && findItem snap k != before then
            tl.monitorAt "C09" s!"the validator vetoed the write of {v} to key {k} but the resident entry changed"
          else tl
        -- … and so does its filing in the expiry index (else it is reclaimed at another time, or never)
        let tl := if vetoed && (g.prev.map (·.buckets)) != some snap.buckets then
            tl.monitorAt "C09" s!"the validator vetoed the write of {v} to key {k} but the expiry index changed: the entry's TTL bookkeeping did not stay as it was"
          else tl
        -- C02: an unvetoed insert of a resident (unexpired or not) key replaces the value at once
        let tl := match before with
          | some (_, bcf, _, _, _) =>
            if !c.closed && (cf == 0 || cf == bcf) && !vetoed && !(only && absentOrExpired) then
              match findItem snap k with
              | some (_, _, nv, nd, ncr) =>
                let tl := if nv == v then tl else tl.monitorAt "C02" s!"insert of resident key {k} did not replace the value immediately (value {nv}, wrote {v})"
                if nd == ttl && (ncr == now || ttl == 0) then tl else tl.monitorAt "C03" s!"re-insert of key {k} did not replace its deadline: ttl={nd} created={ncr}, expected ttl={ttl} created={now}"
              | none => tl.monitorAt "C02" s!"insert of resident key {k} removed it"
            else tl
          | none => tl
        let g := { g with origin := (v, k, cf) :: g.origin, written := v :: g.written }
        let g := if retI then { g with accepted := v :: g.accepted } else g
        -- the last-write monitor speaks of clients that let the cache quiesce between operations
        let quiescentBefore := (g.prev.map (·.buf == 0)).getD true && g.blocked.isEmpty
        let g := if retI && !vetoed && quiescentBefore then
            { g with lastWrite := ((k, cf), v) :: g.lastWrite.filter (·.1.1 != k) }
          else if retI then { g with lastWrite := g.lastWrite.filter (·.1.1 != k) } else g
        let g := if retI && !vetoed then
            { g with lastDeadline := (k, if ttl == 0 then 0 else now + ttl) :: g.lastDeadline.filter (·.1 != k) } else g
        let g := if retI && !vetoed then
            { g with valDeadline := (v, if ttl == 0 then 0 else now + ttl) :: g.valDeadline } else g
        let g := match before with
          | some (_, bcf, _, _, _) =>
            if !c.closed && (cf == 0 || cf == bcf) && !vetoed && !(only && absentOrExpired) &&
                ((findItem snap k).map fun it => it.2.2.1) == some v then
              { g with inPlace := (k, v) :: g.inPlace.filter (·.1 != k) }
            else g
          | none => g
        let wanted := c.internalCost (if cost == 0 then coster else cost)
        let prevMax := ((g.keyCharges.find? (·.1 == k)).map (·.2)).getD 0
        let g := if !only || before.isSome then
            { g with keyCharges := (k, if wanted > prevMax then wanted else prevMax) :: g.keyCharges.filter (·.1 != k),
                     keyLatest := (k, wanted) :: g.keyLatest.filter (·.1 != k) } else g
        -- C04's premise: the combined cost of everything ever asked for since the last clear fits
        let g := if sumCosts g.keyCharges > snap.max || (!retI && !only) then { g with pressure := true } else g
        let dropped := !retI && !only && !c.closed && retS == "0"
        let wasUpdatePath := match before with
          | some (_, bcf, _, _, _) => (cf == 0 || cf == bcf) && !vetoed
          | none => false
        let g := if dropped && !wasUpdatePath then { g with dropsExpected := g.dropsExpected + 1 } else g
        -- an Update item that found the insert buffer full is dropped although the call returns true: the buffer
        -- overflowed (C04's premise is gone) and the key's charge stays what was applied before, not what was asked last
        let updDropped := wasUpdatePath && !c.closed && !(only && absentOrExpired) &&
          (g.prev.map (·.buf)) == some snap.buf
        let g := if updDropped then { g with pressure := true } else g
        let g := if retS == "err" then { g with errored := true } else g
        let tl := monitorIsolation tl g snap k cf "insert" none cbsImpl
        let tl := if ret == retI then tl else tl.divergeAt "c.insert.ret" (toString ret) retS
        finishStep st tl c' "c.insert" (newCbs c c') cbsImpl snap g
      | _, _, _, _, _, _, _ => (st, tl.badAt act)
    | ["c.insert.begin", id, k, cf, v, cost, ttl, coster, only] =>
      match id.toNat? with
      | some id =>
        if c.closed then
          -- the closed-check fails: the call returns false at once
          let tl := tl.bump "insert.begin.closed"
          let tl := if retS == "0" then tl else tl.divergeAt "c.insert.begin.ret" "0" retS
          finishStep st tl c "c.insert.begin" [] cbsImpl snap g
        else
          let tl := tl.bump "insert.begin.parked"
          let tl := if retS == "parked" then tl else tl.divergeAt "c.insert.begin.ret" "parked" retS
          let st := { st with parkedInsert := some (id, s!"c.insert {k} {cf} {v} {cost} {ttl} {coster} {only}", now) }
          finishStep st tl c "c.insert.begin" [] cbsImpl snap g
      | none => (st, tl.badAt act)
    | ["c.insert.finish", _id] =>
      match st.parkedInsert with
      | some (_, act', now0) =>
        -- replay the body with the clock value the call read when it began
        let st1 := { st with parkedInsert := none, bodyOnly := true, g := { g with now := now0 } }
        let (st2, tl) := stepCache st1 tl act' ans
        ({ st2 with bodyOnly := false, g := { st2.g with now := g.now } }, tl)
      | none => (st, tl.divergeAt "c.insert.finish" "no insert is parked" retS)
    | ["c.get", k, cf] =>
      match k.toNat?, cf.toNat? with
      | some k, some cf =>
        let (c', ret) := c.get k cf now
        let retI := retS.toNat?
        let tl := tl.bump (if c.closed then "get.closed" else if ret.isSome then "get.hit" else
          (match g.prev.bind (fun s => findItem s k) with
           | some it => if itemExpired now it then "get.expired" else "get.conflict_miss"
           | none => "get.miss"))
        let tl := if c'.pq.length > c.pq.length then tl.bump "ring.flush.kept" else
          if c'.ring.isEmpty && !c.closed then tl.bump "ring.flush.dropped_or_closed" else tl
        -- monitors
        let tl := match retI with
          | some v =>
            let tl := match g.origin.find? (·.1 == v) with
              | some (_, ok, ocf) => if ok == k && (cf == 0 || ocf == cf || ocf == 0) then tl
                  else tl.monitorAt "C02" s!"get({k},{cf}) returned value {v} that was written under ({ok},{ocf})"
              | none => tl.monitorAt "C02" s!"get({k},{cf}) returned a value {v} nobody wrote"
            let tl := if g.calledBack.contains v then tl.monitorAt "C08" s!"get({k},{cf}) returned value {v} that had been handed to a callback" else tl
            let tl := if g.preClear.contains v then tl.monitorAt "C02" s!"get({k},{cf}) returned value {v} written before a clear() that had returned" else tl
            let tl := match g.prev.bind (fun s => findItem s k) with
              | some it => if itemExpired now it then tl.monitorAt "C03" s!"get({k},{cf}) served an entry whose TTL has elapsed (now={now})" else tl
              | none => tl
            let tl := match g.valDeadline.find? (·.1 == v) with
              | some (_, dl) => if dl != 0 && now ≥ dl then
                  tl.monitorAt "C03" s!"get({k},{cf}) returned value {v} at {now}, but the TTL given to the insert that wrote it ran out at {dl}"
                else tl
              | none => tl
            if g.closeReturned then tl.monitorAt "C12" s!"get({k},{cf}) returned a value after close() had returned" else tl
          | none =>
            -- invisible because of time, although the TTL given with the value has not run out / there is none
            match g.prev, g.prev.bind (fun s => findItem s k) with
            | some p, some (_, icf, pv, _, _) =>
              if !p.closed && (cf == 0 || cf == icf) then
                match g.valDeadline.find? (·.1 == pv) with
                | some (_, dl) => if dl == 0 || now < dl then
                    tl.monitorAt "C03" s!"get({k},{cf}) at {now} returned nothing although the resident value {pv} was inserted {if dl == 0 then "without a TTL" else s!"with a TTL that runs until {dl}"}: it became invisible because of time"
                  else tl
                | none => tl
              else tl
            | _, _ => tl
        -- quiescent last-write: buffer empty, nothing blocked ⇒ none or exactly the last write
        let tl := match g.prev with
          | some p =>
            if p.buf == 0 && g.blocked.isEmpty then
              match retI, g.lastWrite.find? (·.1 == (k, cf)) with
              | some v, some (_, lw) => if v == lw then tl else
                  tl.monitorAt "C02" s!"quiescent get({k},{cf}) returned {v} but the last value written is {lw}"
              | _, _ => tl
            else tl
          | none => tl
        let wasOpen := !((g.prev.map (·.closed)).getD false)
        let g := if wasOpen then { g with lookups := g.lookups + 1, ringLookups := g.ringLookups + 1 } else g
        let g := if c'.ring.isEmpty && !c.closed && !c.policyClosed then { g with flushed := g.flushed + c.ring.length + 1 } else g
        let quiescentNow := (g.prev.map (·.buf == 0)).getD true && g.blocked.isEmpty
        -- C02: at quiescence nothing written before a completed remove() of the key is served
        let tl := match retI with
          | some v => if quiescentNow && g.removedVals.contains v then
              tl.monitorAt "C02" s!"quiescent get({k},{cf}) returned value {v}, written before a remove() of that key that had returned" else tl
          | none => tl
        -- C04: below capacity nothing is lost: the last effective write is retrievable until removed, cleared or expired
        let tl := match g.lastWrite.find? (·.1 == (k, cf)) with
          | some (_, lw) =>
            let dl := ((g.lastDeadline.find? (·.1 == k)).map (·.2)).getD 0
            -- keys colliding on the index hash are outside C04's premise (one of them is refused by design)
            let collides := ((g.origin.filter (fun (_, ok, _) => ok == k)).map (·.2.2)).eraseDups.length > 1
            if quiescentNow && !g.pressure && !collides && wasOpen && (dl == 0 || now < dl) && retI != some lw then
              tl.monitorAt "C04" s!"quiescent get({k},{cf}) = {retS} but value {lw} was accepted for it, nothing removed, cleared or expired it and no capacity pressure occurred"
            else tl
          | none => tl
        let tl := monitorIsolation tl g snap k cf "get" retI cbsImpl
        let tl := if ret == retI && (retS == "none" || retI.isSome) then tl else tl.divergeAt "c.get.ret" (toString ret) retS
        finishStep st tl c' "c.get" (newCbs c c') cbsImpl snap g
      | _, _ => (st, tl.badAt act)
    | ["c.getmut", k, cf, v] =>
      match k.toNat?, cf.toNat?, v.toNat? with
      | some k, some cf, some v =>
        let (c', ret) := c.getMutWrite k cf now v
        let retI := retS.toNat?
        let tl := tl.bump (if ret.isSome then "getmut.hit" else
          (match g.prev.bind (fun s => findItem s k) with
           | some it => if itemExpired now it then "getmut.expired" else "getmut.miss"
           | none => "getmut.miss"))
        let tl := match retI, g.prev.bind (fun s => findItem s k) with
          | some _, some it => if itemExpired now it then tl.monitorAt "C03" s!"get_mut({k},{cf}) served an entry whose TTL has elapsed" else tl
          | _, _ => tl
        let tl := match retI with
          | some old => match g.origin.find? (·.1 == old) with
            | some (_, ok, _) => if ok == k then tl else tl.monitorAt "C02" s!"get_mut({k},{cf}) returned value {old} written under key {ok}"
            | none => tl
          | none => tl
        let g := if !((g.prev.map (·.closed)).getD false) then { g with lookups := g.lookups + 1, ringLookups := g.ringLookups + 1 } else g
        let g := if c'.ring.isEmpty && !c.closed && !c.policyClosed then { g with flushed := g.flushed + c.ring.length + 1 } else g
        let tl := match retI with
          | some old => match g.valDeadline.find? (·.1 == old) with
            | some (_, dl) => if dl != 0 && now ≥ dl then
                tl.monitorAt "C03" s!"get_mut({k},{cf}) returned value {old} at {now}, but the TTL given to the insert that wrote it ran out at {dl}"
              else tl
            | none => tl
          | none => tl
        let g := match retI with
          | some old =>
            let g := match g.valDeadline.find? (·.1 == old) with
              | some (_, dl) => { g with valDeadline := (v, dl) :: g.valDeadline }
              | none => g
            { g with inPlace := (k, v) :: g.inPlace.filter (·.1 != k) }
          | none => g
        let g := match retI with
          | some old => { g with origin := (v, k, cf) :: g.origin, written := v :: g.written, dropped := old :: g.dropped,
                                 accepted := v :: g.accepted,
                                 lastWrite := ((k, cf), v) :: g.lastWrite.filter (·.1 != (k, cf)) }
          | none => g
        let tl := monitorIsolation tl g snap k cf "get_mut" retI cbsImpl
        let tl := if ret == retI && (retS == "none" || retI.isSome) then tl else tl.divergeAt "c.getmut.ret" (toString ret) retS
        finishStep st tl c' "c.getmut" (newCbs c c') cbsImpl snap g
      | _, _, _ => (st, tl.badAt act)
    | ["c.getheld", k, cf, adv] =>
      -- a lookup whose ValueRef is kept while the clock moves on by `adv`; `ValueRef::ttl()` read before and after
      match k.toNat?, cf.toNat?, adv.toNat? with
      | some k, some cf, some adv =>
        let (c', ret) := c.get k cf now
        let retI := retS.toNat?
        let tl := tl.bump (if ret.isSome then "getheld.hit" else "getheld.miss")
        let showT := fun (o : Option Nat) => match o with | none => "max" | some n => toString n
        let t0S := (lookup r "ttl0").getD "-"
        let t1S := (lookup r "ttl1").getD "-"
        -- C03 on the implementation's answers: judged against the entry the store held (and the ghost deadline)
        let tl := match retI, g.prev.bind (fun s => findItem s k) with
          | some v, some (_, _, _, d, cr) =>
            let exp : Time := ⟨d, cr⟩
            let tl := if t0S == showT (exp.getTtl now) then tl else
              tl.monitorAt "C03" s!"ValueRef::ttl() of key {k} = {t0S} at {now}; the entry's TTL is {d} ns from {cr}, so it should report {showT (exp.getTtl now)}"
            let tl := if t1S == showT (exp.getTtl (now + adv)) then tl else
              tl.monitorAt "C03" s!"ValueRef::ttl() of key {k}, read again {adv} ns later through the same reference, = {t1S}; the entry's TTL is {d} ns from {cr}, so it should report {showT (exp.getTtl (now + adv))} (remaining time never increases; zero once the deadline has passed)"
            match g.valDeadline.find? (·.1 == v) with
            | some (_, dl) =>
              let want0 := if dl == 0 then "max" else if now ≥ dl then "0" else toString (dl - now)
              if t0S == want0 then tl else tl.monitorAt "C03" s!"ValueRef::ttl() of value {v} = {t0S} at {now}; the insert that wrote it set the deadline {dl}"
            | none => tl
          | _, _ => tl
        let wasOpen := !((g.prev.map (·.closed)).getD false)
        let g := if wasOpen then { g with lookups := g.lookups + 1, ringLookups := g.ringLookups + 1 } else g
        let g := if c'.ring.isEmpty && !c.closed && !c.policyClosed then { g with flushed := g.flushed + c.ring.length + 1 } else g
        let g := { g with now := now + adv }
        let tl := if ret == retI && (retS == "none" || retI.isSome) then tl else tl.divergeAt "c.getheld.ret" (toString ret) retS
        finishStep st tl c' "c.getheld" (newCbs c c') cbsImpl snap g
      | _, _, _ => (st, tl.badAt act)
    | ["c.getttl", k, cf] =>
      match k.toNat?, cf.toNat? with
      | some k, some cf =>
        let ret := c.getTtl k cf now
        let tl := tl.bump (match ret with
          | none => (match g.prev.bind (fun s => findItem s k) with
              | some it => if itemExpired now it then "getttl.expired" else "getttl.none"
              | none => "getttl.none")
          | some none => "getttl.max" | some (some _) => "getttl.remaining")
        let retM := match ret with | none => "none" | some none => "max" | some (some n) => toString n
        -- C03 monitor on the implementation's answer
        let tl := match g.prev.bind (fun s => findItem s k) with
          | some (_, icf, _, d, cr) =>
            if cf == 0 || cf == icf then
              if d == 0 then (if retS == "max" then tl else tl.monitorAt "C03" s!"get_ttl({k}) = {retS} for an entry without TTL")
              else if now ≥ cr + d then (if retS == "none" then tl else tl.monitorAt "C03" s!"get_ttl({k}) = {retS} although the TTL elapsed")
              else (if retS == toString (d - (now - cr)) then tl else tl.monitorAt "C03" s!"get_ttl({k}) = {retS}, remaining time is {d - (now - cr)}")
            else tl
          | none => if retS == "none" then tl else tl.monitorAt "C03" s!"get_ttl({k}) = {retS} for an absent key"
        let tl := match g.prev.bind (fun s => findItem s k) with
          | some (_, icf, pv, _, _) =>
            if cf == 0 || cf == icf then
              match g.valDeadline.find? (·.1 == pv) with
              | some (_, dl) =>
                let want := if dl == 0 then "max" else if now ≥ dl then "none" else toString (dl - now)
                if retS == want then tl else
                  tl.monitorAt "C03" s!"get_ttl({k}) = {retS} at {now}; the resident value {pv} was inserted {if dl == 0 then "without a TTL" else s!"with a TTL running until {dl}"}, so it should report {want}"
              | none => tl
            else tl
          | none => tl
        let tl := match g.prev.bind (fun p => findItem p k) with
          | some (_, pcf, _, _, _) => if cf != 0 && pcf != 0 && cf != pcf && retS != "none" then
              tl.monitorAt "C18" s!"get_ttl for key ({k},{cf}) reported the TTL of the colliding key ({k},{pcf})" else tl
          | none => tl
        let tl := if retM == retS then tl else tl.divergeAt "c.getttl.ret" retM retS
        finishStep st tl c "c.getttl" [] cbsImpl snap g
      | _, _ => (st, tl.badAt act)
    | ["c.remove", k, cf, id] =>
      match k.toNat?, cf.toNat?, id.toNat? with
      | some k, some cf, some id =>
        let full := c.buf.length ≥ c.cfg.bufCap
        let tl := tl.bump (if c.closed then "remove.closed" else if full then "remove.buffer_full" else
          if (c.store.tryRemove k cf).2.isSome then "remove.resident" else "remove.absent")
        let tl := if retS == "err" then tl.monitorAt "C20" s!"remove({k},{cf}) failed (insert buffer full): remove() would panic" else tl
        let g := if retS == "err" then { g with errored := true } else g
        let tl := monitorIsolation tl g snap k cf "remove" none cbsImpl
        let (c', blocked) := c.remove k cf
        let expect := if blocked then "blocked" else "ok"
        let tl := if retS == expect then tl else tl.divergeAt "c.remove.ret" expect retS
        let g := if retS == "blocked" then { g with blocked := ("remove", id) :: g.blocked } else g
        -- values written under this key so far are dead once this remove has taken effect
        let g := if !((g.prev.map (·.closed)).getD false) then { g with pendingRemoves := g.pendingRemoves ++ [(k, cf)] } else g
        let mine := (g.origin.filter fun (_, ok, ocf) => ok == k && (cf == 0 || ocf == cf || ocf == 0)).map (·.1)
        let g := if !((g.prev.map (·.closed)).getD false) then
            { g with removedVals := mine ++ g.removedVals, lastWrite := g.lastWrite.filter (·.1.1 != k) } else g
        finishStep st tl c' "c.remove" (newCbs c c') cbsImpl snap g
      | _, _, _ => (st, tl.badAt act)
    | ["c.wait", id] =>
      match id.toNat? with
      | some id =>
        let (c', res) := c.waitEnq id
        let expect := match res with | none => "ok" | some false => "err" | some true => "blocked"
        let tl := tl.bump s!"wait.{expect}"
        let g := if retS == "blocked" then { g with blocked := ("wait", id) :: g.blocked, waitFifo := g.waitFifo ++ [id],
                                                    waitSubjects := (id, g.removedVals, g.accepted) :: g.waitSubjects } else g
        let tl := if g.closeReturned && retS != "ok" then tl.monitorAt "C12" s!"wait() after close() had returned gave {retS}" else tl
        let tl := if retS == expect then tl else tl.divergeAt "c.wait.ret" expect retS
        finishStep st tl c' "c.wait" [] cbsImpl snap g
      | none => (st, tl.badAt act)
    | ["c.clear", id] =>
      match id.toNat? with
      | some id =>
        let (c', blocked) := c.clearReq id
        let expect := if blocked then "blocked" else "ok"
        let tl := tl.bump s!"clear.{expect}.buf{min c.buf.length 3}"
        let g := if retS == "blocked" then { g with blocked := ("clear", id) :: g.blocked, clearing := (id, g.written) :: g.clearing,
                                                    clearFifo := g.clearFifo ++ [id] }
          else if !g.closeReturned && !(g.prev.map (·.closed)).getD false then
            { g with preClear := g.written ++ g.preClear,
                     dropped := (g.prev.map residentVals).getD [] ++ g.dropped,
                     lookups := 0, dropsExpected := 0, rejectsExpected := 0, flushed := 0, lastWrite := [] }
          else g
        let tl := if g.closeReturned && retS != "ok" then tl.monitorAt "C12" s!"clear() after close() had returned gave {retS}" else tl
        let tl := if retS == expect then tl else tl.divergeAt "c.clear.ret" expect retS
        finishStep st tl c' "c.clear" [] cbsImpl snap g
      | none => (st, tl.badAt act)
    | ["c.close", id] =>
      match id.toNat? with
      | some id =>
        let (c', blocked) := c.closeBegin id
        let expect := if blocked then "blocked" else "ok"
        let tl := tl.bump s!"close.{expect}"
        let g := if retS == "blocked" then { g with blocked := ("close", id) :: g.blocked, clearing := (id, g.written) :: g.clearing,
                                                    clearFifo := g.clearFifo ++ [id] }
          else g
        let tl := if g.closeReturned && retS != "ok" then tl.monitorAt "C12" s!"close() after close() had returned gave {retS}" else tl
        let tl := if retS == expect then tl else tl.divergeAt "c.close.ret" expect retS
        finishStep st tl c' "c.close" [] cbsImpl snap g
      | none => (st, tl.badAt act)
    | ["c.ret", kind, id] =>
      match id.toNat? with
      | some id =>
        let tl := tl.bump s!"ret.{kind}"
        let tl := if retS == "HANG" then
            tl.monitorAt (if kind == "wait" then "C10" else if kind == "close" then "C12" else if kind == "clear" then "C11" else "C20")
              s!"{kind}() (call {id}) never returned: nobody is left to release it"
          else tl
        let tl := if retS == "err" && kind != "wait" && kind != "close" then tl.monitorAt "C20" s!"{kind}() returned an error" else tl
        -- the model must agree that the call may return now
        let may := match kind with
          | "remove" => !(c.pendingSends.contains (Item.delete 0 0)) || true
          | "close" => c.mayReturn id false && c.procExited && c.policyClosed
          | _ => c.mayReturn id true
        let tl := if retS == "HANG" || may then tl else tl.divergeAt s!"c.ret.{kind}" "still blocked" retS
        -- barrier, judged from the implementation's own lines: the processor must have handled the
        -- marker / request (or taken the stop branch, or the cache been closed meanwhile)
        let servedG := g.releasedG.contains id || g.stopped || (g.prev.map (·.closed)).getD false
        let tl := if retS != "HANG" && (kind == "wait" || kind == "clear") && !servedG then
            tl.monitorAt (if kind == "wait" then "C10" else "C11")
              s!"{kind}() (call {id}) returned although the processor had not yet handled its request"
          else tl
        -- C10, the barrier: when wait() returns Ok, everything issued before it has been applied
        let tl := if kind == "wait" && retS == "ok" && !(snap.closed) then
            match g.waitSubjects.find? (·.1 == id) with
            | some (_, removedBefore, acceptedBefore) =>
              let res := residentVals snap
              let tl := removedBefore.foldl (fun tl v => if res.contains v then
                  tl.monitorAt "C10" s!"wait() (call {id}) returned Ok but value {v}, removed before the call, is resident"
                else tl) tl
              acceptedBefore.foldl (fun tl v =>
                if res.contains v || g.calledBack.contains v || g.dropped.contains v || cbsImpl.any (·.val == v) then tl
                else tl.monitorAt "C10" s!"wait() (call {id}) returned Ok but value {v}, accepted before the call, is neither resident nor handed to a callback: its insert has not been applied") tl
            | none => tl
          else tl
        let g := { g with blocked := g.blocked.filter (· != (kind, id)), waitSubjects := g.waitSubjects.filter (·.1 != id) }
        let g := if kind == "clear" || kind == "close" then
            match g.clearing.find? (·.1 == id) with
            | some (_, vs) => { g with preClear := vs ++ g.preClear, clearing := g.clearing.filter (·.1 != id) }
            | none => g
          else g
        let g := if kind == "close" && retS == "ok" then { g with closeReturned := true } else g
        finishStep st tl c s!"c.ret.{kind}" [] cbsImpl snap g
      | none => (st, tl.badAt act)
    | ["c.maxcost", mc] =>
      match mc.toInt? with
      | some mc => finishStep st (tl.bump "maxcost") (c.updateMaxCost mc) "c.maxcost" [] cbsImpl snap
          (if sumCosts g.keyCharges > mc then { g with pressure := true } else g)
      | none => (st, tl.badAt act)
    | ["c.len"] =>
      let tl := tl.bump "len"
      let tl := if retS == toString c.len then tl else tl.divergeAt "c.len.ret" (toString c.len) retS
      finishStep st tl c "c.len" [] cbsImpl snap g
    | "p.item" :: rest =>
      let kv := kvs rest
      match getInt kv "inc", (lookup kv "obs").bind parseObs, lookup r "desc" with
      | some inc, some obs, some descS =>
        match c.buf with
        | [] => (st, tl.divergeAt "p.item" "buffer empty" descS)
        | it :: _ =>
          let implItem := if descS == "wait" then some (Item.wait 0) else parseDesc descS
          let tl := match implItem with
            | some ii => if sameItem it ii then tl else tl.divergeAt "p.item.desc" (reprStr it) descS
            | none => tl.badAt act
          let key := match it with | .new k .. => k | _ => 0
          let estTab : List (Nat × Int) := (obs.flatten.map fun t => (t.1, t.2.2))
          let est0 : Nat → Int := fun x => if x == key then inc else ((estTab.find? (·.1 == x)).map (·.2)).getD 0
          let obsPairs := obs.map (·.map fun t => (t.1, t.2.1))
          -- the tie-break among equally unpopular candidates follows the implementation (`tieOracle`); the keys
          -- this call released: charged before, not charged afterwards
          let releasedKeys := match g.prev with
            | some p => (p.charges.filter fun ch => !(snap.charges.any (·.1 == ch.1))).map (·.1)
            | none => []
          -- (in a composite step the items applied before this one have used up the first callbacks)
          let usedUp := (st.pendingCbs.filter fun cb => match cb with | .evict .. => true | _ => false).length
          let evictedKeys := (((if cbsImpl.isEmpty then ((lookup r "allcbs").bind parseCbs).getD [] else cbsImpl)).filterMap
              fun cb => match cb with | .evict k _ _ _ => some k | _ => none).drop usedUp
          let est := withTies est0 (tieOracle obsPairs (releasedKeys ++ evictedKeys) evictedKeys)
          -- C11 / C13: a fresh or cleared cache estimates zero for every key until lookups are applied
          let tl := match it with
            | .new k .. =>
              if g.appliedSinceClear == 0 && (inc != 0 || estTab.any (fun (p : Nat × Int) => p.2 != 0)) then
                tl.monitorAt "C11" s!"no lookup has been applied to the estimator since the cache was built or cleared, yet it estimates {inc} for key {k} (sampled residents with a non-zero estimate: {(estTab.filter (fun (p : Nat × Int) => p.2 != 0)).map (fun (p : Nat × Int) => p.1)}): the cache does not behave like a fresh one"
              else tl
            | _ => tl
          let (refills, errs) := match it with
            | .new _ _ cost _ _ => deriveRefills est inc (c.internalCost cost) c.lfu [] obsPairs [] []
            | _ => ([], [])
          let tl := errs.foldl (fun tl e => tl.guardAt s!"p.item: {e}") tl
          -- guard VictimsOk of the C06 theorem: no sampled victim is the incoming key
          let tl := match it with
            | .new k _ cost _ _ =>
              match (policyAdd (({ c with buf := c.buf.tail } : Cache).admitPending).lfu est k (c.internalCost cost) refills).victims with
              | some vs => if vs.any (·.1 == k) then tl.guardAt s!"p.item: the incoming key {k} was sampled as its own victim" else tl
              | none => tl
            | _ => tl
          match c.procItem su est refills with
          | none => (st, tl.divergeAt "p.item" "not enabled" descS)
          | some c' =>
            let cbsM := newCbs c c'
            let tl := tl.bump s!"p.item.{itemKind it}"
            -- C07: whatever the policy released to make room (its charge is gone from the implementation's
            -- own bookkeeping) has been evicted from the cache as well: it is not resident any more
            let tl := match it, g.prev with
              | .new k _ _ _ _, some p =>
                let released := p.charges.filter fun (vk, _) => vk != k && !(snap.charges.any (·.1 == vk))
                released.foldl (fun tl (vk, vc) =>
                  if snap.items.any (·.1 == vk) then
                    tl.monitorAt "C07" s!"applying the insert of key {k}, the policy released key {vk} (charged {vc}) to make room, but the entry was not evicted: it is still resident"
                  else tl) tl
              | _, _ => tl
            let tl := match it with
              | .new k _ _ _ _ =>
                let R := policyAdd c.lfu est k (c.internalCost (match it with | .new _ _ cost _ _ => cost | _ => 0)) refills
                let tl := if !R.added && (R.victims.getD []).length > 0 then tl.bump "padd.rejected_after_eviction" else tl
                tl.bump (if R.added then (if R.victims.isSome then "padd.evicting" else "padd.room")
                  else if (c.lfu.costs.get k).isSome then "padd.already_charged"
                  else if R.victims.isNone then "padd.oversize" else "padd.rejected")
              | .delete k cf =>
                tl.bump (match c.store.items.get k with
                  | some e => if Store.conflictOk cf e then "delete.resident" else "delete.other_conflict"
                  | none => "delete.absent")
              | _ => tl
            -- C18: the processor's handling of an item of one key leaves a colliding key's entry alone
            let tl := match implItem.getD it with
              | .new k cf _ _ _ => monitorIsolation tl g snap k cf "the processor's insert" none cbsImpl
              | .delete k cf =>
                let tl := monitorIsolation tl g snap k cf "the processor's delete" none cbsImpl
                -- whatever this Delete removed, some pending remove() asked for that key (index and conflict)
                match g.prev.bind (fun p => findItem p k) with
                | some (_, icf, iv, _, _) =>
                  if (findItem snap k).isNone then
                    let mine := g.pendingRemoves.filter (·.1 == k)
                    if mine.any (fun (_, rcf) => rcf == 0 || icf == 0 || rcf == icf) then tl
                    else tl.monitorAt "C18" s!"the processor's delete removed the entry ({k},{icf}) with value {iv}, but the only remove() calls pending for that index were for {mine.map (·.2)}: a remove of a colliding key removed another key's value"
                  else tl
                | none => tl
              | _ => tl
            -- monitors: C16 charged cost, C08/C16 callback cost (judged on the item the implementation handled)
            let tl := match implItem.getD it with
              | .new k _ cost _ _ =>
                let expect := c.internalCost cost
                let tl := match cbsImpl.find? (fun cb => match cb with | .reject .. => true | _ => false) with
                  | some (.reject _ _ _ rc) => if rc == expect then tl else tl.monitorAt "C16" s!"on_reject reported cost {rc}, the cost that was to be charged is {expect}"
                  | _ => tl
                let wasCharged := (g.prev.map fun p => (p.charges.find? (·.1 == k)).isSome).getD false
                match snap.charges.find? (·.1 == k), cbsImpl.any (fun cb => match cb with | .reject .. => true | _ => false) with
                | some (_, ch), false => if ch == expect || wasCharged then tl else
                    tl.monitorAt "C16" s!"key {k} admitted with cost {cost}: charged {ch}, expected {expect} (explicit-or-coster cost + internal overhead)"
                | _, _ => tl
              | .update k cost ext =>
                match snap.charges.find? (·.1 == k) with
                | some (_, ch) => if ch == c.internalCost cost + ext then tl else
                    tl.monitorAt "C16" s!"update of key {k} applied: charged {ch}, expected {c.internalCost cost + ext}"
                | none => tl
              | _ => tl
            -- C09 / C06: an Update item never creates a charge (insert_if_present / update never create)
            let tl := match implItem.getD it with
              | .update k _ _ =>
                let before := (g.prev.map fun p => p.charges.any (·.1 == k)).getD true
                if !before && snap.charges.any (·.1 == k) then
                  ["C09", "C06"].foldl (fun tl p => tl.monitorAt p s!"the processor applied an Update item for key {k}, which the policy did not charge: it is charged now although nothing of it is resident — an update created an entry in the policy") tl
                else tl
              | _ => tl
            -- C07 / C08: a refused newcomer is handed to on_reject (on_exit by default), never to on_evict
            let tl := match implItem.getD it with
              | .new k _ _ v _ =>
                let wasCharged := (g.prev.map fun p => p.charges.any (·.1 == k)).getD false
                if !wasCharged && !(snap.charges.any (·.1 == k)) &&
                    cbsImpl.any (fun cb => match cb with | .evict ek _ ev _ => ek == k && ev == v | _ => false) then
                  ["C07", "C08"].foldl (fun tl p => tl.monitorAt p s!"the insert of key {k} (value {v}) was refused by the policy, yet the value was handed to on_evict: a rejection was reported as an eviction") tl
                else tl
              | _ => tl
            -- evict callbacks carry the charged cost of the victim
            let tl := cbsImpl.foldl (fun tl cb => match cb with
              | .evict k _ _ ec => match g.prev.bind (fun p => p.charges.find? (·.1 == k)) with
                | some (_, ch) => if ch == ec then tl else tl.monitorAt "C16" s!"on_evict for key {k} reported cost {ec}, it was charged {ch}"
                | none => tl
              | _ => tl) tl
            let g := match it with
              | .new k _ _ _ _ =>
                let R := policyAdd c.lfu est k (c.internalCost (match it with | .new _ _ cost _ _ => cost | _ => 0)) refills
                if R.events.contains MEv.rejectSets then { g with rejectsExpected := g.rejectsExpected + 1 } else g
              | _ => g
            -- what each charged key is due, from the items applied (C16's formula), and C01 at the level
            -- of the cache: after the admission of a new key the costs asked for the charged entries fit
            let rejectedCb := cbsImpl.any (fun cb => match cb with | .reject .. => true | _ => false)
            let g := match implItem.getD it with
              | .new k _ cost _ _ =>
                let expect := c.internalCost cost
                let wasCharged := (g.prev.map fun p => (p.charges.find? (·.1 == k)).isSome).getD false
                -- a new key is due its charge when admitted; a key the policy already charges is re-charged in
                -- place by `policy.add` (and the item refused) unless the charge exceeds max_cost
                if (snap.charges.any (·.1 == k)) && ((!wasCharged && !rejectedCb) || (wasCharged && expect ≤ snap.max)) then
                  { g with due := (k, expect) :: g.due.filter (·.1 != k) }
                else g
              | .update k cost ext =>
                if snap.charges.any (·.1 == k) then
                  { g with due := (k, c.internalCost cost + ext) :: g.due.filter (·.1 != k) }
                else g
              | _ => g
            let tl := match implItem.getD it with
              | .new k _ _ _ _ =>
                let wasCharged := (g.prev.map fun p => (p.charges.find? (·.1 == k)).isSome).getD false
                -- over everything that is resident or charged: an entry that stays resident after the policy
                -- released its charge still occupies the cost it was given
                let dueNow := g.due.filter fun (j, _) => snap.charges.any (·.1 == j) || snap.items.any (·.1 == j)
                if (snap.charges.any (·.1 == k)) && !rejectedCb && !wasCharged &&
                    snap.charges.all (fun (j, _) => dueNow.any (·.1 == j)) &&
                    snap.items.all (fun it => dueNow.any (·.1 == it.1)) && sumCosts dueNow > snap.max then
                  tl.monitorAt "C01" s!"after the admission of new key {k} the costs asked for the resident / charged entries (given cost or Coster value + overhead, per the latest insert/update applied for each: {dueNow}) add up to {sumCosts dueNow} > max_cost = {snap.max} (the policy's own total reads {snap.used})"
                else tl
              | _ => tl
            let g := match implItem.getD it with
              | .delete k cf =>
                -- consume the oldest pending remove for this index (the one with the same conflict if there is one)
                let idx := match g.pendingRemoves.findIdx? (fun (rk, rcf) => rk == k && rcf == cf) with
                  | some i => some i
                  | none => g.pendingRemoves.findIdx? (·.1 == k)
                match idx with
                | some i => { g with pendingRemoves := g.pendingRemoves.eraseIdx i }
                | none => g
              | _ => g
            let g := if descS == "wait" then
                match g.waitFifo with
                | w :: rest => { g with waitFifo := rest, releasedG := w :: g.releasedG }
                | [] => g
              else g
            finishStep st tl c' "p.item" cbsM cbsImpl snap g
      | _, _, _ => (st, tl.badAt act)
    | ["p.clear"] =>
      match c.procClear with
      | none => (st, tl.divergeAt "p.clear" "not enabled" "handled")
      | some c' =>
        let tl := tl.bump s!"p.clear.buf{min c.buf.length 3}"
        -- C11 monitor: everything is empty / zero right after the processor's clear
        let zero := snap.items.isEmpty && snap.charges.isEmpty && snap.used == 0 && snap.buckets.isEmpty &&
          snap.buf == 0 && snap.len == 0 && (snap.met.map (·.all (· == 0))).getD true &&
          (snap.life.map (fun (n, bs) => n == 0 && bs.all (· == 0))).getD true
        let tl := if zero then tl else tl.monitorAt "C11" s!"after the processor served clear(): {showCSnap snap}"
        -- resident values are dropped without callback by clear
        let g := { g with dropped := (g.prev.map residentVals).getD [] ++ g.dropped,
                          lookups := 0, dropsExpected := 0, rejectsExpected := 0, flushed := 0, lastWrite := [],
                          ringLookups := snap.ring.length, lastDeadline := [], keyCharges := [], keyLatest := [], pressure := false, appliedSinceClear := 0, clearsServed := g.clearsServed + 1,
                          releasedG := g.waitFifo ++ g.clearFifo.take 1 ++ g.releasedG, waitFifo := [],
                          clearFifo := g.clearFifo.drop 1 }
        finishStep st tl c' "p.clear" (newCbs c c') cbsImpl snap g
    | "p.tick" :: rest =>
      let kv := kvs rest
      match (lookup kv "order").bind parseNatPairs with
      | some order =>
        -- guard: the visited keys are a permutation of the due keys
        let due := c.dueKeys now
        let tl := if (KMap.sorted order) == (KMap.sorted due) then tl
          else tl.guardAt s!"p.tick visited {order.length} keys, the due buckets hold {due.length}"
        -- guard TickOk of the C06 theorem: filed conflict hashes pass the store's check
        let tl := if order.all (fun (k, cf) => match c.store.items.get k with
            | some e => Store.conflictOk cf e
            | none => true) then tl
          else tl.guardAt "p.tick: a due bucket files a key under a conflict hash that does not match the resident entry"
        match c.procTick now order with
        | none => (st, tl.divergeAt "p.tick" "not enabled" "ran")
        | some c' =>
          let cbsM := newCbs c c'
          let tl := tl.bump (if cbsM.isEmpty then (if order.isEmpty then "tick.idle" else "tick.recheck_skipped") else "tick.reclaimed")
          -- C05/C03 monitors on the implementation's sweep
          let tl := match g.prev with
            | some p =>
              let tl := cbsImpl.foldl (fun tl cb => match cb with
                | .evict k _ v ec =>
                  match findItem p k with
                  | some (_, _, pv, d, cr) =>
                    let tl := if d != 0 && now ≥ cr + d then tl else tl.monitorAt "C05" s!"the sweep removed key {k} which has not expired (ttl={d} created={cr} now={now})"
                    let tl := if pv == v then tl else tl.monitorAt "C05" s!"on_evict for swept key {k} carried value {v}, resident value was {pv}"
                    -- "its charged cost is released": the reclaimed key is no longer charged
                    let tl := if snap.charges.any (·.1 == k) && !(snap.items.any (·.1 == k)) then
                        tl.monitorAt "C05" s!"the sweep reclaimed expired key {k} (on_evict delivered, entry gone) but the policy still charges it {((snap.charges.find? (·.1 == k)).map (·.2)).getD 0}: its charge was not released"
                      else tl
                    match p.charges.find? (·.1 == k) with
                    | some (_, ch) => if ch == ec then tl else
                        (tl.monitorAt "C05" s!"on_evict for swept key {k} carried cost {ec}, charged cost was {ch}").monitorAt "C16"
                          s!"on_evict for expired key {k} reported cost {ec}, the charged cost was {ch}"
                    | none => tl
                  | none => tl.monitorAt "C05" s!"on_evict for key {k} which was not resident"
                | _ => tl) tl
              -- completeness (the property's bound: one bucket width after expiry): an entry whose TTL
              -- elapsed at least one second before this cleanup must be gone, through one on_evict;
              -- and the cleanup removes nothing that has not expired
              let tl := p.items.foldl (fun tl it =>
                let (k, _, v, d, cr) := it
                let gone := (findItem snap k).isNone
                if d != 0 && cr + d + nsPerSec ≤ now then
                  let tl := if !gone then
                      tl.monitorAt "C05" s!"entry {k} expired at {cr + d} is still resident after the cleanup at {now}, more than one bucket width (1 s) later"
                    else tl
                  if gone && !(cbsImpl.any fun cb => cb.val == v) then
                    tl.monitorAt "C05" s!"entry {k} was swept without an on_evict callback"
                  else tl
                else if gone && !(d != 0 && cr + d ≤ now) then
                  tl.monitorAt "C05" s!"the cleanup removed entry {k} that has not expired (ttl={d} created={cr} now={now})"
                else tl) tl
              tl
            | none => tl
          finishStep st tl c' "p.tick" cbsM cbsImpl snap g
      | none => (st, tl.badAt act)
    | ["p.stop"] =>
      match c.procStop with
      | none => (st, tl.divergeAt "p.stop" "not enabled" "stopped")
      | some c' =>
        -- close() drops whatever is still buffered or resident without a callback (C08's exception)
        finishStep st (tl.bump "p.stop") c' "p.stop" [] cbsImpl snap
          { g with stopped := true,
                   dropped := (g.accepted.filter fun v => !g.calledBack.contains v && !g.dropped.contains v &&
                                 !(residentVals snap).contains v && !(cbsImpl.any (·.val == v))) ++ g.dropped }
    | ["w.stop"] =>
      let ok := (lookup r "ok").getD "0"
      let tl := if ok == "1" then tl else tl.monitorAt "C12" "the policy worker did not receive the stop signal from close()"
      finishStep st (tl.bump "w.stop") c.policyClose "w.stop" [] cbsImpl snap g (quiescentExtra := false)
    | ["w.items", batch] =>
      match c.policyWorkerStep, parseNatList batch with
      | some (c', b), some ib =>
        let tl := tl.bump "w.items"
        let tl := if b == ib then tl else tl.divergeAt "w.items.batch" (showNatList b) batch
        finishStep st tl c' "w.items" [] cbsImpl snap { g with appliedSinceClear := g.appliedSinceClear + ib.length }
      | _, _ => (st, tl.divergeAt "w.items" "queue empty" batch)
    | _ => (st, tl.badAt act)
  | _, _, _ => (st, tl.badAt act)

end Driver
