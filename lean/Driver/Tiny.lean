import StrettoModel.Model.TinyLFU
import Driver.Util
/-!
Driver for the sketch / Bloom / TinyLFU traces (C13, C14).

Lines:
```
row <bytes> get I | V            row <bytes> inc I | <bytes>       row <bytes> reset | <bytes>
bloom.init exp=E k=K             bloom.add H | bits=..             bloom.coa H | added=0/1 bits=..
bloom.has H | 0/1                bloom.reset | bits=..
tiny.init width=W mask=M seeds=.. exp=E k=K samples=S
tiny.inc H | rows=..;.. bits=.. w=N     tiny.est H | E     tiny.clear | rows=.. bits=.. w=N
```
After every state-reporting line the model is re-synchronised to the implementation's state, so a
divergence is reported once, at the step where the implementation's step function differs.
-/
namespace Driver
open Stretto

structure TinySt where
  t : Option TinyLFU := none
  b : Option Bloom := none
  since : List Nat := []          -- hashes recorded since the last reset (ghost)
  /-- ghost for C15, independent of the implementation's own counter: accesses counted here, and the
  hashes recorded since the last aging reset *that was due* (every `samples` accesses) -/
  dueW : Nat := 0
  sinceDue : List Nat := []
  added : List Nat := []          -- hashes added to the stand-alone Bloom since its last reset

def rowsOf (t : TinyLFU) : List (List Nat) := t.sk.rows.map (·.2)

def withRows (t : TinyLFU) (rows : List (List Nat)) : TinyLFU :=
  { t with sk := { t.sk with rows := (t.sk.rows.zip rows).map fun (p, r) => (p.1, r) } }

def bloomOfBits (b : Bloom) (bits : List Nat) : Bloom := { b with bits := bits }

def stepTiny (st : TinySt) (tl : Tally) (act : String) (ans : String) : TinySt × Tally :=
  let a := splitWs act
  let r := kvs (splitWs ans)
  if ans == "PANIC" then
    (st, tl.monitorAt (if (a.headD "").startsWith "bloom" then "C14" else "C13")
      s!"the implementation panicked in `{act}`")
  else
  match a with
  -- byte-level rows ------------------------------------------------------------------------
  | ["row", bytes, "get", i] =>
    match parseNatList bytes, i.toNat?, (splitWs ans).head?.bind String.toNat? with
    | some row, some i, some v =>
      let tl := tl.bump "row.get"
      match Row.get row i with
      | some m => if m == v then (st, { tl with ok := tl.ok + 1 })
                  else (st, tl.divergeAt "row.get" (toString m) (toString v))
      | none => (st, tl.divergeAt "row.get" "panic" (toString v))
    | _, _, _ => (st, tl.badAt act)
  | ["row", bytes, "inc", i] =>
    match parseNatList bytes, i.toNat?, parseNatList ((splitWs ans).headD "") with
    | some row, some i, some out =>
      let tl := tl.bump "row.inc"
      -- monitor: the counter never wraps / decreases, neighbour untouched
      let before := Row.get row i
      let after := Row.get out i
      let tl := match before, after with
        | some b, some a' => if a' == (if b < 15 then b + 1 else b) then tl
            else tl.monitorAt "C13" s!"counter {b} became {a'} after increment (row={bytes} i={i})"
        | _, _ => tl
      match Row.inc row i with
      | some m => if m == out then (st, { tl with ok := tl.ok + 1 })
                  else (st, tl.divergeAt "row.inc" (showNatList m) (showNatList out))
      | none => (st, tl.divergeAt "row.inc" "panic" (showNatList out))
    | _, _, _ => (st, tl.badAt act)
  | ["row", bytes, "reset"] =>
    match parseNatList bytes, parseNatList ((splitWs ans).headD "") with
    | some row, some out =>
      let tl := tl.bump "row.reset"
      let exp := Row.reset row
      let tl := if (List.range (2 * row.length)).all (fun i =>
            (Row.get out i) == (Row.get row i).map (· / 2)) then tl
          else tl.monitorAt "C13" s!"reset did not halve every counter (row={bytes})"
      if exp == out then (st, { tl with ok := tl.ok + 1 })
      else (st, tl.divergeAt "row.reset" (showNatList exp) (showNatList out))
    | _, _ => (st, tl.badAt act)
  -- stand-alone Bloom ----------------------------------------------------------------------
  | "bloom.init" :: rest =>
    let kv := kvs rest
    match getNat kv "exp", getNat kv "k" with
    | some e, some k => ({ st with b := some { exp := e, k := k, bits := [] }, added := [] },
                         { tl with ok := tl.ok + 1 })
    | _, _ => (st, tl.badAt act)
  | ["bloom.add", h] =>
    match st.b, h.toNat?, getNatList r "bits" with
    | some b, some h, some bits =>
      let tl := tl.bump "bloom.add"
      let b' := b.add h
      let st := { st with b := some (bloomOfBits b bits), added := h :: st.added }
      if b'.canon == bits then (st, { tl with ok := tl.ok + 1 })
      else (st, tl.divergeAt "bloom.bits" (showNatList b'.canon) (showNatList bits))
    | _, _, _ => (st, tl.badAt act)
  | ["bloom.coa", h] =>
    match st.b, h.toNat?, getNatList r "bits", getNat r "added" with
    | some b, some h, some bits, some added =>
      let (b', ad) := b.containsOrAdd h
      let tl := tl.bump (if ad then "bloom.coa.added" else "bloom.coa.present")
      let st := { st with b := some (bloomOfBits b bits), added := h :: st.added }
      if b'.canon == bits && (ad == (added == 1)) then (st, { tl with ok := tl.ok + 1 })
      else (st, tl.divergeAt "bloom.coa" s!"{ad} {showNatList b'.canon}" s!"{added} {showNatList bits}")
    | _, _, _, _ => (st, tl.badAt act)
  | ["bloom.has", h] =>
    match st.b, h.toNat?, (splitWs ans).head?.bind String.toNat? with
    | some b, some h, some v =>
      let m := b.contains h
      let tl := tl.bump (if m then "bloom.has.true" else "bloom.has.false")
      -- monitor: no false negatives
      let tl := if st.added.contains h && v != 1 then
          tl.monitorAt "C14" s!"false negative: hash {h} was added since the last reset but contains() = false"
        else tl
      -- monitor: an emptied filter reports nothing
      let tl := if st.added.isEmpty && v == 1 && b.k > 0 then
          tl.monitorAt "C14" s!"hash {h} reported present by an empty filter"
        else tl
      if m == (v == 1) then (st, { tl with ok := tl.ok + 1 })
      else (st, tl.divergeAt "bloom.has" (toString m) (toString v))
    | _, _, _ => (st, tl.badAt act)
  | ["bloom.reset"] =>
    match st.b, getNatList r "bits" with
    | some b, some bits =>
      let tl := tl.bump "bloom.reset"
      let tl := if bits.isEmpty then tl else tl.monitorAt "C14" "bits survive reset/clear"
      let st := { st with b := some (bloomOfBits b bits), added := [] }
      if bits.isEmpty then (st, { tl with ok := tl.ok + 1 })
      else (st, tl.divergeAt "bloom.reset" "-" (showNatList bits))
    | _, _ => (st, tl.badAt act)
  -- TinyLFU --------------------------------------------------------------------------------
  | "tiny.init" :: rest =>
    let kv := kvs rest
    match getNat kv "width", getNat kv "mask", getNatList kv "seeds", getNat kv "exp",
          getNat kv "k", getNat kv "samples" with
    | some w, some m, some seeds, some e, some k, some s =>
      -- the aging window is the configured `num_counters` (C13: "after every num_counters recorded
      -- accesses"), not whatever the implementation stored
      let n := (getNat kv "num_counters").getD s
      let tl := if s == n then tl
        else (tl.divergeAt "tiny.init.samples" (toString n) (toString s)).monitorAt "C13"
          s!"the aging window is {s} accesses for num_counters={n}: the counters are not halved after every num_counters recorded accesses"
      let t : TinyLFU := { sk := Sketch.mk' seeds w m, dk := { exp := e, k := k, bits := [] },
                           samples := n, w := 0 }
      -- guard: the configuration meets the well-formedness hypothesis of the C13 theorems
      let tl := if m < 2 * w && !seeds.isEmpty && k > 0 then tl
        else tl.guardAt s!"sketch configuration outside WF: width={w} mask={m} depth={seeds.length} k={k}"
      ({ st with t := some t, since := [], dueW := 0, sinceDue := [] }, { tl with ok := tl.ok + 1 })
    | _, _, _, _, _, _ => (st, tl.badAt act)
  | ["tiny.inc", h] =>
    match st.t, h.toNat?, getNatLists r "rows", getNatList r "bits", getNat r "w" with
    | some t, some h, some rows, some bits, some w =>
      let fires := t.w + 1 ≥ t.samples
      let tl := tl.bump (if fires then "tiny.inc.reset" else
        if t.dk.contains h then "tiny.inc.sketch" else "tiny.inc.doorkeeper")
      let since := if fires then [] else h :: st.since
      let tImpl : TinyLFU := { (withRows t rows) with dk := bloomOfBits t.dk bits, w := w }
      let dueFires := st.dueW + 1 ≥ t.samples
      let st' := { st with t := some tImpl, since := since,
                           dueW := if dueFires then 0 else st.dueW + 1,
                           sinceDue := if dueFires then [] else h :: st.sinceDue }
      -- monitor (aging): at the samples-th access the doorkeeper is empty and w restarts
      let tl := if fires && (!bits.isEmpty || w != 0) then
          tl.monitorAt "C13" s!"aging reset due at this access but doorkeeper bits={bits.length} w={w}"
        else tl
      let tl := if !fires && w != t.w + 1 then
          tl.monitorAt "C13" s!"w={w} after an access that should only count (was {t.w}, samples={t.samples})"
        else tl
      match t.increment h with
      | some m =>
        -- monitor (aging): the counters after a firing access are the halved counters of either
        -- the previous state or the previous state with this key's counters incremented
        -- (judged row by row on the implementation's own previous rows, whichever counter of the row this key
        -- maps to: a sketch with another slot function halves just as well)
        let prevRows := rowsOf t
        let halvedOk := prevRows.length == rows.length && (prevRows.zip rows).all fun (prev, now) =>
          Row.reset prev == now ||
            (List.range (2 * prev.length)).any fun i => (Row.inc prev i).map Row.reset == some now
        let tl := if fires && !halvedOk then
            tl.monitorAt "C13" "aging reset did not halve the counters"
          else tl
        if rowsOf m == rows && m.dk.canon == bits && m.w == w then (st', { tl with ok := tl.ok + 1 })
        else (st', tl.divergeAt "tiny.inc"
          s!"rows={showNatLists (rowsOf m)} bits={showNatList m.dk.canon} w={m.w}"
          s!"rows={showNatLists rows} bits={showNatList bits} w={w}")
      | none => (st', tl.divergeAt "tiny.inc" "panic" "returned")
    | _, _, _, _, _ => (st, tl.badAt act)
  | ["tiny.incs", hs] =>
    -- a whole batch (`TinyLFU::increments`): the model records the accesses one by one
    match st.t, parseNatList hs, getNatLists r "rows", getNatList r "bits", getNat r "w" with
    | some t, some batch, some rows, some bits, some w =>
      let tl := tl.bump "tiny.incs"
      let tImpl : TinyLFU := { (withRows t rows) with dk := bloomOfBits t.dk bits, w := w }
      -- ghosts, access by access
      let (since, dueW, sinceDue) := batch.foldl (fun (acc : List Nat × Nat × List Nat) h =>
        let (since, dueW, sinceDue) := acc
        -- `since` follows the model's own counter below; the C15 ghost counts for itself
        let dueFires := dueW + 1 ≥ t.samples
        (h :: since, (if dueFires then 0 else dueW + 1), (if dueFires then [] else h :: sinceDue))) (st.since, st.dueW, st.sinceDue)
      let modelRun := batch.foldl (fun (acc : Option (TinyLFU × List Nat)) h =>
        match acc with
        | none => none
        | some (m, sn) => match m.increment h with
          | some m' => some (m', if m.w + 1 ≥ m.samples then [] else h :: sn)
          | none => none) (some (t, st.since))
      let _ := since
      match modelRun with
      | some (m, sn) =>
        let st' := { st with t := some tImpl, since := sn, dueW := dueW, sinceDue := sinceDue }
        let tl := if m.w == w then tl else
          (tl.monitorAt "C13" s!"after a batch of {batch.length} recorded accesses w = {w}; the counters are halved after every {t.samples} recorded accesses, also when that falls inside a batch, so w should be {m.w}").monitorAt "C15"
            s!"after a processed batch of {batch.length} lookups the aging window stands at {w} instead of {m.w}: the reset due inside the batch was not applied where it fell"
        if rowsOf m == rows && m.dk.canon == bits && m.w == w then (st', { tl with ok := tl.ok + 1 })
        else (st', tl.divergeAt "tiny.incs"
          s!"rows={showNatLists (rowsOf m)} bits={showNatList m.dk.canon} w={m.w}"
          s!"rows={showNatLists rows} bits={showNatList bits} w={w}")
      | none => ({ st with t := some tImpl }, tl.divergeAt "tiny.incs" "panic" "returned")
    | _, _, _, _, _ => (st, tl.badAt act)
  | ["tiny.est", h] =>
    match st.t, h.toNat?, (splitWs ans).head?.bind String.toNat? with
    | some t, some h, some v =>
      let cnt := st.since.count h
      let tl := tl.bump (if cnt == 0 then "tiny.est.unseen" else if cnt ≥ 16 then "tiny.est.saturated" else "tiny.est.seen")
      -- monitor: never undercount, saturate at 16
      let tl := if min cnt 16 ≤ v && v ≤ 16 then tl
        else tl.monitorAt "C13" s!"estimate {v} for hash {h} recorded {cnt} times since the last reset"
      -- C15: processed lookups are reflected in the estimate (counted against the resets that were due)
      let cntDue := st.sinceDue.count h
      let tl := if min cntDue 16 ≤ v then tl
        else tl.monitorAt "C15" s!"hash {h} was recorded {cntDue} times in processed batches since the last aging reset that was due (every {t.samples} recorded accesses), yet its estimate is {v}: the estimate does not reflect those lookups"
      match t.estimate h with
      | some m => if m == v then (st, { tl with ok := tl.ok + 1 })
                  else (st, tl.divergeAt "tiny.est" (toString m) (toString v))
      | none => (st, tl.divergeAt "tiny.est" "panic" (toString v))
    | _, _, _ => (st, tl.badAt act)
  | ["tiny.clear"] =>
    match st.t, getNatLists r "rows", getNatList r "bits", getNat r "w" with
    | some t, some rows, some bits, some w =>
      let tl := tl.bump "tiny.clear"
      let m := t.clear
      let tImpl : TinyLFU := { (withRows t rows) with dk := bloomOfBits t.dk bits, w := w }
      let tl := if bits.isEmpty && w == 0 && rows.all (·.all (· == 0)) then tl
        else tl.monitorAt "C13" "clear() left counters, doorkeeper bits or w non-zero"
      let st' := { st with t := some tImpl, since := [], dueW := 0, sinceDue := [] }
      if rowsOf m == rows && bits.isEmpty && w == 0 then (st', { tl with ok := tl.ok + 1 })
      else (st', tl.divergeAt "tiny.clear" "all zero" s!"rows={showNatLists rows} bits={showNatList bits} w={w}")
    | _, _, _, _ => (st, tl.badAt act)
  | _ => (st, tl.badAt act)

end Driver
