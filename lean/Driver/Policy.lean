import StrettoModel.Model.Policy
import Driver.Util
/-!
Driver for policy traces (C01, C07).

```
pol.init max=M samples=S
pol.add K C inc=H obs=k:c:h,k:c:h;k:c:h,.. | added=0/1 victims=none|k:c,k:c charges=k:c,.. used=U max=M met=ca,ce,ke,ku,rs
pol.remove K | charges=.. used=U max=M met=..
pol.update K C | ..        pol.clear | ..        pol.maxcost MC | ..
pol.cost K | V             pol.cap | V
```
`obs` is the sample after each refill of the eviction loop with the estimate of every entry, `inc`
the newcomer's estimate; both are oracle inputs of the model (guards checked here).
`met` = cost-added, cost-evicted, keys-evicted, keys-updated, sets-rejected totals (mod 2^64), or `-`.
-/
namespace Driver
open Stretto

def parsePairs (s : String) : Option (List (Nat × Int)) :=
  if s == "" || s == "-" || s == "none" then some []
  else (s.splitOn ",").mapM fun t =>
    match t.splitOn ":" with
    | [k, c] => do pure ((← k.toNat?), (← c.toInt?))
    | _ => none

def parseTriples (s : String) : Option (List (Nat × Int × Int)) :=
  if s == "" || s == "-" then some []
  else (s.splitOn ",").mapM fun t =>
    match t.splitOn ":" with
    | [k, c, h] => do pure ((← k.toNat?), (← c.toInt?), (← h.toInt?))
    | _ => none

def parseObs (s : String) : Option (List (List (Nat × Int × Int))) :=
  if s == "" || s == "-" then some [] else (s.splitOn ";").mapM parseTriples

def showPairs (l : List (Nat × Int)) : String :=
  if l.isEmpty then "-" else ",".intercalate (l.map fun p => s!"{p.1}:{p.2}")

def wrap64 (x : Int) : Nat := (x % 18446744073709551616).toNat

structure PolMet where
  costAdd : Nat := 0
  costEvict : Nat := 0
  keyEvict : Nat := 0
  keyUpdate : Nat := 0
  rejectSets : Nat := 0
deriving BEq, Repr

def PolMet.apply (m : PolMet) : MEv → PolMet
  | .costAdd d => { m with costAdd := wrap64 (m.costAdd + d) }
  | .costEvict c => { m with costEvict := wrap64 (m.costEvict + c) }
  | .keyEvict => { m with keyEvict := wrap64 (m.keyEvict + 1) }
  | .keyUpdate => { m with keyUpdate := wrap64 (m.keyUpdate + 1) }
  | .rejectSets => { m with rejectSets := wrap64 (m.rejectSets + 1) }

def PolMet.toList (m : PolMet) : List Nat := [m.costAdd, m.costEvict, m.keyEvict, m.keyUpdate, m.rejectSets]

structure PolSt where
  l : Option Lfu := none
  met : Option PolMet := none     -- none = metrics off
  slack : Int := 0                -- ghost of C01, maintained from the implementation's snapshots

/-- implementation snapshot after a call -/
structure PolSnap where
  charges : List (Nat × Int)
  used : Int
  max : Int
  met : Option (List Nat)

def parseSnap (r : List (String × String)) : Option PolSnap := do
  let charges ← (lookup r "charges").bind parsePairs
  let used ← getInt r "used"
  let max ← getInt r "max"
  let met := match lookup r "met" with
    | some "-" => none
    | some s => parseNatList s
    | none => none
  pure { charges, used, max, met }

def sumCosts (l : List (Nat × Int)) : Int := (l.map (·.2)).foldl (· + ·) 0

/-- C01 monitors on the implementation's own snapshot -/
def monitorSnap (tl : Tally) (s : PolSnap) (slack : Int) (what : String) : Tally :=
  let tl := if s.used == sumCosts s.charges then tl
    else tl.monitorAt "C01" s!"after {what}: used={s.used} but the charges sum to {sumCosts s.charges}"
  let tl := if (s.charges.map (·.1)).eraseDups.length == s.charges.length then tl
    else tl.monitorAt "C01" s!"after {what}: a key is charged twice"
  let bound := (if s.max > 0 then s.max else 0) + slack
  if s.used ≤ bound then tl
  else tl.monitorAt "C01" s!"after {what}: used={s.used} exceeds max(0,max_cost)={s.max} + slack={slack}"

/-- C17 at the policy: per call, cost_added - cost_evicted moves by exactly the change of `used`,
and keys_evicted by exactly the number of charges that disappeared (implementation data only) -/
def monitorMetricsDelta (tl : Tally) (before after : PolSnap) (what : String) : Tally :=
  match before.met, after.met with
  | some [ca0, ce0, ke0, _, _], some [ca1, ce1, ke1, _, _] =>
    let dNet : Int := ((ca1 : Int) - ce1) - ((ca0 : Int) - ce0)
    let dUsed : Int := after.used - before.used
    let tl := if wrap64 dNet == wrap64 dUsed then tl
      else tl.monitorAt "C17" s!"{what}: cost_added - cost_evicted moved by {dNet} but the charged total by {dUsed}"
    let gone := (before.charges.filter fun p => !(after.charges.any (·.1 == p.1))).length
    if wrap64 ((ke1 : Int) - ke0) == gone then tl
    else tl.monitorAt "C17" s!"{what}: keys_evicted moved by {(ke1 : Int) - ke0} but {gone} charges disappeared"
  | _, _ => tl

def compareSnap (tl : Tally) (l : Lfu) (met : Option PolMet) (s : PolSnap) (what : String) : Tally :=
  let mc := l.costs.sorted
  let tl := if mc == s.charges && l.used == s.used && l.maxCost == s.max then tl
    else tl.divergeAt what s!"charges={showPairs mc} used={l.used} max={l.maxCost}"
      s!"charges={showPairs s.charges} used={s.used} max={s.max}"
  match met, s.met with
  | some m, some im => if m.toList == im then tl
      else tl.divergeAt (what ++ ".metrics") (showNatList m.toList) (showNatList im)
  | _, _ => tl

def lfuOfSnap (l : Lfu) (s : PolSnap) : Lfu :=
  { l with costs := s.charges, used := s.used, maxCost := s.max }

def metOfSnap (m : Option PolMet) (s : PolSnap) : Option PolMet :=
  match m, s.met with
  | some _, some [a, b, c, d, e] => some { costAdd := a, costEvict := b, keyEvict := c, keyUpdate := d, rejectSets := e }
  | m, _ => m

/-- walk the observed iterations to derive what `fill_sample` appended each time, checking the
guards: the observed sample extends the model's current sample, and the appended entries are a
valid refill -/
def deriveRefills (est : Nat → Int) (incHits : Int) (cost : Int) :
    Lfu → List (Nat × Int) → List (List (Nat × Int)) → List (List (Nat × Int)) → List String →
    List (List (Nat × Int)) × List String
  | _, _, [], acc, errs => (acc.reverse, errs.reverse)
  | l, sample, o :: more, acc, errs =>
    if l.roomLeft cost ≥ 0 then (acc.reverse, ("an iteration was observed although room was available" :: errs).reverse)
    else
      let extras := o.drop sample.length
      let errs := if o.take sample.length == sample then errs
        else s!"observed sample {showPairs o} does not extend the carried-over sample {showPairs sample}" :: errs
      let errs := if l.validRefill sample.length extras then errs
        else s!"refill {showPairs extras} of a sample of {sample.length} is not a valid fill_sample result (charged={l.costs.length})" :: errs
      let s := sample ++ extras
      match minEntry est s with
      | none => ((extras :: acc).reverse, errs.reverse)
      | some (i, (vk, _), h) =>
        if incHits < h then ((extras :: acc).reverse, errs.reverse)
        else deriveRefills est incHits cost (l.remove vk).1 (swapRemove s i) more (extras :: acc) errs

/-- The tie-break among equally unpopular candidates is an oracle input of the model (`tiePick`, read by
`minEntry` at `est (2^64 + sampleCode sample)`): C07 is indifferent to it. It is read off the implementation's
behaviour: the index taken at iteration `t` is the one whose `swap_remove` turns the observed sample of
iteration `t` into the carried-over prefix of the sample observed at iteration `t + 1`; at the last iteration
it is the entry whose key was released by this call and not taken at an earlier iteration (if several: the one
handed to `on_evict` first). No answer
(the oracle's default 0 = first minimum) when that cannot be told. A proposed entry that is not a minimum is
ignored by the model, so a wrong victim still diverges. -/
def tieOracle (obs : List (List (Nat × Int))) (released : List Nat) (order : List Nat := []) : List (Nat × Int) :=
  let rec go (obs : List (List (Nat × Int))) (taken : List Nat) (fuel : Nat) : List (Nat × Int) :=
    match fuel, obs with
    | 0, _ => []
    | _, [] => []
    | fuel + 1, o :: more =>
      let idxs := List.range o.length
      let pick : Option Nat := match more with
        | nxt :: _ => idxs.find? fun j => let carried := swapRemove o j; nxt.take carried.length == carried
        | [] =>
          let cands := idxs.filter fun j => match o[j]? with
            | some p => released.contains p.1 && !taken.contains p.1
            | none => false
          let keys := (cands.filterMap fun j => (o[j]?).map (·.1)).eraseDups
          if keys.length == 1 then cands.head?
          else
            -- several released keys in the last sample (a composite step of the async traces applies several
            -- items; the later items' victims are released too): this item's victim is called back first
            match order.find? (fun k => keys.contains k) with
            | some k => cands.find? fun j => (o[j]?).map (·.1) == some k
            | none => none
      match pick with
      | some j => (2 ^ 64 + sampleCode o, (j : Int)) :: go more (match o[j]? with | some p => p.1 :: taken | none => taken) fuel
      | none => go more taken fuel
  go obs [] (obs.length + 1)

/-- the popularity oracle handed to the model: estimates below 2^64, tie-break answers above -/
def withTies (est : Nat → Int) (ties : List (Nat × Int)) : Nat → Int :=
  fun x => if x ≥ 2 ^ 64 then ((ties.find? (·.1 == x)).map (·.2)).getD 0 else est x

/-- C07 monitor evaluated on what the implementation did -/
def monitorAdd (tl : Tally) (before : PolSnap) (key : Nat) (cost incHits : Int)
    (obs : List (List (Nat × Int × Int))) (added : Bool) (victims : Option (List (Nat × Int)))
    (samples : Nat) : Tally := Id.run do
  let mut tl := tl
  let charged := fun (cs : List (Nat × Int)) (k : Nat) => (cs.find? (·.1 == k)).map (·.2)
  let isNew := (charged before.charges key).isNone
  let vs := victims.getD []
  -- the room that really is there: max_cost minus the sum of the per-entry charges (the policy's own
  -- running total equals it on every reachable state, C01; the rule is judged on the charges)
  let total := sumCosts before.charges
  -- room available ⇒ admitted, nothing evicted
  if isNew && cost ≤ before.max && before.max - (total + cost) ≥ 0 then
    if !(added && victims.isNone) then
      tl := tl.monitorAt "C07" s!"room was available for key {key} cost {cost} (charges add up to {total}, max_cost {before.max}) but added={added} victims={showPairs vs}"
  if !obs.isEmpty then
    let mut cs := before.charges
    let mut used := total
    let mut i := 0
    for o in obs do
      let room := before.max - (used + cost)
      if room ≥ 0 then
        tl := tl.monitorAt "C07" s!"eviction iteration {i} ran although room={room} ≥ 0"
      -- sample: five, or all if fewer
      if !(o.length == samples || o.length ≥ cs.length) then
        tl := tl.monitorAt "C07" s!"iteration {i}: sample has {o.length} entries with {cs.length} residents charged"
      let minH := o.foldl (fun m t => if t.2.2 < m then t.2.2 else m) (9223372036854775807 : Int)
      match vs[i]? with
      | some (vk, vc) =>
        match o.find? (fun t => t.1 == vk && t.2.1 == vc) with
        | none => tl := tl.monitorAt "C07" s!"iteration {i}: victim {vk}:{vc} is not in the sample"
        | some t =>
          if t.2.2 != minH then
            tl := tl.monitorAt "C07" s!"iteration {i}: victim {vk} has estimate {t.2.2} but the least popular candidate has {minH}"
          if t.2.2 > incHits then
            tl := tl.monitorAt "C07" s!"iteration {i}: victim {vk} (estimate {t.2.2}) is more popular than the newcomer ({incHits})"
        match charged cs vk with
        | some c => cs := cs.filter (·.1 != vk); used := used - c
        | none => pure ()
      | none =>
        -- no victim at this iteration: it must be the rejecting one
        if added then
          tl := tl.monitorAt "C07" s!"iteration {i} picked no victim but the key was admitted"
        if !(incHits < minH) then
          tl := tl.monitorAt "C07" s!"rejected although the newcomer's estimate {incHits} is not below the least popular candidate's {minH}"
      i := i + 1
    if vs.length > obs.length then
      tl := tl.monitorAt "C07" s!"{vs.length} victims for {obs.length} observed iterations"
    if added && before.max - (used + cost) < 0 then
      tl := tl.monitorAt "C07" s!"admitted while room is still lacking (used={used} cost={cost} max={before.max})"
    if !added && vs.length == obs.length && before.max - (used + cost) < 0 && !obs.isEmpty then
      -- loop ended without rejection and without room: impossible
      tl := tl.monitorAt "C07" "loop ended with neither room nor a rejection"
  return tl

def stepPolicy (st : PolSt) (tl : Tally) (act : String) (ans : String) (prev : Option PolSnap) :
    PolSt × Tally × Option PolSnap :=
  let a := splitWs act
  let r := kvs (splitWs ans)
  if ans == "PANIC" then (st, tl.monitorAt "C20" s!"the implementation panicked in `{act}`", prev) else
  match a with
  | "pol.init" :: rest =>
    let kv := kvs rest
    match getInt kv "max", getNat kv "samples", getNat kv "metrics" with
    | some m, some s, some me =>
      let l : Lfu := { costs := [], used := 0, maxCost := m, samples := s }
      ({ l := some l, met := if me == 1 then some {} else none, slack := 0 }, { tl with ok := tl.ok + 1 },
       some { charges := [], used := 0, max := m, met := none })
    | _, _, _ => (st, tl.badAt act, prev)
  | "pol.add" :: k :: c :: rest =>
    let kv := kvs rest
    match st.l, prev, k.toNat?, c.toInt?, getInt kv "inc", (lookup kv "obs").bind parseObs,
          getNat r "added", lookup r "victims", parseSnap r with
    | some l, some before, some key, some cost, some inc, some obs, some addedN, some vstr, some snap =>
      let added := addedN == 1
      let victims : Option (List (Nat × Int)) := if vstr == "none" then none else parsePairs vstr
      let estTab : List (Nat × Int) := (obs.flatten.map fun t => (t.1, t.2.2))
      let est0 : Nat → Int := fun x => if x == key then inc else ((estTab.find? (·.1 == x)).map (·.2)).getD 0
      let obsPairs := obs.map (·.map fun t => (t.1, t.2.1))
      let est := withTies est0 (tieOracle obsPairs ((victims.getD []).map (·.1)))
      let (refills, errs) := deriveRefills est inc cost l [] obsPairs [] []
      let tl := errs.foldl (fun tl e => tl.guardAt s!"pol.add {key} {cost}: {e}") tl
      let R := policyAdd l est key cost refills
      let tl := if R.stuck then tl.guardAt s!"pol.add {key} {cost}: model needs more iterations than observed" else tl
      -- coverage
      let branch :=
        if cost > l.maxCost then "add.oversize"
        else if (l.costs.get key).isSome then "add.update"
        else if l.roomLeft cost ≥ 0 then "add.room"
        else if R.added then s!"add.evict.{min R.log.length 4}" else s!"add.reject.{min (R.log.length - 1) 4}"
      let tl := tl.bump branch
      let tl := if obs.any (fun o => (o.map (·.2.2)).eraseDups.length < o.length) then tl.bump "add.tie" else tl
      let tl := if obs.any (fun o => o.length < l.samples) then tl.bump "add.fewer_than_samples" else tl
      let tl := if l.used > l.maxCost then tl.bump "add.over_budget_before" else tl
      -- property monitors on the implementation's behaviour
      let tl := monitorAdd tl before key cost inc obs added victims l.samples
      let wasCharged := (before.charges.find? (·.1 == key)).map (·.2)
      let slack := if added then 0 else match wasCharged with
        | some p => if cost ≤ before.max then st.slack + (if cost - p > 0 then cost - p else 0) else st.slack
        | none => st.slack
      let tl := if added && wasCharged.isNone && snap.used > snap.max then
          tl.monitorAt "C01" s!"admission of new key {key} left used={snap.used} > max_cost={snap.max}" else tl
      let tl := if cost > before.max && (added || snap.charges != before.charges) then
          tl.monitorAt "C01" s!"oversize add (cost {cost} > max_cost {before.max}) was admitted or changed the charges" else tl
      let tl := monitorSnap tl snap slack s!"add {key} {cost}"
      let tl := monitorMetricsDelta tl before snap s!"add {key} {cost}"
      -- correspondence
      let met := st.met.map fun m => R.events.foldl PolMet.apply m
      let tl := if R.added == added && R.victims == victims then tl
        else tl.divergeAt "pol.add" s!"added={R.added} victims={(R.victims.map showPairs).getD "none"}"
          s!"added={added} victims={vstr}"
      let tl := compareSnap tl R.lfu met snap "pol.add.state"
      ({ st with l := some (lfuOfSnap R.lfu snap), met := metOfSnap met snap, slack := slack },
       { tl with ok := tl.ok + 1 }, some snap)
    | _, _, _, _, _, _, _, _, _ => (st, tl.badAt act, prev)
  | ["pol.remove", k] =>
    match st.l, k.toNat?, parseSnap r with
    | some l, some key, some snap =>
      let (l', evs) := policyRemove l key
      let tl := tl.bump (if evs.isEmpty then "remove.absent" else "remove.charged")
      let met := st.met.map fun m => evs.foldl PolMet.apply m
      let tl := monitorSnap tl snap st.slack s!"remove {key}"
      let tl := match prev with | some b => monitorMetricsDelta tl b snap s!"remove {key}" | none => tl
      let tl := compareSnap tl l' met snap "pol.remove"
      ({ st with l := some (lfuOfSnap l' snap), met := metOfSnap met snap }, { tl with ok := tl.ok + 1 }, some snap)
    | _, _, _ => (st, tl.badAt act, prev)
  | ["pol.update", k, c] =>
    match st.l, prev, k.toNat?, c.toInt?, parseSnap r with
    | some l, some before, some key, some cost, some snap =>
      let (l', hit, evs) := l.update key cost
      let tl := tl.bump (if hit then "update.charged" else "update.absent")
      let met := st.met.map fun m => evs.foldl PolMet.apply m
      let slack := match (before.charges.find? (·.1 == key)).map (·.2) with
        | some p => st.slack + (if cost - p > 0 then cost - p else 0)
        | none => st.slack
      let tl := monitorSnap tl snap slack s!"update {key} {cost}"
      let tl := monitorMetricsDelta tl before snap s!"update {key} {cost}"
      let tl := compareSnap tl l' met snap "pol.update"
      ({ st with l := some (lfuOfSnap l' snap), met := metOfSnap met snap, slack := slack }, { tl with ok := tl.ok + 1 }, some snap)
    | _, _, _, _, _ => (st, tl.badAt act, prev)
  | ["pol.clear"] =>
    match st.l, parseSnap r with
    | some l, some snap =>
      let tl := tl.bump "clear"
      let tl := monitorSnap tl snap st.slack "clear"
      let tl := compareSnap tl l.clear none snap "pol.clear"
      ({ st with l := some (lfuOfSnap l.clear snap), met := metOfSnap st.met snap }, { tl with ok := tl.ok + 1 }, some snap)
    | _, _ => (st, tl.badAt act, prev)
  | ["pol.maxcost", m] =>
    match st.l, prev, m.toInt?, parseSnap r with
    | some l, some before, some mc, some snap =>
      let tl := tl.bump (if mc < l.used then "maxcost.below_used" else "maxcost")
      let slack := st.slack + (if before.max - mc > 0 then before.max - mc else 0)
      let tl := monitorSnap tl snap slack s!"update_max_cost {mc}"
      let tl := compareSnap tl (l.updateMaxCost mc) none snap "pol.maxcost"
      ({ st with l := some (lfuOfSnap (l.updateMaxCost mc) snap), slack := slack }, { tl with ok := tl.ok + 1 }, some snap)
    | _, _, _, _ => (st, tl.badAt act, prev)
  | ["pol.cost", k] =>
    match st.l, k.toNat?, (splitWs ans).head?.bind String.toInt? with
    | some l, some key, some v =>
      let tl := tl.bump "cost"
      if policyCost l key == v then (st, { tl with ok := tl.ok + 1 }, prev)
      else (st, tl.divergeAt "pol.cost" (toString (policyCost l key)) (toString v), prev)
    | _, _, _ => (st, tl.badAt act, prev)
  | ["pol.cap"] =>
    match st.l, (splitWs ans).head?.bind String.toInt? with
    | some l, some v =>
      let tl := tl.bump "cap"
      if policyCap l == v then (st, { tl with ok := tl.ok + 1 }, prev)
      else (st, tl.divergeAt "pol.cap" (toString (policyCap l)) (toString v), prev)
    | _, _ => (st, tl.badAt act, prev)
  | "pol.record" :: _ => (st, { tl with ok := tl.ok + 1 }, prev)
  | _ => (st, tl.badAt act, prev)

end Driver
