/-! Line-protocol helpers for the model driver (no imports beyond core). -/
namespace Driver

def splitWs (s : String) : List String :=
  (s.splitOn " ").filter (· ≠ "")

def parseNatList (s : String) : Option (List Nat) :=
  if s == "" || s == "-" then some [] else (s.splitOn ",").mapM String.toNat?

def parseIntList (s : String) : Option (List Int) :=
  if s == "" || s == "-" then some [] else (s.splitOn ",").mapM String.toInt?

/-- `a,b;c,d;…` -/
def parseNatLists (s : String) : Option (List (List Nat)) :=
  if s == "" || s == "-" then some [] else (s.splitOn ";").mapM parseNatList

/-- `k=v` tokens → association list; bare tokens get key "" -/
def kvs (toks : List String) : List (String × String) :=
  toks.map fun t =>
    match t.splitOn "=" with
    | [k, v] => (k, v)
    | _ => ("", t)

def lookup (kv : List (String × String)) (k : String) : Option String :=
  (kv.find? (·.1 == k)).map (·.2)

def getNat (kv : List (String × String)) (k : String) : Option Nat :=
  (lookup kv k).bind String.toNat?

def getInt (kv : List (String × String)) (k : String) : Option Int :=
  (lookup kv k).bind String.toInt?

def getNatList (kv : List (String × String)) (k : String) : Option (List Nat) :=
  (lookup kv k).bind parseNatList

def getNatLists (kv : List (String × String)) (k : String) : Option (List (List Nat)) :=
  (lookup kv k).bind parseNatLists

def showNatList (l : List Nat) : String :=
  if l.isEmpty then "-" else ",".intercalate (l.map toString)

def showNatLists (l : List (List Nat)) : String :=
  if l.isEmpty then "-" else ";".intercalate (l.map showNatList)

/-- split a trace line at the `|` separating the action from the implementation's answer -/
def splitBar (line : String) : String × String :=
  match line.splitOn " | " with
  | [a] => (a, "")
  | a :: rest => (a, " | ".intercalate rest)
  | [] => ("", "")

/-- running tallies -/
structure Tally where
  lines : Nat := 0
  ok : Nat := 0
  diverge : Nat := 0
  monitorFail : Nat := 0
  guardFail : Nat := 0
  bad : Nat := 0
  cover : List (String × Nat) := []
  msgs : List String := []   -- most recent first, capped

namespace Tally
def bump (t : Tally) (name : String) : Tally :=
  match t.cover.find? (·.1 == name) with
  | some _ => { t with cover := t.cover.map fun p => if p.1 == name then (p.1, p.2 + 1) else p }
  | none => { t with cover := (name, 1) :: t.cover }

def msg (t : Tally) (m : String) : Tally :=
  -- at most 12 messages of each kind (the kind is the first word)
  let key := fun (x : String) =>
    let ws := x.splitOn " "
    -- kind, plus the property= / field= token that follows line=
    (ws.headD "") ++ " " ++ ((ws.drop 2).headD "")
  let kind := key m
  if (t.msgs.filter (fun x => key x == kind)).length < 6
  then { t with msgs := m :: t.msgs } else t

def divergeAt (t : Tally) (field model impl : String) : Tally :=
  ({ t with diverge := t.diverge + 1 }).msg
    s!"DIVERGE line={t.lines} field={field} model={model} impl={impl}"

def monitorAt (t : Tally) (prop what : String) : Tally :=
  ({ t with monitorFail := t.monitorFail + 1 }).msg
    s!"MONITOR-FAIL line={t.lines} property={prop} {what}"

def guardAt (t : Tally) (what : String) : Tally :=
  ({ t with guardFail := t.guardFail + 1 }).msg s!"GUARD-FAIL line={t.lines} {what}"

def badAt (t : Tally) (line : String) : Tally :=
  ({ t with bad := t.bad + 1 }).msg s!"BAD-LINE line={t.lines} {line}"

def report (t : Tally) : IO Unit := do
  for m in t.msgs.reverse do IO.println m
  for (n, c) in t.cover.reverse do IO.println s!"COVER {n}={c}"
  IO.println s!"SUMMARY lines={t.lines} ok={t.ok} diverge={t.diverge} monitor_fail={t.monitorFail} guard_fail={t.guardFail} bad={t.bad}"
end Tally

end Driver
