import StrettoModel.Model.Sketch
import StrettoModel.Model.Bloom
import StrettoModel.Model.TinyLFU
