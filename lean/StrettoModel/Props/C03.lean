import StrettoModel.Proofs.Cache
/-!
# C03 — TTL visibility: nothing is served after its TTL, nothing expires without one

Quantification: every store state, every key / conflict, every time `now` (nanoseconds, so every
placement relative to second boundaries), every TTL. `Time.d = 0` means "no TTL".
-/
namespace Stretto.C03
open Stretto

/-- **expired_invisible**: once `d > 0` nanoseconds have elapsed since the write that created the
resident entry, no lookup path serves it: `get`, `get_mut`, `get_ttl` all answer "absent". -/
theorem expired_invisible (s : Store) (k cf now : Nat) (e : Entry)
    (he : s.items.get k = some e) (hd : 0 < e.exp.d) (hexp : e.exp.created + e.exp.d ≤ now) :
    s.get k cf now = none ∧ s.getTtl k cf now = none ∧ (s.getMutWrite k cf now 0).2 = none := by
  have hl := Store.lookup_expired s k cf now e he hd hexp
  simp [Store.get, Store.getTtl, Store.getMutWrite, hl]

/-- the same through the cache's own `get` / `get_mut` / `get_ttl` -/
theorem cache_expired_invisible (c : Cache) (k cf now v : Nat) (e : Entry)
    (he : c.store.items.get k = some e) (hd : 0 < e.exp.d) (hexp : e.exp.created + e.exp.d ≤ now) :
    (c.get k cf now).2 = none ∧ c.getTtl k cf now = none ∧ (c.getMutWrite k cf now v).2 = none := by
  have hl := Store.lookup_expired c.store k cf now e he hd hexp
  refine ⟨?_, ?_, ?_⟩
  · unfold Cache.get
    split
    · rfl
    · simp [Store.get, hl]
  · simp [Cache.getTtl, Store.getTtl, hl]
  · unfold Cache.getMutWrite
    split
    · rfl
    · simp [Store.getMutWrite, hl]

/-- **ttl_remaining**: an entry served at `now` with TTL `d` reports exactly `d - (now - created)`,
which is positive, at most `d`, and never increases with time. -/
theorem ttl_remaining (s : Store) (k cf now : Nat) (e : Entry)
    (hl : s.lookup k cf now = some e) (hd : 0 < e.exp.d) (hc : e.exp.created ≤ now) :
    s.getTtl k cf now = some (some (e.exp.d - (now - e.exp.created))) ∧
    0 < e.exp.d - (now - e.exp.created) ∧ e.exp.d - (now - e.exp.created) ≤ e.exp.d := by
  -- a served entry with a TTL has not expired
  have hne : ¬ (now - e.exp.created ≥ e.exp.d) := by
    have := (Store.lookup_some s k cf now e hl).2.2
    rcases this with h0 | h1
    · omega
    · intro h; exact h1 ⟨hc, h⟩
  refine ⟨?_, by omega, by omega⟩
  simp only [Store.getTtl, hl, Option.map_some, Time.getTtl]
  have : (e.exp.d == 0) = false := by simp; omega
  simp [this, hne]

theorem ttl_antitone (d created now now' : Nat) (h : now ≤ now') :
    d - (now' - created) ≤ d - (now - created) := by omega

/-- **no_ttl_reports_none**: an entry written without TTL is visible at every time and reports
"no expiry" (`Duration::MAX`). -/
theorem no_ttl_never_invisible (s : Store) (k cf now : Nat) (e : Entry)
    (he : s.items.get k = some e) (hd : e.exp.d = 0) (hcf : Store.conflictOk cf e = true) :
    s.lookup k cf now = some e ∧ s.getTtl k cf now = some none := by
  have hl : s.lookup k cf now = some e := by
    unfold Store.lookup
    simp [he, hcf, Time.isZero, hd]
  exact ⟨hl, by simp [Store.getTtl, hl, Time.getTtl, hd]⟩

/-- **reinsert_replaces_deadline**: an insert of a resident key that passes the conflict check and
the validator stores exactly the new `(ttl, now)`: with a TTL the new deadline applies, without one
the entry no longer expires (and its value is the new one, at once). -/
theorem reinsert_replaces_deadline (s : Store) (su : Nat → Nat → Bool) (k v cf : Nat) (t : Time)
    (e : Entry) (he : s.items.get k = some e) (hcf : Store.conflictOk cf e = true)
    (hsu : su e.val v = true) :
    ((s.tryUpdate su k v cf t).1.items.get k) = some { e with val := v, exp := t } ∧
    (s.tryUpdate su k v cf t).2 = .update e.val := by
  unfold Store.tryUpdate
  simp [he, hcf, hsu]

/-- the clock value stored is the one of the call (`Time::now()` inside `try_update`) -/
theorem insert_records_now (c : Cache) (su : Nat → Nat → Bool) (k cf v : Nat) (cost : Int)
    (ttl now : Nat) (coster : Int) (e : Entry) (hopen : c.closed = false)
    (he : c.store.items.get k = some e) (hcf : Store.conflictOk cf e = true)
    (hsu : su e.val v = true) :
    ((c.insert su k cf v cost ttl now coster false).1.store.items.get k) =
      some { e with val := v, exp := { d := ttl, created := now } } := by
  have h := reinsert_replaces_deadline c.store su k v cf { d := ttl, created := now } e he hcf hsu
  unfold Cache.insert Cache.insertBody
  simp only [hopen, Bool.false_eq_true, if_false, Bool.false_and]
  cases hu : c.store.tryUpdate su k v cf { d := ttl, created := now } with
  | mk s' r =>
    rw [hu] at h
    simp only at h
    obtain ⟨h1, h2⟩ := h
    subst h2
    simp only
    split <;> simpa using h1

/-- **a sweep never touches an entry without TTL or one that has not expired** (the re-check in
the sweep, independent of the bucket bookkeeping). -/
theorem sweep_only_expired (c : Cache) (now : Nat) (keys : List (Nat × Nat)) (acc : List CB)
    (j : Nat) (e : Entry) (he : c.store.items.get j = some e)
    (hlive : e.exp.d = 0 ∨ now < e.exp.created + e.exp.d) :
    (c.sweepKeys now keys acc).1.store.items.get j = some e := by
  induction keys generalizing c acc with
  | nil => simpa [Cache.sweepKeys] using he
  | cons p rest ih =>
    obtain ⟨k, cf⟩ := p
    simp only [Cache.sweepKeys]
    apply ih
    rw [Cache.sweepOne_get]
    split
    · rename_i hh
      obtain ⟨hjk, hsome⟩ := hh
      subst hjk
      obtain ⟨cb, hcb⟩ := Option.isSome_iff_exists.mp hsome
      obtain ⟨e', he', hdue, _, _⟩ := (Cache.sweepOne_removed_iff c now j cf cb).mp hcb
      rw [he] at he'
      have : e = e' := by simpa using he'
      subst this
      simp only [Time.isZero, Time.isExpired, Bool.and_eq_true, Bool.not_eq_true',
        beq_eq_false_iff_ne, ne_eq, decide_eq_true_eq] at hdue
      rcases hlive with h0 | h1 <;> omega
    · exact he

-- non-vacuity -------------------------------------------------------------------------------
example : (Store.get { items := [(7, ⟨0, 42, ⟨1000, 5⟩⟩)], em := [] } 7 0 1004) = some 42 ∧
          (Store.get { items := [(7, ⟨0, 42, ⟨1000, 5⟩⟩)], em := [] } 7 0 1005) = none ∧
          (Store.getTtl { items := [(7, ⟨0, 42, ⟨1000, 5⟩⟩)], em := [] } 7 0 1004) = some (some 1) := by
  decide

end Stretto.C03

#print axioms Stretto.C03.expired_invisible
#print axioms Stretto.C03.cache_expired_invisible
#print axioms Stretto.C03.ttl_remaining
#print axioms Stretto.C03.ttl_antitone
#print axioms Stretto.C03.no_ttl_never_invisible
#print axioms Stretto.C03.reinsert_replaces_deadline
#print axioms Stretto.C03.insert_records_now
#print axioms Stretto.C03.sweep_only_expired
