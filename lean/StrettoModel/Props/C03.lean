import StrettoModel.Proofs.Cache
import StrettoModel.Proofs.Deadlines
/-!
# C03 — TTL visibility: nothing is served after its TTL, nothing expires without one

Quantification: every store state, every key / conflict, every time `now` (nanoseconds, so every
placement relative to second boundaries), every TTL. `Time.d = 0` means "no TTL".
-/
namespace Stretto.C03
open Stretto

/-- **expired_invisible**: once `d > 0` nanoseconds have elapsed since the write that created the
resident entry, no lookup path serves it: `get`, `get_mut`, `get_ttl` all answer "absent". -/
theorem expired_invisible (s : Store) (k cf now : Nat) (e : Entry)
    (he : s.items.get k = some e) (hd : 0 < e.exp.d) (hexp : e.exp.created + e.exp.d ≤ now) :
    s.get k cf now = none ∧ s.getTtl k cf now = none ∧ (s.getMutWrite k cf now 0).2 = none := by
  have hl := Store.lookup_expired s k cf now e he hd hexp
  simp [Store.get, Store.getTtl, Store.getMutWrite, hl]

/-- the same through the cache's own `get` / `get_mut` / `get_ttl` -/
theorem cache_expired_invisible (c : Cache) (k cf now v : Nat) (e : Entry)
    (he : c.store.items.get k = some e) (hd : 0 < e.exp.d) (hexp : e.exp.created + e.exp.d ≤ now) :
    (c.get k cf now).2 = none ∧ c.getTtl k cf now = none ∧ (c.getMutWrite k cf now v).2 = none := by
  have hl := Store.lookup_expired c.store k cf now e he hd hexp
  refine ⟨?_, ?_, ?_⟩
  · unfold Cache.get
    split
    · rfl
    · simp [Store.get, hl]
  · simp [Cache.getTtl, Store.getTtl, hl]
  · unfold Cache.getMutWrite
    split
    · rfl
    · simp [Store.getMutWrite, hl]

/-- **ttl_remaining**: an entry served at `now` with TTL `d` reports exactly `d - (now - created)`,
which is positive, at most `d`, and never increases with time. -/
theorem ttl_remaining (s : Store) (k cf now : Nat) (e : Entry)
    (hl : s.lookup k cf now = some e) (hd : 0 < e.exp.d) (hc : e.exp.created ≤ now) :
    s.getTtl k cf now = some (some (e.exp.d - (now - e.exp.created))) ∧
    0 < e.exp.d - (now - e.exp.created) ∧ e.exp.d - (now - e.exp.created) ≤ e.exp.d := by
  -- a served entry with a TTL has not expired
  have hne : ¬ (now - e.exp.created ≥ e.exp.d) := by
    have := (Store.lookup_some s k cf now e hl).2.2
    rcases this with h0 | h1
    · omega
    · intro h; exact h1 ⟨hc, h⟩
  refine ⟨?_, by omega, by omega⟩
  simp only [Store.getTtl, hl, Option.map_some, Time.getTtl]
  have : (e.exp.d == 0) = false := by simp; omega
  simp [this, hne]

theorem ttl_antitone (d created now now' : Nat) (h : now ≤ now') :
    d - (now' - created) ≤ d - (now - created) := by omega

/-- **no_ttl_reports_none**: an entry written without TTL is visible at every time and reports
"no expiry" (`Duration::MAX`). -/
theorem no_ttl_never_invisible (s : Store) (k cf now : Nat) (e : Entry)
    (he : s.items.get k = some e) (hd : e.exp.d = 0) (hcf : Store.conflictOk cf e = true) :
    s.lookup k cf now = some e ∧ s.getTtl k cf now = some none := by
  have hl : s.lookup k cf now = some e := by
    unfold Store.lookup
    simp [he, hcf, Time.isZero, hd]
  exact ⟨hl, by simp [Store.getTtl, hl, Time.getTtl, hd]⟩

/-- **reinsert_replaces_deadline**: an insert of a resident key that passes the conflict check and
the validator stores exactly the new `(ttl, now)`: with a TTL the new deadline applies, without one
the entry no longer expires (and its value is the new one, at once). -/
theorem reinsert_replaces_deadline (s : Store) (su : Nat → Nat → Bool) (k v cf : Nat) (t : Time)
    (e : Entry) (he : s.items.get k = some e) (hcf : Store.conflictOk cf e = true)
    (hsu : su e.val v = true) :
    ((s.tryUpdate su k v cf t).1.items.get k) = some { e with val := v, exp := t } ∧
    (s.tryUpdate su k v cf t).2 = .update e.val := by
  unfold Store.tryUpdate
  simp [he, hcf, hsu]

/-- the clock value stored is the one of the call (`Time::now()` inside `try_update`) -/
theorem insert_records_now (c : Cache) (su : Nat → Nat → Bool) (k cf v : Nat) (cost : Int)
    (ttl now : Nat) (coster : Int) (e : Entry) (hopen : c.closed = false)
    (he : c.store.items.get k = some e) (hcf : Store.conflictOk cf e = true)
    (hsu : su e.val v = true) :
    ((c.insert su k cf v cost ttl now coster false).1.store.items.get k) =
      some { e with val := v, exp := { d := ttl, created := now } } := by
  have h := reinsert_replaces_deadline c.store su k v cf { d := ttl, created := now } e he hcf hsu
  unfold Cache.insert Cache.insertBody
  simp only [hopen, Bool.false_eq_true, if_false, Bool.false_and]
  cases hu : c.store.tryUpdate su k v cf { d := ttl, created := now } with
  | mk s' r =>
    rw [hu] at h
    simp only at h
    obtain ⟨h1, h2⟩ := h
    subst h2
    simp only
    split <;> simpa using h1

/-- **a sweep never touches an entry without TTL or one that has not expired** (the re-check in
the sweep, independent of the bucket bookkeeping). -/
theorem sweep_only_expired (c : Cache) (now : Nat) (keys : List (Nat × Nat)) (acc : List CB)
    (j : Nat) (e : Entry) (he : c.store.items.get j = some e)
    (hlive : e.exp.d = 0 ∨ now < e.exp.created + e.exp.d) :
    (c.sweepKeys now keys acc).1.store.items.get j = some e := by
  induction keys generalizing c acc with
  | nil => simpa [Cache.sweepKeys] using he
  | cons p rest ih =>
    obtain ⟨k, cf⟩ := p
    simp only [Cache.sweepKeys]
    apply ih
    rw [Cache.sweepOne_get]
    split
    · rename_i hh
      obtain ⟨hjk, hsome⟩ := hh
      subst hjk
      obtain ⟨cb, hcb⟩ := Option.isSome_iff_exists.mp hsome
      obtain ⟨e', he', hdue, _, _⟩ := (Cache.sweepOne_removed_iff c now j cf cb).mp hcb
      rw [he] at he'
      have : e = e' := by simpa using he'
      subst this
      simp only [Time.isZero, Time.isExpired, Bool.and_eq_true, Bool.not_eq_true',
        beq_eq_false_iff_ne, ne_eq, decide_eq_true_eq] at hdue
      rcases hlive with h0 | h1 <;> omega
    · exact he

-- non-vacuity -------------------------------------------------------------------------------
example : (Store.get { items := [(7, ⟨0, 42, ⟨1000, 5⟩⟩)], em := [] } 7 0 1004) = some 42 ∧
          (Store.get { items := [(7, ⟨0, 42, ⟨1000, 5⟩⟩)], em := [] } 7 0 1005) = none ∧
          (Store.getTtl { items := [(7, ⟨0, 42, ⟨1000, 5⟩⟩)], em := [] } 7 0 1004) = some (some 1) := by
  decide

-- "since that insert": the deadline in force is the one the write carried ---------------------------

/-- what a lookup serves at time `now` was written under that key with a deadline that has not passed -/
def Live (t : Time) (now : Nat) : Prop := t.d = 0 ∨ ¬ (now ≥ t.created ∧ now - t.created ≥ t.d)

theorem live_before_deadline (t : Time) (now : Nat) (h : Live t now) (hclock : t.created ≤ now) (hd : t.d ≠ 0) :
    now < t.created + t.d := by
  rcases h with h | h
  · exact absurd h hd
  · omega

/-- **never served after the TTL given with the value — over every run**: after any run of any actors
from the builder's state, whatever `get` returns for key `k` at time `now` is a value some call wrote
under `k`, and the deadline *that write carried* (an insert's own `(ttl, now)`; for a write through
`get_mut`, the deadline of the entry it overwrote) has not passed at `now` — vetoed re-inserts, other
keys sharing the second, cleanups, evictions and re-admissions in between notwithstanding. -/
theorem served_within_the_writers_ttl (su : Nat → Nat → Bool) (cfg : Cfg) (maxCost : Int) (samples : Nat)
    (acts : List Act) (k cf now v : Nat)
    (hget : ((Cache.run su (Cache.init cfg maxCost samples) acts).get k cf now).2 = some v) :
    ∃ t, (k, v, t) ∈ Deadlines.writesExec su (Cache.init cfg maxCost samples) acts ∧ Live t now := by
  have hp : Deadlines.ProvT (fun _ => true) [] (Cache.init cfg maxCost samples) :=
    ⟨(fun k e _ he => by simp [Cache.init, Store.empty] at he),
     (fun k cf cost v exp _ hm => by simp [Cache.init] at hm)⟩
  have hprov := Deadlines.exec_provT su _ acts [] _ hp
  simp only [List.nil_append] at hprov
  generalize Cache.run su (Cache.init cfg maxCost samples) acts = c at hget hprov
  unfold Cache.get at hget
  split at hget
  · cases hget
  · simp only [Cache.ringPush_store] at hget
    cases hl : c.store.lookup k cf now with
    | none => simp [Store.get, hl] at hget
    | some e =>
      obtain ⟨he, _, hlive⟩ := Store.lookup_some c.store k cf now e hl
      have hv : e.val = v := by simpa [Store.get, hl] using hget
      subst hv
      exact ⟨e.exp, hprov.resident k e rfl he, hlive⟩

/-- the same for the value `get_mut` hands out, and `get_ttl` reports the time left to the writer's
deadline -/
theorem get_mut_within_the_writers_ttl (su : Nat → Nat → Bool) (cfg : Cfg) (maxCost : Int) (samples : Nat)
    (acts : List Act) (k cf now w old : Nat)
    (hget : ((Cache.run su (Cache.init cfg maxCost samples) acts).getMutWrite k cf now w).2 = some old) :
    ∃ t, (k, old, t) ∈ Deadlines.writesExec su (Cache.init cfg maxCost samples) acts ∧ Live t now := by
  have hp : Deadlines.ProvT (fun _ => true) [] (Cache.init cfg maxCost samples) :=
    ⟨(fun k e _ he => by simp [Cache.init, Store.empty] at he),
     (fun k cf cost v exp _ hm => by simp [Cache.init] at hm)⟩
  have hprov := Deadlines.exec_provT su _ acts [] _ hp
  simp only [List.nil_append] at hprov
  generalize Cache.run su (Cache.init cfg maxCost samples) acts = c at hget hprov
  unfold Cache.getMutWrite at hget
  split at hget
  · cases hget
  · simp only [Cache.ringPush_store] at hget
    unfold Store.getMutWrite at hget
    cases hl : c.store.lookup k cf now with
    | none => simp [hl] at hget
    | some e =>
      obtain ⟨he, _, hlive⟩ := Store.lookup_some c.store k cf now e hl
      have hv : e.val = old := by simpa [hl] using hget
      subst hv
      exact ⟨e.exp, hprov.resident k e rfl he, hlive⟩

theorem get_ttl_is_the_writers (su : Nat → Nat → Bool) (cfg : Cfg) (maxCost : Int) (samples : Nat)
    (acts : List Act) (k cf now : Nat) (r : Option Nat)
    (hget : (Cache.run su (Cache.init cfg maxCost samples) acts).getTtl k cf now = some r) :
    ∃ v t, (k, v, t) ∈ Deadlines.writesExec su (Cache.init cfg maxCost samples) acts ∧ Live t now ∧
      r = t.getTtl now := by
  have hp : Deadlines.ProvT (fun _ => true) [] (Cache.init cfg maxCost samples) :=
    ⟨(fun k e _ he => by simp [Cache.init, Store.empty] at he),
     (fun k cf cost v exp _ hm => by simp [Cache.init] at hm)⟩
  have hprov := Deadlines.exec_provT su _ acts [] _ hp
  simp only [List.nil_append] at hprov
  generalize Cache.run su (Cache.init cfg maxCost samples) acts = c at hget hprov
  unfold Cache.getTtl Store.getTtl at hget
  cases hl : c.store.lookup k cf now with
  | none => simp [hl] at hget
  | some e =>
    obtain ⟨he, _, hlive⟩ := Store.lookup_some c.store k cf now e hl
    simp only [hl, Option.map_some, Option.some.injEq] at hget
    exact ⟨e.val, e.exp, hprov.resident k e rfl he, hlive, hget.symm⟩


-- non-vacuity: a key inserted with a 5 ns TTL at time 10, re-inserted under a vetoing validator with no TTL:
-- the value served at time 12 is the first one and its writer's deadline (15) has not passed
def exCfg3 : Cfg := { itemSize := 56, ignoreInternal := false, bufCap := 4, ringCap := 2, pqCap := some 3, metricsOn := false }
def exActs3 : List Act := [.insert 3 0 77 1 5 10 0 false, .procItem (fun _ => 0) [], .insert 3 0 78 1 0 11 0 false]
example : ((Cache.run (fun _ _ => false) (Cache.init exCfg3 1000 5) exActs3).get 3 0 12).2 = some 77 := by decide
example : ((Cache.run (fun _ _ => false) (Cache.init exCfg3 1000 5) exActs3).get 3 0 15).2 = none := by decide
example : (Deadlines.writesExec (fun _ _ => false) (Cache.init exCfg3 1000 5) exActs3).map
    (fun p => (p.1, p.2.1, p.2.2.d, p.2.2.created)) = [(3, 77, 5, 10), (3, 78, 0, 11)] := by decide

end Stretto.C03

#print axioms Stretto.C03.expired_invisible
#print axioms Stretto.C03.cache_expired_invisible
#print axioms Stretto.C03.ttl_remaining
#print axioms Stretto.C03.ttl_antitone
#print axioms Stretto.C03.no_ttl_never_invisible
#print axioms Stretto.C03.reinsert_replaces_deadline
#print axioms Stretto.C03.insert_records_now
#print axioms Stretto.C03.sweep_only_expired
#print axioms Stretto.C03.served_within_the_writers_ttl
#print axioms Stretto.C03.get_mut_within_the_writers_ttl
#print axioms Stretto.C03.get_ttl_is_the_writers
