import StrettoModel.Proofs.TinyLFU
import StrettoModel.Proofs.Cache
import StrettoModel.Proofs.Gets
import StrettoModel.Proofs.Frames
import StrettoModel.Model.Lts
/-!
# C15 — Lookups feed the popularity estimator, lossily but accountably

Quantification: every cache state, every key, every `buffer_items` (0 and 1 included), bounded and
unbounded policy queue. What the policy worker does with a kept batch is C13's subject
(`TinyLFU.increments`); the link is `kept_batch_reaches_estimator`.
-/
namespace Stretto.C15
open Stretto

/-- outcome of recording one lookup -/
inductive Recorded (c c' : Cache) (k : Nat) : Prop
  /-- the batch is not full yet: the key waits in the ring -/
  | pending : c'.ring = c.ring ++ [k] → (c.ring ++ [k]).length < c.cfg.ringCap → c'.pq = c.pq →
      c'.metrics = c.metrics → Recorded c c' k
  /-- the batch was flushed and kept: queued for the policy worker, counted once as kept -/
  | kept : c'.ring = [] → c'.pq = c.pq ++ [c.ring ++ [k]] →
      (c.cfg.metricsOn = true → c'.metrics = { c.metrics with keepGets := u64 (c.metrics.keepGets + (c.ring ++ [k]).length) }) →
      Recorded c c' k
  /-- the batch was flushed and lost because the bounded queue was full: counted once as dropped -/
  | dropped : c'.ring = [] → c'.pq = c.pq → (∃ cap, c.cfg.pqCap = some cap ∧ cap ≤ c.pq.length) →
      (c.cfg.metricsOn = true → c'.metrics = { c.metrics with dropGets := u64 (c.metrics.dropGets + (c.ring ++ [k]).length) }) →
      Recorded c c' k
  /-- the policy is closed: the batch is discarded, uncounted -/
  | closed : c'.ring = [] → c'.pq = c.pq → c.policyClosed = true → c'.metrics = c.metrics → Recorded c c' k

/-- **every_lookup_recorded / flush_when_full / flush_accounted_once / lost_only_if_full_or_closed**:
`RingStripe::push` appends the key and, exactly when the batch has reached `buffer_items`, flushes
the whole batch, which is then accounted exactly once — kept or dropped — unless the policy is
closed; it is dropped only when the bounded queue is full. -/
theorem ring_push_recorded (c : Cache) (k : Nat) : Recorded c (c.ringPush k) k := by
  unfold Cache.ringPush
  simp only []
  by_cases hfull : (c.ring ++ [k]).length ≥ c.cfg.ringCap
  · simp only [hfull, if_true]
    by_cases hcl : c.policyClosed = true
    · simp only [hcl, if_true]
      exact Recorded.closed rfl rfl hcl rfl
    · simp only [hcl]
      cases hq : c.cfg.pqCap with
      | none =>
        simp only [if_true, Bool.false_eq_true, if_false]
        refine Recorded.kept (by simp) (by simp) ?_
        intro hm; simp [Cache.met_metrics, hm]
      | some cap =>
        simp only [Bool.false_eq_true, if_false]
        by_cases hroom : c.pq.length < cap
        · simp only [hroom, decide_true, if_true]
          refine Recorded.kept (by simp) (by simp) ?_
          intro hm; simp [Cache.met_metrics, hm]
        · simp only [hroom, decide_false, Bool.false_eq_true, if_false]
          refine Recorded.dropped (by simp) (by simp) ⟨cap, hq, by omega⟩ ?_
          intro hm; simp [Cache.met_metrics, hm]
  · simp only [hfull, if_false]
    exact Recorded.pending rfl (by omega) rfl rfl

/-- every `get` / `get_mut` on an open cache records its key before consulting the store, hit or miss -/
theorem get_records (c : Cache) (k cf now : Nat) (hopen : c.closed = false) :
    (c.get k cf now).1.ring = (c.ringPush k).ring ∧ (c.get k cf now).1.pq = (c.ringPush k).pq := by
  unfold Cache.get
  simp only [hopen, Bool.false_eq_true, if_false]
  split <;> simp

theorem get_mut_records (c : Cache) (k cf now v : Nat) (hopen : c.closed = false) :
    (c.getMutWrite k cf now v).1.ring = (c.ringPush k).ring ∧
    (c.getMutWrite k cf now v).1.pq = (c.ringPush k).pq := by
  unfold Cache.getMutWrite
  simp only [hopen, Bool.false_eq_true, if_false]
  split <;> simp

/-- with `buffer_items` 0 or 1 every lookup is its own batch -/
theorem tiny_ring_flushes_each_lookup (c : Cache) (k : Nat) (h : c.cfg.ringCap ≤ 1) (hr : c.ring = []) :
    (c.ringPush k).ring = [] ∧ (c.policyClosed = false → (∀ cap, c.cfg.pqCap = some cap → c.pq.length < cap) →
      (c.ringPush k).pq = c.pq ++ [[k]]) := by
  have := ring_push_recorded c k
  cases this with
  | pending _ hlt _ _ => simp [hr] at hlt; omega
  | kept h1 h2 _ => exact ⟨h1, fun _ _ => by simpa [hr] using h2⟩
  | dropped h1 _ hcap _ =>
    refine ⟨h1, fun _ hroom => ?_⟩
    obtain ⟨cap, hc, hle⟩ := hcap
    have := hroom cap hc; omega
  | closed h1 _ hcl _ => exact ⟨h1, fun ho _ => by rw [ho] at hcl; cases hcl⟩

/-- the unbounded queue of the async flavour never drops a batch -/
theorem unbounded_queue_never_drops (c : Cache) (k : Nat) (hq : c.cfg.pqCap = none) :
    (c.ringPush k).metrics.dropGets = c.metrics.dropGets := by
  have := ring_push_recorded c k
  cases this with
  | pending _ _ _ hm => rw [hm]
  | kept _ _ hm =>
    by_cases hon : c.cfg.metricsOn = true
    · rw [hm hon]
    · unfold Cache.ringPush; simp only []; split
      · split
        · rfl
        · simp [hq, Cache.met_metrics, hon]
      · rfl
  | dropped _ _ hcap _ => obtain ⟨cap, hc, _⟩ := hcap; rw [hq] at hc; cases hc
  | closed _ _ _ hm => rw [hm]

/-- **kept_batch_reaches_estimator**: the policy worker takes the batches in FIFO order, one per
step, and hands the whole batch to `TinyLFU::increments` -/
theorem worker_takes_oldest_batch (c : Cache) (b : List Nat) (rest : List (List Nat)) (h : c.pq = b :: rest) :
    c.policyWorkerStep = some ({ c with pq := rest }, b) := by
  simp [Cache.policyWorkerStep, h]

/-- and after `increments` of a batch on a well-formed estimator (C13's invariant) every key of the
batch estimates at least as many hits as it has occurrences since the last aging reset -/
theorem kept_batch_reaches_estimator (t : TinyLFU) (since batch : List Nat) (hinv : TinyLFU.Inv t since) :
    ∃ t' since', TinyLFU.runG t since batch = some (t', since') ∧
      ∀ k, ∃ e, t'.estimate k = some e ∧ min (since'.count k) 16 ≤ e := by
  obtain ⟨t', s', hrun, hinv'⟩ := TinyLFU.runG_inv t since batch hinv
  exact ⟨t', s', hrun, fun k => by
    obtain ⟨e, he, hle, _⟩ := TinyLFU.estimate_of_inv t' s' hinv' k
    exact ⟨e, he, hle⟩⟩

-- every lookup accounted, over whole runs -------------------------------------------------------------

/-- ghost: the number of lookups (`get`, `get_mut`) made on the open cache since the last served
`clear()` — at a served `clear()` the count restarts from the keys still pending in the batch, which a
clear does not discard -/
def ghostKD (c : Cache) (n : Nat) : Act → Nat
  | .get _ _ _ => if c.closed then n else n + 1
  | .getMut _ _ _ _ => if c.closed then n else n + 1
  | .procClear => if c.procClear.isSome then c.ring.length else n
  | _ => n

def lookupsAccounted (su : Nat → Nat → Bool) : Cache → Nat → List Act → Nat
  | _, n, [] => n
  | c, n, a :: rest => lookupsAccounted su ((c.step su a).getD c) (ghostKD c n a) rest

/-- while the policy is open: `gets_kept + gets_dropped + #pending = lookups`, mod 2^64 -/
def KD (c : Cache) (n : Nat) : Prop :=
  c.cfg.metricsOn = true → c.policyClosed = false →
    ((c.metrics.keepGets : Int) + c.metrics.dropGets + c.ring.length - n) % 18446744073709551616 = 0

theorem kd_transfer (c c' : Cache) (n : Nat) (h : c'.kd = c.kd) (hf : c'.cfg = c.cfg) (hi : KD c n) : KD c' n := by
  intro hon hp
  have h1 : c'.metrics.keepGets = c.metrics.keepGets := congrArg (·.1) h
  have h2 : c'.metrics.dropGets = c.metrics.dropGets := congrArg (·.2.1) h
  have h3 : c'.ring = c.ring := congrArg (·.2.2.1) h
  have h4 : c'.policyClosed = c.policyClosed := congrArg (·.2.2.2) h
  rw [h1, h2, h3]
  exact hi (by rw [← hf]; exact hon) (by rw [← h4]; exact hp)

theorem ringPush_KD (c : Cache) (k n : Nat) (hi : KD c n) : KD (c.ringPush k) (n + 1) := by
  intro hon hp
  have hon' : c.cfg.metricsOn = true := by rw [← Cache.ringPush_cfg c k]; exact hon
  unfold Cache.ringPush at hp ⊢
  simp only [] at hp ⊢
  by_cases hfull : (c.ring ++ [k]).length ≥ c.cfg.ringCap
  · simp only [hfull, if_true] at hp ⊢
    by_cases hcl : c.policyClosed = true
    · simp [hcl] at hp
    · have hcl' : c.policyClosed = false := by simpa using hcl
      have h0 := hi hon' hcl'
      simp only [hcl', Bool.false_eq_true, if_false] at hp ⊢
      have hk := u64_cast ((c.metrics.keepGets : Int) + ((c.ring ++ [k]).length : Nat))
      have hd := u64_cast ((c.metrics.dropGets : Int) + ((c.ring ++ [k]).length : Nat))
      simp only [List.length_append, List.length_cons, List.length_nil] at hk hd
      cases hq : c.cfg.pqCap with
      | none =>
        simp only [if_true, Cache.met_metrics, Cache.met_ring, hon', List.length_nil,
          List.length_append, List.length_cons]
        omega
      | some cap =>
        simp only []
        by_cases hroom : c.pq.length < cap
        · simp only [hroom, decide_true, if_true, Cache.met_metrics, Cache.met_ring, hon', List.length_nil,
            List.length_append, List.length_cons]
          omega
        · simp only [hroom, decide_false, Bool.false_eq_true, if_false, Cache.met_metrics, Cache.met_ring, hon', if_true,
            List.length_nil, List.length_append, List.length_cons]
          omega
  · simp only [hfull, if_false] at hp ⊢
    have h0 := hi hon' hp
    simp only [List.length_append, List.length_cons, List.length_nil]
    omega

theorem get_KD (c : Cache) (k cf now n : Nat) (hi : KD c n) :
    KD (c.get k cf now).1 (if c.closed then n else n + 1) := by
  unfold Cache.get
  split
  · exact hi
  · have h1 := ringPush_KD c k n hi
    simp only []
    split
    · exact kd_transfer _ _ _ (by rw [Cache.met_kd]; intro m; exact ⟨rfl, rfl⟩) (by simp) h1
    · exact kd_transfer _ _ _ (by rw [Cache.met_kd]; intro m; exact ⟨rfl, rfl⟩) (by simp) h1

theorem getMut_KD (c : Cache) (k cf now v n : Nat) (hi : KD c n) :
    KD (c.getMutWrite k cf now v).1 (if c.closed then n else n + 1) := by
  unfold Cache.getMutWrite
  split
  · exact hi
  · have h1 := ringPush_KD c k n hi
    simp only []
    split
    · exact kd_transfer _ _ _ (by rw [Cache.met_kd]; intro m; exact ⟨rfl, rfl⟩) (by simp) h1
    · exact kd_transfer _ _ _ ((Cache.met_kd _ _ (by intro m; exact ⟨rfl, rfl⟩)).trans rfl) (by simp) h1

/-- one step of any actor keeps the accounting -/
theorem step_KD (su : Nat → Nat → Bool) (c c' : Cache) (a : Act) (n : Nat) (hs : c.step su a = some c')
    (hi : KD c n) : KD c' (ghostKD c n a) := by
  have hcfg := step_cfg su c c' a hs
  cases a with
  | insert k cf v cost ttl now coster only =>
    simp only [Cache.step, Option.some.injEq] at hs; subst hs
    exact kd_transfer c _ n (Cache.insert_kd ..) hcfg hi
  | get k cf now =>
    simp only [Cache.step, Option.some.injEq] at hs; subst hs
    exact get_KD c k cf now n hi
  | getMut k cf now v =>
    simp only [Cache.step, Option.some.injEq] at hs; subst hs
    exact getMut_KD c k cf now v n hi
  | remove k cf =>
    simp only [Cache.step, Option.some.injEq] at hs; subst hs
    exact kd_transfer c _ n (Cache.remove_kd ..) hcfg hi
  | waitEnq id =>
    simp only [Cache.step, Option.some.injEq] at hs; subst hs
    exact kd_transfer c _ n (Cache.waitEnq_kd ..) hcfg hi
  | clearReq id =>
    simp only [Cache.step, Option.some.injEq] at hs; subst hs
    exact kd_transfer c _ n (Cache.clearReq_kd ..) hcfg hi
  | closeBegin id =>
    simp only [Cache.step, Option.some.injEq] at hs; subst hs
    exact kd_transfer c _ n (Cache.closeBegin_kd ..) hcfg hi
  | updateMaxCost mc =>
    simp only [Cache.step, Option.some.injEq] at hs; subst hs
    exact kd_transfer c _ n rfl hcfg hi
  | procItem est refills =>
    simp only [Cache.step, Cache.procItem] at hs
    split at hs
    · cases hs
    · split at hs
      · cases hs
      · simp only [Option.some.injEq] at hs; subst hs
        exact kd_transfer c _ n ((Cache.handleItem_kd ..).trans ((Cache.admitPending_kd _).trans rfl)) hcfg hi
  | procClear =>
    simp only [ghostKD]
    simp only [Cache.step] at hs
    rw [hs]
    simp only [Option.isSome_some, if_true]
    unfold Cache.procClear at hs
    split at hs
    · cases hs
    · split at hs
      · cases hs
      · rename_i id rest _
        simp only [Option.some.injEq] at hs; subst hs
        have hd := Cache.drain_kd c.buf ({ c with buf := [], clearQ := rest } : Cache)
        have hr : (c.buf.foldl Cache.drainItem ({ c with buf := [], clearQ := rest } : Cache)).ring = c.ring :=
          congrArg (·.2.2.1) hd
        intro _ _
        simp only [hr]
        show ((0 : Int) + 0 + c.ring.length - c.ring.length) % 18446744073709551616 = 0
        omega
  | procTick now order =>
    simp only [Cache.step, Cache.procTick] at hs
    split at hs
    · cases hs
    · simp only [Option.some.injEq] at hs; subst hs
      exact kd_transfer c _ n ((Cache.deliverEvictions_kd _ _).trans ((Cache.sweepKeys_kd ..).trans rfl)) hcfg hi
  | procStop =>
    simp only [Cache.step, Cache.procStop] at hs
    split at hs
    · cases hs
    · simp only [Option.some.injEq] at hs; subst hs
      exact kd_transfer c _ n rfl hcfg hi
  | policyWorker =>
    simp only [Cache.step, Cache.policyWorkerStep] at hs
    cases hp : c.pq with
    | nil => simp [hp] at hs
    | cons b rest =>
      simp only [hp, Option.map_some, Option.some.injEq] at hs; subst hs
      exact kd_transfer c _ n rfl hcfg hi
  | policyClose =>
    simp only [Cache.step, Option.some.injEq] at hs; subst hs
    intro _ hp
    simp [Cache.policyClose] at hp

theorem ghostKD_disabled (su : Nat → Nat → Bool) (c : Cache) (n : Nat) (a : Act) (hs : c.step su a = none) :
    ghostKD c n a = n := by
  cases a with
  | procClear => simp only [Cache.step] at hs; simp [ghostKD, hs]
  | get k cf now => simp [Cache.step] at hs
  | getMut k cf now v => simp [Cache.step] at hs
  | _ => rfl

/-- **every lookup is accounted exactly once, over every run**: after any run of any actors from the
builder's state, as long as the policy has not been closed, `gets_kept + gets_dropped` plus the keys
still pending in the batch equals (mod 2^64) the number of lookups made on the open cache since the
last served `clear()` — no lookup is counted twice, none disappears uncounted. -/
theorem lookups_accounted (su : Nat → Nat → Bool) (cfg : Cfg) (maxCost : Int) (samples : Nat) (acts : List Act)
    (hon : cfg.metricsOn = true)
    (hopen : (Cache.run su (Cache.init cfg maxCost samples) acts).policyClosed = false) :
    let c := Cache.run su (Cache.init cfg maxCost samples) acts
    ((c.metrics.keepGets : Int) + c.metrics.dropGets + c.ring.length
      - lookupsAccounted su (Cache.init cfg maxCost samples) 0 acts) % 18446744073709551616 = 0 := by
  intro c
  have gen : ∀ (acts : List Act) (c0 : Cache) (n : Nat), KD c0 n →
      KD (Cache.run su c0 acts) (lookupsAccounted su c0 n acts) := by
    intro acts
    induction acts with
    | nil => intro c0 n h; exact h
    | cons a rest ih =>
      intro c0 n h
      simp only [Cache.run, lookupsAccounted]
      apply ih
      cases hs : c0.step su a with
      | none => rw [ghostKD_disabled su c0 n a hs]; exact h
      | some c1 => exact step_KD su c0 c1 a n hs h
  have h0 : KD (Cache.init cfg maxCost samples) 0 := by intro _ _; simp [Cache.init]
  have := gen acts _ 0 h0
  apply this
  · show (Cache.run su (Cache.init cfg maxCost samples) acts).cfg.metricsOn = true
    rw [run_cfg]; exact hon
  · exact hopen


-- non-vacuity ---------------------------------------------------------------------------------
def exCfg : Cfg := { itemSize := 56, ignoreInternal := false, bufCap := 4, ringCap := 2, pqCap := some 1, metricsOn := true }
example : (((Cache.init exCfg 100 5).ringPush 7).ringPush 8).pq = [[7, 8]] ∧
          (((((Cache.init exCfg 100 5).ringPush 7).ringPush 8).ringPush 9).ringPush 10).metrics.dropGets = 2 := by
  decide

-- `lookups_accounted` on a concrete run: ring of 2, queue of 1, no policy worker: three batches are
-- flushed (one kept, two dropped), one key is pending, seven lookups were made
def exLookups : List Act := [.get 1 0 0, .get 2 0 0, .get 1 0 0, .get 3 0 0, .getMut 4 0 0 9, .get 1 0 0, .get 5 0 0]
example : ((Cache.run (fun _ _ => true) (Cache.init exCfg 100 5) exLookups).metrics.keepGets,
           (Cache.run (fun _ _ => true) (Cache.init exCfg 100 5) exLookups).metrics.dropGets,
           (Cache.run (fun _ _ => true) (Cache.init exCfg 100 5) exLookups).ring.length,
           lookupsAccounted (fun _ _ => true) (Cache.init exCfg 100 5) 0 exLookups,
           (Cache.run (fun _ _ => true) (Cache.init exCfg 100 5) exLookups).policyClosed) = (2, 4, 1, 7, false) := by decide

end Stretto.C15

#print axioms Stretto.C15.ring_push_recorded
#print axioms Stretto.C15.get_records
#print axioms Stretto.C15.get_mut_records
#print axioms Stretto.C15.tiny_ring_flushes_each_lookup
#print axioms Stretto.C15.unbounded_queue_never_drops
#print axioms Stretto.C15.worker_takes_oldest_batch
#print axioms Stretto.C15.kept_batch_reaches_estimator
#print axioms Stretto.C15.step_KD
#print axioms Stretto.C15.lookups_accounted
