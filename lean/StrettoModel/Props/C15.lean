import StrettoModel.Proofs.TinyLFU
import StrettoModel.Proofs.Cache
/-!
# C15 — Lookups feed the popularity estimator, lossily but accountably

Quantification: every cache state, every key, every `buffer_items` (0 and 1 included), bounded and
unbounded policy queue. What the policy worker does with a kept batch is C13's subject
(`TinyLFU.increments`); the link is `kept_batch_reaches_estimator`.
-/
namespace Stretto.C15
open Stretto

/-- outcome of recording one lookup -/
inductive Recorded (c c' : Cache) (k : Nat) : Prop
  /-- the batch is not full yet: the key waits in the ring -/
  | pending : c'.ring = c.ring ++ [k] → (c.ring ++ [k]).length < c.cfg.ringCap → c'.pq = c.pq →
      c'.metrics = c.metrics → Recorded c c' k
  /-- the batch was flushed and kept: queued for the policy worker, counted once as kept -/
  | kept : c'.ring = [] → c'.pq = c.pq ++ [c.ring ++ [k]] →
      (c.cfg.metricsOn = true → c'.metrics = { c.metrics with keepGets := u64 (c.metrics.keepGets + (c.ring ++ [k]).length) }) →
      Recorded c c' k
  /-- the batch was flushed and lost because the bounded queue was full: counted once as dropped -/
  | dropped : c'.ring = [] → c'.pq = c.pq → (∃ cap, c.cfg.pqCap = some cap ∧ cap ≤ c.pq.length) →
      (c.cfg.metricsOn = true → c'.metrics = { c.metrics with dropGets := u64 (c.metrics.dropGets + (c.ring ++ [k]).length) }) →
      Recorded c c' k
  /-- the policy is closed: the batch is discarded, uncounted -/
  | closed : c'.ring = [] → c'.pq = c.pq → c.policyClosed = true → c'.metrics = c.metrics → Recorded c c' k

/-- **every_lookup_recorded / flush_when_full / flush_accounted_once / lost_only_if_full_or_closed**:
`RingStripe::push` appends the key and, exactly when the batch has reached `buffer_items`, flushes
the whole batch, which is then accounted exactly once — kept or dropped — unless the policy is
closed; it is dropped only when the bounded queue is full. -/
theorem ring_push_recorded (c : Cache) (k : Nat) : Recorded c (c.ringPush k) k := by
  unfold Cache.ringPush
  simp only []
  by_cases hfull : (c.ring ++ [k]).length ≥ c.cfg.ringCap
  · simp only [hfull, if_true]
    by_cases hcl : c.policyClosed = true
    · simp only [hcl, if_true]
      exact Recorded.closed rfl rfl hcl rfl
    · simp only [hcl]
      cases hq : c.cfg.pqCap with
      | none =>
        simp only [if_true, Bool.false_eq_true, if_false]
        refine Recorded.kept (by simp) (by simp) ?_
        intro hm; simp [Cache.met_metrics, hm]
      | some cap =>
        simp only [Bool.false_eq_true, if_false]
        by_cases hroom : c.pq.length < cap
        · simp only [hroom, decide_true, if_true]
          refine Recorded.kept (by simp) (by simp) ?_
          intro hm; simp [Cache.met_metrics, hm]
        · simp only [hroom, decide_false, Bool.false_eq_true, if_false]
          refine Recorded.dropped (by simp) (by simp) ⟨cap, hq, by omega⟩ ?_
          intro hm; simp [Cache.met_metrics, hm]
  · simp only [hfull, if_false]
    exact Recorded.pending rfl (by omega) rfl rfl

/-- every `get` / `get_mut` on an open cache records its key before consulting the store, hit or miss -/
theorem get_records (c : Cache) (k cf now : Nat) (hopen : c.closed = false) :
    (c.get k cf now).1.ring = (c.ringPush k).ring ∧ (c.get k cf now).1.pq = (c.ringPush k).pq := by
  unfold Cache.get
  simp only [hopen, Bool.false_eq_true, if_false]
  split <;> simp

theorem get_mut_records (c : Cache) (k cf now v : Nat) (hopen : c.closed = false) :
    (c.getMutWrite k cf now v).1.ring = (c.ringPush k).ring ∧
    (c.getMutWrite k cf now v).1.pq = (c.ringPush k).pq := by
  unfold Cache.getMutWrite
  simp only [hopen, Bool.false_eq_true, if_false]
  split <;> simp

/-- with `buffer_items` 0 or 1 every lookup is its own batch -/
theorem tiny_ring_flushes_each_lookup (c : Cache) (k : Nat) (h : c.cfg.ringCap ≤ 1) (hr : c.ring = []) :
    (c.ringPush k).ring = [] ∧ (c.policyClosed = false → (∀ cap, c.cfg.pqCap = some cap → c.pq.length < cap) →
      (c.ringPush k).pq = c.pq ++ [[k]]) := by
  have := ring_push_recorded c k
  cases this with
  | pending _ hlt _ _ => simp [hr] at hlt; omega
  | kept h1 h2 _ => exact ⟨h1, fun _ _ => by simpa [hr] using h2⟩
  | dropped h1 _ hcap _ =>
    refine ⟨h1, fun _ hroom => ?_⟩
    obtain ⟨cap, hc, hle⟩ := hcap
    have := hroom cap hc; omega
  | closed h1 _ hcl _ => exact ⟨h1, fun ho _ => by rw [ho] at hcl; cases hcl⟩

/-- the unbounded queue of the async flavour never drops a batch -/
theorem unbounded_queue_never_drops (c : Cache) (k : Nat) (hq : c.cfg.pqCap = none) :
    (c.ringPush k).metrics.dropGets = c.metrics.dropGets := by
  have := ring_push_recorded c k
  cases this with
  | pending _ _ _ hm => rw [hm]
  | kept _ _ hm =>
    by_cases hon : c.cfg.metricsOn = true
    · rw [hm hon]
    · unfold Cache.ringPush; simp only []; split
      · split
        · rfl
        · simp [hq, Cache.met_metrics, hon]
      · rfl
  | dropped _ _ hcap _ => obtain ⟨cap, hc, _⟩ := hcap; rw [hq] at hc; cases hc
  | closed _ _ _ hm => rw [hm]

/-- **kept_batch_reaches_estimator**: the policy worker takes the batches in FIFO order, one per
step, and hands the whole batch to `TinyLFU::increments` -/
theorem worker_takes_oldest_batch (c : Cache) (b : List Nat) (rest : List (List Nat)) (h : c.pq = b :: rest) :
    c.policyWorkerStep = some ({ c with pq := rest }, b) := by
  simp [Cache.policyWorkerStep, h]

/-- and after `increments` of a batch on a well-formed estimator (C13's invariant) every key of the
batch estimates at least as many hits as it has occurrences since the last aging reset -/
theorem kept_batch_reaches_estimator (t : TinyLFU) (since batch : List Nat) (hinv : TinyLFU.Inv t since) :
    ∃ t' since', TinyLFU.runG t since batch = some (t', since') ∧
      ∀ k, ∃ e, t'.estimate k = some e ∧ min (since'.count k) 16 ≤ e := by
  obtain ⟨t', s', hrun, hinv'⟩ := TinyLFU.runG_inv t since batch hinv
  exact ⟨t', s', hrun, fun k => by
    obtain ⟨e, he, hle, _⟩ := TinyLFU.estimate_of_inv t' s' hinv' k
    exact ⟨e, he, hle⟩⟩

-- non-vacuity ---------------------------------------------------------------------------------
def exCfg : Cfg := { itemSize := 56, ignoreInternal := false, bufCap := 4, ringCap := 2, pqCap := some 1, metricsOn := true }
example : (((Cache.init exCfg 100 5).ringPush 7).ringPush 8).pq = [[7, 8]] ∧
          (((((Cache.init exCfg 100 5).ringPush 7).ringPush 8).ringPush 9).ringPush 10).metrics.dropGets = 2 := by
  decide

end Stretto.C15

#print axioms Stretto.C15.ring_push_recorded
#print axioms Stretto.C15.get_records
#print axioms Stretto.C15.get_mut_records
#print axioms Stretto.C15.tiny_ring_flushes_each_lookup
#print axioms Stretto.C15.unbounded_queue_never_drops
#print axioms Stretto.C15.worker_takes_oldest_batch
#print axioms Stretto.C15.kept_batch_reaches_estimator
