import StrettoModel.Proofs.Cache
import StrettoModel.Props.C04
/-!
# C11 — clear() empties the cache and leaves it fully usable

`clear()` is: request (client) → the processor's clear iteration → return (client, once released).
Quantification: every cache state at the moment the processor serves the request — any amount of
buffered, not yet applied work, any resident set, any charges, expiry buckets, metrics.
-/
namespace Stretto.C11
open Stretto

/-- draining never touches anything but the callback log and the released set -/
theorem drain_frame (items : List Item) (c : Cache) :
    (items.foldl Cache.drainItem c).store = c.store ∧ (items.foldl Cache.drainItem c).lfu = c.lfu ∧
    (items.foldl Cache.drainItem c).buf = c.buf ∧ (items.foldl Cache.drainItem c).clearQ = c.clearQ ∧
    (items.foldl Cache.drainItem c).cfg = c.cfg ∧ (items.foldl Cache.drainItem c).closed = c.closed ∧
    (items.foldl Cache.drainItem c).ring = c.ring ∧ (items.foldl Cache.drainItem c).pq = c.pq ∧
    (items.foldl Cache.drainItem c).procExited = c.procExited ∧
    (items.foldl Cache.drainItem c).pendingSends = c.pendingSends := by
  induction items generalizing c with
  | nil => simp
  | cons it rest ih =>
    simp only [List.foldl_cons]
    have := ih (c.drainItem it)
    cases it <;> simpa [Cache.drainItem] using this

/-- **clear_empties**: right after the processor has served a clear request, the store, the expiry
index, the charges, `used`, the insert buffer and all metrics counters are empty / zero, whatever
was resident, buffered or counted before. -/
theorem clear_empties (c c' : Cache) (h : c.procClear = some c') :
    c'.store = Store.empty ∧ c'.lfu.costs = [] ∧ c'.lfu.used = 0 ∧ c'.buf = [] ∧
    c'.metrics = {} ∧ c'.store.len = 0 ∧ c'.lfu.maxCost = c.lfu.maxCost := by
  unfold Cache.procClear at h
  split at h
  · cases h
  · split at h
    · cases h
    · rename_i id rest hq
      simp only [Option.some.injEq] at h
      subst h
      have hf := drain_frame c.buf { c with buf := [], clearQ := rest }
      refine ⟨rfl, rfl, rfl, ?_, rfl, rfl, ?_⟩
      · simpa using hf.2.2.1
      · simp [Lfu.clear, hf.2.1]

/-- **clear_eq_init**: that state is the state of a freshly built cache with the same configuration
and `max_cost` on every component that influences future behaviour of inserts, lookups, removes,
admissions and sweeps (store, expiry index, policy charges, buffer, counters). What may differ: the
pending get batch, the policy queue, the popularity sketch, callbacks already delivered. -/
theorem clear_eq_init (c c' : Cache) (h : c.procClear = some c') :
    let f := Cache.init c.cfg c.lfu.maxCost c.lfu.samples
    c'.store = f.store ∧ c'.lfu = f.lfu ∧ c'.buf = f.buf ∧ c'.metrics = f.metrics ∧ c'.cfg = f.cfg := by
  obtain ⟨h1, h2, h3, h4, h5, _, h7⟩ := clear_empties c c' h
  unfold Cache.procClear at h
  split at h
  · cases h
  · split at h
    · cases h
    · rename_i id rest hq
      simp only [Option.some.injEq] at h
      have hf := drain_frame c.buf { c with buf := [], clearQ := rest }
      refine ⟨h1, ?_, h4, h5, ?_⟩
      · subst h; simp [Cache.init, Lfu.clear, hf.2.1]
      · subst h; simpa [Cache.init] using hf.2.2.2.2.1

/-- no value survives the clear: nothing is resident and nothing is buffered, so no value written
before the request was served can ever be applied or returned afterwards -/
theorem nothing_live_after_clear (c c' : Cache) (h : c.procClear = some c') (k cf now : Nat) :
    c'.store.get k cf now = none ∧ c'.buf = [] := by
  obtain ⟨h1, _, _, h4, _⟩ := clear_empties c c' h
  exact ⟨by simp [h1, Store.get, Store.lookup, Store.empty], h4⟩

/-- every buffered `New` value is handed to `on_evict` by the drain, every buffered wait marker is
released, and the requester is released -/
theorem drain_accounts (items : List Item) (c : Cache) :
    (∀ k cf cost v exp, Item.new k cf cost v exp ∈ items →
        CB.evict k cf v cost ∈ (items.foldl Cache.drainItem c).cbs) ∧
    (∀ id, Item.wait id ∈ items → id ∈ (items.foldl Cache.drainItem c).released) ∧
    (∀ cb ∈ c.cbs, cb ∈ (items.foldl Cache.drainItem c).cbs) ∧
    (∀ id ∈ c.released, id ∈ (items.foldl Cache.drainItem c).released) := by
  induction items generalizing c with
  | nil => simp
  | cons it rest ih =>
    simp only [List.foldl_cons, List.mem_cons]
    obtain ⟨i1, i2, i3, i4⟩ := ih (c.drainItem it)
    refine ⟨?_, ?_, ?_, ?_⟩
    · intro k cf cost v exp hm
      rcases hm with rfl | hm
      · exact i3 _ (by simp [Cache.drainItem])
      · exact i1 k cf cost v exp hm
    · intro id hm
      rcases hm with rfl | hm
      · exact i4 _ (by simp [Cache.drainItem])
      · exact i2 id hm
    · intro cb hcb
      apply i3
      cases it <;> simp [Cache.drainItem, hcb]
    · intro id hid
      apply i4
      cases it <;> simp [Cache.drainItem, hid]

theorem clear_releases_requester (c c' : Cache) (h : c.procClear = some c') :
    ∃ id rest, c.clearQ = id :: rest ∧ id ∈ c'.released ∧ c'.clearQ = rest ∧
      (∀ w, Item.wait w ∈ c.buf → w ∈ c'.released) := by
  unfold Cache.procClear at h
  split at h
  · cases h
  · split at h
    · cases h
    · rename_i id rest hq
      simp only [Option.some.injEq] at h
      subst h
      have hf := drain_frame c.buf { c with buf := [], clearQ := rest }
      have ha := drain_accounts c.buf { c with buf := [], clearQ := rest }
      refine ⟨id, rest, hq, by simp, by simpa using hf.2.2.2.1, ?_⟩
      intro w hw
      simp only [List.mem_cons]
      right
      exact ha.2.1 w hw

/-- a blocked `clear()` can only return after the processor released it (or the cache was closed) -/
theorem clear_returns_only_when_served (c : Cache) (id : Nat) (h : c.mayReturn id true = true) :
    id ∈ c.released ∨ c.closed = true := by
  unfold Cache.mayReturn at h
  simp only [Bool.or_eq_true, Bool.and_eq_true, List.contains_iff_mem] at h
  rcases h with h | h
  · left; simpa using h
  · right; exact h.2

/-- **behaves like a fresh cache** (from C04's refinement): after any sequential history, once a
`clear()` has been taken to quiescence, every later history of inserts (any TTL or none, re-using old
keys), removes, lookups, ticks and clears is a run of the abstract map with TTLs started from the
*empty* map — word for word what `C04.refines_ttl_map` states of a newly built cache. -/
theorem behaves_like_fresh (su : Nat → Nat → Bool) (cfg : Cfg) (maxCost : Int) (samples : Nat) (hcap : 0 < cfg.bufCap)
    (ops₁ ops₂ : List C04.QOp) (id : Nat) (c₁ c : Cache)
    (h₁ : C04.QRun su (Cache.init cfg maxCost samples) ops₁ c₁) (hok : C04.OpOk c₁ (.clear id))
    (h₂ : C04.QRun su (C04.qstep su c₁ (.clear id)) ops₂ c) :
    C04.Quiet c ∧ C04.SpecRun su (fun _ => none) ops₂ (fun k => c.store.items.get k) :=
  C04.cleared_is_fresh_map su cfg maxCost samples hcap ops₁ ops₂ id c₁ c h₁ hok h₂

-- non-vacuity -------------------------------------------------------------------------------
def exCfg : Cfg := { itemSize := 56, ignoreInternal := false, bufCap := 4, ringCap := 2, pqCap := some 3, metricsOn := true }
def exBusy : Cache :=
  { Cache.init exCfg 100 5 with
    store := { items := [(1, ⟨0, 11, ⟨0, 5⟩⟩)], em := [(9, [(1, 0)])] },
    lfu := { costs := [(1, 60)], used := 60, maxCost := 100, samples := 5 },
    buf := [Item.new 2 0 7 22 ⟨0, 6⟩, Item.wait 3], clearQ := [8],
    metrics := { hit := 4, keyAdd := 1, costAdd := 60 } }
example : (exBusy.procClear.map fun c' => (c'.store.items, c'.store.em, c'.lfu.costs, c'.released, c'.cbs)) =
    some ([], [], [], [8, 3], [CB.evict 2 0 22 7]) := by rfl

end Stretto.C11

#print axioms Stretto.C11.clear_empties
#print axioms Stretto.C11.clear_eq_init
#print axioms Stretto.C11.nothing_live_after_clear
#print axioms Stretto.C11.drain_accounts
#print axioms Stretto.C11.clear_releases_requester
#print axioms Stretto.C11.clear_returns_only_when_served
#print axioms Stretto.C11.behaves_like_fresh
