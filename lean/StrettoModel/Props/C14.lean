import StrettoModel.Proofs.Bloom
/-!
# C14 — Doorkeeper Bloom filter: no false negatives, reset empties, faithful addressing

The false-positive *rate* clause of C14 is not a theorem (no double-hashing Bloom filter satisfies
"FP ≤ c·p for every set of added hashes"); it is decided by the structural theorems below plus a
measurement on the real filter, labelled as a test, in the correspondence check.
-/
namespace Stretto.C14
open Stretto Bloom

/-- any interleaving of `add` and `contains_or_add` since the last reset -/
inductive Op | add (h : Nat) | containsOrAdd (h : Nat)

def Op.hash : Op → Nat | .add h => h | .containsOrAdd h => h

def apply (b : Bloom) : Op → Bloom
  | .add h => b.add h
  | .containsOrAdd h => (b.containsOrAdd h).1

def run (b : Bloom) (ops : List Op) : Bloom := ops.foldl apply b

theorem apply_mono (b : Bloom) (op : Op) (g : Nat) (hc : b.contains g = true) :
    (apply b op).contains g = true := by
  cases op with
  | add h => exact contains_add_mono b h g hc
  | containsOrAdd h => exact containsOrAdd_mono b h g hc

theorem apply_self (b : Bloom) (op : Op) : (apply b op).contains op.hash = true := by
  cases op with
  | add h => exact contains_add_self b h
  | containsOrAdd h => exact containsOrAdd_contains b h

theorem run_mono (b : Bloom) (ops : List Op) (g : Nat) (hc : b.contains g = true) :
    (run b ops).contains g = true := by
  induction ops generalizing b with
  | nil => exact hc
  | cons op ops ih => exact ih (apply b op) (apply_mono b op g hc)

/-- **no_false_negatives**: for every filter state, every sequence of additions (through `add`
or `contains_or_add`) and every hash added by one of them, `contains` reports it present. -/
theorem no_false_negatives (b : Bloom) (ops : List Op) (op : Op) (hop : op ∈ ops) :
    (run b ops).contains op.hash = true := by
  induction ops generalizing b with
  | nil => cases hop
  | cons o ops ih =>
    simp only [List.mem_cons] at hop
    rcases hop with rfl | hop
    · exact run_mono _ ops _ (apply_self b op)
    · exact ih (apply b o) hop

/-- **reset_empties / clear_empties**: with at least one probe per hash, an emptied filter
reports every hash absent (and holds no bit at all). -/
theorem reset_empties (b : Bloom) (hk : 0 < b.k) (h : Nat) :
    b.reset.contains h = false ∧ b.reset.bits = [] :=
  ⟨contains_reset b hk h, rfl⟩

/-- **addressing_faithful**: setting bit `i` sets exactly bit `i` … -/
theorem addressing_faithful (b : Bloom) (i j : Nat) :
    (b.set i).isSet j = (j == i || b.isSet j) := isSet_set b i j

/-- … and every probe position of every hash is a bit of the vector (`< 2 ^ exp`) -/
theorem probes_in_range (b : Bloom) (h i : Nat) : b.pos h i < b.nbits := pos_lt b h i

/-- **contains_iff_probes** -/
theorem contains_iff_probes (b : Bloom) (h : Nat) :
    b.contains h = true ↔ ∀ i < b.k, b.isSet (b.pos h i) = true :=
  Bloom.contains_iff_probes b h

/-- an `add` sets exactly the probe positions of the hash and nothing else -/
theorem add_sets_exactly_probes (b : Bloom) (h j : Nat) :
    (b.add h).isSet j = ((b.probes h).contains j || b.isSet j) := isSet_add b h j

theorem run_bits_length (b : Bloom) (ops : List Op) :
    (run b ops).bits.length ≤ b.bits.length + ops.length * b.k ∧
    (run b ops).k = b.k ∧ (run b ops).exp = b.exp := by
  induction ops generalizing b with
  | nil => simp [run]
  | cons op ops ih =>
    have hstep : (apply b op).bits.length ≤ b.bits.length + b.k ∧ (apply b op).k = b.k ∧
        (apply b op).exp = b.exp := by
      have hadd : ∀ h, (b.add h).bits.length = b.bits.length + b.k := by
        intro h
        have : ∀ (ps : List Nat) (b : Bloom), (ps.foldl Bloom.set b).bits.length = b.bits.length + ps.length := by
          intro ps
          induction ps with
          | nil => intro b; simp
          | cons p ps ih => intro b; simp [List.foldl_cons, ih, Bloom.set]; omega
        simp [Bloom.add, this, Bloom.probes]
      cases op with
      | add h => exact ⟨by simp [apply, hadd], by simp [apply], by simp [apply]⟩
      | containsOrAdd h =>
        refine ⟨?_, by simp [apply], by simp [apply]⟩
        simp only [apply, Bloom.containsOrAdd]
        split
        · simp only; omega
        · simp [hadd]
    have := ih (apply b op)
    simp only [run, List.foldl_cons, List.length_cons] at *
    refine ⟨?_, by rw [this.2.1, hstep.2.1], by rw [this.2.2, hstep.2.2]⟩
    have h1 := this.1
    rw [hstep.2.1] at h1
    have : (ops.length + 1) * b.k = ops.length * b.k + b.k := by
      rw [Nat.add_mul]; simp
    omega

/-- **set_bits_le**: after `n` additions to an empty filter at most `n · k` bits are set -/
theorem set_bits_le (b : Bloom) (ops : List Op) :
    (run b.reset ops).bits.length ≤ ops.length * b.k := by
  have := (run_bits_length b.reset ops).1
  simpa [Bloom.reset] using this

-- non-vacuity ------------------------------------------------------------------------------
example : (run { exp := 9, k := 7, bits := [] } [.add 12345, .containsOrAdd 99]).contains 12345 = true := by
  decide +kernel
example : (Bloom.reset { exp := 9, k := 7, bits := [3] }).contains 12345 = false := by decide +kernel

end Stretto.C14

#print axioms Stretto.C14.no_false_negatives
#print axioms Stretto.C14.reset_empties
#print axioms Stretto.C14.addressing_faithful
#print axioms Stretto.C14.probes_in_range
#print axioms Stretto.C14.contains_iff_probes
#print axioms Stretto.C14.add_sets_exactly_probes
#print axioms Stretto.C14.set_bits_le
