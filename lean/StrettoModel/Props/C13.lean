import StrettoModel.Proofs.TinyLFU
/-!
# C13 — Popularity estimates never undercount and decay by halving

Property theorems only; helper lemmas live in `Proofs/`.  Quantification: every sequence of
recorded hashes (arbitrary `Nat`s, in particular all 64-bit values), every seeds / mask / row
width with `mask < 2 * width` (which `CountMinSketch::new` establishes for every
`num_counters ≥ 1` once rows have at least one byte), every `samples`, every depth ≥ 1.
-/
namespace Stretto.C13
open Stretto

/-- a freshly constructed estimator -/
def fresh (seeds : List Nat) (width mask exp k samples : Nat) : TinyLFU :=
  { sk := Sketch.mk' seeds width mask, dk := { exp := exp, k := k, bits := [] },
    samples := samples, w := 0 }

theorem fresh_WF (seeds : List Nat) (width mask exp k samples : Nat)
    (hm : mask < 2 * width) (hs : seeds ≠ []) (hk : 0 < k) :
    (fresh seeds width mask exp k samples).WF :=
  ⟨Sketch.mk'_WF _ _ _ hm, by simpa [fresh, Sketch.mk'] using hs, hk⟩

/-- **counters saturate instead of wrapping** (the 512-row table of `CountMinRow::increment`):
the incremented 4-bit counter goes up by exactly one, its neighbour in the byte is untouched and
the byte stays a `u8`; a counter at 15 is left alone (`Row.inc` does nothing). -/
theorem rowInc_spec (b : Nat) (hb : b < 256) (odd : Bool) (h : nib b odd < 15) :
    nib (b + nibUnit odd) odd = nib b odd + 1 ∧
    nib (b + nibUnit odd) (!odd) = nib b (!odd) ∧ b + nibUnit odd < 256 :=
  nib_inc b hb odd h

/-- **index_in_range**: no hash value can index outside a row -/
theorem index_in_range (sk : Sketch) (hwf : sk.WF) (p : Nat × Row) (hp : p ∈ sk.rows) (h : Nat) :
    Sketch.idx sk.mask p.1 h / 2 < p.2.length :=
  Sketch.idx_in_range sk hwf p hp h

/-- **estimate_lower_bound**: from a fresh estimator, after recording any sequence `hs` of hashes,
no step panics, and for `since` = the hashes recorded since the last aging reset, every key `k`
estimates at least `min (number of times k was recorded since then) 16`, and at most 16. -/
theorem estimate_lower_bound (seeds : List Nat) (width mask exp k samples : Nat)
    (hm : mask < 2 * width) (hs : seeds ≠ []) (hk : 0 < k) (rec : List Nat) :
    ∃ t since, TinyLFU.runG (fresh seeds width mask exp k samples) [] rec = some (t, since) ∧
      ∀ key, ∃ e, t.estimate key = some e ∧ min (since.count key) 16 ≤ e ∧ e ≤ 16 := by
  obtain ⟨t, since, hrun, hinv⟩ :=
    TinyLFU.runG_inv _ [] rec (TinyLFU.inv_nil _ (fresh_WF seeds width mask exp k samples hm hs hk))
  exact ⟨t, since, hrun, fun key => TinyLFU.estimate_of_inv t since hinv key⟩

/-- the same from any state satisfying the invariant (e.g. after `clear`, or mid-stream) -/
theorem estimate_lower_bound_from (t0 : TinyLFU) (since0 rec : List Nat)
    (h0 : TinyLFU.Inv t0 since0) :
    ∃ t since, TinyLFU.runG t0 since0 rec = some (t, since) ∧
      ∀ key, ∃ e, t.estimate key = some e ∧ min (since.count key) 16 ≤ e ∧ e ≤ 16 := by
  obtain ⟨t, since, hrun, hinv⟩ := TinyLFU.runG_inv _ _ rec h0
  exact ⟨t, since, hrun, fun key => TinyLFU.estimate_of_inv t since hinv key⟩

/-- **fresh_zero**: on a fresh estimator every key estimates zero -/
theorem fresh_zero (seeds : List Nat) (width mask exp k samples : Nat)
    (hm : mask < 2 * width) (hs : seeds ≠ []) (hk : 0 < k) (key : Nat) :
    (fresh seeds width mask exp k samples).estimate key = some 0 := by
  unfold TinyLFU.estimate fresh
  simp only [Sketch.estimate_mk' seeds width mask hm hs key, Option.map_some]
  have : Bloom.contains { exp := exp, k := k, bits := [] } key = false :=
    Bloom.contains_reset { exp := exp, k := k, bits := [] } hk key
  simp [this]

/-- **clear_zero**: after `clear()` every key estimates zero, whatever was recorded before -/
theorem clear_zero (t : TinyLFU) (hwf : t.WF) (key : Nat) : t.clear.estimate key = some 0 := by
  unfold TinyLFU.estimate TinyLFU.clear
  simp only [Sketch.estimate_clear t.sk hwf.sk hwf.depth key, Option.map_some]
  have : t.dk.reset.contains key = false := Bloom.contains_reset t.dk hwf.probes key
  simp [this]

/-- **reset_halves**: the aging reset halves every counter of every key (rounding down) … -/
theorem reset_halves (sk : Sketch) (hwf : sk.WF) (h : Nat) (p' : Nat × Row)
    (hp' : p' ∈ sk.reset.rows) :
    ∃ p ∈ sk.rows, p'.1 = p.1 ∧
      p'.2.get (Sketch.idx sk.reset.mask p'.1 h) = (p.2.get (Sketch.idx sk.mask p.1 h)).map (· / 2) :=
  Sketch.get_reset sk hwf h p' hp'

/-- … and empties the doorkeeper and zeroes `w` -/
theorem reset_empties_doorkeeper (t : TinyLFU) (hwf : t.WF) (key : Nat) :
    t.reset.dk.contains key = false ∧ t.reset.w = 0 :=
  ⟨Bloom.contains_reset t.dk hwf.probes key, rfl⟩

/-- **reset_every_samples**: starting with `w < samples`, after `n` recorded accesses exactly
`(w + n) / samples` aging resets have fired and `w = (w + n) % samples`: the reset fires at every
`samples`-th recorded access and at no other time. -/
theorem reset_every_samples (t t' : TinyLFU) (n' : Nat) (rec : List Nat) (hpos : 0 < t.samples)
    (hw : t.w < t.samples) (hr : TinyLFU.runR t 0 rec = some (t', n')) :
    t'.w = (t.w + rec.length) % t.samples ∧ n' = (t.w + rec.length) / t.samples := by
  have := TinyLFU.runR_spec t t' 0 n' rec hpos hw hr
  exact ⟨this.2.1, by simpa using this.2.2⟩

/-- the step at which the reset fires is exactly the one reaching `samples` -/
theorem reset_fires_iff (t t' : TinyLFU) (h : Nat) (hi : t.increment h = some t') :
    t'.w = (if t.w + 1 ≥ t.samples then 0 else t.w + 1) ∧
    (t.w + 1 ≥ t.samples → t'.dk.bits = []) :=
  (TinyLFU.increment_w t t' h hi).2

-- non-vacuity: the hypotheses are met by a concrete non-trivial configuration ---------------
example : (fresh [1, 2, 3, 4] 4 7 9 7 8).WF := fresh_WF _ _ _ _ _ _ (by decide) (by decide) (by decide)
example : ∃ t since, TinyLFU.runG (fresh [11, 22, 33, 44] 4 7 9 7 100) [] [5, 5, 9, 5] = some (t, since) ∧
    t.estimate 5 = some 3 ∧ t.estimate 9 = some 1 ∧ t.estimate 6 = some 0 := by
  refine ⟨_, _, rfl, ?_, ?_, ?_⟩ <;> decide +kernel

end Stretto.C13

#print axioms Stretto.C13.rowInc_spec
#print axioms Stretto.C13.index_in_range
#print axioms Stretto.C13.estimate_lower_bound
#print axioms Stretto.C13.estimate_lower_bound_from
#print axioms Stretto.C13.fresh_zero
#print axioms Stretto.C13.clear_zero
#print axioms Stretto.C13.reset_halves
#print axioms Stretto.C13.reset_empties_doorkeeper
#print axioms Stretto.C13.reset_every_samples
#print axioms Stretto.C13.reset_fires_iff
