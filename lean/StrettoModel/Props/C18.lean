import StrettoModel.Model.Keys
import StrettoModel.Proofs.Cache
import StrettoModel.Props.C02
/-!
# C18 — Keys hash deterministically and colliding keys stay isolated

Not modelled: `seahash` / `xxh64` (the default key builder) and that `String` and `&str` hash alike
(a guarantee of `std`): both are sampled by the harness for determinism only.
-/
namespace Stretto.C18
open Stretto

/-- **transparent_identity**: every integer key of every supported type maps to itself — for the
signed types to its two's-complement image — with conflict hash 0; `build_key` is a function, so
the same key always gives the same pair. -/
theorem transparent_identity (t : IntTy) (x : Int) (h : t.InRange x) :
    transparentBuildKey x = ((if 0 ≤ x then x else x + 18446744073709551616).toNat, 0) := by
  unfold transparentBuildKey transparentIndex
  have hlo : -9223372036854775808 ≤ x := by
    have := h.1; cases t <;> simp [IntTy.lo] at this <;> omega
  have hhi : x ≤ 18446744073709551615 := by
    have := h.2; cases t <;> simp [IntTy.hi] at this <;> omega
  congr 1
  by_cases hx : 0 ≤ x
  · simp only [hx, if_true]; congr 1; omega
  · simp only [hx, if_false]; congr 1; omega

/-- **transparent_injective**: distinct keys of one integer type never collide on the index -/
theorem transparent_injective (t : IntTy) (x y : Int) (hx : t.InRange x) (hy : t.InRange y)
    (h : transparentIndex x = transparentIndex y) : x = y := by
  unfold transparentIndex at h
  have hlox : -9223372036854775808 ≤ x := by have := hx.1; cases t <;> simp [IntTy.lo] at this <;> omega
  have hloy : -9223372036854775808 ≤ y := by have := hy.1; cases t <;> simp [IntTy.lo] at this <;> omega
  have hhix : x ≤ 18446744073709551615 := by have := hx.2; cases t <;> simp [IntTy.hi] at this <;> omega
  have hhiy : y ≤ 18446744073709551615 := by have := hy.2; cases t <;> simp [IntTy.hi] at this <;> omega
  have hsame : (x < 0 ↔ y < 0) ∨ True := Or.inr trivial
  have h1 : x % 18446744073709551616 = y % 18446744073709551616 := by
    have hx0 : 0 ≤ x % 18446744073709551616 := Int.emod_nonneg _ (by decide)
    have hy0 : 0 ≤ y % 18446744073709551616 := Int.emod_nonneg _ (by decide)
    omega
  -- within one type the range is narrower than 2^64, so equal residues mean equal keys
  have hrange : x - y < 18446744073709551616 ∧ y - x < 18446744073709551616 := by
    have := hx.1; have := hx.2; have := hy.1; have := hy.2
    cases t <;> simp [IntTy.lo, IntTy.hi] at * <;> omega
  omega

/-- **collision_isolated (lookups)**: with a resident entry of key `(k, c₁)`, every lookup issued for
a colliding key `(k, c₂)`, `c₂ ≠ c₁`, `c₂ ≠ 0`, finds nothing: it never returns the other's value or
TTL, and `get_mut` cannot write to it. -/
theorem collision_lookup_isolated (s : Store) (k c2 now v : Nat) (e : Entry)
    (he : s.items.get k = some e) (hne : c2 ≠ e.conflict) (hnz : c2 ≠ 0) :
    s.get k c2 now = none ∧ s.getTtl k c2 now = none ∧ s.getMutWrite k c2 now v = (s, none) := by
  have hok : Store.conflictOk c2 e = false := by simp [Store.conflictOk, hne, hnz]
  have hl : s.lookup k c2 now = none := by simp [Store.lookup, he, hok]
  simp [Store.get, Store.getTtl, Store.getMutWrite, hl]

/-- **collision_isolated (writes and removes)**: an update, a processor insert or a remove issued
for the colliding key leaves the store — the other key's value, TTL and expiry filing — untouched -/
theorem collision_write_isolated (s : Store) (su : Nat → Nat → Bool) (k c2 v : Nat) (t : Time) (e : Entry)
    (he : s.items.get k = some e) (hne : c2 ≠ e.conflict) (hnz : c2 ≠ 0) :
    s.tryUpdate su k v c2 t = (s, .conflict) ∧ s.tryInsert su k v c2 t = s ∧
    s.tryRemove k c2 = (s, none) := by
  have hok : Store.conflictOk c2 e = false := by simp [Store.conflictOk, hne, hnz]
  simp [Store.tryUpdate, Store.tryInsert, Store.tryRemove, he, hok]

/-- through the cache: a `remove` for the colliding key does not touch the resident entry, neither
at once nor when the processor applies the queued `Delete` (the charge stays too) -/
theorem collision_remove_isolated (c : Cache) (su : Nat → Nat → Bool) (est : Nat → Int)
    (refills : List (List (Nat × Int))) (k c2 : Nat) (e : Entry)
    (he : c.store.items.get k = some e) (hne : c2 ≠ e.conflict) (hnz : c2 ≠ 0) :
    (c.remove k c2).1.store = c.store ∧
    (c.handleItem su est refills (Item.delete k c2)).store = c.store ∧
    (c.handleItem su est refills (Item.delete k c2)).lfu = c.lfu := by
  have hw := (collision_write_isolated c.store su k c2 0 ⟨0, 0⟩ e he hne hnz).2.2
  refine ⟨?_, ?_, ?_⟩
  · unfold Cache.remove
    split
    · rfl
    · simp only [hw]; split <;> rfl
  · simp only [Cache.handleItem, hw]
    have : (c.store.expiration k).isNone = false := by simp [Store.expiration, he]
    simp [this]
  · simp only [Cache.handleItem, hw]
    have : (c.store.expiration k).isNone = false := by simp [Store.expiration, he]
    simp [this]

-- over every step of every actor ------------------------------------------------------------------

/-- **a colliding key never touches the other key's entry — over every step of every actor**: while an
index hash stays resident, its entry (conflict hash, value, TTL) changes only when that very step is a
client write — `insert` / `insert_if_present` (update in place) or a write through `get_mut` — addressed
to that index *with a compatible conflict hash* (the stored one, or the wildcard 0). A caller presenting
another conflict hash — the colliding key — changes nothing under the index, whatever it calls and
whenever the processor applies what it queued (`New`, `Update`, `Delete` items, stale ones included); nor
do the sweep, evictions of other keys, clears or the workers. (`Inv06`, every resident entry is charged,
holds in every reachable state: C06.) -/
theorem entry_changes_only_by_compatible_write (su : Nat → Nat → Bool) (c c' : Cache) (a : Act)
    (hs : c.step su a = some c') (hinv : Inv06 c) (k : Nat) (e e' : Entry)
    (he : c.store.items.get k = some e) (he' : c'.store.items.get k = some e') (hne : e' ≠ e) :
    (∃ cf v cost ttl now coster only, a = Act.insert k cf v cost ttl now coster only ∧ Store.conflictOk cf e = true) ∨
    (∃ cf now v, a = Act.getMut k cf now v ∧ Store.conflictOk cf e = true) := by
  -- if the entry of `k` is literally the old one, the value did not change
  have keep : (c'.store.items.get k = some e' → c.store.items.get k = some e') → False := by
    intro h; have := h he'; rw [this] at he; cases he; exact hne rfl
  cases a with
  | insert k' cf v cost ttl now coster only =>
    simp only [Cache.step, Option.some.injEq] at hs; subst hs
    have hstore : ∀ j x, (c.store.tryUpdate su k' v cf { d := ttl, created := now }).1.items.get j = some x →
        c.store.items.get j = some x ∨ (j = k' ∧ ∃ e0, c.store.items.get k' = some e0 ∧ Store.conflictOk cf e0 = true) := by
      intro j x hjx
      unfold Store.tryUpdate at hjx
      cases hg : c.store.items.get k' with
      | none => simp only [hg] at hjx; left; exact hjx
      | some e0 =>
        simp only [hg] at hjx
        split at hjx
        · left; exact hjx
        · rename_i hcf
          split at hjx
          · left; exact hjx
          · simp only [KMap.get_set] at hjx
            split at hjx
            · right; rename_i hjk; exact ⟨hjk, e0, rfl, by simpa using hcf⟩
            · left; exact hjx
    have key : c.store.items.get k = some e' ∨ (k = k' ∧ ∃ e0, c.store.items.get k' = some e0 ∧ Store.conflictOk cf e0 = true) := by
      unfold Cache.insert at he'
      split at he'
      · left; exact he'
      · unfold Cache.insertBody at he'
        simp only [] at he'
        split at he'
        · left; exact he'
        · split at he'
          · split at he' <;> exact hstore k e' (by simpa using he')
          · split at he'
            · left; exact he'
            · split at he'
              · left; exact he'
              · left; simpa using he'
    rcases key with h | ⟨h1, h2⟩
    · exact absurd (fun _ => h) (fun f => keep f)
    · subst h1; left
      obtain ⟨e0, h3, h4⟩ := h2
      rw [he] at h3; cases h3
      exact ⟨cf, v, cost, ttl, now, coster, only, rfl, h4⟩
  | get k' cf now =>
    simp only [Cache.step, Option.some.injEq] at hs; subst hs
    exfalso; apply keep; intro h
    unfold Cache.get at h
    split at h
    · exact h
    · simp only [] at h; split at h <;> simpa using h
  | getMut k' cf now v =>
    simp only [Cache.step, Option.some.injEq] at hs; subst hs
    have key : c.store.items.get k = some e' ∨ (k = k' ∧ ∃ e0, c.store.items.get k' = some e0 ∧ Store.conflictOk cf e0 = true) := by
      unfold Cache.getMutWrite at he'
      split at he'
      · left; exact he'
      · simp only [] at he'
        split at he'
        · left; simpa using he'
        · simp only [Cache.met_store, Cache.ringPush_store] at he'
          unfold Store.getMutWrite at he'
          cases hl : c.store.lookup k' cf now with
          | none => simp only [hl] at he'; left; exact he'
          | some e0 =>
            simp only [hl, KMap.get_set] at he'
            split at he'
            · rename_i hjk; right
              obtain ⟨h3, h4, _⟩ := Store.lookup_some c.store k' cf now e0 hl
              exact ⟨hjk, e0, h3, h4⟩
            · left; exact he'
    rcases key with h | ⟨h1, h2⟩
    · exact absurd (fun _ => h) (fun f => keep f)
    · subst h1; right
      obtain ⟨e0, h3, h4⟩ := h2
      rw [he] at h3; cases h3
      exact ⟨cf, now, v, rfl, h4⟩
  | remove k' cf =>
    simp only [Cache.step, Option.some.injEq] at hs; subst hs
    exfalso; apply keep; intro h
    unfold Cache.remove at h
    split at h
    · exact h
    · simp only [] at h
      have hres : ∀ x, (c.store.tryRemove k' cf).1.items.get k = some x → c.store.items.get k = some x := by
        intro x hx
        rw [Store.tryRemove_get] at hx
        split at hx
        · cases hx
        · exact hx
      cases hr : (c.store.tryRemove k' cf).2 with
      | none => simp only [hr] at h; split at h <;> first | exact hres _ (by simpa using h) | (simpa using h)
      | some e0 => simp only [hr] at h; split at h <;> first | exact hres _ (by simpa using h) | (simpa using h)
  | waitEnq id =>
    simp only [Cache.step, Option.some.injEq] at hs; subst hs
    exfalso; apply keep; intro h
    unfold Cache.waitEnq at h
    split at h
    · exact h
    · split at h <;> exact h
  | clearReq id =>
    simp only [Cache.step, Option.some.injEq] at hs; subst hs
    exfalso; apply keep; intro h
    unfold Cache.clearReq at h; split at h <;> exact h
  | closeBegin id =>
    simp only [Cache.step, Option.some.injEq] at hs; subst hs
    exfalso; apply keep; intro h
    unfold Cache.closeBegin at h; split at h <;> exact h
  | updateMaxCost mc =>
    simp only [Cache.step, Option.some.injEq] at hs; subst hs
    exfalso; exact keep (fun h => h)
  | procItem est refills =>
    simp only [Cache.step, Cache.procItem] at hs
    split at hs
    · cases hs
    · split at hs
      · cases hs
      · rename_i it rest hb
        simp only [Option.some.injEq] at hs; subst hs
        have hf := admitPending_frame ({ c with buf := rest } : Cache)
        exfalso; apply keep; intro h
        cases it with
        | wait w => simpa [Cache.handleItem, hf.1] using h
        | update k' cost ext => simpa [Cache.handleItem, hf.1] using h
        | delete k' cf =>
          simp only [Cache.handleItem] at h
          have : (({ c with buf := rest } : Cache).admitPending.store.tryRemove k' cf).1.items.get k = some e' := by
            cases hr : (({ c with buf := rest } : Cache).admitPending.store.tryRemove k' cf).2 <;>
              (simp only [hr] at h; split at h <;> simpa using h)
          rw [Store.tryRemove_get] at this
          split at this
          · cases this
          · rw [hf.1] at this; exact this
        | new k' cf cost v exp =>
          by_cases hk : k' = k
          · subst hk
            have hch : ((({ c with buf := rest } : Cache).admitPending).lfu.costs.get k').isSome = true := by
              rw [hf.2.1]; exact hinv.resident_charged k' (by simp [he])
            have hli : (({ c with buf := rest } : Cache).admitPending).lfu.Inv := by rw [hf.2.1]; exact hinv.lfuInv
            rw [C02.handleNew_charged_store _ su est refills k' cf cost v exp hli hch, hf.1] at h
            exact h
          · simp only [Cache.handleItem] at h
            have hpre : ∀ (c2 : Cache), c2.store = ({ c with buf := rest } : Cache).admitPending.store ∨
                c2.store = (({ c with buf := rest } : Cache).admitPending.store.tryInsert su k' v cf exp) →
                c2.store.items.get k = some e' → c.store.items.get k = some e' := by
              intro c2 hc2 hj2
              rcases hc2 with hc2 | hc2
              · rw [hc2, hf.1] at hj2; exact hj2
              · rw [hc2] at hj2
                rcases C02.tryInsert_get _ su k' v cf exp k e' hj2 with h1 | ⟨h1, _⟩
                · rw [hf.1] at h1; exact h1
                · exact absurd h1.symm hk
            split at h
            · have h' := C02.evictVictims_get _ _ k e' h
              split at h'
              · split at h'
                · exact hpre _ (Or.inr (by simp)) h'
                · exact hpre _ (Or.inr (by simp)) h'
              · exact hpre _ (Or.inl (by simp)) h'
            · split at h
              · split at h
                · exact hpre _ (Or.inr (by simp)) h
                · exact hpre _ (Or.inr (by simp)) h
              · exact hpre _ (Or.inl (by simp)) h
  | procClear =>
    simp only [Cache.step] at hs
    obtain ⟨h1, _, _⟩ := C02.procClear_empty c c' hs
    rw [h1 k] at he'; cases he'
  | procTick now order =>
    simp only [Cache.step, Cache.procTick] at hs
    split at hs
    · cases hs
    · simp only [Option.some.injEq] at hs; subst hs
      exfalso; apply keep; intro h
      have hd := deliverEvictions_frame
        ((({ c with store := { c.store with em := (c.store.em.tryCleanup now).1 } } : Cache).sweepKeys now order []).2.reverse)
        (({ c with store := { c.store with em := (c.store.em.tryCleanup now).1 } } : Cache).sweepKeys now order []).1
      rw [hd.1] at h
      simpa using C02.sweepKeys_get order _ now [] k e' h
  | procStop =>
    simp only [Cache.step, Cache.procStop] at hs
    split at hs
    · cases hs
    · simp only [Option.some.injEq] at hs; subst hs
      exfalso; exact keep (fun h => h)
  | policyWorker =>
    simp only [Cache.step, Cache.policyWorkerStep] at hs
    cases hp : c.pq with
    | nil => simp [hp] at hs
    | cons b rest =>
      simp only [hp, Option.map_some, Option.some.injEq] at hs; subst hs
      exfalso; exact keep (fun h => h)
  | policyClose =>
    simp only [Cache.step, Option.some.injEq] at hs; subst hs
    exfalso; exact keep (fun h => h)

/-- corollary: whatever a caller presenting another (non-zero) conflict hash does in one step, the entry
under the index is the same afterwards if the index is still resident -/
theorem colliding_caller_leaves_entry (su : Nat → Nat → Bool) (c c' : Cache) (hinv : Inv06 c) (k c2 : Nat) (e e' : Entry)
    (he : c.store.items.get k = some e) (hne : c2 ≠ e.conflict) (hnz : c2 ≠ 0) (a : Act)
    (ha : (∃ v cost ttl now coster only, a = Act.insert k c2 v cost ttl now coster only) ∨
          (∃ now v, a = Act.getMut k c2 now v) ∨ (∃ now, a = Act.get k c2 now) ∨ a = Act.remove k c2)
    (hs : c.step su a = some c') (he' : c'.store.items.get k = some e') : e' = e := by
  have hok : Store.conflictOk c2 e = false := by simp [Store.conflictOk, hne, hnz]
  cases hd : decide (e' = e) with
  | true => exact of_decide_eq_true hd
  | false =>
    exfalso
    have hne' : e' ≠ e := of_decide_eq_false hd
    rcases entry_changes_only_by_compatible_write su c c' a hs hinv k e e' he he' hne' with
      ⟨cf, v, cost, ttl, now, coster, only, h1, h2⟩ | ⟨cf, now, v, h1, h2⟩
    · rcases ha with ⟨v', cost', ttl', now', coster', only', h3⟩ | ⟨now', v', h3⟩ | ⟨now', h3⟩ | h3
      · rw [h3] at h1; cases h1; rw [hok] at h2; cases h2
      · rw [h3] at h1; cases h1
      · rw [h3] at h1; cases h1
      · rw [h3] at h1; cases h1
    · rcases ha with ⟨v', cost', ttl', now', coster', only', h3⟩ | ⟨now', v', h3⟩ | ⟨now', h3⟩ | h3
      · rw [h3] at h1; cases h1
      · rw [h3] at h1; cases h1; rw [hok] at h2; cases h2
      · rw [h3] at h1; cases h1
      · rw [h3] at h1; cases h1

/-- the same in every reachable state (the invariant is C06's): from the builder's state, after any run of
any actors with the processor alive, a step changes a resident entry only if it is a client write to
that index with a compatible conflict hash -/
theorem reachable_entry_changes_only_by_compatible_write (su : Nat → Nat → Bool) (cfg : Cfg) (maxCost : Int)
    (samples : Nat) (c : Cache) (hr : C06.Run su (Cache.init cfg maxCost samples) c) (halive : c.procExited = false)
    (c' : Cache) (a : Act) (hs : c.step su a = some c') (k : Nat) (e e' : Entry)
    (he : c.store.items.get k = some e) (he' : c'.store.items.get k = some e') (hne : e' ≠ e) :
    (∃ cf v cost ttl now coster only, a = Act.insert k cf v cost ttl now coster only ∧ Store.conflictOk cf e = true) ∨
    (∃ cf now v, a = Act.getMut k cf now v ∧ Store.conflictOk cf e = true) := by
  rcases C06.reachable_good su _ c (C06.init_good cfg maxCost samples) hr with hx | hinv
  · rw [halive] at hx; cases hx
  · exact entry_changes_only_by_compatible_write su c c' a hs hinv k e e' he he' hne

-- non-vacuity ---------------------------------------------------------------------------------
example : transparentBuildKey (-1) = (18446744073709551615, 0) := by decide
example : IntTy.i8.InRange (-128) ∧ transparentIndex (-128) = 18446744073709551488 := by
  refine ⟨⟨by decide, by decide⟩, by decide⟩

/-- a reachable state with a resident entry under (5, conflict 1), and a colliding caller (5, conflict 2)
whose update is refused: the premises of the run-level theorems are met by a concrete history -/
def exCfg : Cfg := { itemSize := 56, ignoreInternal := true, bufCap := 4, ringCap := 2, pqCap := some 3, metricsOn := true }
def exC1 : Cache := ((Cache.init exCfg 100 5).insert (fun _ _ => true) 5 1 77 1 0 10 0 false).1
def exC2 : Cache := ((exC1.procItem (fun _ _ => true) (fun _ => 0) []).getD exC1)
example : exC2.store.items.get 5 = some ⟨1, 77, ⟨0, 10⟩⟩ := by decide
example : exC2.procExited = false := by decide
example : ((exC2.insert (fun _ _ => true) 5 2 99 1 0 11 0 false).1.store.items.get 5) = some ⟨1, 77, ⟨0, 10⟩⟩ := by decide
example : C06.Run (fun _ _ => true) (Cache.init exCfg 100 5) exC2 := by
  refine C06.Run.step _ exC1 _ (.procItem (fun _ => 0) []) (C06.Run.step _ _ _ (.insert 5 1 77 1 0 10 0 false) (C06.Run.refl _) trivial rfl) ?_ ?_
  · intro it rest hb
    have : exC1.buf = [Item.new 5 1 1 77 ⟨0, 10⟩] := by decide
    rw [this] at hb; cases hb
    intro vs hvs v hv
    have h0 : (policyAdd (({ exC1 with buf := [] } : Cache).admitPending).lfu (fun _ => 0) 5
      ((({ exC1 with buf := [] } : Cache).admitPending).internalCost 1) []).victims = none := by decide
    rw [h0] at hvs; cases hvs
  · show exC1.procItem (fun _ _ => true) (fun _ => 0) [] = some exC2
    have hsome : (exC1.procItem (fun _ _ => true) (fun _ => 0) []).isSome = true := by decide
    cases hp : exC1.procItem (fun _ _ => true) (fun _ => 0) [] with
    | none => rw [hp] at hsome; cases hsome
    | some c => simp [exC2, hp]

end Stretto.C18

#print axioms Stretto.C18.transparent_identity
#print axioms Stretto.C18.transparent_injective
#print axioms Stretto.C18.collision_lookup_isolated
#print axioms Stretto.C18.collision_write_isolated
#print axioms Stretto.C18.collision_remove_isolated
#print axioms Stretto.C18.entry_changes_only_by_compatible_write
#print axioms Stretto.C18.colliding_caller_leaves_entry
#print axioms Stretto.C18.reachable_entry_changes_only_by_compatible_write
