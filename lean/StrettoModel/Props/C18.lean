import StrettoModel.Model.Keys
import StrettoModel.Proofs.Cache
/-!
# C18 — Keys hash deterministically and colliding keys stay isolated

Not modelled: `seahash` / `xxh64` (the default key builder) and that `String` and `&str` hash alike
(a guarantee of `std`): both are sampled by the harness for determinism only.
-/
namespace Stretto.C18
open Stretto

/-- **transparent_identity**: every integer key of every supported type maps to itself — for the
signed types to its two's-complement image — with conflict hash 0; `build_key` is a function, so
the same key always gives the same pair. -/
theorem transparent_identity (t : IntTy) (x : Int) (h : t.InRange x) :
    transparentBuildKey x = ((if 0 ≤ x then x else x + 18446744073709551616).toNat, 0) := by
  unfold transparentBuildKey transparentIndex
  have hlo : -9223372036854775808 ≤ x := by
    have := h.1; cases t <;> simp [IntTy.lo] at this <;> omega
  have hhi : x ≤ 18446744073709551615 := by
    have := h.2; cases t <;> simp [IntTy.hi] at this <;> omega
  congr 1
  by_cases hx : 0 ≤ x
  · simp only [hx, if_true]; congr 1; omega
  · simp only [hx, if_false]; congr 1; omega

/-- **transparent_injective**: distinct keys of one integer type never collide on the index -/
theorem transparent_injective (t : IntTy) (x y : Int) (hx : t.InRange x) (hy : t.InRange y)
    (h : transparentIndex x = transparentIndex y) : x = y := by
  unfold transparentIndex at h
  have hlox : -9223372036854775808 ≤ x := by have := hx.1; cases t <;> simp [IntTy.lo] at this <;> omega
  have hloy : -9223372036854775808 ≤ y := by have := hy.1; cases t <;> simp [IntTy.lo] at this <;> omega
  have hhix : x ≤ 18446744073709551615 := by have := hx.2; cases t <;> simp [IntTy.hi] at this <;> omega
  have hhiy : y ≤ 18446744073709551615 := by have := hy.2; cases t <;> simp [IntTy.hi] at this <;> omega
  have hsame : (x < 0 ↔ y < 0) ∨ True := Or.inr trivial
  have h1 : x % 18446744073709551616 = y % 18446744073709551616 := by
    have hx0 : 0 ≤ x % 18446744073709551616 := Int.emod_nonneg _ (by decide)
    have hy0 : 0 ≤ y % 18446744073709551616 := Int.emod_nonneg _ (by decide)
    omega
  -- within one type the range is narrower than 2^64, so equal residues mean equal keys
  have hrange : x - y < 18446744073709551616 ∧ y - x < 18446744073709551616 := by
    have := hx.1; have := hx.2; have := hy.1; have := hy.2
    cases t <;> simp [IntTy.lo, IntTy.hi] at * <;> omega
  omega

/-- **collision_isolated (lookups)**: with a resident entry of key `(k, c₁)`, every lookup issued for
a colliding key `(k, c₂)`, `c₂ ≠ c₁`, `c₂ ≠ 0`, finds nothing: it never returns the other's value or
TTL, and `get_mut` cannot write to it. -/
theorem collision_lookup_isolated (s : Store) (k c2 now v : Nat) (e : Entry)
    (he : s.items.get k = some e) (hne : c2 ≠ e.conflict) (hnz : c2 ≠ 0) :
    s.get k c2 now = none ∧ s.getTtl k c2 now = none ∧ s.getMutWrite k c2 now v = (s, none) := by
  have hok : Store.conflictOk c2 e = false := by simp [Store.conflictOk, hne, hnz]
  have hl : s.lookup k c2 now = none := by simp [Store.lookup, he, hok]
  simp [Store.get, Store.getTtl, Store.getMutWrite, hl]

/-- **collision_isolated (writes and removes)**: an update, a processor insert or a remove issued
for the colliding key leaves the store — the other key's value, TTL and expiry filing — untouched -/
theorem collision_write_isolated (s : Store) (su : Nat → Nat → Bool) (k c2 v : Nat) (t : Time) (e : Entry)
    (he : s.items.get k = some e) (hne : c2 ≠ e.conflict) (hnz : c2 ≠ 0) :
    s.tryUpdate su k v c2 t = (s, .conflict) ∧ s.tryInsert su k v c2 t = s ∧
    s.tryRemove k c2 = (s, none) := by
  have hok : Store.conflictOk c2 e = false := by simp [Store.conflictOk, hne, hnz]
  simp [Store.tryUpdate, Store.tryInsert, Store.tryRemove, he, hok]

/-- through the cache: a `remove` for the colliding key does not touch the resident entry, neither
at once nor when the processor applies the queued `Delete` (the charge stays too) -/
theorem collision_remove_isolated (c : Cache) (su : Nat → Nat → Bool) (est : Nat → Int)
    (refills : List (List (Nat × Int))) (k c2 : Nat) (e : Entry)
    (he : c.store.items.get k = some e) (hne : c2 ≠ e.conflict) (hnz : c2 ≠ 0) :
    (c.remove k c2).1.store = c.store ∧
    (c.handleItem su est refills (Item.delete k c2)).store = c.store ∧
    (c.handleItem su est refills (Item.delete k c2)).lfu = c.lfu := by
  have hw := (collision_write_isolated c.store su k c2 0 ⟨0, 0⟩ e he hne hnz).2.2
  refine ⟨?_, ?_, ?_⟩
  · unfold Cache.remove
    split
    · rfl
    · simp only [hw]; split <;> rfl
  · simp only [Cache.handleItem, hw]
    have : (c.store.expiration k).isNone = false := by simp [Store.expiration, he]
    simp [this]
  · simp only [Cache.handleItem, hw]
    have : (c.store.expiration k).isNone = false := by simp [Store.expiration, he]
    simp [this]

-- non-vacuity ---------------------------------------------------------------------------------
example : transparentBuildKey (-1) = (18446744073709551615, 0) := by decide
example : IntTy.i8.InRange (-128) ∧ transparentIndex (-128) = 18446744073709551488 := by
  refine ⟨⟨by decide, by decide⟩, by decide⟩

end Stretto.C18

#print axioms Stretto.C18.transparent_identity
#print axioms Stretto.C18.transparent_injective
#print axioms Stretto.C18.collision_lookup_isolated
#print axioms Stretto.C18.collision_write_isolated
#print axioms Stretto.C18.collision_remove_isolated
