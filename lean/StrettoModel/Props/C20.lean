import StrettoModel.Model.Builder
import StrettoModel.Proofs.TinyLFU
import StrettoModel.Props.C10
/-!
# C20 — Every accepted configuration yields a working cache

Accepted = `num_counters ≥ 1`, `max_cost ≠ 0`, insert buffer size `≥ 1`, any `buffer_items`, either
setting of metrics / ignore_internal_cost. (`num_counters`, buffer sizes: values whose allocation
succeeds; an allocation failure aborts the process and is not a model outcome.)
"Working" has three parts here: (1) `finalize` verdicts; (2) no panic: every `Vec` index of the
estimator is in range for every accepted sizing, for every hash — the other components of the model
are total functions with no partial operation; (3) completion: blocked calls are always released
(C10, C12), and the deadlock found in `get_ttl` (F15) is checked by the live-mode oracle test.
-/
namespace Stretto.C20
open Stretto

/-- **finalize_rejects**: zero `num_counters`, `max_cost`, buffer size are rejected with
`InvalidNumCounters`, `InvalidMaxCost`, `InvalidBufferSize`, in that order of precedence; every other
combination is accepted. -/
theorem finalize_rejects (n : Nat) (mc : Int) (b : Nat) :
    (n = 0 → finalizeCheck n mc b = .invalidNumCounters) ∧
    (n ≠ 0 → mc = 0 → finalizeCheck n mc b = .invalidMaxCost) ∧
    (n ≠ 0 → mc ≠ 0 → b = 0 → finalizeCheck n mc b = .invalidBufferSize) ∧
    (n ≠ 0 → mc ≠ 0 → b ≠ 0 → finalizeCheck n mc b = .ok) := by
  unfold finalizeCheck
  refine ⟨?_, ?_, ?_, ?_⟩
  · intro h; simp [h]
  · intro h1 h2; simp [h1, h2]
  · intro h1 h2 h3; simp [h1, h2, h3]
  · intro h1 h2 h3; simp [h1, h2, h3]

theorem accepted_iff (n : Nat) (mc : Int) (b : Nat) :
    finalizeCheck n mc b = .ok ↔ n ≠ 0 ∧ mc ≠ 0 ∧ b ≠ 0 := by
  unfold finalizeCheck
  by_cases h1 : n = 0 <;> by_cases h2 : mc = 0 <;> by_cases h3 : b = 0 <;> simp [h1, h2, h3]

/-- **sketch sizing**: for every power of two `ctrs = 2^e` (what `next_power_of_two` yields for every
`num_counters ≥ 1`, including 1), rows of `max (ctrs / 2) 1` bytes and mask `ctrs - 1` satisfy the
well-formedness hypothesis of the estimator theorems: `mask < 2 · width`. -/
theorem sketch_sizing_wf (e : Nat) : 2 ^ e - 1 < 2 * max (2 ^ e / 2) 1 := by
  cases e with
  | zero => decide
  | succ n =>
    have hpos : 0 < 2 ^ n := Nat.two_pow_pos n
    have : 2 ^ (n + 1) = 2 * 2 ^ n := by rw [Nat.pow_succ]; omega
    rw [this]
    have h2 : 2 * 2 ^ n / 2 = 2 ^ n := by omega
    rw [h2]
    have : max (2 ^ n) 1 = 2 ^ n := by omega
    rw [this]; omega

/-- **no panic in the estimator**: with such a sizing, at least one row and one Bloom probe, recording
any sequence of hashes never indexes out of bounds (every step returns), and every estimate query
returns. -/
theorem estimator_never_panics (seeds : List Nat) (e exp k samples : Nat) (hs : seeds ≠ []) (hk : 0 < k)
    (rec : List Nat) (q : Nat) :
    ∃ t since, TinyLFU.runG ⟨Sketch.mk' seeds (max (2 ^ e / 2) 1) (2 ^ e - 1), ⟨exp, k, []⟩, samples, 0⟩ [] rec
        = some (t, since) ∧ ∃ v, t.estimate q = some v := by
  have hwf : (⟨Sketch.mk' seeds (max (2 ^ e / 2) 1) (2 ^ e - 1), ⟨exp, k, []⟩, samples, 0⟩ : TinyLFU).WF :=
    ⟨Sketch.mk'_WF _ _ _ (sketch_sizing_wf e), by simpa [Sketch.mk'] using hs, hk⟩
  obtain ⟨t, since, hrun, hinv⟩ := TinyLFU.runG_inv _ [] rec (TinyLFU.inv_nil _ hwf)
  obtain ⟨v, hv, _⟩ := TinyLFU.estimate_of_inv t since hinv q
  exact ⟨t, since, hrun, v, hv⟩

/-- the metrics stripe of every hash is inside the 256-slot array -/
theorem stripe_in_range (h : Nat) : (h % 25) * 10 < 256 := by omega

/-- the get ring works for every `buffer_items`, 0 and 1 included: a push either keeps the batch
pending (below capacity) or flushes it whole and leaves the ring empty -/
theorem ring_any_capacity (c : Cache) (k : Nat) :
    (c.ringPush k).ring = [] ∨ ((c.ringPush k).ring = c.ring ++ [k] ∧ (c.ring ++ [k]).length < c.cfg.ringCap) := by
  unfold Cache.ringPush
  simp only []
  split
  · left
    split
    · rfl
    · split
      · simp
      · split <;> simp
  · right; exact ⟨rfl, by omega⟩

theorem ring_zero_or_one_flushes_every_push (c : Cache) (k : Nat) (h : c.cfg.ringCap ≤ 1) :
    (c.ringPush k).ring = [] := by
  rcases ring_any_capacity c k with h1 | ⟨_, h2⟩
  · exact h1
  · simp at h2; omega

/-- completion of blocked calls: re-exported from C10 — a buffered wait marker stays served through
every step, and the processor's stop iteration releases it -/
theorem blocked_calls_are_released (su : Nat → Nat → Bool) (c c' : Cache) (a : Act)
    (hs : c.step su a = some c') (id : Nat) (h : C10.Served c id) : C10.Served c' id :=
  C10.no_lost_wakeup su c c' a hs id h

-- non-vacuity ---------------------------------------------------------------------------------
example : finalizeCheck 0 0 0 = .invalidNumCounters ∧ finalizeCheck 1 0 0 = .invalidMaxCost ∧
          finalizeCheck 1 (-3) 0 = .invalidBufferSize ∧ finalizeCheck 1 (-3) 1 = .ok := by decide

-- the builder carries every setting to the component that uses it --------------------------------------

/-- the value the last call for a field gave it, or the field's default -/
def lastOf {α : Type} (pick : Setter → Option α) (dflt : α) (calls : List Setter) : α :=
  ((calls.reverse.filterMap pick).head?).getD dflt

theorem foldl_set_field {α : Type} (proj : BuilderCore → α) (pick : Setter → Option α)
    (hset : ∀ b s, proj (b.set s) = (pick s).getD (proj b)) (calls : List Setter) (b : BuilderCore) :
    proj (calls.foldl BuilderCore.set b) = lastOf pick (proj b) calls := by
  induction calls generalizing b with
  | nil => simp [lastOf]
  | cons s rest ih =>
    simp only [List.foldl_cons]
    rw [ih]
    unfold lastOf
    simp only [List.reverse_cons, List.filterMap_append, List.filterMap_cons, List.filterMap_nil]
    rw [hset]
    cases hp : pick s with
    | none => simp
    | some v =>
      simp only [Option.getD_some, List.head?_append]
      cases ((List.filterMap pick rest.reverse).head?) <;> simp

/-- **the last call for each field wins, whatever the order of the calls** — in particular the five
type-changing setters (`set_key_builder`, `set_coster`, `set_update_validator`, `set_callback`,
`set_hasher`), wherever they stand in the chain, leave every plain setting as it was; and an accepted
configuration hands each setting to the component that uses it: `num_counters` to the estimator,
`max_cost` to the policy, `buffer_items` to the get ring, the buffer size to the insert buffer, the two
flags and the cleanup interval to the processor. -/
theorem build_uses_last_settings (n : Nat) (mc : Int) (calls : List Setter) (e : Effective)
    (h : buildWith n mc calls = .ok e) :
    e.numCounters = lastOf (fun | .numCounters v => some v | _ => none) n calls ∧
    e.maxCost = lastOf (fun | .maxCost v => some v | _ => none) mc calls ∧
    e.ringCap = lastOf (fun | .bufferItems v => some v | _ => none) 64 calls ∧
    e.bufCap = lastOf (fun | .bufferSize v => some v | _ => none) 32768 calls ∧
    e.metricsOn = lastOf (fun | .metrics v => some v | _ => none) false calls ∧
    e.ignoreInternalCost = lastOf (fun | .ignoreInternal v => some v | _ => none) false calls ∧
    e.cleanupNs = lastOf (fun | .cleanup v => some v | _ => none) 2000000000 calls := by
  unfold buildWith BuilderCore.finalize at h
  split at h
  · simp only [Except.ok.injEq] at h
    subst h
    refine ⟨?_, ?_, ?_, ?_, ?_, ?_, ?_⟩
    · exact foldl_set_field (·.numCounters) _ (by intro b s; cases s <;> rfl) calls _
    · exact foldl_set_field (·.maxCost) _ (by intro b s; cases s <;> rfl) calls _
    · exact foldl_set_field (·.bufferItems) _ (by intro b s; cases s <;> rfl) calls _
    · exact foldl_set_field (·.insertBufferSize) _ (by intro b s; cases s <;> rfl) calls _
    · exact foldl_set_field (·.metrics) _ (by intro b s; cases s <;> rfl) calls _
    · exact foldl_set_field (·.ignoreInternalCost) _ (by intro b s; cases s <;> rfl) calls _
    · exact foldl_set_field (·.cleanupNs) _ (by intro b s; cases s <;> rfl) calls _
  · cases h

/-- and the chain is accepted exactly when the last `num_counters`, `max_cost` and buffer size are non-zero -/
theorem build_accepted_iff (n : Nat) (mc : Int) (calls : List Setter) :
    (∃ e, buildWith n mc calls = .ok e) ↔
      lastOf (fun | .numCounters v => some v | _ => none) n calls ≠ 0 ∧
      lastOf (fun | .maxCost v => some v | _ => none) mc calls ≠ 0 ∧
      lastOf (fun | .bufferSize v => some v | _ => none) 32768 calls ≠ 0 := by
  have h1 := foldl_set_field (·.numCounters) (fun | .numCounters v => some v | _ => none)
    (by intro b s; cases s <;> rfl) calls ({ numCounters := n, maxCost := mc } : BuilderCore)
  have h2 := foldl_set_field (·.maxCost) (fun | .maxCost v => some v | _ => none)
    (by intro b s; cases s <;> rfl) calls ({ numCounters := n, maxCost := mc } : BuilderCore)
  have h3 := foldl_set_field (·.insertBufferSize) (fun | .bufferSize v => some v | _ => none)
    (by intro b s; cases s <;> rfl) calls ({ numCounters := n, maxCost := mc } : BuilderCore)
  simp only [] at h1 h2 h3
  rw [← h1, ← h2, ← h3]
  unfold buildWith BuilderCore.finalize
  constructor
  · rintro ⟨e, he⟩
    split at he
    · rename_i hv; exact (accepted_iff _ _ _).mp hv
    · cases he
  · intro h
    have := (accepted_iff _ _ _).mpr h
    simp only [this]
    exact ⟨_, rfl⟩

example : buildWith 100 50 [.cleanup 50000000, .bufferSize 8, .ignoreInternal true, .hasher 1, .callback 2] =
    .ok { numCounters := 100, maxCost := 50, ringCap := 64, bufCap := 8, metricsOn := false,
          ignoreInternalCost := true, cleanupNs := 50000000 } := by rfl

end Stretto.C20

#print axioms Stretto.C20.finalize_rejects
#print axioms Stretto.C20.accepted_iff
#print axioms Stretto.C20.sketch_sizing_wf
#print axioms Stretto.C20.estimator_never_panics
#print axioms Stretto.C20.stripe_in_range
#print axioms Stretto.C20.ring_any_capacity
#print axioms Stretto.C20.ring_zero_or_one_flushes_every_push
#print axioms Stretto.C20.blocked_calls_are_released
#print axioms Stretto.C20.build_uses_last_settings
#print axioms Stretto.C20.build_accepted_iff
