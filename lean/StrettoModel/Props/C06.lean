import StrettoModel.Proofs.Agree
/-!
# C06 — Resident entries and policy charges always agree at quiescence

Quantification: every sequence of actions of the labelled transition system of `Model/Lts.lean` —
any interleaving of client calls (insert, insert_if_present, get, get_mut, remove, wait, clear,
close, update_max_cost) from any number of threads with the processor's iterations (insert-buffer
item, clear request, cleanup tick, stop) and the policy worker, at the granularity "one call / one
loop iteration = one step" — every validator, every estimate function, every sample order.
Two guards on oracle inputs, both checked at run time by the driver on what the implementation
observed: `VictimsOk` (no sampled victim is the incoming key) and `TickOk` (conflict hashes filed in
the expiry buckets pass the store's check for the entries they refer to).
-/
namespace Stretto.C06
open Stretto

/-- the guards on the oracle inputs of an action -/
def ActOk (c : Cache) : Act → Prop
  | .procItem est refills => ∀ it rest, c.buf = it :: rest →
      VictimsOk (({ c with buf := rest } : Cache).admitPending) est refills it
  | .procTick _ order => TickOk c order
  | _ => True

/-- no step ever restarts an exited processor -/
theorem step_exited (su : Nat → Nat → Bool) (c c' : Cache) (a : Act) (hs : c.step su a = some c')
    (he : c.procExited = true) : c'.procExited = true := by
  cases a with
  | insert k cf v cost ttl now coster only =>
    simp only [Cache.step, Option.some.injEq] at hs; subst hs
    unfold Cache.insert Cache.insertBody
    split
    · exact he
    · simp only []
      split
      · exact he
      · split
        · split <;> exact he
        · split
          · exact he
          · split
            · exact he
            · simpa using he
  | get k cf now =>
    simp only [Cache.step, Option.some.injEq] at hs; subst hs
    unfold Cache.get; split
    · exact he
    · simp only []; split <;> simpa using he
  | getMut k cf now v =>
    simp only [Cache.step, Option.some.injEq] at hs; subst hs
    unfold Cache.getMutWrite; split
    · exact he
    · simp only []; split <;> simpa using he
  | remove k cf =>
    simp only [Cache.step, Option.some.injEq] at hs; subst hs
    unfold Cache.remove; split
    · exact he
    · simp only []
      cases (c.store.tryRemove k cf).2 <;> (simp only; split <;> exact he)
  | waitEnq id =>
    simp only [Cache.step, Option.some.injEq] at hs; subst hs
    unfold Cache.waitEnq; split
    · exact he
    · split <;> exact he
  | clearReq id =>
    simp only [Cache.step, Option.some.injEq] at hs; subst hs
    unfold Cache.clearReq; split <;> exact he
  | closeBegin id =>
    simp only [Cache.step, Option.some.injEq] at hs; subst hs
    unfold Cache.closeBegin; split <;> exact he
  | updateMaxCost mc =>
    simp only [Cache.step, Option.some.injEq] at hs; subst hs; exact he
  | procItem est refills => simp [Cache.step, Cache.procItem, he] at hs
  | procClear => simp [Cache.step, Cache.procClear, he] at hs
  | procTick now order => simp [Cache.step, Cache.procTick, he] at hs
  | procStop => simp [Cache.step, Cache.procStop, he] at hs
  | policyWorker =>
    simp only [Cache.step, Cache.policyWorkerStep] at hs
    cases hp : c.pq with
    | nil => simp [hp] at hs
    | cons b rest => simp only [hp, Option.map_some, Option.some.injEq] at hs; subst hs; exact he
  | policyClose =>
    simp only [Cache.step, Option.some.injEq] at hs; subst hs; exact he

/-- **the invariant is preserved by every step** -/
theorem step_good (su : Nat → Nat → Bool) (c c' : Cache) (a : Act) (hok : ActOk c a)
    (hs : c.step su a = some c') (h : Good06 c) : Good06 c' := by
  rcases h with he | h
  · exact Or.inl (step_exited su c c' a hs he)
  · cases a with
    | insert k cf v cost ttl now coster only =>
      simp only [Cache.step, Option.some.injEq] at hs; subst hs
      exact Or.inr (insert_inv06 c su k cf v cost ttl now coster only h)
    | get k cf now =>
      simp only [Cache.step, Option.some.injEq] at hs; subst hs
      exact Or.inr (get_inv06 c k cf now h)
    | getMut k cf now v =>
      simp only [Cache.step, Option.some.injEq] at hs; subst hs
      exact Or.inr (getMut_inv06 c k cf now v h)
    | remove k cf =>
      simp only [Cache.step, Option.some.injEq] at hs; subst hs
      exact Or.inr (remove_inv06 c k cf h)
    | waitEnq id =>
      simp only [Cache.step, Option.some.injEq] at hs; subst hs
      right
      unfold Cache.waitEnq
      split
      · exact h
      · split
        · refine inv06_transfer c _ (fun _ => rfl) h.storeWF rfl h.lfuInv ?_ h
          intro j ⟨cf', hm⟩; exact ⟨cf', mem_buf_snoc hm⟩
        · exact h
    | clearReq id =>
      simp only [Cache.step, Option.some.injEq] at hs; subst hs
      right; unfold Cache.clearReq
      split
      · exact h
      · exact frame_inv06 c _ rfl rfl rfl rfl h
    | closeBegin id =>
      simp only [Cache.step, Option.some.injEq] at hs; subst hs
      right; unfold Cache.closeBegin
      split
      · exact h
      · exact frame_inv06 c _ rfl rfl rfl rfl h
    | updateMaxCost mc =>
      simp only [Cache.step, Option.some.injEq] at hs; subst hs
      right
      exact inv06_transfer c _ (fun _ => rfl) h.storeWF rfl (Lfu.updateMaxCost_inv _ _ h.lfuInv)
        (fun j hj => hj) h
    | procItem est refills => exact Or.inr (procItem_inv06 c c' su est refills h hok hs)
    | procClear => exact Or.inr (procClear_inv06 c c' hs)
    | procTick now order => exact Or.inr (procTick_inv06 c c' now order h hok hs)
    | procStop =>
      left
      simp only [Cache.step, Cache.procStop] at hs
      split at hs
      · cases hs
      · simp only [Option.some.injEq] at hs; subst hs; rfl
    | policyWorker =>
      simp only [Cache.step, Cache.policyWorkerStep] at hs
      cases hp : c.pq with
      | nil => simp [hp] at hs
      | cons b rest =>
        simp only [hp, Option.map_some, Option.some.injEq] at hs; subst hs
        exact Or.inr (frame_inv06 c _ rfl rfl rfl rfl h)
    | policyClose =>
      simp only [Cache.step, Option.some.injEq] at hs; subst hs
      exact Or.inr (frame_inv06 c _ rfl rfl rfl rfl h)

/-- a run in which every enabled action satisfies the guards -/
inductive Run (su : Nat → Nat → Bool) : Cache → Cache → Prop
  | refl (c : Cache) : Run su c c
  | step (c c' c'' : Cache) (a : Act) : Run su c c' → ActOk c' a → c'.step su a = some c'' → Run su c c''

theorem init_good (cfg : Cfg) (maxCost : Int) (samples : Nat) : Good06 (Cache.init cfg maxCost samples) :=
  Or.inr ⟨KMap.wf_nil, ⟨KMap.wf_nil, rfl⟩, fun k hk => by simp [Cache.init, Store.empty] at hk,
    fun k hk => by simp [Cache.init] at hk⟩

theorem reachable_good (su : Nat → Nat → Bool) (c0 c : Cache) (h0 : Good06 c0) (hr : Run su c0 c) :
    Good06 c := by
  induction hr with
  | refl => exact h0
  | step c' c'' a _ hok hs ih => exact step_good su c' c'' a hok hs ih

/-- quiescent: the processor is alive and has nothing left to do for the clients -/
def Quiescent (c : Cache) : Prop :=
  c.procExited = false ∧ c.buf = [] ∧ c.pendingSends = []

/-- **agree_at_quiescence**: in every reachable quiescent state the set of resident entries equals
the set of entries the policy charges for (told apart by their index hash), resident keys are
distinct so `len()` is their number, and `used` is the sum of the charges. -/
theorem agree_at_quiescence (su : Nat → Nat → Bool) (cfg : Cfg) (maxCost : Int) (samples : Nat)
    (c : Cache) (hr : Run su (Cache.init cfg maxCost samples) c) (hq : Quiescent c) :
    (∀ k, (c.store.items.get k).isSome = (c.lfu.costs.get k).isSome) ∧
    (KMap.keys c.store.items).Nodup ∧ c.len = (KMap.keys c.store.items).length ∧
    c.lfu.used = KMap.total c.lfu.costs := by
  have hg := reachable_good su _ c (init_good cfg maxCost samples) hr
  obtain ⟨hne, hbuf, hpend⟩ := hq
  rcases hg with he | h
  · rw [hne] at he; cases he
  · refine ⟨?_, h.storeWF, by simp [Cache.len, Store.len, KMap.keys], h.lfuInv.2⟩
    intro k
    cases hs : (c.store.items.get k).isSome with
    | true => exact (h.resident_charged k hs).symm
    | false =>
      cases hc : (c.lfu.costs.get k).isSome with
      | false => rfl
      | true =>
        rcases h.charged_resident k hc with h1 | ⟨cf, hm⟩
        · rw [hs] at h1; cases h1
        · rw [hbuf, hpend] at hm; cases hm

/-- between quiescent points: no entry is ever resident without being charged (hence evictable),
in every reachable state while the processor is alive -/
theorem resident_always_charged (su : Nat → Nat → Bool) (cfg : Cfg) (maxCost : Int) (samples : Nat)
    (c : Cache) (hr : Run su (Cache.init cfg maxCost samples) c) (halive : c.procExited = false) (k : Nat)
    (hres : (c.store.items.get k).isSome = true) : (c.lfu.costs.get k).isSome = true := by
  rcases reachable_good su _ c (init_good cfg maxCost samples) hr with he | h
  · rw [halive] at he; cases he
  · exact h.resident_charged k hres

/-- a charge without a resident entry belongs to a key whose `Delete` is still on its way -/
theorem charge_outlives_entry_only_while_delete_pending (su : Nat → Nat → Bool) (cfg : Cfg)
    (maxCost : Int) (samples : Nat) (c : Cache) (hr : Run su (Cache.init cfg maxCost samples) c)
    (halive : c.procExited = false) (k : Nat) (hch : (c.lfu.costs.get k).isSome = true)
    (hnr : (c.store.items.get k).isSome = false) :
    ∃ cf, Item.delete k cf ∈ c.buf ++ c.pendingSends := by
  rcases reachable_good su _ c (init_good cfg maxCost samples) hr with he | h
  · rw [halive] at he; cases he
  · rcases h.charged_resident k hch with h1 | h1
    · rw [hnr] at h1; cases h1
    · exact h1

-- non-vacuity: a concrete run reaching a non-trivial quiescent state -----------------------------
def exCfg : Cfg := { itemSize := 56, ignoreInternal := true, bufCap := 4, ringCap := 2, pqCap := some 3, metricsOn := false }
def exRun : List Act := [.insert 1 0 11 5 0 10 0 false, .insert 2 0 12 5 0 10 0 false,
  .procItem (fun _ => 0) [], .procItem (fun _ => 0) [], .remove 1 0, .procItem (fun _ => 0) []]
example : ((Cache.run (fun _ _ => true) (Cache.init exCfg 100 5) exRun).store.items.map (·.1),
           (Cache.run (fun _ _ => true) (Cache.init exCfg 100 5) exRun).lfu.costs,
           (Cache.run (fun _ _ => true) (Cache.init exCfg 100 5) exRun).buf.length) = ([2], [(2, 5)], 0) := by rfl

end Stretto.C06

#print axioms Stretto.C06.step_good
#print axioms Stretto.C06.reachable_good
#print axioms Stretto.C06.agree_at_quiescence
#print axioms Stretto.C06.resident_always_charged
#print axioms Stretto.C06.charge_outlives_entry_only_while_delete_pending
