import StrettoModel.Proofs.Agree
import StrettoModel.Props.C04
/-!
# C02 — Lookups return only the current value of that same key

Values are opaque ids; a *write* of `(k, v)` is an `insert`/`insert_if_present` call for key `k`
carrying `v`, or a write of `v` through `get_mut` on `k`. Quantification: every run of the transition
system (`Model/Lts.lean`), every validator, every oracle input.
-/
namespace Stretto.C02
open Stretto

/-- the writes an action performs -/
def writeOf : Act → List (Nat × Nat)
  | .insert k _ v _ _ _ _ _ => [(k, v)]
  | .getMut k _ _ v => [(k, v)]
  | _ => []

/-- provenance: everything resident or on its way to the store was written under that very key -/
structure Prov (K : Nat → Bool) (W : List (Nat × Nat)) (c : Cache) : Prop where
  resident : ∀ k e, K k = true → c.store.items.get k = some e → (k, e.val) ∈ W
  buffered : ∀ k cf cost v exp, K k = true → Item.new k cf cost v exp ∈ c.buf ++ c.pendingSends → (k, v) ∈ W

theorem prov_mono (K : Nat → Bool) (W W' : List (Nat × Nat)) (c : Cache) (h : Prov K W c) (hsub : ∀ p ∈ W, p ∈ W') : Prov K W' c :=
  ⟨fun k e hK he => hsub _ (h.resident k e hK he), fun k cf cost v exp hK hm => hsub _ (h.buffered k cf cost v exp hK hm)⟩

theorem tryInsert_get (s : Store) (su : Nat → Nat → Bool) (k v cf : Nat) (t : Time) (j : Nat) (e : Entry)
    (h : (s.tryInsert su k v cf t).items.get j = some e) :
    s.items.get j = some e ∨ (j = k ∧ e.val = v) := by
  unfold Store.tryInsert at h
  cases hg : s.items.get k with
  | none =>
    simp only [hg, KMap.get_set] at h
    split at h
    · right; rename_i hjk; exact ⟨hjk, by cases h; rfl⟩
    · left; exact h
  | some e0 =>
    simp only [hg] at h
    split at h
    · left; exact h
    · split at h
      · left; exact h
      · simp only [KMap.get_set] at h
        split at h
        · right; rename_i hjk; exact ⟨hjk, by cases h; rfl⟩
        · left; exact h

theorem evictVictims_get (vs : List (Nat × Int)) (c : Cache) (j : Nat) (e : Entry)
    (h : (c.evictVictims vs).store.items.get j = some e) : c.store.items.get j = some e := by
  have := (evictVictims_spec vs c).2.2.2.2.2 j
  rw [this] at h
  split at h
  · cases h
  · exact h

theorem sweepKeys_get (keys : List (Nat × Nat)) (c : Cache) (now : Nat) (acc : List CB) (j : Nat) (e : Entry)
    (h : (c.sweepKeys now keys acc).1.store.items.get j = some e) : c.store.items.get j = some e := by
  induction keys generalizing c acc with
  | nil => simpa [Cache.sweepKeys] using h
  | cons p rest ih =>
    obtain ⟨k, cf⟩ := p
    simp only [Cache.sweepKeys] at h
    have := ih _ _ h
    rw [Cache.sweepOne_get] at this
    split at this
    · cases this
    · exact this

theorem procClear_empty (c c' : Cache) (hs : c.procClear = some c') :
    (∀ j, c'.store.items.get j = none) ∧ c'.buf = [] ∧ c'.pendingSends = c.pendingSends := by
  unfold Cache.procClear at hs
  split at hs
  · cases hs
  · split at hs
    · cases hs
    · rename_i id rest _
      simp only [Option.some.injEq] at hs
      have hf := drain_frame' c.buf ({ c with buf := [], clearQ := rest } : Cache)
      subst hs
      exact ⟨fun j => by simp [Store.clear, Store.empty], hf.2.2.1, hf.2.2.2⟩

/-- **provenance is preserved by every step** (the action's own writes join the set) -/
theorem step_prov (su : Nat → Nat → Bool) (K : Nat → Bool) (W : List (Nat × Nat)) (c c' : Cache) (a : Act)
    (hs : c.step su a = some c') (h : Prov K W c) : Prov K (W ++ writeOf a) c' := by
  have hmono : Prov K (W ++ writeOf a) c := prov_mono K W _ c h (fun p hp => by simp [hp])
  cases a with
  | insert k cf v cost ttl now coster only =>
    simp only [Cache.step, Option.some.injEq] at hs; subst hs
    unfold Cache.insert
    split
    · exact hmono
    · unfold Cache.insertBody
      simp only []
      split
      · exact hmono
      · have hstore : ∀ j e, (c.store.tryUpdate su k v cf { d := ttl, created := now }).1.items.get j = some e →
            c.store.items.get j = some e ∨ (j = k ∧ e.val = v) := by
          intro j e hje
          unfold Store.tryUpdate at hje
          cases hg : c.store.items.get k with
          | none => simp only [hg] at hje; left; exact hje
          | some e0 =>
            simp only [hg] at hje
            split at hje
            · left; exact hje
            · split at hje
              · left; exact hje
              · simp only [KMap.get_set] at hje
                split at hje
                · right; rename_i hjk; exact ⟨hjk, by cases hje; rfl⟩
                · left; exact hje
        have hres : ∀ j e, K j = true → (c.store.tryUpdate su k v cf { d := ttl, created := now }).1.items.get j = some e →
            (j, e.val) ∈ W ++ writeOf (Act.insert k cf v cost ttl now coster only) := by
          intro j e hK hje
          rcases hstore j e hje with h1 | ⟨h1, h2⟩
          · simp [h.resident j e hK h1]
          · subst h1; subst h2; simp [writeOf]
        split
        · split
          · refine ⟨hres, ?_⟩
            intro k' cf' cost' v' exp' hK hm
            simp only [List.append_assoc, List.mem_append, List.mem_cons, List.not_mem_nil, or_false] at hm
            rcases hm with hm | hm | hm
            · exact hmono.buffered k' cf' cost' v' exp' hK (by simp [hm])
            · cases hm
            · exact hmono.buffered k' cf' cost' v' exp' hK (by simp [hm])
          · exact ⟨hres, hmono.buffered⟩
        · split
          · exact hmono
          · split
            · refine ⟨hmono.resident, ?_⟩
              intro k' cf' cost' v' exp' hK hm
              simp only [List.append_assoc, List.mem_append, List.mem_cons, List.not_mem_nil, or_false] at hm
              rcases hm with hm | hm | hm
              · exact hmono.buffered k' cf' cost' v' exp' hK (by simp [hm])
              · cases hm; simp [writeOf]
              · exact hmono.buffered k' cf' cost' v' exp' hK (by simp [hm])
            · exact ⟨by simpa using hmono.resident, by simpa using hmono.buffered⟩
  | get k cf now =>
    simp only [Cache.step, Option.some.injEq] at hs; subst hs
    unfold Cache.get
    split
    · exact hmono
    · simp only []
      split <;> exact ⟨by simpa using hmono.resident, by simpa using hmono.buffered⟩
  | getMut k cf now v =>
    simp only [Cache.step, Option.some.injEq] at hs; subst hs
    unfold Cache.getMutWrite
    split
    · exact hmono
    · simp only []
      split
      · exact ⟨by simpa using hmono.resident, by simpa using hmono.buffered⟩
      · refine ⟨?_, by simpa using hmono.buffered⟩
        intro j e hK hje
        simp only [Cache.met_store, Cache.ringPush_store] at hje
        unfold Store.getMutWrite at hje
        cases hl : c.store.lookup k cf now with
        | none => simp only [hl] at hje; exact hmono.resident j e hK hje
        | some e0 =>
          simp only [hl, KMap.get_set] at hje
          split at hje
          · rename_i hjk; subst hjk; cases hje; simp [writeOf]
          · exact hmono.resident j e hK hje
  | remove k cf =>
    simp only [Cache.step, Option.some.injEq] at hs; subst hs
    unfold Cache.remove
    split
    · exact hmono
    · simp only []
      have hres : ∀ j e, (c.store.tryRemove k cf).1.items.get j = some e → c.store.items.get j = some e := by
        intro j e hje
        rw [Store.tryRemove_get] at hje
        split at hje
        · cases hje
        · exact hje
      have hbuf : ∀ (buf' pend' : List Item),
          (∀ x, x ∈ buf' ++ pend' → x ∈ c.buf ++ c.pendingSends ∨ x = Item.delete k cf) →
          ∀ k' cf' cost' v' exp', K k' = true → Item.new k' cf' cost' v' exp' ∈ buf' ++ pend' →
            (k', v') ∈ W ++ writeOf (Act.remove k cf) := by
        intro buf' pend' hsub k' cf' cost' v' exp' hK hm
        rcases hsub _ hm with h1 | h1
        · exact hmono.buffered k' cf' cost' v' exp' hK h1
        · cases h1
      cases hr : (c.store.tryRemove k cf).2 with
      | none =>
        simp only
        split
        · exact ⟨hmono.resident, hbuf _ _ (by intro x hx; simp only [List.mem_append, List.mem_singleton] at hx ⊢; rcases hx with (h1 | h1) | h1 <;> simp [h1])⟩
        · exact ⟨hmono.resident, hbuf _ _ (by intro x hx; simp only [List.mem_append, List.mem_singleton] at hx ⊢; rcases hx with h1 | h1 | h1 <;> simp [h1])⟩
      | some e0 =>
        simp only
        split
        · exact ⟨fun j e hK hje => hmono.resident j e hK (hres j e hje), hbuf _ _ (by intro x hx; simp only [List.mem_append, List.mem_singleton] at hx ⊢; rcases hx with (h1 | h1) | h1 <;> simp [h1])⟩
        · exact ⟨fun j e hK hje => hmono.resident j e hK (hres j e hje), hbuf _ _ (by intro x hx; simp only [List.mem_append, List.mem_singleton] at hx ⊢; rcases hx with h1 | h1 | h1 <;> simp [h1])⟩
  | waitEnq id =>
    simp only [Cache.step, Option.some.injEq] at hs; subst hs
    unfold Cache.waitEnq
    split
    · exact hmono
    · split
      · refine ⟨hmono.resident, ?_⟩
        intro k' cf' cost' v' exp' hK hm
        simp only [List.append_assoc, List.mem_append, List.mem_cons, List.not_mem_nil, or_false] at hm
        rcases hm with hm | hm | hm
        · exact hmono.buffered k' cf' cost' v' exp' hK (by simp [hm])
        · cases hm
        · exact hmono.buffered k' cf' cost' v' exp' hK (by simp [hm])
      · exact hmono
  | clearReq id =>
    simp only [Cache.step, Option.some.injEq] at hs; subst hs
    unfold Cache.clearReq; split <;> exact ⟨hmono.resident, hmono.buffered⟩
  | closeBegin id =>
    simp only [Cache.step, Option.some.injEq] at hs; subst hs
    unfold Cache.closeBegin; split <;> exact ⟨hmono.resident, hmono.buffered⟩
  | updateMaxCost mc =>
    simp only [Cache.step, Option.some.injEq] at hs; subst hs; exact ⟨hmono.resident, hmono.buffered⟩
  | procItem est refills =>
    simp only [Cache.step, Cache.procItem] at hs
    split at hs
    · cases hs
    · split at hs
      · cases hs
      · rename_i it rest hb
        simp only [Option.some.injEq] at hs; subst hs
        simp only [writeOf, List.append_nil]
        -- after the pop: same store, the remaining items are a subset of the old ones
        have hf := admitPending_frame ({ c with buf := rest } : Cache)
        have hpop : ∀ x, x ∈ (({ c with buf := rest } : Cache).admitPending).buf ++
            (({ c with buf := rest } : Cache).admitPending).pendingSends → x ∈ c.buf ++ c.pendingSends := by
          intro x hx
          rw [admitPending_mem] at hx
          rw [hb]
          simp only [List.cons_append, List.mem_cons]
          right; exact hx
        have hhead : it ∈ c.buf ++ c.pendingSends := by rw [hb]; simp
        have hbufH : ∀ (c1 : Cache) (it : Item), (c1.handleItem su est refills it).buf = c1.buf :=
          fun c1 it => handleItem_buf c1 su est refills it
        have hpendH : ∀ (c1 : Cache) (it : Item), (c1.handleItem su est refills it).pendingSends = c1.pendingSends := by
          intro c1 it
          cases it with
          | wait w => rfl
          | update k cost ext => simp [Cache.handleItem]
          | delete k cf =>
            simp only [Cache.handleItem]
            cases (c1.store.tryRemove k cf).2 <;> (simp only; split <;> simp)
          | new k cf cost v exp =>
            simp only [Cache.handleItem]
            split <;> (try rw [(evictVictims_spec _ _).2.2.1]) <;> (split <;> (try split) <;> simp)
        refine ⟨?_, ?_⟩
        · intro j e hK hje
          cases it with
          | wait w => exact h.resident j e hK (by simpa [Cache.handleItem, hf.1] using hje)
          | update k cost ext => exact h.resident j e hK (by simpa [Cache.handleItem, hf.1] using hje)
          | delete k cf =>
            simp only [Cache.handleItem] at hje
            have : (({ c with buf := rest } : Cache).admitPending.store.tryRemove k cf).1.items.get j = some e := by
              cases hr : (({ c with buf := rest } : Cache).admitPending.store.tryRemove k cf).2 <;>
                (simp only [hr] at hje; split at hje <;> simpa using hje)
            rw [Store.tryRemove_get] at this
            split at this
            · cases this
            · rw [hf.1] at this; exact h.resident j e hK this
          | new k cf cost v exp =>
            have hnew : K k = true → (k, v) ∈ W := fun hk => h.buffered k cf cost v exp hk hhead
            simp only [Cache.handleItem] at hje
            -- peel off the eviction of the victims, then the (possible) store insert
            have hpre : ∀ (c2 : Cache), c2.store = ({ c with buf := rest } : Cache).admitPending.store ∨
                c2.store = (({ c with buf := rest } : Cache).admitPending.store.tryInsert su k v cf exp) →
                c2.store.items.get j = some e → (j, e.val) ∈ W := by
              intro c2 hc2 hj2
              rcases hc2 with hc2 | hc2
              · rw [hc2, hf.1] at hj2; exact h.resident j e hK hj2
              · rw [hc2] at hj2
                rcases tryInsert_get _ su k v cf exp j e hj2 with h1 | ⟨h1, h2⟩
                · rw [hf.1] at h1; exact h.resident j e hK h1
                · subst h1; subst h2; exact hnew hK
            split at hje
            · have hje' := evictVictims_get _ _ j e hje
              split at hje'
              · split at hje'
                · exact hpre _ (Or.inr (by simp)) hje'
                · exact hpre _ (Or.inr (by simp)) hje'
              · exact hpre _ (Or.inl (by simp)) hje'
            · split at hje
              · split at hje
                · exact hpre _ (Or.inr (by simp)) hje
                · exact hpre _ (Or.inr (by simp)) hje
              · exact hpre _ (Or.inl (by simp)) hje
        · intro k' cf' cost' v' exp' hK hm
          rw [hbufH, hpendH] at hm
          exact h.buffered k' cf' cost' v' exp' hK (hpop _ hm)
  | procClear =>
    simp only [Cache.step] at hs
    obtain ⟨h1, h2, h3⟩ := procClear_empty c c' hs
    refine ⟨(fun j e _ hje => by rw [h1 j] at hje; cases hje), ?_⟩
    intro k' cf' cost' v' exp' hK hm
    rw [h2, h3] at hm
    exact hmono.buffered k' cf' cost' v' exp' hK (by simp at hm; simp [hm])
  | procTick now order =>
    simp only [Cache.step, Cache.procTick] at hs
    split at hs
    · cases hs
    · simp only [Option.some.injEq] at hs; subst hs
      simp only [writeOf, List.append_nil]
      have hd := deliverEvictions_frame
        ((({ c with store := { c.store with em := (c.store.em.tryCleanup now).1 } } : Cache).sweepKeys now order []).2.reverse)
        (({ c with store := { c.store with em := (c.store.em.tryCleanup now).1 } } : Cache).sweepKeys now order []).1
      have hk := sweepKeys_frame order ({ c with store := { c.store with em := (c.store.em.tryCleanup now).1 } } : Cache) now []
      refine ⟨?_, ?_⟩
      · intro j e hK hje
        rw [hd.1] at hje
        exact h.resident j e hK (by simpa using sweepKeys_get order _ now [] j e hje)
      · intro k' cf' cost' v' exp' hK hm
        rw [hd.2.2.1, hd.2.2.2, hk.1] at hm
        have hp : (({ c with store := { c.store with em := (c.store.em.tryCleanup now).1 } } : Cache).sweepKeys now order []).1.pendingSends = c.pendingSends := by
          have : ∀ (keys : List (Nat × Nat)) (c0 : Cache) (acc : List CB), (c0.sweepKeys now keys acc).1.pendingSends = c0.pendingSends := by
            intro keys
            induction keys with
            | nil => intro c0 acc; simp [Cache.sweepKeys]
            | cons p rest ih =>
              intro c0 acc
              obtain ⟨k, cf⟩ := p
              simp only [Cache.sweepKeys]
              rw [ih]
              unfold Cache.sweepOne
              cases c0.store.expiration k with
              | none => rfl
              | some t => simp only; split
                          · cases (c0.store.tryRemove k cf).2 <;> simp
                          · rfl
          exact this order _ []
        rw [hp] at hm
        exact h.buffered k' cf' cost' v' exp' hK hm
  | procStop =>
    simp only [Cache.step, Cache.procStop] at hs
    split at hs
    · cases hs
    · simp only [Option.some.injEq] at hs; subst hs
      refine ⟨hmono.resident, ?_⟩
      intro k' cf' cost' v' exp' hK hm
      simp only [List.nil_append] at hm
      exact hmono.buffered k' cf' cost' v' exp' hK (by simp [hm])
  | policyWorker =>
    simp only [Cache.step, Cache.policyWorkerStep] at hs
    cases hp : c.pq with
    | nil => simp [hp] at hs
    | cons b rest => simp only [hp, Option.map_some, Option.some.injEq] at hs; subst hs; exact ⟨hmono.resident, hmono.buffered⟩
  | policyClose =>
    simp only [Cache.step, Option.some.injEq] at hs; subst hs; exact ⟨hmono.resident, hmono.buffered⟩

/-- the writes of a whole action sequence -/
def writesOf (acts : List Act) : List (Nat × Nat) := (acts.map writeOf).flatten

/-- a run as a relation (only enabled actions) -/
inductive Run (su : Nat → Nat → Bool) : Cache → List Act → Cache → Prop
  | refl (c : Cache) : Run su c [] c
  | step (c c' c'' : Cache) (acts : List Act) (a : Act) : Run su c acts c' → c'.step su a = some c'' →
      Run su c (acts ++ [a]) c''

theorem run_prov (su : Nat → Nat → Bool) (K : Nat → Bool) (W : List (Nat × Nat)) (c c' : Cache) (acts : List Act)
    (hr : Run su c acts c') (h : Prov K W c) : Prov K (W ++ writesOf acts) c' := by
  induction hr with
  | refl => simpa [writesOf] using h
  | step c1 c2 acts a _ hs ih =>
    have := step_prov su K _ c1 c2 a hs ih
    simpa [writesOf, List.append_assoc] using this

/-- what a lookup serves is resident, so provenance covers it -/
theorem get_of_prov (K : Nat → Bool) (W : List (Nat × Nat)) (c : Cache) (h : Prov K W c) (k cf now v : Nat)
    (hK : K k = true) (hget : (c.get k cf now).2 = some v) : (k, v) ∈ W := by
  unfold Cache.get at hget
  split at hget
  · cases hget
  · simp only [Cache.ringPush_store] at hget
    cases hl : c.store.lookup k cf now with
    | none => simp [Store.get, hl] at hget
    | some e =>
      have he := (Store.lookup_some c.store k cf now e hl).1
      have hv : e.val = v := by simpa [Store.get, hl] using hget
      subst hv
      exact h.resident k e hK he

/-- **provenance**: in every state reachable from the empty cache, a lookup of key `k` returns
nothing or a value that was written under `k` by one of the calls so far — never another key's
value. -/
theorem lookup_returns_only_written (su : Nat → Nat → Bool) (cfg : Cfg) (maxCost : Int) (samples : Nat)
    (acts : List Act) (c : Cache) (hr : Run su (Cache.init cfg maxCost samples) acts c) (k cf now v : Nat)
    (hget : (c.get k cf now).2 = some v) : (k, v) ∈ writesOf acts := by
  have hp : Prov (fun _ => true) [] (Cache.init cfg maxCost samples) :=
    ⟨(fun k e _ he => by simp [Cache.init, Store.empty] at he),
     (fun k cf cost v exp _ hm => by simp [Cache.init] at hm)⟩
  have := run_prov su _ [] _ c acts hr hp
  simp only [List.nil_append] at this
  exact get_of_prov _ _ c this k cf now v rfl hget

/-- **after a clear has taken effect, only later writes are ever returned**: once the processor has
served a clear request, nothing is resident and nothing is buffered, so every value a later lookup
returns was written by a call after that point — never one written before the clear. -/
theorem after_clear_only_later_writes (su : Nat → Nat → Bool) (c0 c1 c : Cache) (later : List Act)
    (hclear : c0.procClear = some c1) (hpend : c0.pendingSends = []) (hr : Run su c1 later c)
    (k cf now v : Nat) (hget : (c.get k cf now).2 = some v) : (k, v) ∈ writesOf later := by
  have hp : Prov (fun _ => true) [] c1 := by
    obtain ⟨h1, h2, h3⟩ := procClear_empty c0 c1 hclear
    exact ⟨(fun j e _ hje => by rw [h1 j] at hje; cases hje),
           (fun k cf cost v exp _ hm => by rw [h2, h3, hpend] at hm; simp at hm)⟩
  have := run_prov su _ [] c1 c later hr hp
  simp only [List.nil_append] at this
  exact get_of_prov _ _ c this k cf now v rfl hget

/-- **after a remove has taken effect, only later writes of that key are ever returned**: in a state
where key `k` is not resident and no insert of `k` is still on its way (the state a `remove(k)` leaves
once earlier inserts of `k` have been processed), every value a later lookup of `k` returns was written
under `k` afterwards. -/
theorem after_remove_only_later_writes (su : Nat → Nat → Bool) (c1 c : Cache) (later : List Act) (k : Nat)
    (hgone : c1.store.items.get k = none)
    (hnone : ∀ cf cost v exp, Item.new k cf cost v exp ∉ c1.buf ++ c1.pendingSends)
    (hr : Run su c1 later c) (cf now v : Nat) (hget : (c.get k cf now).2 = some v) :
    (k, v) ∈ writesOf later := by
  have hp : Prov (fun j => j == k) [] c1 := by
    refine ⟨?_, ?_⟩
    · intro j e hK hje
      have : j = k := by simpa using hK
      subst this; rw [hgone] at hje; cases hje
    · intro j cf cost v exp hK hm
      have : j = k := by simpa using hK
      subst this; exact absurd hm (hnone cf cost v exp)
  have := run_prov su _ [] c1 c later hr hp
  simp only [List.nil_append] at this
  exact get_of_prov _ _ c this k cf now v (by simp) hget

/-- the state right after `remove(k)` on a cache whose buffer holds no insert of `k`: the premises of
`after_remove_only_later_writes` hold -/
theorem remove_establishes (c : Cache) (k cf : Nat) (hopen : c.closed = false)
    (hcf : ∀ e, c.store.items.get k = some e → Store.conflictOk cf e = true)
    (hnone : ∀ cf' cost v exp, Item.new k cf' cost v exp ∉ c.buf ++ c.pendingSends) :
    (c.remove k cf).1.store.items.get k = none ∧
    ∀ cf' cost v exp, Item.new k cf' cost v exp ∉ (c.remove k cf).1.buf ++ (c.remove k cf).1.pendingSends := by
  unfold Cache.remove
  simp only [hopen, Bool.false_eq_true, ↓reduceIte]
  cases hr : (c.store.tryRemove k cf).2 with
  | none =>
    have hk : c.store.items.get k = none := by
      cases hg : c.store.items.get k with
      | none => rfl
      | some e =>
        have := (Store.tryRemove_some_iff c.store k cf e).mpr ⟨hg, hcf e hg⟩
        rw [hr] at this; cases this
    simp only
    split
    · refine ⟨hk, ?_⟩
      intro cf' cost v exp hm
      simp only [List.mem_append, List.mem_singleton] at hm
      rcases hm with (h1 | h1) | h1
      · exact hnone cf' cost v exp (by simp [h1])
      · cases h1
      · exact hnone cf' cost v exp (by simp [h1])
    · refine ⟨hk, ?_⟩
      intro cf' cost v exp hm
      simp only [List.mem_append, List.mem_singleton] at hm
      rcases hm with h1 | h1 | h1
      · exact hnone cf' cost v exp (by simp [h1])
      · exact hnone cf' cost v exp (by simp [h1])
      · cases h1
  | some e0 =>
    have hk : (c.store.tryRemove k cf).1.items.get k = none := by
      rw [Store.tryRemove_get]; simp [hr]
    simp only
    split
    · refine ⟨hk, ?_⟩
      intro cf' cost v exp hm
      simp only [List.mem_append, List.mem_singleton] at hm
      rcases hm with (h1 | h1) | h1
      · exact hnone cf' cost v exp (by simp [h1])
      · cases h1
      · exact hnone cf' cost v exp (by simp [h1])
    · refine ⟨hk, ?_⟩
      intro cf' cost v exp hm
      simp only [List.mem_append, List.mem_singleton] at hm
      rcases hm with h1 | h1 | h1
      · exact hnone cf' cost v exp (by simp [h1])
      · exact hnone cf' cost v exp (by simp [h1])
      · cases h1

/-- **update_immediate**: an unvetoed insert of a resident key replaces the value at once — the very
next lookup returns it (from C04) -/
theorem update_immediate (c : Cache) (su : Nat → Nat → Bool) (k cf v : Nat) (cost : Int)
    (ttl now : Nat) (coster : Int) (e : Entry) (hopen : c.closed = false)
    (he : c.store.items.get k = some e) (hcf : Store.conflictOk cf e = true) (hsu : su e.val v = true) :
    (c.insert su k cf v cost ttl now coster false).1.store.items.get k =
      some { e with val := v, exp := { d := ttl, created := now } } :=
  (C04.update_applied_at_once c su k cf v cost ttl now coster e hopen he hcf hsu).1

/-- the same for the executable `Cache.run` of `Model/Lts.lean` (actions that are not enabled are skipped) -/
theorem exec_prov (su : Nat → Nat → Bool) (K : Nat → Bool) (W : List (Nat × Nat)) (c : Cache) (acts : List Act)
    (h : Prov K W c) : Prov K (W ++ writesOf acts) (Cache.run su c acts) := by
  induction acts generalizing c W with
  | nil => simpa [writesOf, Cache.run] using h
  | cons a rest ih =>
    simp only [Cache.run]
    have hstep : Prov K (W ++ writeOf a) ((c.step su a).getD c) := by
      cases hs : c.step su a with
      | none => exact prov_mono K W _ c h (fun p hp => by simp [hp])
      | some c' => exact step_prov su K W c c' a hs h
    have := ih (W ++ writeOf a) _ hstep
    simpa [writesOf, List.append_assoc] using this

/-- **provenance, executable form**: after any action sequence from the empty cache, a lookup of `k`
returns nothing or a value written under `k` by one of those actions -/
theorem lookup_returns_only_written_exec (su : Nat → Nat → Bool) (cfg : Cfg) (maxCost : Int) (samples : Nat)
    (acts : List Act) (k cf now v : Nat)
    (hget : ((Cache.run su (Cache.init cfg maxCost samples) acts).get k cf now).2 = some v) :
    (k, v) ∈ writesOf acts := by
  have hp : Prov (fun _ => true) [] (Cache.init cfg maxCost samples) :=
    ⟨(fun k e _ he => by simp [Cache.init, Store.empty] at he),
     (fun k cf cost v exp _ hm => by simp [Cache.init] at hm)⟩
  have := exec_prov su _ [] _ acts hp
  simp only [List.nil_append] at this
  exact get_of_prov _ _ _ this k cf now v rfl hget

-- never rolled back ---------------------------------------------------------------------------------

/-- a `New` item for a key the policy already charges leaves the store alone (the policy re-charges in
place or refuses; nothing is admitted, nothing evicted) -/
theorem handleNew_charged_store (c : Cache) (su : Nat → Nat → Bool) (est : Nat → Int)
    (refills : List (List (Nat × Int))) (k cf : Nat) (cost : Int) (v : Nat) (exp : Time)
    (hinv : c.lfu.Inv) (hch : (c.lfu.costs.get k).isSome = true) :
    (c.handleItem su est refills (Item.new k cf cost v exp)).store = c.store := by
  have sp := policyAdd_spec c.lfu est k (c.internalCost cost) refills hinv
  have hR : (policyAdd c.lfu est k (c.internalCost cost) refills).added = false ∧
      (policyAdd c.lfu est k (c.internalCost cost) refills).victims = none := by
    by_cases hbig : c.internalCost cost > c.lfu.maxCost
    · exact ⟨(sp.oversize hbig).1, (sp.oversize hbig).2.2⟩
    · cases hg : c.lfu.costs.get k with
      | none => simp [hg] at hch
      | some prev =>
        have := sp.update (by omega) ⟨prev, hg⟩
        exact ⟨this.1, this.2.1⟩
  simp only [Cache.handleItem, hR.1, hR.2, Bool.false_eq_true, if_false]
  simp

/-- **never rolled back**: over every step of every actor, the value of a key that stays resident
changes only when that very step is a client write to the key — an `insert` (update in place) or a
write through `get_mut` — and then it becomes the value that call wrote. The processor (stale queued
inserts included), the sweep, evictions of other keys, clears and the workers never put another value
under a resident key. (`Inv06` — every resident entry is charged — holds in every reachable state
while the processor lives: C06.) -/
theorem resident_value_changes_only_by_client_write (su : Nat → Nat → Bool) (c c' : Cache) (a : Act)
    (hs : c.step su a = some c') (hinv : Inv06 c) (k : Nat) (e e' : Entry)
    (he : c.store.items.get k = some e) (he' : c'.store.items.get k = some e') (hne : e'.val ≠ e.val) :
    (∃ cf v cost ttl now coster only, a = Act.insert k cf v cost ttl now coster only ∧ e'.val = v) ∨
    (∃ cf now v, a = Act.getMut k cf now v ∧ e'.val = v) := by
  -- if the entry of `k` is literally the old one, the value did not change
  have same : c'.store.items.get k = some e → False := by
    intro h; rw [h] at he'; cases he'; exact hne rfl
  have keep : (c'.store.items.get k = some e' → c.store.items.get k = some e') → False := by
    intro h; have := h he'; rw [this] at he; cases he; exact hne rfl
  cases a with
  | insert k' cf v cost ttl now coster only =>
    simp only [Cache.step, Option.some.injEq] at hs; subst hs
    have hstore : ∀ j x, (c.store.tryUpdate su k' v cf { d := ttl, created := now }).1.items.get j = some x →
        c.store.items.get j = some x ∨ (j = k' ∧ x.val = v) := by
      intro j x hjx
      unfold Store.tryUpdate at hjx
      cases hg : c.store.items.get k' with
      | none => simp only [hg] at hjx; left; exact hjx
      | some e0 =>
        simp only [hg] at hjx
        split at hjx
        · left; exact hjx
        · split at hjx
          · left; exact hjx
          · simp only [KMap.get_set] at hjx
            split at hjx
            · right; rename_i hjk; exact ⟨hjk, by cases hjx; rfl⟩
            · left; exact hjx
    have key : c.store.items.get k = some e' ∨ (k = k' ∧ e'.val = v) := by
      unfold Cache.insert at he'
      split at he'
      · left; exact he'
      · unfold Cache.insertBody at he'
        simp only [] at he'
        split at he'
        · left; exact he'
        · split at he'
          · split at he' <;> exact hstore k e' (by simpa using he')
          · split at he'
            · left; exact he'
            · split at he'
              · left; exact he'
              · left; simpa using he'
    rcases key with h | ⟨h1, h2⟩
    · exact absurd (fun _ => h) (fun f => keep f)
    · subst h1; left; exact ⟨cf, v, cost, ttl, now, coster, only, rfl, h2⟩
  | get k' cf now =>
    simp only [Cache.step, Option.some.injEq] at hs; subst hs
    exfalso; apply keep; intro h
    unfold Cache.get at h
    split at h
    · exact h
    · simp only [] at h; split at h <;> simpa using h
  | getMut k' cf now v =>
    simp only [Cache.step, Option.some.injEq] at hs; subst hs
    have key : c.store.items.get k = some e' ∨ (k = k' ∧ e'.val = v) := by
      unfold Cache.getMutWrite at he'
      split at he'
      · left; exact he'
      · simp only [] at he'
        split at he'
        · left; simpa using he'
        · simp only [Cache.met_store, Cache.ringPush_store] at he'
          unfold Store.getMutWrite at he'
          cases hl : c.store.lookup k' cf now with
          | none => simp only [hl] at he'; left; exact he'
          | some e0 =>
            simp only [hl, KMap.get_set] at he'
            split at he'
            · rename_i hjk; right; exact ⟨hjk, by cases he'; rfl⟩
            · left; exact he'
    rcases key with h | ⟨h1, h2⟩
    · exact absurd (fun _ => h) (fun f => keep f)
    · subst h1; right; exact ⟨cf, now, v, rfl, h2⟩
  | remove k' cf =>
    simp only [Cache.step, Option.some.injEq] at hs; subst hs
    exfalso; apply keep; intro h
    unfold Cache.remove at h
    split at h
    · exact h
    · simp only [] at h
      have hres : ∀ x, (c.store.tryRemove k' cf).1.items.get k = some x → c.store.items.get k = some x := by
        intro x hx
        rw [Store.tryRemove_get] at hx
        split at hx
        · cases hx
        · exact hx
      cases hr : (c.store.tryRemove k' cf).2 with
      | none => simp only [hr] at h; split at h <;> first | exact hres _ (by simpa using h) | (simpa using h)
      | some e0 => simp only [hr] at h; split at h <;> first | exact hres _ (by simpa using h) | (simpa using h)
  | waitEnq id =>
    simp only [Cache.step, Option.some.injEq] at hs; subst hs
    exfalso; apply keep; intro h
    unfold Cache.waitEnq at h
    split at h
    · exact h
    · split at h <;> exact h
  | clearReq id =>
    simp only [Cache.step, Option.some.injEq] at hs; subst hs
    exfalso; apply keep; intro h
    unfold Cache.clearReq at h; split at h <;> exact h
  | closeBegin id =>
    simp only [Cache.step, Option.some.injEq] at hs; subst hs
    exfalso; apply keep; intro h
    unfold Cache.closeBegin at h; split at h <;> exact h
  | updateMaxCost mc =>
    simp only [Cache.step, Option.some.injEq] at hs; subst hs
    exfalso; exact keep (fun h => h)
  | procItem est refills =>
    simp only [Cache.step, Cache.procItem] at hs
    split at hs
    · cases hs
    · split at hs
      · cases hs
      · rename_i it rest hb
        simp only [Option.some.injEq] at hs; subst hs
        have hf := admitPending_frame ({ c with buf := rest } : Cache)
        exfalso; apply keep; intro h
        cases it with
        | wait w => simpa [Cache.handleItem, hf.1] using h
        | update k' cost ext => simpa [Cache.handleItem, hf.1] using h
        | delete k' cf =>
          simp only [Cache.handleItem] at h
          have : (({ c with buf := rest } : Cache).admitPending.store.tryRemove k' cf).1.items.get k = some e' := by
            cases hr : (({ c with buf := rest } : Cache).admitPending.store.tryRemove k' cf).2 <;>
              (simp only [hr] at h; split at h <;> simpa using h)
          rw [Store.tryRemove_get] at this
          split at this
          · cases this
          · rw [hf.1] at this; exact this
        | new k' cf cost v exp =>
          by_cases hk : k' = k
          · subst hk
            have hch : ((({ c with buf := rest } : Cache).admitPending).lfu.costs.get k').isSome = true := by
              rw [hf.2.1]; exact hinv.resident_charged k' (by simp [he])
            have hli : (({ c with buf := rest } : Cache).admitPending).lfu.Inv := by rw [hf.2.1]; exact hinv.lfuInv
            rw [handleNew_charged_store _ su est refills k' cf cost v exp hli hch, hf.1] at h
            exact h
          · simp only [Cache.handleItem] at h
            have hpre : ∀ (c2 : Cache), c2.store = ({ c with buf := rest } : Cache).admitPending.store ∨
                c2.store = (({ c with buf := rest } : Cache).admitPending.store.tryInsert su k' v cf exp) →
                c2.store.items.get k = some e' → c.store.items.get k = some e' := by
              intro c2 hc2 hj2
              rcases hc2 with hc2 | hc2
              · rw [hc2, hf.1] at hj2; exact hj2
              · rw [hc2] at hj2
                rcases tryInsert_get _ su k' v cf exp k e' hj2 with h1 | ⟨h1, _⟩
                · rw [hf.1] at h1; exact h1
                · exact absurd h1.symm hk
            split at h
            · have h' := evictVictims_get _ _ k e' h
              split at h'
              · split at h'
                · exact hpre _ (Or.inr (by simp)) h'
                · exact hpre _ (Or.inr (by simp)) h'
              · exact hpre _ (Or.inl (by simp)) h'
            · split at h
              · split at h
                · exact hpre _ (Or.inr (by simp)) h
                · exact hpre _ (Or.inr (by simp)) h
              · exact hpre _ (Or.inl (by simp)) h
  | procClear =>
    simp only [Cache.step] at hs
    obtain ⟨h1, _, _⟩ := procClear_empty c c' hs
    rw [h1 k] at he'; cases he'
  | procTick now order =>
    simp only [Cache.step, Cache.procTick] at hs
    split at hs
    · cases hs
    · simp only [Option.some.injEq] at hs; subst hs
      exfalso; apply keep; intro h
      have hd := deliverEvictions_frame
        ((({ c with store := { c.store with em := (c.store.em.tryCleanup now).1 } } : Cache).sweepKeys now order []).2.reverse)
        (({ c with store := { c.store with em := (c.store.em.tryCleanup now).1 } } : Cache).sweepKeys now order []).1
      rw [hd.1] at h
      simpa using sweepKeys_get order _ now [] k e' h
  | procStop =>
    simp only [Cache.step, Cache.procStop] at hs
    split at hs
    · cases hs
    · simp only [Option.some.injEq] at hs; subst hs
      exfalso; exact keep (fun h => h)
  | policyWorker =>
    simp only [Cache.step, Cache.policyWorkerStep] at hs
    cases hp : c.pq with
    | nil => simp [hp] at hs
    | cons b rest =>
      simp only [hp, Option.map_some, Option.some.injEq] at hs; subst hs
      exfalso; exact keep (fun h => h)
  | policyClose =>
    simp only [Cache.step, Option.some.injEq] at hs; subst hs
    exfalso; exact keep (fun h => h)

-- non-vacuity -------------------------------------------------------------------------------------
/-- a concrete run: insert key 3 with value 77, the processor applies it, the lookup returns 77 -/
def exActs : List Act := [.insert 3 0 77 1 0 0 0 false, .procItem (fun _ => 0) []]
def exRun : Cache := Cache.run (fun _ _ => true) (Cache.init C04.exCfg 1000 5) exActs
example : (exRun.get 3 0 0).2 = some 77 := by decide
example : (3, 77) ∈ writesOf exActs := by decide

end Stretto.C02

#print axioms Stretto.C02.step_prov
#print axioms Stretto.C02.lookup_returns_only_written
#print axioms Stretto.C02.lookup_returns_only_written_exec
#print axioms Stretto.C02.after_clear_only_later_writes
#print axioms Stretto.C02.after_remove_only_later_writes
#print axioms Stretto.C02.remove_establishes
#print axioms Stretto.C02.update_immediate
#print axioms Stretto.C02.resident_value_changes_only_by_client_write
