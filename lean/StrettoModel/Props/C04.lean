import StrettoModel.Proofs.Agree
import StrettoModel.Props.C05
import StrettoModel.Props.C06
/-!
# C04 — Below capacity the cache is an exact map: nothing is lost

Shape: the abstract map is `abs c now = fun k cf => c.store.get k cf now` (the store read through the
expiry test). The theorems give, for each kind of history step taken to quiescence, the effect on
the written key and the *frame* (every other key, the callback log) — i.e. the simulation squares of
the refinement "cache at quiescent points = map with TTLs" under the premise that the policy has
room (`NoPressure`: the admission finds `room_left ≥ 0` and the cost fits `max_cost`; a sufficient
user-level condition is that the combined charge of all entries not yet reclaimed fits `max_cost`).
The squares are composed over sequential histories (each operation taken to quiescence) in
`refines_ttl_map`; for overlapping operations the run-time no-loss monitor carries the composition.
-/
namespace Stretto.C04
open Stretto

/-- the policy has room for this item: nothing needs to be evicted, nothing can be rejected -/
def NoPressure (c : Cache) (cost : Int) : Prop :=
  c.internalCost cost ≤ c.lfu.maxCost ∧ c.lfu.roomLeft (c.internalCost cost) ≥ 0

/-- **a new key is admitted and stored when there is room**: applying the buffered `New` item of a
key that is neither resident nor charged, under `NoPressure`, stores exactly that value with its
TTL, charges it, evicts nothing, rejects nothing, calls no callback and touches no other key. -/
theorem new_item_applied_when_room (c : Cache) (su : Nat → Nat → Bool) (est : Nat → Int)
    (refills : List (List (Nat × Int))) (k cf v : Nat) (cost : Int) (exp : Time)
    (hinv : c.lfu.Inv) (hnr : c.store.items.get k = none) (hnc : c.lfu.costs.get k = none)
    (hroom : NoPressure c cost) :
    let c' := c.handleItem su est refills (Item.new k cf cost v exp)
    c'.store.items.get k = some ⟨cf, v, exp⟩ ∧
    (∀ j, j ≠ k → c'.store.items.get j = c.store.items.get j) ∧
    c'.lfu.costs.get k = some (c.internalCost cost) ∧
    (∀ j, j ≠ k → c'.lfu.costs.get j = c.lfu.costs.get j) ∧
    c'.cbs = c.cbs := by
  have spec := (policyAdd_spec c.lfu est k (c.internalCost cost) refills hinv).room hroom.1 hnc hroom.2
  obtain ⟨hadd, hvic, hch, hothers⟩ := spec
  have hins := fun j => Store.tryInsert_absent c.store su k v cf exp hnr j
  simp only [Cache.handleItem, hadd, hvic, if_true]
  refine ⟨?_, ?_, ?_, ?_, ?_⟩
  · split <;> simp [hins]
  · intro j hj; split <;> simp [hins, hj]
  · split <;> simpa using hch
  · intro j hj; split <;> simpa using hothers j hj
  · split <;> simp

/-- what the client sees afterwards: the key is retrievable (until its TTL elapses) -/
theorem then_retrievable (c : Cache) (su : Nat → Nat → Bool) (est : Nat → Int)
    (refills : List (List (Nat × Int))) (k cf v : Nat) (cost : Int) (exp : Time) (now : Nat)
    (hinv : c.lfu.Inv) (hnr : c.store.items.get k = none) (hnc : c.lfu.costs.get k = none)
    (hroom : NoPressure c cost) (hlive : exp.d = 0 ∨ now < exp.created + exp.d) :
    (c.handleItem su est refills (Item.new k cf cost v exp)).store.get k cf now = some v := by
  have h := (new_item_applied_when_room c su est refills k cf v cost exp hinv hnr hnc hroom).1
  unfold Store.get Store.lookup
  simp only [h, Store.conflictOk, beq_self_eq_true, Bool.or_true, Bool.not_true, Bool.false_eq_true, if_false]
  have : (!exp.isZero && exp.isExpired now) = false := by
    simp only [Time.isZero, Time.isExpired, Bool.and_eq_false_iff, Bool.not_eq_false',
      beq_iff_eq, decide_eq_false_iff_not]
    rcases hlive with h0 | h1
    · left; exact h0
    · right; omega
  simp [this]

/-- **an update of a resident key takes effect at once and loses nothing else** -/
theorem update_applied_at_once (c : Cache) (su : Nat → Nat → Bool) (k cf v : Nat) (cost : Int)
    (ttl now : Nat) (coster : Int) (e : Entry) (hopen : c.closed = false)
    (he : c.store.items.get k = some e) (hcf : Store.conflictOk cf e = true) (hsu : su e.val v = true) :
    let c' := (c.insert su k cf v cost ttl now coster false).1
    c'.store.items.get k = some { e with val := v, exp := { d := ttl, created := now } } ∧
    (∀ j, j ≠ k → c'.store.items.get j = c.store.items.get j) ∧
    (c.insert su k cf v cost ttl now coster false).2 = true := by
  have hu : c.store.tryUpdate su k v cf { d := ttl, created := now } =
      ({ items := c.store.items.set k { e with val := v, exp := { d := ttl, created := now } },
         em := c.store.em.tryUpdate k cf e.exp { d := ttl, created := now } }, .update e.val) := by
    simp [Store.tryUpdate, he, hcf, hsu]
  unfold Cache.insert Cache.insertBody
  simp only [hopen, hu, Bool.false_eq_true, if_false, Bool.false_and]
  refine ⟨?_, ?_, ?_⟩
  · split <;> simp
  · intro j hj; split <;> simp [hj]
  · split <;> rfl

/-- **a remove, once applied, removes exactly that key** -/
theorem remove_applied (c : Cache) (su : Nat → Nat → Bool) (est : Nat → Int)
    (refills : List (List (Nat × Int))) (k cf : Nat) (e : Entry)
    (he : c.store.items.get k = some e) (hcf : Store.conflictOk cf e = true) :
    let c1 := (c.remove k cf).1
    (c.closed = false → c1.store.items.get k = none ∧ ∀ j, j ≠ k → c1.store.items.get j = c.store.items.get j) ∧
    ((c.handleItem su est refills (Item.delete k cf)).store.items.get k = none ∧
      ∀ j, j ≠ k → (c.handleItem su est refills (Item.delete k cf)).store.items.get j = c.store.items.get j) := by
  have htr : (c.store.tryRemove k cf).2 = some e := (Store.tryRemove_some_iff c.store k cf e).mpr ⟨he, hcf⟩
  have hget := fun j => Store.tryRemove_get c.store k cf j
  constructor
  · intro hopen
    unfold Cache.remove
    simp only [hopen, Bool.false_eq_true, if_false, htr]
    constructor
    · split <;> simp [hget, htr]
    · intro j hj; split <;> simp [hget, hj]
  · simp only [Cache.handleItem, htr]
    constructor
    · split <;> simp [hget, htr]
    · intro j hj; split <;> simp [hget, hj]

/-- **nothing is swept early**: from C05 — an entry without TTL or not yet expired survives every
cleanup, whatever the buckets contain -/
theorem not_swept_early (c : Cache) (now : Nat) (keys : List (Nat × Nat)) (j : Nat) (e : Entry)
    (he : c.store.items.get j = some e) (hlive : e.exp.d = 0 ∨ now < e.exp.created + e.exp.d) :
    (c.sweepKeys now keys []).1.store.items.get j = some e := by
  induction keys generalizing c with
  | nil => simpa [Cache.sweepKeys] using he
  | cons p rest ih =>
    obtain ⟨k, cf⟩ := p
    simp only [Cache.sweepKeys]
    -- generalise over the accumulator
    have gen : ∀ (keys : List (Nat × Nat)) (c : Cache) (acc : List CB), c.store.items.get j = some e →
        (c.sweepKeys now keys acc).1.store.items.get j = some e := by
      intro keys
      induction keys with
      | nil => intro c acc h; simpa [Cache.sweepKeys] using h
      | cons p rest ih2 =>
        intro c acc h
        obtain ⟨k, cf⟩ := p
        simp only [Cache.sweepKeys]
        apply ih2
        rw [Cache.sweepOne_get]
        split
        · rename_i hh
          obtain ⟨hjk, hsome⟩ := hh
          subst hjk
          obtain ⟨cb, hcb⟩ := Option.isSome_iff_exists.mp hsome
          obtain ⟨e', he', hdue, _, _⟩ := (Cache.sweepOne_removed_iff c now j cf cb).mp hcb
          rw [h] at he'
          have : e = e' := by simpa using he'
          subst this
          simp only [Time.isZero, Time.isExpired, Bool.and_eq_true, Bool.not_eq_true',
            beq_eq_false_iff_ne, ne_eq, decide_eq_true_eq] at hdue
          rcases hlive with h0 | h1 <;> omega
        · exact h
    apply gen
    rw [Cache.sweepOne_get]
    split
    · rename_i hh
      obtain ⟨hjk, hsome⟩ := hh
      subst hjk
      obtain ⟨cb, hcb⟩ := Option.isSome_iff_exists.mp hsome
      obtain ⟨e', he', hdue, _, _⟩ := (Cache.sweepOne_removed_iff c now j cf cb).mp hcb
      rw [he] at he'
      have : e = e' := by simpa using he'
      subst this
      simp only [Time.isZero, Time.isExpired, Bool.and_eq_true, Bool.not_eq_true',
        beq_eq_false_iff_ne, ne_eq, decide_eq_true_eq] at hdue
      rcases hlive with h0 | h1 <;> omega
    · exact he

/-- the user-level sufficient condition for `NoPressure`: if what is charged plus the new charge
fits `max_cost`, there is room -/
theorem fits_implies_no_pressure (c : Cache) (cost : Int) (hnn : 0 ≤ c.lfu.used)
    (hfit : c.lfu.used + c.internalCost cost ≤ c.lfu.maxCost) : NoPressure c cost := by
  unfold NoPressure Lfu.roomLeft
  constructor <;> omega


-- composition: sequential histories taken to quiescence refine a map with TTLs -------------------------

/-- a quiescent state: nothing buffered, nothing blocked, processor alive, C06's and C05's invariants -/
structure Quiet (c : Cache) : Prop where
  buf : c.buf = []
  pend : c.pendingSends = []
  opn : c.closed = false
  alive : c.procExited = false
  inv : Inv06 c
  em : EmInv c.store
  cap : 0 < c.cfg.bufCap

/-- at quiescence, charged = resident -/
theorem Quiet.charged_iff {c : Cache} (q : Quiet c) (k : Nat) :
    (c.lfu.costs.get k).isSome = (c.store.items.get k).isSome := by
  cases hs : (c.store.items.get k).isSome with
  | true => exact q.inv.resident_charged k hs
  | false =>
    cases hc : (c.lfu.costs.get k).isSome with
    | false => rfl
    | true =>
      rcases q.inv.charged_resident k hc with h1 | ⟨cf, hm⟩
      · rw [hs] at h1; cases h1
      · rw [q.buf, q.pend] at hm; cases hm

/-- two consecutive steps of the transition system from a quiescent state that end with an empty
buffer end in a quiescent state (the invariants come from C06 and C05) -/
theorem two_steps_quiet (su : Nat → Nat → Bool) (c c1 c2 : Cache) (a1 a2 : Act) (q : Quiet c)
    (h1 : c.step su a1 = some c1) (h2 : c1.step su a2 = some c2)
    (ok1 : C06.ActOk c a1) (ok2 : C06.ActOk c1 a2) (g1 : C05.TickGuard c a1) (g2 : C05.TickGuard c1 a2)
    (hb : c2.buf = []) (hp : c2.pendingSends = []) (ho : c2.closed = false) (ha : c2.procExited = false)
    (hc : c2.cfg = c.cfg) : Quiet c2 := by
  have hg1 := C06.step_good su c c1 a1 ok1 h1 (Or.inr q.inv)
  have hg2 := C06.step_good su c1 c2 a2 ok2 h2 hg1
  have he1 := C05.step_emInv su c c1 a1 g1 h1 q.em
  have he2 := C05.step_emInv su c1 c2 a2 g2 h2 he1
  refine ⟨hb, hp, ho, ha, ?_, he2, by rw [hc]; exact q.cap⟩
  rcases hg2 with he | h
  · rw [ha] at he; cases he
  · exact h

/-- the cost an insert attaches to its item -/
def itemCost (cost coster : Int) : Int := cost + (if cost == 0 then coster else 0)

/-- what the client half of an insert does at quiescence -/
theorem insert_at_quiet (su : Nat → Nat → Bool) (c : Cache) (k cf v : Nat) (cost : Int) (ttl now : Nat)
    (coster : Int) (q : Quiet c) (c1 : Cache) (hc1 : c1 = (c.insert su k cf v cost ttl now coster false).1) :
    c1.lfu = c.lfu ∧ c1.pendingSends = [] ∧ c1.closed = false ∧ c1.procExited = false ∧ c1.cfg = c.cfg ∧
    c1.store = (c.store.tryUpdate su k v cf ⟨ttl, now⟩).1 ∧
    c1.buf = [match (c.store.tryUpdate su k v cf ⟨ttl, now⟩).2 with
              | .update _ => Item.update k cost (if cost == 0 then coster else 0)
              | _ => Item.new k cf (itemCost cost coster) v ⟨ttl, now⟩] := by
  subst hc1
  have hroomB : (decide (c.buf.length < c.cfg.bufCap) && !c.procExited) = true := by
    simp [q.buf, q.cap, q.alive]
  have hst := (Store.tryUpdate_count c.store su k v cf ⟨ttl, now⟩ q.inv.storeWF 0).1
  unfold Cache.insert Cache.insertBody
  simp only [q.opn, Bool.false_eq_true, ↓reduceIte, Bool.false_and, hroomB, q.buf, List.nil_append]
  cases hr : (c.store.tryUpdate su k v cf ⟨ttl, now⟩).2 with
  | update old => simp [q.pend, q.opn, q.alive, q.cap]
  | notExist => rw [hr] at hst; simp only at hst; simp [q.pend, q.opn, q.alive, q.cap, hst, itemCost]
  | reject => rw [hr] at hst; simp only at hst; simp [q.pend, q.opn, q.alive, q.cap, hst, itemCost]
  | conflict => rw [hr] at hst; simp only at hst; simp [q.pend, q.opn, q.alive, q.cap, hst, itemCost]

/-- the processor's half: with one item buffered and nothing pending it handles that item -/
theorem procItem_single (su : Nat → Nat → Bool) (c1 : Cache) (it : Item) (est : Nat → Int)
    (refills : List (List (Nat × Int))) (hb : c1.buf = [it]) (hp : c1.pendingSends = []) (ha : c1.procExited = false) :
    c1.procItem su est refills = some (({ c1 with buf := [] } : Cache).handleItem su est refills it) := by
  simp only [Cache.procItem, ha, Bool.false_eq_true, ↓reduceIte, hb, Cache.admitPending, hp]


/-- `handle_item` leaves the blocked senders, the closed flag and the configuration alone -/
theorem handleItem_frame3 (c : Cache) (su : Nat → Nat → Bool) (est : Nat → Int)
    (refills : List (List (Nat × Int))) (it : Item) :
    (c.handleItem su est refills it).pendingSends = c.pendingSends ∧
    (c.handleItem su est refills it).closed = c.closed ∧
    (c.handleItem su est refills it).cfg = c.cfg := by
  have hev : ∀ (vs : List (Nat × Int)) (c0 : Cache), (c0.evictVictims vs).pendingSends = c0.pendingSends ∧
      (c0.evictVictims vs).closed = c0.closed ∧ (c0.evictVictims vs).cfg = c0.cfg := by
    intro vs
    induction vs with
    | nil => intro c0; exact ⟨rfl, rfl, rfl⟩
    | cons p rest ih =>
      intro c0
      obtain ⟨vk, vc⟩ := p
      simp only [Cache.evictVictims]
      cases (c0.store.tryRemove vk 0).2 with
      | none => exact ih c0
      | some e =>
        simp only
        obtain ⟨h1, h2, h3⟩ := ih (if c0.tracked.contains vk = true then
          ({ c0 with store := (c0.store.tryRemove vk 0).1, cbs := CB.evict vk e.conflict e.val vc :: c0.cbs,
                     tracked := c0.tracked.filter (· != vk) } : Cache).met fun m => { m with lifeCount := m.lifeCount + 1 }
          else { c0 with store := (c0.store.tryRemove vk 0).1, cbs := CB.evict vk e.conflict e.val vc :: c0.cbs,
                         tracked := c0.tracked.filter (· != vk) })
        refine ⟨h1.trans ?_, h2.trans ?_, h3.trans ?_⟩ <;> (split <;> simp)
  cases it with
  | wait w => exact ⟨rfl, rfl, rfl⟩
  | update k cost ext => simp [Cache.handleItem]
  | delete k cf =>
    simp only [Cache.handleItem]
    cases (c.store.tryRemove k cf).2 <;> (simp only; split <;> simp)
  | new k cf cost v exp =>
    simp only [Cache.handleItem]
    have key : ∀ (c3 : Cache) (o : Option (List (Nat × Int))),
        (c3.pendingSends = c.pendingSends ∧ c3.closed = c.closed ∧ c3.cfg = c.cfg) →
        ((match o with | some vs => c3.evictVictims vs | none => c3).pendingSends = c.pendingSends ∧
         (match o with | some vs => c3.evictVictims vs | none => c3).closed = c.closed ∧
         (match o with | some vs => c3.evictVictims vs | none => c3).cfg = c.cfg) := by
      intro c3 o h
      cases o with
      | none => exact h
      | some vs =>
        obtain ⟨e1, e2, e3⟩ := hev vs c3
        exact ⟨e1.trans h.1, e2.trans h.2.1, e3.trans h.2.2⟩
    apply key
    split
    · split <;> simp
    · simp

/-- an insert taken to quiescence: the client call, then the processor applies the one buffered item -/
def qInsert (su : Nat → Nat → Bool) (c : Cache) (k cf v : Nat) (cost : Int) (ttl now : Nat) (coster : Int)
    (est : Nat → Int) (refills : List (List (Nat × Int))) : Cache :=
  let c1 := (c.insert su k cf v cost ttl now coster false).1
  (c1.procItem su est refills).getD c1

/-- **insert, composed**: from a quiescent state, `insert` followed by the processor's handling of
its item leads to a quiescent state in which
* a key that was absent, inserted under `NoPressure`, is resident with exactly that value and TTL;
* a resident key whose update is allowed carries the new value and TTL;
* a resident key whose update is vetoed (validator or conflict hash) is unchanged;
and every other key is untouched. -/
theorem qInsert_refines (su : Nat → Nat → Bool) (c : Cache) (k cf v : Nat) (cost : Int) (ttl now : Nat)
    (coster : Int) (est : Nat → Int) (refills : List (List (Nat × Int))) (q : Quiet c)
    (hroom : c.store.items.get k = none → NoPressure c (itemCost cost coster))
    (c' : Cache) (hc' : c' = qInsert su c k cf v cost ttl now coster est refills) :
    Quiet c' ∧
    (∀ j, j ≠ k → c'.store.items.get j = c.store.items.get j) ∧
    c'.store.items.get k =
      (match c.store.items.get k with
       | none => some ⟨cf, v, ⟨ttl, now⟩⟩
       | some e => if Store.conflictOk cf e && su e.val v then some { e with val := v, exp := ⟨ttl, now⟩ }
                   else some e) := by
  obtain ⟨f_lfu, f_pend, f_open, f_alive, f_cfg, f_store, f_buf⟩ :=
    insert_at_quiet su c k cf v cost ttl now coster q _ rfl
  have hstep1 : c.step su (.insert k cf v cost ttl now coster false) =
      some (c.insert su k cf v cost ttl now coster false).1 := rfl
  have hproc := procItem_single su (c.insert su k cf v cost ttl now coster false).1 _ est refills f_buf f_pend f_alive
  have hc'2 : c' = ({ (c.insert su k cf v cost ttl now coster false).1 with buf := [] } : Cache).handleItem su est refills
      (match (c.store.tryUpdate su k v cf ⟨ttl, now⟩).2 with
       | .update _ => Item.update k cost (if cost == 0 then coster else 0)
       | _ => Item.new k cf (itemCost cost coster) v ⟨ttl, now⟩) := by
    rw [hc']; unfold qInsert; simp only [hproc, Option.getD_some]
  have hstep2 : (c.insert su k cf v cost ttl now coster false).1.step su (.procItem est refills) = some c' := by
    simp only [Cache.step]; rw [hproc, hc'2]
  -- abbreviations for the state the processor starts from
  generalize hc0 : ({ (c.insert su k cf v cost ttl now coster false).1 with buf := [] } : Cache) = c0 at hc'2
  have c0_store : c0.store = (c.store.tryUpdate su k v cf ⟨ttl, now⟩).1 := by rw [← hc0]; exact f_store
  have c0_lfu : c0.lfu = c.lfu := by rw [← hc0]; exact f_lfu
  have c0_cfg : c0.cfg = c.cfg := by rw [← hc0]; exact f_cfg
  have c0_buf : c0.buf = [] := by rw [← hc0]
  have c0_pend : c0.pendingSends = [] := by rw [← hc0]; exact f_pend
  have c0_open : c0.closed = false := by rw [← hc0]; exact f_open
  have c0_alive : c0.procExited = false := by rw [← hc0]; exact f_alive
  obtain ⟨fr1, fr2, fr3⟩ := handleItem_frame3 c0 su est refills
    (match (c.store.tryUpdate su k v cf ⟨ttl, now⟩).2 with
       | .update _ => Item.update k cost (if cost == 0 then coster else 0)
       | _ => Item.new k cf (itemCost cost coster) v ⟨ttl, now⟩)
  -- quiescence of the result, given that no victim is the incoming key
  have quiet_of : C06.ActOk (c.insert su k cf v cost ttl now coster false).1 (.procItem est refills) → Quiet c' := by
    intro ok2
    refine two_steps_quiet su c _ c' _ _ q hstep1 hstep2 trivial ok2 trivial trivial ?_ ?_ ?_ ?_ ?_
    · rw [hc'2, handleItem_buf]; exact c0_buf
    · rw [hc'2, fr1]; exact c0_pend
    · rw [hc'2, fr2]; exact c0_open
    · rw [hc'2, handleItem_procExited]; exact c0_alive
    · rw [hc'2, fr3]; exact c0_cfg
  cases hg : c.store.items.get k with
  | none =>
    have hu : c.store.tryUpdate su k v cf ⟨ttl, now⟩ = (c.store, .notExist) := by simp [Store.tryUpdate, hg]
    rw [hu] at hc'2 c0_store f_buf
    simp only at hc'2 c0_store f_buf
    have hnc : c0.lfu.costs.get k = none := by
      rw [c0_lfu]
      have := q.charged_iff k
      rw [hg] at this
      cases h : c.lfu.costs.get k with
      | none => rfl
      | some x => rw [h] at this; cases this
    have hnp : NoPressure c0 (itemCost cost coster) := by
      have := hroom hg
      unfold NoPressure Cache.internalCost at *
      rw [c0_lfu, c0_cfg]; exact this
    have happ := new_item_applied_when_room c0 su est refills k cf v (itemCost cost coster) ⟨ttl, now⟩
      (by rw [c0_lfu]; exact q.inv.lfuInv) (by rw [c0_store]; exact hg) hnc hnp
    simp only at happ
    refine ⟨quiet_of ?_, ?_, ?_⟩
    · simp only [C06.ActOk]
      intro it rest hb
      rw [f_buf] at hb
      have hit : it = Item.new k cf (itemCost cost coster) v ⟨ttl, now⟩ := by cases hb; rfl
      have hrest : rest = [] := by cases hb; rfl
      subst hit; subst hrest
      have hadm : (({ (c.insert su k cf v cost ttl now coster false).1 with buf := [] } : Cache).admitPending) = c0 := by
        rw [← hc0]; simp [Cache.admitPending, f_pend]
      rw [hadm]
      simp only [VictimsOk]
      intro vs hvs
      have := ((policyAdd_spec c0.lfu est k (c0.internalCost (itemCost cost coster)) refills
        (by rw [c0_lfu]; exact q.inv.lfuInv)).room hnp.1 hnc hnp.2).2.1
      rw [this] at hvs; cases hvs
    · intro j hj; rw [hc'2, happ.2.1 j hj, c0_store]
    · rw [hc'2]; simpa using happ.1
  | some e =>
    by_cases hok : (Store.conflictOk cf e && su e.val v) = true
    · -- the update is applied by the client call itself; the processor only re-charges
      have hcfe : Store.conflictOk cf e = true := by simp only [Bool.and_eq_true] at hok; exact hok.1
      have hsue : su e.val v = true := by simp only [Bool.and_eq_true] at hok; exact hok.2
      have hu : c.store.tryUpdate su k v cf ⟨ttl, now⟩ =
          ({ items := c.store.items.set k { e with val := v, exp := ⟨ttl, now⟩ },
             em := c.store.em.tryUpdate k cf e.exp ⟨ttl, now⟩ }, .update e.val) := by
        simp [Store.tryUpdate, hg, hcfe, hsue]
      rw [hu] at hc'2 c0_store f_buf
      simp only at hc'2 c0_store f_buf
      have hst : c'.store = c0.store := by rw [hc'2]; simp [Cache.handleItem]
      refine ⟨quiet_of ?_, ?_, ?_⟩
      · simp only [C06.ActOk]
        intro it rest hb
        rw [f_buf] at hb
        have hit : it = Item.update k cost (if cost == 0 then coster else 0) := by cases hb; rfl
        subst hit
        trivial
      · intro j hj; rw [hst, c0_store]; simp [hj]
      · rw [hst, c0_store]; simp [hok]
    · -- vetoed (validator or conflict hash): a `New` item goes to the processor, which finds the key
      -- charged and hands the value to `on_reject`; the store is untouched
      have hu : (c.store.tryUpdate su k v cf ⟨ttl, now⟩).1 = c.store ∧
          (∀ old, (c.store.tryUpdate su k v cf ⟨ttl, now⟩).2 ≠ .update old) := by
        simp only [Bool.and_eq_true, not_and, Bool.not_eq_true] at hok
        unfold Store.tryUpdate
        simp only [hg]
        by_cases h1 : Store.conflictOk cf e = true
        · have h2 := hok h1
          simp [h1, h2]
        · simp [h1]
      have hitem : (match (c.store.tryUpdate su k v cf ⟨ttl, now⟩).2 with
            | .update _ => Item.update k cost (if cost == 0 then coster else 0)
            | _ => Item.new k cf (itemCost cost coster) v ⟨ttl, now⟩) =
          Item.new k cf (itemCost cost coster) v ⟨ttl, now⟩ := by
        cases hr : (c.store.tryUpdate su k v cf ⟨ttl, now⟩).2 with
        | update old => exact absurd hr (hu.2 old)
        | _ => rfl
      rw [hitem] at hc'2 f_buf
      rw [hu.1] at c0_store
      have hch : ∃ prev, c0.lfu.costs.get k = some prev := by
        rw [c0_lfu]
        have := q.inv.resident_charged k (by simp [hg])
        exact Option.isSome_iff_exists.mp this
      have hspec := policyAdd_spec c0.lfu est k (c0.internalCost (itemCost cost coster)) refills
        (by rw [c0_lfu]; exact q.inv.lfuInv)
      -- an over-sized item changes nothing either; otherwise the charged key is re-charged in place
      have hres : (policyAdd c0.lfu est k (c0.internalCost (itemCost cost coster)) refills).added = false ∧
          (policyAdd c0.lfu est k (c0.internalCost (itemCost cost coster)) refills).victims = none := by
        by_cases hbig : c0.internalCost (itemCost cost coster) > c0.lfu.maxCost
        · exact ⟨(hspec.oversize hbig).1, (hspec.oversize hbig).2.2⟩
        · have := hspec.update (by omega) hch
          exact ⟨this.1, this.2.1⟩
      have hst : c'.store = c0.store := by
        rw [hc'2]; simp [Cache.handleItem, hres.1, hres.2]
      refine ⟨quiet_of ?_, ?_, ?_⟩
      · simp only [C06.ActOk]
        intro it rest hb
        rw [f_buf] at hb
        have hit : it = Item.new k cf (itemCost cost coster) v ⟨ttl, now⟩ := by cases hb; rfl
        have hrest : rest = [] := by cases hb; rfl
        subst hit; subst hrest
        have hadm : (({ (c.insert su k cf v cost ttl now coster false).1 with buf := [] } : Cache).admitPending) = c0 := by
          rw [← hc0]; simp [Cache.admitPending, f_pend]
        rw [hadm]
        simp only [VictimsOk]
        intro vs hvs
        rw [hres.2] at hvs; cases hvs
      · intro j _; rw [hst, c0_store]
      · rw [hst, c0_store, hg]; simp [hok]


/-- what the client half of a remove does at quiescence -/
theorem remove_at_quiet (c : Cache) (k cf : Nat) (q : Quiet c) (c1 : Cache) (hc1 : c1 = (c.remove k cf).1) :
    c1.lfu = c.lfu ∧ c1.pendingSends = [] ∧ c1.closed = false ∧ c1.procExited = false ∧ c1.cfg = c.cfg ∧
    c1.store = (c.store.tryRemove k cf).1 ∧ c1.buf = [Item.delete k cf] := by
  subst hc1
  unfold Cache.remove
  simp only [q.opn, Bool.false_eq_true, ↓reduceIte]
  have hst : (c.store.tryRemove k cf).2 = none → (c.store.tryRemove k cf).1 = c.store :=
    Store.tryRemove_none_store c.store k cf
  cases hr : (c.store.tryRemove k cf).2 with
  | none => simp [q.buf, q.pend, q.cap, q.opn, q.alive, hst hr]
  | some e => simp [q.buf, q.pend, q.cap, q.opn, q.alive]

/-- a remove taken to quiescence -/
def qRemove (su : Nat → Nat → Bool) (c : Cache) (k cf : Nat) (est : Nat → Int) (refills : List (List (Nat × Int))) : Cache :=
  let c1 := (c.remove k cf).1
  (c1.procItem su est refills).getD c1

/-- **remove, composed**: the key is gone (if its conflict hash matched), nothing else moved -/
theorem qRemove_refines (su : Nat → Nat → Bool) (c : Cache) (k cf : Nat) (est : Nat → Int)
    (refills : List (List (Nat × Int))) (q : Quiet c) (c' : Cache) (hc' : c' = qRemove su c k cf est refills) :
    Quiet c' ∧
    (∀ j, j ≠ k → c'.store.items.get j = c.store.items.get j) ∧
    c'.store.items.get k =
      (match c.store.items.get k with
       | none => none
       | some e => if Store.conflictOk cf e then none else some e) := by
  obtain ⟨f_lfu, f_pend, f_open, f_alive, f_cfg, f_store, f_buf⟩ := remove_at_quiet c k cf q _ rfl
  have hstep1 : c.step su (.remove k cf) = some (c.remove k cf).1 := rfl
  have hproc := procItem_single su (c.remove k cf).1 _ est refills f_buf f_pend f_alive
  have hc'2 : c' = ({ (c.remove k cf).1 with buf := [] } : Cache).handleItem su est refills (Item.delete k cf) := by
    rw [hc']; unfold qRemove; simp only [hproc, Option.getD_some]
  have hstep2 : (c.remove k cf).1.step su (.procItem est refills) = some c' := by
    simp only [Cache.step]; rw [hproc, hc'2]
  generalize hc0 : ({ (c.remove k cf).1 with buf := [] } : Cache) = c0 at hc'2
  have c0_store : c0.store = (c.store.tryRemove k cf).1 := by rw [← hc0]; exact f_store
  have c0_cfg : c0.cfg = c.cfg := by rw [← hc0]; exact f_cfg
  have c0_buf : c0.buf = [] := by rw [← hc0]
  have c0_pend : c0.pendingSends = [] := by rw [← hc0]; exact f_pend
  have c0_open : c0.closed = false := by rw [← hc0]; exact f_open
  have c0_alive : c0.procExited = false := by rw [← hc0]; exact f_alive
  obtain ⟨fr1, fr2, fr3⟩ := handleItem_frame3 c0 su est refills (Item.delete k cf)
  have hq : Quiet c' := by
    refine two_steps_quiet su c _ c' _ _ q hstep1 hstep2 trivial ?_ trivial trivial ?_ ?_ ?_ ?_ ?_
    · simp only [C06.ActOk]
      intro it rest hb
      rw [f_buf] at hb
      have hit : it = Item.delete k cf := by cases hb; rfl
      subst hit
      trivial
    · rw [hc'2, handleItem_buf]; exact c0_buf
    · rw [hc'2, fr1]; exact c0_pend
    · rw [hc'2, fr2]; exact c0_open
    · rw [hc'2, handleItem_procExited]; exact c0_alive
    · rw [hc'2, fr3]; exact c0_cfg
  -- the store after both halves: `try_remove` applied twice
  have hst : ∀ j, c'.store.items.get j = ((c0.store.tryRemove k cf).1).items.get j := by
    intro j
    rw [hc'2]
    simp only [Cache.handleItem]
    cases (c0.store.tryRemove k cf).2 <;> (simp only; split <;> simp)
  refine ⟨hq, ?_, ?_⟩
  · intro j hj
    rw [hst j, Store.tryRemove_get, c0_store, Store.tryRemove_get]
    simp [hj]
  · rw [hst k, Store.tryRemove_get, c0_store, Store.tryRemove_get]
    cases hg : c.store.items.get k with
    | none => simp
    | some e =>
      by_cases hcf : Store.conflictOk cf e = true
      · have := (Store.tryRemove_some_iff c.store k cf e).mpr ⟨hg, hcf⟩
        simp [this, hcf]
      · have hn : (c.store.tryRemove k cf).2 = none := by
          cases h : (c.store.tryRemove k cf).2 with
          | none => rfl
          | some e' =>
            have := (Store.tryRemove_some_iff c.store k cf e').mp h
            rw [hg] at this
            have he : e = e' := by simpa using this.1
            subst he
            exact absurd this.2 hcf
        have hs := Store.tryRemove_none_store c.store k cf hn
        simp [hn, hs, hcf, hg]


/-- a cleanup tick leaves the blocked senders, the flags and the configuration alone -/
theorem sweepKeys_frame4 (keys : List (Nat × Nat)) (c : Cache) (now : Nat) (acc : List CB) :
    (c.sweepKeys now keys acc).1.pendingSends = c.pendingSends ∧ (c.sweepKeys now keys acc).1.closed = c.closed ∧
    (c.sweepKeys now keys acc).1.procExited = c.procExited ∧ (c.sweepKeys now keys acc).1.cfg = c.cfg := by
  induction keys generalizing c acc with
  | nil => simp [Cache.sweepKeys]
  | cons p rest ih =>
    obtain ⟨k, cf⟩ := p
    simp only [Cache.sweepKeys]
    obtain ⟨h1, h2, h3, h4⟩ := ih (c.sweepOne now k cf).1
      (match (c.sweepOne now k cf).2 with | some cb => cb :: acc | none => acc)
    have hone : (c.sweepOne now k cf).1.pendingSends = c.pendingSends ∧ (c.sweepOne now k cf).1.closed = c.closed ∧
        (c.sweepOne now k cf).1.procExited = c.procExited ∧ (c.sweepOne now k cf).1.cfg = c.cfg := by
      unfold Cache.sweepOne
      cases c.store.expiration k with
      | none => exact ⟨rfl, rfl, rfl, rfl⟩
      | some t =>
        simp only
        split
        · cases (c.store.tryRemove k cf).2 <;> simp
        · exact ⟨rfl, rfl, rfl, rfl⟩
    exact ⟨h1.trans hone.1, h2.trans hone.2.1, h3.trans hone.2.2.1, h4.trans hone.2.2.2⟩

theorem deliverEvictions_frame4 (cbs : List CB) (c : Cache) :
    (c.deliverEvictions cbs).closed = c.closed ∧ (c.deliverEvictions cbs).procExited = c.procExited ∧
    (c.deliverEvictions cbs).cfg = c.cfg := by
  induction cbs generalizing c with
  | nil => simp [Cache.deliverEvictions]
  | cons cb rest ih =>
    simp only [Cache.deliverEvictions]
    obtain ⟨h1, h2, h3⟩ := ih ({ (match cb with
      | .evict k _ _ _ =>
        let tracked := c.tracked.contains k
        let c := { c with tracked := c.tracked.filter (· != k) }
        if tracked then c.met fun m => { m with lifeCount := m.lifeCount + 1 } else c
      | _ => c) with cbs := cb :: (match cb with
      | .evict k _ _ _ =>
        let tracked := c.tracked.contains k
        let c := { c with tracked := c.tracked.filter (· != k) }
        if tracked then c.met fun m => { m with lifeCount := m.lifeCount + 1 } else c
      | _ => c).cbs })
    refine ⟨h1.trans ?_, h2.trans ?_, h3.trans ?_⟩ <;>
      (cases cb <;> simp only [] <;> (try split) <;> simp)

/-- a cleanup tick at quiescence -/
def qTick (c : Cache) (now : Nat) (order : List (Nat × Nat)) : Cache := (c.procTick now order).getD c

/-- **tick, composed**: the tick only removes entries, never one that is still live, and always those
whose bucket is due -/
theorem qTick_refines (su : Nat → Nat → Bool) (c : Cache) (now : Nat) (order : List (Nat × Nat)) (q : Quiet c)
    (hg : C05.TickGuard c (.procTick now order)) (c' : Cache) (hc' : c' = qTick c now order) :
    Quiet c' ∧
    (∀ j e, c'.store.items.get j = some e → c.store.items.get j = some e) ∧
    (∀ j e, c.store.items.get j = some e → (e.exp.d = 0 ∨ now < e.exp.created + e.exp.d) →
      c'.store.items.get j = some e) ∧
    (∀ j e, c.store.items.get j = some e → e.exp.isZero = false →
      e.exp.storageBucket ≤ Time.cleanupBucket now → c'.store.items.get j = none) := by
  have hen : ∃ c2, c.procTick now order = some c2 := by
    simp [Cache.procTick, q.alive]
  obtain ⟨c2, hc2⟩ := hen
  have hcc : c' = c2 := by rw [hc']; unfold qTick; rw [hc2]; rfl
  subst hcc
  have hstep : c.step su (.procTick now order) = some c' := by simp only [Cache.step]; exact hc2
  have hgood := C06.step_good su c c' (.procTick now order) (show C06.ActOk c (.procTick now order) from hg.2) hstep (Or.inr q.inv)
  have hem := C05.step_emInv su c c' (.procTick now order) hg hstep q.em
  -- unfold the tick once
  have hform : c' = ((({ c with store := { c.store with em := (c.store.em.tryCleanup now).1 } } : Cache).sweepKeys now order []).1).deliverEvictions
      ((({ c with store := { c.store with em := (c.store.em.tryCleanup now).1 } } : Cache).sweepKeys now order []).2.reverse) := by
    have h := hc2
    simp only [Cache.procTick] at h
    split at h
    · cases h
    · simp only [Option.some.injEq] at h; exact h.symm
  have hd := deliverEvictions_frame
    ((({ c with store := { c.store with em := (c.store.em.tryCleanup now).1 } } : Cache).sweepKeys now order []).2.reverse)
    ((({ c with store := { c.store with em := (c.store.em.tryCleanup now).1 } } : Cache).sweepKeys now order []).1)
  have hd4 := deliverEvictions_frame4
    ((({ c with store := { c.store with em := (c.store.em.tryCleanup now).1 } } : Cache).sweepKeys now order []).2.reverse)
    ((({ c with store := { c.store with em := (c.store.em.tryCleanup now).1 } } : Cache).sweepKeys now order []).1)
  have hs4 := sweepKeys_frame4 order ({ c with store := { c.store with em := (c.store.em.tryCleanup now).1 } } : Cache) now []
  have hsf := sweepKeys_frame order ({ c with store := { c.store with em := (c.store.em.tryCleanup now).1 } } : Cache) now []
  have hquiet : Quiet c' := by
    refine ⟨?_, ?_, ?_, ?_, ?_, hem, ?_⟩
    · rw [hform, hd.2.2.1, hsf.1]; exact q.buf
    · rw [hform, hd.2.2.2, hs4.1]; exact q.pend
    · rw [hform, hd4.1, hs4.2.1]; exact q.opn
    · rw [hform, hd4.2.1, hs4.2.2.1]; exact q.alive
    · rcases hgood with he | h
      · have : c'.procExited = false := by rw [hform, hd4.2.1, hs4.2.2.1]; exact q.alive
        rw [this] at he; cases he
      · exact h
    · rw [hform, hd4.2.2, hs4.2.2.2]; exact q.cap
  refine ⟨hquiet, ?_, ?_, ?_⟩
  · intro j e hj
    rw [hform, hd.1] at hj
    exact Cache.sweepKeys_get_of_some order
      ({ c with store := { c.store with em := (c.store.em.tryCleanup now).1 } } : Cache) now [] j e hj
  · intro j e hj hlive
    rw [hform, hd.1]
    exact not_swept_early ({ c with store := { c.store with em := (c.store.em.tryCleanup now).1 } } : Cache) now order j e hj hlive
  · intro j e hj hz hdue
    rw [hform, hd.1]
    obtain ⟨bk, cf, hb1, hb2⟩ := q.em j e hj hz
    have hlisted : (j, cf) ∈ order :=
      hg.1 _ (C05.cleanup_takes_all_due c.store.em now _ j cf bk (KMap.mem_of_get _ _ _ hb1) (KMap.mem_of_get _ _ _ hb2) hdue)
    have hexp := C05.due_implies_expired e.exp now hdue
    have hd0 : 0 < e.exp.d := by
      have : e.exp.d ≠ 0 := by simpa [Time.isZero] using hz
      omega
    exact (C05.sweep_removes_listed ({ c with store := { c.store with em := (c.store.em.tryCleanup now).1 } } : Cache)
      now order [] j cf e hj hd0 (by omega) hlisted (hg.2 j cf e hlisted hj)).1


/-- a lookup at quiescence changes nothing the map view can see -/
theorem qGet_refines (su : Nat → Nat → Bool) (c : Cache) (k cf now : Nat) (q : Quiet c) :
    Quiet (c.get k cf now).1 ∧ (c.get k cf now).1.store = c.store := by
  have hstep : c.step su (.get k cf now) = some (c.get k cf now).1 := rfl
  have hgood := C06.step_good su c _ (.get k cf now) trivial hstep (Or.inr q.inv)
  have hem := C05.step_emInv su c _ (.get k cf now) trivial hstep q.em
  have hfr : (c.get k cf now).1.buf = c.buf ∧ (c.get k cf now).1.pendingSends = c.pendingSends ∧
      (c.get k cf now).1.closed = c.closed ∧ (c.get k cf now).1.procExited = c.procExited ∧
      (c.get k cf now).1.cfg = c.cfg ∧ (c.get k cf now).1.store = c.store := by
    unfold Cache.get
    simp only [q.opn, Bool.false_eq_true, ↓reduceIte]
    split <;> simp [q.opn]
  refine ⟨⟨by rw [hfr.1]; exact q.buf, by rw [hfr.2.1]; exact q.pend, by rw [hfr.2.2.1]; exact q.opn,
    by rw [hfr.2.2.2.1]; exact q.alive, ?_, hem, by rw [hfr.2.2.2.2.1]; exact q.cap⟩, hfr.2.2.2.2.2⟩
  rcases hgood with he | h
  · rw [hfr.2.2.2.1, q.alive] at he; cases he
  · exact h

/-- `clear()` taken to quiescence: the request, then the processor serves it -/
def qClear (c : Cache) (id : Nat) : Cache :=
  let c1 := (c.clearReq id).1
  (c1.procClear).getD c1

theorem qClear_refines (su : Nat → Nat → Bool) (c : Cache) (id : Nat) (q : Quiet c) (hq : c.clearQ = [])
    (c' : Cache) (hc' : c' = qClear c id) :
    Quiet c' ∧ ∀ j, c'.store.items.get j = none := by
  have hc1 : (c.clearReq id).1 = { c with clearQ := [id] } := by
    simp [Cache.clearReq, q.opn, hq]
  have hproc : ({ c with clearQ := [id] } : Cache).procClear =
      some { ({ c with buf := [], clearQ := [] } : Cache) with
        lfu := c.lfu.clear, store := c.store.clear, metrics := {}, released := id :: c.released } := by
    simp [Cache.procClear, q.alive, q.buf]
  have hform : c' = { ({ c with buf := [], clearQ := [] } : Cache) with
      lfu := c.lfu.clear, store := c.store.clear, metrics := {}, released := id :: c.released } := by
    rw [hc']; simp only [qClear, hc1, hproc, Option.getD_some]
  have hstep1 : c.step su (.clearReq id) = some { c with clearQ := [id] } := by
    simp only [Cache.step]; rw [hc1]
  have hstep2 : ({ c with clearQ := [id] } : Cache).step su .procClear = some c' := by
    simp only [Cache.step]; rw [hproc, hform]
  refine ⟨?_, ?_⟩
  · refine two_steps_quiet su c _ c' _ _ q hstep1 hstep2 trivial trivial trivial trivial ?_ ?_ ?_ ?_ ?_ <;>
      (rw [hform]; try simp [q.pend, q.opn, q.alive])
  · intro j; rw [hform]; simp [Store.clear, Store.empty]

/-- operations of a sequential client that lets the cache quiesce after each of them -/
inductive QOp
  | insert (k cf v : Nat) (cost : Int) (ttl now : Nat) (coster : Int) (est : Nat → Int) (refills : List (List (Nat × Int)))
  | remove (k cf : Nat) (est : Nat → Int) (refills : List (List (Nat × Int)))
  | tick (now : Nat) (order : List (Nat × Nat))
  | get (k cf now : Nat)
  | clear (id : Nat)

def qstep (su : Nat → Nat → Bool) (c : Cache) : QOp → Cache
  | .insert k cf v cost ttl now coster est refills => qInsert su c k cf v cost ttl now coster est refills
  | .remove k cf est refills => qRemove su c k cf est refills
  | .tick now order => qTick c now order
  | .get k cf now => (c.get k cf now).1
  | .clear id => qClear c id

/-- C04's premise, per operation: a new key finds room in the policy (the combined cost of what is
charged plus the newcomer fits `max_cost` — `fits_implies_no_pressure`); the oracle inputs of a tick
pass C05's guards -/
def OpOk (c : Cache) : QOp → Prop
  | .insert k _ _ cost _ _ coster _ _ => c.store.items.get k = none → NoPressure c (itemCost cost coster)
  | .tick now order => C05.TickGuard c (.procTick now order)
  | .clear _ => c.clearQ = []
  | _ => True

/-- one step of the abstract map with TTLs (`S` before, `S'` after); the tick is specified by its two
obligations — nothing live is lost, everything due is gone — rather than by a function -/
def SpecStep (su : Nat → Nat → Bool) (S S' : Nat → Option Entry) : QOp → Prop
  | .insert k cf v _ ttl now _ _ _ =>
    (∀ j, j ≠ k → S' j = S j) ∧
    S' k = (match S k with
      | none => some ⟨cf, v, ⟨ttl, now⟩⟩
      | some e => if Store.conflictOk cf e && su e.val v then some { e with val := v, exp := ⟨ttl, now⟩ } else some e)
  | .remove k cf _ _ =>
    (∀ j, j ≠ k → S' j = S j) ∧
    S' k = (match S k with | none => none | some e => if Store.conflictOk cf e then none else some e)
  | .tick now _ =>
    (∀ j e, S' j = some e → S j = some e) ∧
    (∀ j e, S j = some e → (e.exp.d = 0 ∨ now < e.exp.created + e.exp.d) → S' j = some e) ∧
    (∀ j e, S j = some e → e.exp.isZero = false → e.exp.storageBucket ≤ Time.cleanupBucket now → S' j = none)
  | .get _ _ _ => ∀ j, S' j = S j
  | .clear _ => ∀ j, S' j = none

/-- **one quiescent operation refines one step of the map with TTLs** -/
theorem qstep_refines (su : Nat → Nat → Bool) (c : Cache) (op : QOp) (q : Quiet c) (hok : OpOk c op) :
    Quiet (qstep su c op) ∧ SpecStep su (fun k => c.store.items.get k) (fun k => (qstep su c op).store.items.get k) op := by
  cases op with
  | insert k cf v cost ttl now coster est refills =>
    obtain ⟨h1, h2, h3⟩ := qInsert_refines su c k cf v cost ttl now coster est refills q hok _ rfl
    exact ⟨h1, h2, h3⟩
  | remove k cf est refills =>
    obtain ⟨h1, h2, h3⟩ := qRemove_refines su c k cf est refills q _ rfl
    exact ⟨h1, h2, h3⟩
  | tick now order =>
    obtain ⟨h1, h2, h3, h4⟩ := qTick_refines su c now order q hok _ rfl
    exact ⟨h1, h2, h3, h4⟩
  | get k cf now =>
    obtain ⟨h1, h2⟩ := qGet_refines su c k cf now q
    exact ⟨h1, fun j => by simp only [qstep]; rw [h2]⟩
  | clear id =>
    obtain ⟨h1, h2⟩ := qClear_refines su c id q hok _ rfl
    exact ⟨h1, h2⟩

/-- sequential histories: every operation is taken to quiescence and meets C04's premise -/
inductive QRun (su : Nat → Nat → Bool) : Cache → List QOp → Cache → Prop
  | nil (c : Cache) : QRun su c [] c
  | snoc (c c' : Cache) (ops : List QOp) (op : QOp) : QRun su c ops c' → OpOk c' op → QRun su c (ops ++ [op]) (qstep su c' op)

/-- runs of the abstract map -/
inductive SpecRun (su : Nat → Nat → Bool) : (Nat → Option Entry) → List QOp → (Nat → Option Entry) → Prop
  | nil (S : Nat → Option Entry) : SpecRun su S [] S
  | snoc (S S' S'' : Nat → Option Entry) (ops : List QOp) (op : QOp) :
      SpecRun su S ops S' → SpecStep su S' S'' op → SpecRun su S (ops ++ [op]) S''

theorem init_quiet (cfg : Cfg) (maxCost : Int) (samples : Nat) (hcap : 0 < cfg.bufCap) :
    Quiet (Cache.init cfg maxCost samples) := by
  refine ⟨rfl, rfl, rfl, rfl, ?_, ?_, hcap⟩
  · rcases C06.init_good cfg maxCost samples with he | h
    · cases he
    · exact h
  · intro k e hk; simp [Cache.init, Store.empty] at hk

/-- the refinement from any quiescent starting state -/
theorem refines_from (su : Nat → Nat → Bool) (c0 : Cache) (ops : List QOp) (c : Cache)
    (h : QRun su c0 ops c) (q : Quiet c0) :
    Quiet c ∧ SpecRun su (fun k => c0.store.items.get k) ops (fun k => c.store.items.get k) := by
  induction h with
  | nil => exact ⟨q, SpecRun.nil _⟩
  | snoc c' ops op _ hok ih =>
    obtain ⟨q', sr⟩ := ih
    obtain ⟨q'', ss⟩ := qstep_refines su c' op q' hok
    exact ⟨q'', SpecRun.snoc _ _ _ ops op sr ss⟩

/-- **C04, composed over sequential histories**: for every history of inserts (any TTLs, switching
between TTL and none), removes, clears, lookups and cleanup ticks in which each operation is taken to
quiescence and every new key finds room, the store of the cache *is* a run of the abstract map with
TTLs from the empty map: a key inserted stays resident with exactly its last accepted value and TTL
until it is removed, cleared, or a tick finds it expired; no tick removes a live entry, and every tick
removes what is due; the final state is quiescent and satisfies C05's and C06's invariants. -/
theorem refines_ttl_map (su : Nat → Nat → Bool) (cfg : Cfg) (maxCost : Int) (samples : Nat) (hcap : 0 < cfg.bufCap)
    (ops : List QOp) (c : Cache) (hr : QRun su (Cache.init cfg maxCost samples) ops c) :
    Quiet c ∧ SpecRun su (fun _ => none) ops (fun k => c.store.items.get k) := by
  have := refines_from su _ ops c hr (init_quiet cfg maxCost samples hcap)
  refine ⟨this.1, ?_⟩
  have h0 : (fun k => (Cache.init cfg maxCost samples).store.items.get k) = (fun _ => (none : Option Entry)) := by
    funext k; simp [Cache.init, Store.empty]
  rw [← h0]; exact this.2

/-- **a cleared cache is a fresh map** (C11's "behaves like a fresh one", at the level of C04): whatever
sequential history `ops₁` preceded it, once a `clear()` has been taken to quiescence the history `ops₂`
that follows is a run of the abstract map *from the empty map* — exactly what `refines_ttl_map` says of
a newly built cache — so keys re-used after the clear, with another TTL or none, are stored, found,
expired and removed as on a new cache. -/
theorem cleared_is_fresh_map (su : Nat → Nat → Bool) (cfg : Cfg) (maxCost : Int) (samples : Nat) (hcap : 0 < cfg.bufCap)
    (ops₁ ops₂ : List QOp) (id : Nat) (c₁ c : Cache)
    (h₁ : QRun su (Cache.init cfg maxCost samples) ops₁ c₁) (hok : OpOk c₁ (.clear id))
    (h₂ : QRun su (qstep su c₁ (.clear id)) ops₂ c) :
    Quiet c ∧ SpecRun su (fun _ => none) ops₂ (fun k => c.store.items.get k) := by
  have q₁ := (refines_from su _ ops₁ c₁ h₁ (init_quiet cfg maxCost samples hcap)).1
  obtain ⟨qc, sc⟩ := qstep_refines su c₁ (.clear id) q₁ hok
  have := refines_from su _ ops₂ c h₂ qc
  refine ⟨this.1, ?_⟩
  have h0 : (fun k => (qstep su c₁ (.clear id)).store.items.get k) = (fun _ => (none : Option Entry)) := by
    funext k; exact sc k
  rw [← h0]; exact this.2

/-- what a lookup returns is read off the map: the resident entry, unless its conflict hash differs or
its TTL has elapsed -/
theorem lookup_reads_map (c : Cache) (k cf now : Nat) (hopen : c.closed = false) :
    (c.get k cf now).2 = (match c.store.items.get k with
      | none => none
      | some e => if !Store.conflictOk cf e then none
                  else if !e.exp.isZero && e.exp.isExpired now then none else some e.val) := by
  unfold Cache.get
  simp only [hopen, Bool.false_eq_true, ↓reduceIte, Cache.ringPush_store]
  unfold Store.get Store.lookup
  cases hg : c.store.items.get k with
  | none => rfl
  | some e =>
    simp only
    by_cases h1 : (!Store.conflictOk cf e) = true
    · simp [h1]
    · by_cases h2 : (!e.exp.isZero && e.exp.isExpired now) = true
      · simp [h1, h2]
      · simp [h1, h2]

-- non-vacuity ---------------------------------------------------------------------------------
def exCfg : Cfg := { itemSize := 56, ignoreInternal := false, bufCap := 4, ringCap := 2, pqCap := some 3, metricsOn := false }
example : NoPressure (Cache.init exCfg 1000 5) 10 := ⟨by decide, by decide⟩

-- non-vacuity of the composed theorem: a concrete sequential history
def exOp1 : QOp := .insert 3 0 77 5 0 10 0 (fun _ => 0) []
def exOp2 : QOp := .insert 3 0 78 5 2000000000 20 0 (fun _ => 0) []
def exOp3 : QOp := .tick 5000000000 [(3, 0)]
example : QRun (fun _ _ => true) (Cache.init exCfg 1000 5) [exOp1] (qstep (fun _ _ => true) (Cache.init exCfg 1000 5) exOp1) :=
  QRun.snoc _ _ [] exOp1 (QRun.nil _) (fun _ => ⟨by decide, by decide⟩)
example : ((qstep (fun _ _ => true) (Cache.init exCfg 1000 5) exOp1).store.items.get 3) = some ⟨0, 77, ⟨0, 10⟩⟩ := by decide
example : ((qstep (fun _ _ => true) (qstep (fun _ _ => true) (Cache.init exCfg 1000 5) exOp1) exOp2).store.items.get 3) =
    some ⟨0, 78, ⟨2000000000, 20⟩⟩ := by decide
example : ((qstep (fun _ _ => true) (qstep (fun _ _ => true) (qstep (fun _ _ => true) (Cache.init exCfg 1000 5) exOp1) exOp2) exOp3).store.items.get 3) =
    none := by decide

end Stretto.C04

#print axioms Stretto.C04.new_item_applied_when_room
#print axioms Stretto.C04.then_retrievable
#print axioms Stretto.C04.update_applied_at_once
#print axioms Stretto.C04.remove_applied
#print axioms Stretto.C04.not_swept_early
#print axioms Stretto.C04.fits_implies_no_pressure
#print axioms Stretto.C04.qInsert_refines
#print axioms Stretto.C04.qRemove_refines
#print axioms Stretto.C04.qTick_refines
#print axioms Stretto.C04.qstep_refines
#print axioms Stretto.C04.refines_ttl_map
#print axioms Stretto.C04.cleared_is_fresh_map
#print axioms Stretto.C04.lookup_reads_map
