import StrettoModel.Proofs.Agree
/-!
# C04 — Below capacity the cache is an exact map: nothing is lost

Shape: the abstract map is `abs c now = fun k cf => c.store.get k cf now` (the store read through the
expiry test). The theorems give, for each kind of history step taken to quiescence, the effect on
the written key and the *frame* (every other key, the callback log) — i.e. the simulation squares of
the refinement "cache at quiescent points = map with TTLs" under the premise that the policy has
room (`NoPressure`: the admission finds `room_left ≥ 0` and the cost fits `max_cost`; a sufficient
user-level condition is that the combined charge of all entries not yet reclaimed fits `max_cost`).
P (partial): the squares are not yet composed into one statement over arbitrary-length histories.
-/
namespace Stretto.C04
open Stretto

/-- the policy has room for this item: nothing needs to be evicted, nothing can be rejected -/
def NoPressure (c : Cache) (cost : Int) : Prop :=
  c.internalCost cost ≤ c.lfu.maxCost ∧ c.lfu.roomLeft (c.internalCost cost) ≥ 0

/-- **a new key is admitted and stored when there is room**: applying the buffered `New` item of a
key that is neither resident nor charged, under `NoPressure`, stores exactly that value with its
TTL, charges it, evicts nothing, rejects nothing, calls no callback and touches no other key. -/
theorem new_item_applied_when_room (c : Cache) (su : Nat → Nat → Bool) (est : Nat → Int)
    (refills : List (List (Nat × Int))) (k cf v : Nat) (cost : Int) (exp : Time)
    (hinv : c.lfu.Inv) (hnr : c.store.items.get k = none) (hnc : c.lfu.costs.get k = none)
    (hroom : NoPressure c cost) :
    let c' := c.handleItem su est refills (Item.new k cf cost v exp)
    c'.store.items.get k = some ⟨cf, v, exp⟩ ∧
    (∀ j, j ≠ k → c'.store.items.get j = c.store.items.get j) ∧
    c'.lfu.costs.get k = some (c.internalCost cost) ∧
    (∀ j, j ≠ k → c'.lfu.costs.get j = c.lfu.costs.get j) ∧
    c'.cbs = c.cbs := by
  have spec := (policyAdd_spec c.lfu est k (c.internalCost cost) refills hinv).room hroom.1 hnc hroom.2
  obtain ⟨hadd, hvic, hch, hothers⟩ := spec
  have hins := fun j => Store.tryInsert_absent c.store su k v cf exp hnr j
  simp only [Cache.handleItem, hadd, hvic, if_true]
  refine ⟨?_, ?_, ?_, ?_, ?_⟩
  · split <;> simp [hins]
  · intro j hj; split <;> simp [hins, hj]
  · split <;> simpa using hch
  · intro j hj; split <;> simpa using hothers j hj
  · split <;> simp

/-- what the client sees afterwards: the key is retrievable (until its TTL elapses) -/
theorem then_retrievable (c : Cache) (su : Nat → Nat → Bool) (est : Nat → Int)
    (refills : List (List (Nat × Int))) (k cf v : Nat) (cost : Int) (exp : Time) (now : Nat)
    (hinv : c.lfu.Inv) (hnr : c.store.items.get k = none) (hnc : c.lfu.costs.get k = none)
    (hroom : NoPressure c cost) (hlive : exp.d = 0 ∨ now < exp.created + exp.d) :
    (c.handleItem su est refills (Item.new k cf cost v exp)).store.get k cf now = some v := by
  have h := (new_item_applied_when_room c su est refills k cf v cost exp hinv hnr hnc hroom).1
  unfold Store.get Store.lookup
  simp only [h, Store.conflictOk, beq_self_eq_true, Bool.or_true, Bool.not_true, Bool.false_eq_true, if_false]
  have : (!exp.isZero && exp.isExpired now) = false := by
    simp only [Time.isZero, Time.isExpired, Bool.and_eq_false_iff, Bool.not_eq_false',
      beq_iff_eq, decide_eq_false_iff_not]
    rcases hlive with h0 | h1
    · left; exact h0
    · right; omega
  simp [this]

/-- **an update of a resident key takes effect at once and loses nothing else** -/
theorem update_applied_at_once (c : Cache) (su : Nat → Nat → Bool) (k cf v : Nat) (cost : Int)
    (ttl now : Nat) (coster : Int) (e : Entry) (hopen : c.closed = false)
    (he : c.store.items.get k = some e) (hcf : Store.conflictOk cf e = true) (hsu : su e.val v = true) :
    let c' := (c.insert su k cf v cost ttl now coster false).1
    c'.store.items.get k = some { e with val := v, exp := { d := ttl, created := now } } ∧
    (∀ j, j ≠ k → c'.store.items.get j = c.store.items.get j) ∧
    (c.insert su k cf v cost ttl now coster false).2 = true := by
  have hu : c.store.tryUpdate su k v cf { d := ttl, created := now } =
      ({ items := c.store.items.set k { e with val := v, exp := { d := ttl, created := now } },
         em := c.store.em.tryUpdate k cf e.exp { d := ttl, created := now } }, .update e.val) := by
    simp [Store.tryUpdate, he, hcf, hsu]
  unfold Cache.insert Cache.insertBody
  simp only [hopen, hu, Bool.false_eq_true, if_false, Bool.false_and]
  refine ⟨?_, ?_, ?_⟩
  · split <;> simp
  · intro j hj; split <;> simp [hj]
  · split <;> rfl

/-- **a remove, once applied, removes exactly that key** -/
theorem remove_applied (c : Cache) (su : Nat → Nat → Bool) (est : Nat → Int)
    (refills : List (List (Nat × Int))) (k cf : Nat) (e : Entry)
    (he : c.store.items.get k = some e) (hcf : Store.conflictOk cf e = true) :
    let c1 := (c.remove k cf).1
    (c.closed = false → c1.store.items.get k = none ∧ ∀ j, j ≠ k → c1.store.items.get j = c.store.items.get j) ∧
    ((c.handleItem su est refills (Item.delete k cf)).store.items.get k = none ∧
      ∀ j, j ≠ k → (c.handleItem su est refills (Item.delete k cf)).store.items.get j = c.store.items.get j) := by
  have htr : (c.store.tryRemove k cf).2 = some e := (Store.tryRemove_some_iff c.store k cf e).mpr ⟨he, hcf⟩
  have hget := fun j => Store.tryRemove_get c.store k cf j
  constructor
  · intro hopen
    unfold Cache.remove
    simp only [hopen, Bool.false_eq_true, if_false, htr]
    constructor
    · split <;> simp [hget, htr]
    · intro j hj; split <;> simp [hget, hj]
  · simp only [Cache.handleItem, htr]
    constructor
    · split <;> simp [hget, htr]
    · intro j hj; split <;> simp [hget, hj]

/-- **nothing is swept early**: from C05 — an entry without TTL or not yet expired survives every
cleanup, whatever the buckets contain -/
theorem not_swept_early (c : Cache) (now : Nat) (keys : List (Nat × Nat)) (j : Nat) (e : Entry)
    (he : c.store.items.get j = some e) (hlive : e.exp.d = 0 ∨ now < e.exp.created + e.exp.d) :
    (c.sweepKeys now keys []).1.store.items.get j = some e := by
  induction keys generalizing c with
  | nil => simpa [Cache.sweepKeys] using he
  | cons p rest ih =>
    obtain ⟨k, cf⟩ := p
    simp only [Cache.sweepKeys]
    -- generalise over the accumulator
    have gen : ∀ (keys : List (Nat × Nat)) (c : Cache) (acc : List CB), c.store.items.get j = some e →
        (c.sweepKeys now keys acc).1.store.items.get j = some e := by
      intro keys
      induction keys with
      | nil => intro c acc h; simpa [Cache.sweepKeys] using h
      | cons p rest ih2 =>
        intro c acc h
        obtain ⟨k, cf⟩ := p
        simp only [Cache.sweepKeys]
        apply ih2
        rw [Cache.sweepOne_get]
        split
        · rename_i hh
          obtain ⟨hjk, hsome⟩ := hh
          subst hjk
          obtain ⟨cb, hcb⟩ := Option.isSome_iff_exists.mp hsome
          obtain ⟨e', he', hdue, _, _⟩ := (Cache.sweepOne_removed_iff c now j cf cb).mp hcb
          rw [h] at he'
          have : e = e' := by simpa using he'
          subst this
          simp only [Time.isZero, Time.isExpired, Bool.and_eq_true, Bool.not_eq_true',
            beq_eq_false_iff_ne, ne_eq, decide_eq_true_eq] at hdue
          rcases hlive with h0 | h1 <;> omega
        · exact h
    apply gen
    rw [Cache.sweepOne_get]
    split
    · rename_i hh
      obtain ⟨hjk, hsome⟩ := hh
      subst hjk
      obtain ⟨cb, hcb⟩ := Option.isSome_iff_exists.mp hsome
      obtain ⟨e', he', hdue, _, _⟩ := (Cache.sweepOne_removed_iff c now j cf cb).mp hcb
      rw [he] at he'
      have : e = e' := by simpa using he'
      subst this
      simp only [Time.isZero, Time.isExpired, Bool.and_eq_true, Bool.not_eq_true',
        beq_eq_false_iff_ne, ne_eq, decide_eq_true_eq] at hdue
      rcases hlive with h0 | h1 <;> omega
    · exact he

/-- the user-level sufficient condition for `NoPressure`: if what is charged plus the new charge
fits `max_cost`, there is room -/
theorem fits_implies_no_pressure (c : Cache) (cost : Int) (hnn : 0 ≤ c.lfu.used)
    (hfit : c.lfu.used + c.internalCost cost ≤ c.lfu.maxCost) : NoPressure c cost := by
  unfold NoPressure Lfu.roomLeft
  constructor <;> omega

-- non-vacuity ---------------------------------------------------------------------------------
def exCfg : Cfg := { itemSize := 56, ignoreInternal := false, bufCap := 4, ringCap := 2, pqCap := some 3, metricsOn := false }
example : NoPressure (Cache.init exCfg 1000 5) 10 := ⟨by decide, by decide⟩

end Stretto.C04

#print axioms Stretto.C04.new_item_applied_when_room
#print axioms Stretto.C04.then_retrievable
#print axioms Stretto.C04.update_applied_at_once
#print axioms Stretto.C04.remove_applied
#print axioms Stretto.C04.not_swept_early
#print axioms Stretto.C04.fits_implies_no_pressure
