import StrettoModel.Proofs.Policy
import StrettoModel.Props.C17
import StrettoModel.Proofs.Agree
/-!
# C01 — Charged cost of resident entries never exceeds max_cost

The policy's cost bookkeeping sits behind one mutex and every method holds it for its whole body,
so "every schedule" of client threads and the processor reduces to "every sequence of policy
method calls", which is what these theorems quantify over (any keys, any non-negative costs, any
`max_cost` values including negative ones, any estimates, any sample orders).
-/
namespace Stretto.C01
open Stretto

/-- the calls the cache makes on the policy's cost bookkeeping -/
inductive POp
  | add (key : Nat) (cost : Int) (est : Nat → Int) (refills : List (List (Nat × Int)))
  | remove (key : Nat)
  | update (key : Nat) (cost : Int)
  | clear
  | updateMaxCost (mc : Int)

/-- domain assumption: costs are non-negative -/
def POp.Dom : POp → Prop
  | .add _ c _ _ => 0 ≤ c
  | .update _ c => 0 ≤ c
  | _ => True

/-- policy state plus the ghost `slack`: what in-place updates of charged keys and lowerings of
`max_cost` have added since the last admission of a new key -/
structure GSt where
  l : Lfu
  slack : Int

def step (g : GSt) : POp → GSt
  | .add key cost est refills =>
    let R := policyAdd g.l est key cost refills
    { l := R.lfu,
      slack := if R.added then 0
        else match g.l.costs.get key with
          | some prev => if cost ≤ g.l.maxCost then g.slack + max 0 (cost - prev) else g.slack
          | none => g.slack }
  | .remove key => { g with l := (policyRemove g.l key).1 }
  | .update key cost =>
    { l := (g.l.update key cost).1,
      slack := match g.l.costs.get key with
        | some prev => g.slack + max 0 (cost - prev)
        | none => g.slack }
  | .clear => { g with l := g.l.clear }
  | .updateMaxCost mc => { l := g.l.updateMaxCost mc, slack := g.slack + max 0 (g.l.maxCost - mc) }

def run (g : GSt) (ops : List POp) : GSt := ops.foldl step g

/-- the inductive invariant -/
structure GSt.Good (g : GSt) : Prop where
  inv : g.l.Inv
  nonneg : g.l.NonNeg
  slack_nonneg : 0 ≤ g.slack
  bounded : g.l.used ≤ max 0 g.l.maxCost + g.slack

theorem update_nonneg (l : Lfu) (k : Nat) (c : Int) (h : l.NonNeg) (hc : 0 ≤ c) :
    (l.update k c).1.NonNeg := by
  unfold Lfu.update
  cases hg : l.costs.get k with
  | none => exact h
  | some prev =>
    intro j cj hj
    simp only [KMap.get_set] at hj
    split at hj
    · cases hj; exact hc
    · exact h j cj hj

theorem update_used (l : Lfu) (k : Nat) (c : Int) :
    (l.update k c).1.used = match l.costs.get k with
      | some prev => l.used + (c - prev)
      | none => l.used := by
  unfold Lfu.update
  cases l.costs.get k <;> rfl

theorem step_good (g : GSt) (op : POp) (hd : op.Dom) (h : g.Good) : (step g op).Good := by
  obtain ⟨hinv, hnn, hs, hb⟩ := h
  cases op with
  | add key cost est refills =>
    have hc : 0 ≤ cost := hd
    have spec := policyAdd_spec g.l est key cost refills hinv
    simp only [step]
    -- NonNeg and used of the result, by cases on the path taken
    by_cases hbig : cost > g.l.maxCost
    · have := spec.oversize hbig
      have hl : (policyAdd g.l est key cost refills).lfu = g.l := this.2.1
      have hns : ¬ cost ≤ g.l.maxCost := by omega
      refine ⟨spec.inv, by rw [hl]; exact hnn, ?_, ?_⟩
      · simp only [this.1]; cases g.l.costs.get key <;> simp [hns, hs]
      · rw [hl]; simp only [this.1]; cases g.l.costs.get key <;> simp [hns] <;> omega
    · have hle : cost ≤ g.l.maxCost := by omega
      cases hg : g.l.costs.get key with
      | some prev =>
        have hu := spec.update hle ⟨prev, hg⟩
        have hpa : policyAdd g.l est key cost refills =
            { lfu := (g.l.update key cost).1, victims := none, added := false,
              events := (g.l.update key cost).2.2 } := by
          simp [policyAdd, hbig, Lfu.update, hg]
        refine ⟨spec.inv, ?_, ?_, ?_⟩
        · rw [hpa]; exact update_nonneg g.l key cost hnn hc
        · simp only [hu.1, hle, if_true]; simp; omega
        · rw [hpa]
          simp only [update_used, hg, hle, if_true]
          simp only [Bool.false_eq_true, if_false]
          have : (g.l.update key cost).1.maxCost = g.l.maxCost := by simp [Lfu.update, hg]
          rw [this]
          have h1 : cost - prev ≤ max 0 (cost - prev) := Int.le_max_right _ _
          show g.l.used + (cost - prev) ≤ max 0 g.l.maxCost + (g.slack + max 0 (cost - prev))
          omega
      | none =>
        by_cases hroom : g.l.roomLeft cost ≥ 0
        · have hr := spec.room hle hg hroom
          have hpa : policyAdd g.l est key cost refills =
              { lfu := g.l.increment key cost, victims := none, added := true,
                events := [MEv.costAdd cost] } := by
            simp [policyAdd, hbig, Lfu.update, hg, hroom]
          refine ⟨spec.inv, ?_, ?_, ?_⟩
          · rw [hpa]; exact Lfu.increment_nonneg g.l key cost hnn hc
          · simp [hr.1]
          · have := (spec.admitted hr.1).1
            simp only [hr.1, if_true]; omega
        · have hpa : policyAdd g.l est key cost refills =
              evictLoop est (est key) key cost g.l [] [] [] [] refills := by
            simp [policyAdd, hbig, Lfu.update, hg, hroom]
          have hn := evictLoop_nonneg est (est key) key cost hc refills g.l [] [] [] [] hnn
          simp only at hn
          rw [← hpa] at hn
          refine ⟨spec.inv, hn.1, ?_, ?_⟩
          · split <;> simp [hs]
          · by_cases ha : (policyAdd g.l est key cost refills).added = true
            · have := (spec.admitted ha).1
              simp only [ha, if_true]; omega
            · have hf : (policyAdd g.l est key cost refills).added = false := by simpa using ha
              have := hn.2 hf
              simp only [hf, Bool.false_eq_true, if_false, spec.maxCost]; omega
  | remove key =>
    simp only [step, policyRemove]
    have h1 := Lfu.remove_inv g.l key hinv
    have h2 := Lfu.remove_nonneg g.l key hnn
    have h3 := Lfu.remove_used_le g.l key hnn
    have h4 := (Lfu.remove_fields g.l key).1
    cases hr : g.l.remove key with
    | mk l' o =>
      rw [hr] at h1 h2 h3 h4
      cases o <;> exact ⟨h1, h2, hs, by simp only at *; omega⟩
  | update key cost =>
    have hc : 0 ≤ cost := hd
    simp only [step]
    refine ⟨Lfu.update_inv g.l key cost hinv, update_nonneg g.l key cost hnn hc, ?_, ?_⟩
    · cases g.l.costs.get key <;> simp <;> omega
    · rw [update_used]
      have : (g.l.update key cost).1.maxCost = g.l.maxCost := by
        unfold Lfu.update; cases g.l.costs.get key <;> rfl
      rw [this]
      cases g.l.costs.get key <;> simp <;> omega
  | clear =>
    simp only [step]
    refine ⟨Lfu.clear_inv g.l, ?_, hs, ?_⟩
    · intro k c hk; simp [Lfu.clear] at hk
    · simp only [Lfu.clear]; omega
  | updateMaxCost mc =>
    simp only [step, Lfu.updateMaxCost]
    have h1 : 0 ≤ max 0 (g.l.maxCost - mc) := Int.le_max_left _ _
    have h2 : g.l.maxCost - mc ≤ max 0 (g.l.maxCost - mc) := Int.le_max_right _ _
    refine ⟨hinv, hnn, ?_, ?_⟩
    · show 0 ≤ g.slack + max 0 (g.l.maxCost - mc); omega
    · show g.l.used ≤ max 0 mc + (g.slack + max 0 (g.l.maxCost - mc))
      have h3 : 0 ≤ max 0 mc := Int.le_max_left _ _
      have h4 : mc ≤ max 0 mc := Int.le_max_right _ _
      have h5 : max 0 g.l.maxCost ≤ max 0 mc + max 0 (g.l.maxCost - mc) := by
        apply Int.max_le.mpr; constructor <;> omega
      omega

/-- **bounded_with_slack / used_eq_sum, every reachable state**: from any good state (e.g. the empty
policy), after every sequence of policy calls with non-negative costs: keys are distinct, `used`
equals the sum of the per-entry charges, and `used ≤ max 0 max_cost + slack` where `slack` is only
what in-place updates of charged keys and lowerings of `max_cost` added since the last admission. -/
theorem bounded_with_slack (g : GSt) (ops : List POp) (hd : ∀ op ∈ ops, op.Dom) (h : g.Good) :
    (run g ops).Good := by
  induction ops generalizing g with
  | nil => exact h
  | cons op ops ih =>
    exact ih (step g op) (fun o ho => hd o (by simp [ho])) (step_good g op (hd op (by simp)) h)

/-- the empty policy is a good state, for every `max_cost` (negative ones included) -/
theorem init_good (mc : Int) (samples : Nat) :
    GSt.Good { l := { costs := [], used := 0, maxCost := mc, samples := samples }, slack := 0 } :=
  ⟨⟨KMap.wf_nil, rfl⟩, fun _ _ h => by simp at h, Int.le_refl _, by simp only; omega⟩

/-- **used_eq_sum** as a corollary, stated on its own -/
theorem used_eq_sum (mc : Int) (samples : Nat) (ops : List POp) (hd : ∀ op ∈ ops, op.Dom) :
    let l := (run { l := { costs := [], used := 0, maxCost := mc, samples := samples }, slack := 0 } ops).l
    l.costs.WF ∧ l.used = KMap.total l.costs :=
  (bounded_with_slack _ ops hd (init_good mc samples)).inv

/-- **admit_reestablishes**: every admission of a new key leaves `used ≤ max_cost` (whatever the
state was before, over-budget states included) -/
theorem admit_reestablishes (l : Lfu) (est : Nat → Int) (key : Nat) (cost : Int)
    (refills : List (List (Nat × Int))) (hinv : l.Inv)
    (ha : (policyAdd l est key cost refills).added = true) :
    (policyAdd l est key cost refills).lfu.used ≤ (policyAdd l est key cost refills).lfu.maxCost ∧
    (policyAdd l est key cost refills).lfu.maxCost = l.maxCost :=
  ⟨((policyAdd_spec l est key cost refills hinv).admitted ha).1,
   (policyAdd_spec l est key cost refills hinv).maxCost⟩

/-- **oversize_never_admitted**: an entry whose own cost exceeds `max_cost` is never admitted, and
the attempt changes nothing -/
theorem oversize_never_admitted (l : Lfu) (est : Nat → Int) (key : Nat) (cost : Int)
    (refills : List (List (Nat × Int))) (hinv : l.Inv) (hbig : cost > l.maxCost) :
    (policyAdd l est key cost refills).added = false ∧ (policyAdd l est key cost refills).lfu = l :=
  ⟨((policyAdd_spec l est key cost refills hinv).oversize hbig).1,
   ((policyAdd_spec l est key cost refills hinv).oversize hbig).2.1⟩

/-- **max_cost_takes_effect**: after `update_max_cost mc`, the very next admission is decided
against `mc`: oversize relative to `mc` is refused, and an admission leaves `used ≤ mc`. -/
theorem max_cost_takes_effect (l : Lfu) (mc : Int) (est : Nat → Int) (key : Nat) (cost : Int)
    (refills : List (List (Nat × Int))) (hinv : l.Inv) :
    let R := policyAdd (l.updateMaxCost mc) est key cost refills
    (cost > mc → R.added = false) ∧ (R.added = true → R.lfu.used ≤ mc) := by
  have spec := policyAdd_spec (l.updateMaxCost mc) est key cost refills (Lfu.updateMaxCost_inv l mc hinv)
  refine ⟨fun h => (spec.oversize h).1, fun ha => ?_⟩
  have := (spec.admitted ha).1
  rw [spec.maxCost] at this
  exact this

-- non-vacuity -------------------------------------------------------------------------------
example : (run { l := { costs := [], used := 0, maxCost := 10, samples := 5 }, slack := 0 }
    [.add 1 4 (fun _ => 0) [], .add 2 4 (fun _ => 0) [], .update 1 9, .updateMaxCost 8]).l.used = 13 ∧
  (run { l := { costs := [], used := 0, maxCost := 10, samples := 5 }, slack := 0 }
    [.add 1 4 (fun _ => 0) [], .add 2 4 (fun _ => 0) [], .update 1 9, .updateMaxCost 8]).slack = 7 := by
  decide

-- at the level of the whole cache ---------------------------------------------------------------------

/-- **the charged total is the sum of the per-entry charges, and no key is charged twice, in every state
the cache can reach** — any interleaving of any client calls with the processor, the ticker, clears,
the policy worker, `update_max_cost` (from C17's conservation invariant, which carries `Lfu.Inv`) -/
theorem cache_used_is_sum (su : Nat → Nat → Bool) (cfg : Cfg) (maxCost : Int) (samples : Nat) (acts : List Act) :
    let c := Cache.run su (Cache.init cfg maxCost samples) acts
    c.lfu.costs.WF ∧ c.lfu.used = KMap.total c.lfu.costs :=
  (C17.exec_minv su _ acts (C17.init_minv cfg maxCost samples)).lfuInv

/-- **every admission of a new key by the processor re-establishes `used ≤ max_cost`**, in every
reachable state, whatever slack in-place updates or a lowered `max_cost` had left before: if the step is
the processor applying a `New` item for a key that was not charged and is charged afterwards, the charged
total fits. An item whose own charge exceeds `max_cost` is never admitted and changes no charge. -/
theorem cache_admission_reestablishes (su : Nat → Nat → Bool) (c c' : Cache) (est : Nat → Int)
    (refills : List (List (Nat × Int))) (hs : c.step su (.procItem est refills) = some c')
    (hinv : c.lfu.Inv) (k cf : Nat) (cost : Int) (v : Nat) (exp : Time) (rest : List Item)
    (hb : c.buf = Item.new k cf cost v exp :: rest) :
    (c.lfu.costs.get k = none → (c'.lfu.costs.get k).isSome = true → c'.lfu.used ≤ c'.lfu.maxCost) ∧
    (c.internalCost cost > c.lfu.maxCost → c'.lfu = c.lfu) := by
  simp only [Cache.step, Cache.procItem] at hs
  split at hs
  · cases hs
  · rw [hb] at hs
    simp only [Option.some.injEq] at hs; subst hs
    have hap := admitPending_frame ({ c with buf := rest } : Cache)
    generalize ({ c with buf := rest } : Cache).admitPending = c1 at hap
    have hl : c1.lfu = c.lfu := hap.2.1
    have hic : c1.internalCost cost = c.internalCost cost := by
      unfold Cache.internalCost; rw [hap.2.2.2]
    have hlfu : (c1.handleItem su est refills (Item.new k cf cost v exp)).lfu =
        (policyAdd c1.lfu est k (c1.internalCost cost) refills).lfu := by
      simp only [Cache.handleItem]
      split
      · rw [(evictVictims_spec _ _).1]; split <;> (try split) <;> simp
      · split <;> (try split) <;> simp
    rw [hlfu, hl, hic]
    have sp := policyAdd_spec c.lfu est k (c.internalCost cost) refills hinv
    constructor
    · intro hnone hsome
      cases hadd : (policyAdd c.lfu est k (c.internalCost cost) refills).added with
      | true => exact (sp.admitted hadd).1
      | false =>
        have := sp.refused hadd hnone
        rw [this] at hsome; cases hsome
    · intro hbig
      exact (sp.oversize hbig).2.1

end Stretto.C01

#print axioms Stretto.C01.bounded_with_slack
#print axioms Stretto.C01.init_good
#print axioms Stretto.C01.used_eq_sum
#print axioms Stretto.C01.admit_reestablishes
#print axioms Stretto.C01.oversize_never_admitted
#print axioms Stretto.C01.max_cost_takes_effect
#print axioms Stretto.C01.cache_used_is_sum
#print axioms Stretto.C01.cache_admission_reestablishes
