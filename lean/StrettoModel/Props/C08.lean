import StrettoModel.Proofs.Tokens
import StrettoModel.Props.C06
/-!
# C08 — Every value leaves the cache through exactly one callback

Values are opaque ids. `tok w c` (Proofs/Tokens.lean) counts the places value `w` occupies in state
`c`: resident in the store, carried by a buffered insert, or recorded in the callback log (`on_exit`,
`on_evict`, `on_reject`). The theorems say that every step *moves* values between these places and
never duplicates or loses one, except for the three ways a value legitimately disappears: dropped by
the served `clear()` (resident values), dropped with the buffer by `close()`'s stop, or overwritten in
place by the user through `get_mut`.

Quantification: every run of the transition system of `Model/Lts.lean`, every validator, every oracle
input satisfying C06's guards (`ActOk`: no sampled victim is the incoming key; filed conflict hashes
pass the store's check), every value id.
-/
namespace Stretto.C08
open Stretto

/-- how many places value `w` gains by action `a` (a write that the cache accepted) -/
def gained (su : Nat → Nat → Bool) (c : Cache) (w : Nat) : Act → Nat
  | .insert k cf v cost ttl now coster only => ind ((c.insert su k cf v cost ttl now coster only).2 && v == w)
  | .getMut k cf now v => ind ((c.getMutWrite k cf now v).2.isSome && v == w)
  | _ => 0

/-- how many places value `w` loses by action `a` without a callback: the three stated exceptions -/
def lost (c : Cache) (w : Nat) : Act → Nat
  | .getMut k cf now v => match (c.getMutWrite k cf now v).2 with
      | some old => ind (old == w)      -- overwritten in place by the user
      | none => 0
  | .procClear => if c.procClear.isSome then (vals c.store.items).count w else 0   -- dropped by clear()
  | .procStop => if c.procStop.isSome then (newVals c.buf).count w else 0          -- dropped by close()
  | _ => 0

/-- **one step moves values, never duplicates or loses them** -/
theorem step_tok (su : Nat → Nat → Bool) (c c' : Cache) (a : Act) (w : Nat) (hs : c.step su a = some c')
    (hwf : c.store.items.WF) (hgood : Good06 c) :
    tok w c' + lost c w a = tok w c + gained su c w a ∧ c'.store.items.WF := by
  cases a with
  | insert k cf v cost ttl now coster only =>
    simp only [Cache.step, Option.some.injEq] at hs; subst hs
    have := Cache.insert_tok c su k cf v cost ttl now coster only hwf w
    exact ⟨by simp only [lost, gained]; omega, this.2⟩
  | get k cf now =>
    simp only [Cache.step, Option.some.injEq] at hs; subst hs
    exact ⟨by simp [lost, gained, Cache.tok_of_tcore _ _ (Cache.get_tcore c k cf now)],
      Cache.wf_of_tcore _ _ (Cache.get_tcore c k cf now) hwf⟩
  | getMut k cf now v =>
    simp only [Cache.step, Option.some.injEq] at hs; subst hs
    have := Cache.getMutWrite_tok c k cf now v hwf w
    exact ⟨by simp only [lost, gained]; exact this.1, this.2⟩
  | remove k cf =>
    simp only [Cache.step, Option.some.injEq] at hs; subst hs
    have := Cache.remove_tok c k cf hwf w
    exact ⟨by simp only [lost, gained]; omega, this.2⟩
  | waitEnq id =>
    simp only [Cache.step, Option.some.injEq] at hs; subst hs
    have := Cache.waitEnq_tok c id w
    exact ⟨by simp only [lost, gained]; omega, by rw [this.2]; exact hwf⟩
  | clearReq id =>
    simp only [Cache.step, Option.some.injEq] at hs; subst hs
    exact ⟨by simp [lost, gained, Cache.tok_of_tcore _ _ (Cache.clearReq_tcore c id)],
      Cache.wf_of_tcore _ _ (Cache.clearReq_tcore c id) hwf⟩
  | closeBegin id =>
    simp only [Cache.step, Option.some.injEq] at hs; subst hs
    exact ⟨by simp [lost, gained, Cache.tok_of_tcore _ _ (Cache.closeBegin_tcore c id)],
      Cache.wf_of_tcore _ _ (Cache.closeBegin_tcore c id) hwf⟩
  | updateMaxCost mc =>
    simp only [Cache.step, Option.some.injEq] at hs; subst hs
    exact ⟨by simp [lost, gained, Cache.updateMaxCost, tok], hwf⟩
  | procItem est refills =>
    simp only [Cache.step, Cache.procItem] at hs
    split at hs
    · cases hs
    · rename_i hne
      split at hs
      · cases hs
      · rename_i it rest hb
        simp only [Option.some.injEq] at hs; subst hs
        have hinv : Inv06 c := by
          rcases hgood with he | h
          · exact absurd he hne
          · exact h
        obtain ⟨ha1, ha2⟩ := Cache.admitPending_tok ({ c with buf := rest } : Cache) w
        have hf := admitPending_frame ({ c with buf := rest } : Cache)
        have hwf0 : (({ c with buf := rest } : Cache).admitPending).store.items.WF := by rw [ha2]; exact hwf
        have hh := Cache.handleItem_tok (({ c with buf := rest } : Cache).admitPending) su est refills it hwf0 w
          (by
            intro k cf cost v exp _ hadd
            rw [hf.2.1] at hadd
            have hspec := policyAdd_spec c.lfu est k
              ((({ c with buf := rest } : Cache).admitPending).internalCost cost) refills hinv.lfuInv
            have hnc := (hspec.admitted hadd).2.2
            rw [ha2]
            cases hg : c.store.items.get k with
            | none => rfl
            | some e =>
              have := hinv.resident_charged k (by simp [hg])
              rw [hnc] at this; cases this)
        refine ⟨?_, hh.2⟩
        simp only [lost, gained]
        rw [hh.1, ha1]
        simp only [tok, hb, List.cons_append, newVals_append, List.count_append]
        cases it <;> simp [newVals, newVals_append, List.count_cons, List.count_append] <;> omega
  | procClear =>
    simp only [Cache.step] at hs
    simp only [lost, gained, hs, Option.isSome_some, ↓reduceIte]
    simp only [Cache.procClear] at hs
    split at hs
    · cases hs
    · split at hs
      · cases hs
      · rename_i id rest _
        simp only [Option.some.injEq] at hs; subst hs
        obtain ⟨d1, d2, d3, d4⟩ := Cache.drain_tok c.buf ({ c with buf := [], clearQ := rest } : Cache) w
        refine ⟨?_, by simp [Store.clear, Store.empty, KMap.wf_nil]⟩
        simp only [tok, d2, d3, d4, Store.clear, Store.empty, vals, List.map_nil, List.count_nil, List.nil_append,
          newVals_append, List.count_append, newVals] at d1 ⊢
        omega
  | procTick now order =>
    simp only [Cache.step, Cache.procTick] at hs
    split at hs
    · cases hs
    · simp only [Option.some.injEq] at hs; subst hs
      simp only [lost, gained]
      have hk := Cache.sweepKeys_tok order
        ({ c with store := { c.store with em := (c.store.em.tryCleanup now).1 } } : Cache) now [] hwf w
      obtain ⟨e1, e2⟩ := Cache.deliverEvictions_tok
        (({ c with store := { c.store with em := (c.store.em.tryCleanup now).1 } } : Cache).sweepKeys now order []).2.reverse
        (({ c with store := { c.store with em := (c.store.em.tryCleanup now).1 } } : Cache).sweepKeys now order []).1 w
      refine ⟨?_, by rw [e2]; exact hk.2⟩
      rw [e1]
      have hrev : ∀ l : List CB, (cbVals l.reverse).count w = (cbVals l).count w := by
        intro l; simp [cbVals, List.map_reverse]
      rw [hrev]
      have := hk.1
      simp only [cbVals, List.map_nil, List.count_nil, tok] at this ⊢
      omega
  | procStop =>
    simp only [Cache.step] at hs
    simp only [lost, gained, hs, Option.isSome_some, ↓reduceIte]
    simp only [Cache.procStop] at hs
    split at hs
    · cases hs
    · simp only [Option.some.injEq] at hs; subst hs
      refine ⟨?_, hwf⟩
      simp only [tok, List.nil_append, newVals_append, List.count_append]
      omega
  | policyWorker =>
    simp only [Cache.step, Cache.policyWorkerStep] at hs
    cases hp : c.pq with
    | nil => simp [hp] at hs
    | cons b rest =>
      simp only [hp, Option.map_some, Option.some.injEq] at hs; subst hs
      exact ⟨by simp [lost, gained, tok], hwf⟩
  | policyClose =>
    simp only [Cache.step, Option.some.injEq] at hs; subst hs
    exact ⟨by simp [lost, gained, tok, Cache.policyClose], hwf⟩

/-- the callback log only grows -/
theorem step_cbsMono (su : Nat → Nat → Bool) (c c' : Cache) (a : Act) (hs : c.step su a = some c') :
    Cache.CbsMono c c' := by
  cases a with
  | insert k cf v cost ttl now coster only =>
    simp only [Cache.step, Option.some.injEq] at hs; subst hs
    exact Cache.insert_cbsMono c su k cf v cost ttl now coster only
  | get k cf now =>
    simp only [Cache.step, Option.some.injEq] at hs; subst hs
    exact Cache.CbsMono.of_eq (congrArg (·.2.2.2) (Cache.get_tcore c k cf now))
  | getMut k cf now v =>
    simp only [Cache.step, Option.some.injEq] at hs; subst hs
    unfold Cache.getMutWrite
    split
    · exact Cache.CbsMono.refl c
    · simp only []
      split <;> exact Cache.CbsMono.of_eq (by simp)
  | remove k cf =>
    simp only [Cache.step, Option.some.injEq] at hs; subst hs
    exact Cache.remove_cbsMono c k cf
  | waitEnq id =>
    simp only [Cache.step, Option.some.injEq] at hs; subst hs
    unfold Cache.waitEnq
    split
    · exact Cache.CbsMono.refl c
    · split <;> exact Cache.CbsMono.of_eq rfl
  | clearReq id =>
    simp only [Cache.step, Option.some.injEq] at hs; subst hs
    exact Cache.CbsMono.of_eq (congrArg (·.2.2.2) (Cache.clearReq_tcore c id))
  | closeBegin id =>
    simp only [Cache.step, Option.some.injEq] at hs; subst hs
    exact Cache.CbsMono.of_eq (congrArg (·.2.2.2) (Cache.closeBegin_tcore c id))
  | updateMaxCost mc =>
    simp only [Cache.step, Option.some.injEq] at hs; subst hs
    exact Cache.CbsMono.of_eq rfl
  | procItem est refills =>
    simp only [Cache.step, Cache.procItem] at hs
    split at hs
    · cases hs
    · split at hs
      · cases hs
      · rename_i it rest hb
        simp only [Option.some.injEq] at hs; subst hs
        refine Cache.CbsMono.trans ?_ (Cache.handleItem_cbsMono _ su est refills it)
        apply Cache.CbsMono.of_eq
        unfold Cache.admitPending
        cases c.pendingSends with
        | nil => rfl
        | cons x xs => simp only; split <;> rfl
  | procClear =>
    simp only [Cache.step, Cache.procClear] at hs
    split at hs
    · cases hs
    · split at hs
      · cases hs
      · rename_i id rest _
        simp only [Option.some.injEq] at hs; subst hs
        have := Cache.drain_cbsMono c.buf ({ c with buf := [], clearQ := rest } : Cache)
        exact this
  | procTick now order =>
    simp only [Cache.step, Cache.procTick] at hs
    split at hs
    · cases hs
    · simp only [Option.some.injEq] at hs; subst hs
      refine Cache.CbsMono.trans ?_ (Cache.deliverEvictions_cbsMono _ _)
      exact Cache.CbsMono.of_eq (Cache.sweepKeys_cbs order _ now [])
  | procStop =>
    simp only [Cache.step, Cache.procStop] at hs
    split at hs
    · cases hs
    · simp only [Option.some.injEq] at hs; subst hs
      exact Cache.CbsMono.of_eq rfl
  | policyWorker =>
    simp only [Cache.step, Cache.policyWorkerStep] at hs
    cases hp : c.pq with
    | nil => simp [hp] at hs
    | cons b rest =>
      simp only [hp, Option.map_some, Option.some.injEq] at hs; subst hs
      exact Cache.CbsMono.of_eq rfl
  | policyClose =>
    simp only [Cache.step, Option.some.injEq] at hs; subst hs
    exact Cache.CbsMono.of_eq rfl

-- runs ---------------------------------------------------------------------------------------------

/-- a write hands the cache a value that is nowhere in it (a Rust value is moved into the cache: each
accepted value is a distinct object) -/
def Fresh (c : Cache) : Act → Prop
  | .insert _ _ v _ _ _ _ _ => tok v c = 0
  | .getMut _ _ _ v => tok v c = 0
  | _ => True

/-- runs whose oracle inputs pass C06's guards and whose writes use fresh values -/
inductive Run (su : Nat → Nat → Bool) : Cache → Cache → Prop
  | refl (c : Cache) : Run su c c
  | step (c c' c'' : Cache) (a : Act) : Run su c c' → C06.ActOk c' a → Fresh c' a →
      c'.step su a = some c'' → Run su c c''

/-- what holds in every reachable state -/
structure Inv08 (c : Cache) : Prop where
  wf : c.store.items.WF
  good : Good06 c
  once : ∀ w, tok w c ≤ 1

theorem gained_le (su : Nat → Nat → Bool) (c : Cache) (w : Nat) (a : Act) (hf : Fresh c a) (h1 : tok w c ≤ 1) :
    tok w c + gained su c w a ≤ 1 := by
  cases a with
  | insert k cf v cost ttl now coster only =>
    simp only [gained, ind]
    split
    · rename_i h
      have : v = w := by simp only [Bool.and_eq_true, beq_iff_eq] at h; exact h.2
      subst this
      have : tok v c = 0 := hf
      omega
    · omega
  | getMut k cf now v =>
    simp only [gained, ind]
    split
    · rename_i h
      have : v = w := by simp only [Bool.and_eq_true, beq_iff_eq] at h; exact h.2
      subst this
      have : tok v c = 0 := hf
      omega
    · omega
  | _ => simpa [gained] using h1

theorem step_inv (su : Nat → Nat → Bool) (c c' : Cache) (a : Act) (hok : C06.ActOk c a) (hf : Fresh c a)
    (hs : c.step su a = some c') (h : Inv08 c) : Inv08 c' := by
  refine ⟨(step_tok su c c' a 0 hs h.wf h.good).2, C06.step_good su c c' a hok hs h.good, ?_⟩
  intro w
  have := (step_tok su c c' a w hs h.wf h.good).1
  have := gained_le su c w a hf (h.once w)
  omega

theorem init_inv (cfg : Cfg) (maxCost : Int) (samples : Nat) : Inv08 (Cache.init cfg maxCost samples) :=
  ⟨KMap.wf_nil, C06.init_good cfg maxCost samples, fun w => by simp [tok, Cache.init, Store.empty, vals, newVals, cbVals]⟩

theorem reachable_inv (su : Nat → Nat → Bool) (c0 c : Cache) (h0 : Inv08 c0) (hr : Run su c0 c) : Inv08 c := by
  induction hr with
  | refl => exact h0
  | step c' c'' a _ hok hf hs ih => exact step_inv su c' c'' a hok hf hs ih

/-- **never both and never twice**: in every reachable state a value occupies at most one place — it
is not both resident and handed to a callback, not handed to two callbacks, not handed to one callback
twice, not resident under two keys. -/
theorem never_both_never_twice (su : Nat → Nat → Bool) (cfg : Cfg) (maxCost : Int) (samples : Nat)
    (c : Cache) (hr : Run su (Cache.init cfg maxCost samples) c) (w : Nat) :
    (vals c.store.items).count w + (newVals (c.buf ++ c.pendingSends)).count w + (cbVals c.cbs).count w ≤ 1 :=
  (reachable_inv su _ c (init_inv cfg maxCost samples) hr).once w

/-- **conservation along a run**: ghost totals of what was gained (accepted writes of `w`) and lost
(the three stated exceptions) -/
inductive RunG (su : Nat → Nat → Bool) (w : Nat) : Cache → Cache → Nat → Nat → Prop
  | refl (c : Cache) : RunG su w c c 0 0
  | step (c c' c'' : Cache) (a : Act) (g l : Nat) : RunG su w c c' g l → C06.ActOk c' a → Fresh c' a →
      c'.step su a = some c'' → RunG su w c c'' (g + gained su c' w a) (l + lost c' w a)

theorem RunG.toRun {su : Nat → Nat → Bool} {w : Nat} {c c' : Cache} {g l : Nat} (h : RunG su w c c' g l) :
    Run su c c' := by
  induction h with
  | refl => exact Run.refl _
  | step c' c'' a g l _ hok hf hs ih => exact Run.step _ c' c'' a ih hok hf hs

/-- **nothing silently dropped**: along every run from the empty cache, the places value `w` occupies
now, plus the times it was dropped by `clear()`, dropped by `close()` or overwritten through `get_mut`,
equal the number of accepted writes of `w`. So a value accepted by an insert that returned true and not
covered by one of the exceptions is resident, still buffered, or in the callback log — and (previous
theorem) exactly once. -/
theorem conservation (su : Nat → Nat → Bool) (cfg : Cfg) (maxCost : Int) (samples : Nat) (w : Nat)
    (c : Cache) (g l : Nat) (hr : RunG su w (Cache.init cfg maxCost samples) c g l) :
    tok w c + l = g := by
  have gen : ∀ c0 c g l, RunG su w c0 c g l → Inv08 c0 → tok w c + l = tok w c0 + g := by
    intro c0 c g l h
    induction h with
    | refl => intro _; rfl
    | step c' c'' a g l hr' hok hf hs ih =>
      intro h0
      have hi := reachable_inv su _ c' h0 hr'.toRun
      have := (step_tok su c' c'' a w hs hi.wf hi.good).1
      have := ih h0
      omega
  have := gen _ c g l hr (init_inv cfg maxCost samples)
  have h0 : tok w (Cache.init cfg maxCost samples) = 0 := by
    simp [tok, Cache.init, Store.empty, vals, newVals, cbVals]
  omega

/-- at quiescence (nothing buffered) an accepted, non-excepted value is resident xor in the callback
log exactly once -/
theorem quiescent_resident_xor_called_back (su : Nat → Nat → Bool) (cfg : Cfg) (maxCost : Int) (samples : Nat)
    (w : Nat) (c : Cache) (hr : RunG su w (Cache.init cfg maxCost samples) c 1 0)
    (hq : c.buf = [] ∧ c.pendingSends = []) :
    (vals c.store.items).count w + (cbVals c.cbs).count w = 1 := by
  have := conservation su cfg maxCost samples w c 1 0 hr
  simp only [tok, hq.1, hq.2, List.append_nil, newVals, List.count_nil] at this
  omega

/-- **a value handed to a callback is never returned by a later lookup** -/
theorem called_back_never_returned (su : Nat → Nat → Bool) (cfg : Cfg) (maxCost : Int) (samples : Nat)
    (c c' : Cache) (hr : Run su (Cache.init cfg maxCost samples) c) (hr' : Run su c c') (w : Nat)
    (hcb : w ∈ cbVals c.cbs) (k cf now : Nat) : (c'.get k cf now).2 ≠ some w := by
  have hmono : ∀ c1 c2, Run su c1 c2 → Cache.CbsMono c1 c2 := by
    intro c1 c2 h
    induction h with
    | refl => exact Cache.CbsMono.refl _
    | step c' c'' a _ _ _ hs ih => exact ih.trans (step_cbsMono su c' c'' a hs)
  have hcb' : w ∈ cbVals c'.cbs := by
    simp only [cbVals, List.mem_map] at hcb ⊢
    obtain ⟨x, hx, rfl⟩ := hcb
    exact ⟨x, hmono c c' hr' x hx, rfl⟩
  have hi := reachable_inv su _ c (init_inv cfg maxCost samples) hr
  have hi' := reachable_inv su _ c' hi hr'
  intro hget
  unfold Cache.get at hget
  split at hget
  · cases hget
  · simp only [Cache.ringPush_store] at hget
    cases hl : c'.store.lookup k cf now with
    | none => simp [Store.get, hl] at hget
    | some e =>
      have he := (Store.lookup_some c'.store k cf now e hl).1
      have hv : e.val = w := by simpa [Store.get, hl] using hget
      have hmem : w ∈ vals c'.store.items := by
        simp only [vals, List.mem_map]
        exact ⟨(k, e), KMap.mem_of_get _ _ _ he, hv⟩
      have h1 : 0 < (vals c'.store.items).count w := List.count_pos_iff.mpr hmem
      have h2 : 0 < (cbVals c'.cbs).count w := List.count_pos_iff.mpr hcb'
      have := hi'.once w
      simp only [tok] at this
      omega

-- non-vacuity ---------------------------------------------------------------------------------------
def exCfg : Cfg := { itemSize := 56, ignoreInternal := true, bufCap := 4, ringCap := 2, pqCap := some 3, metricsOn := false }
/-- value 11 inserted and applied, then replaced by 12 (11 leaves through on_exit), then removed -/
def exActs : List Act :=
  [.insert 1 0 11 5 0 10 0 false, .procItem (fun _ => 0) [], .insert 1 0 12 5 0 10 0 false, .remove 1 0]
def exRun : Cache := Cache.run (fun _ _ => true) (Cache.init exCfg 100 5) exActs
example : cbVals exRun.cbs = [12, 11] ∧ vals exRun.store.items = [] ∧ tok 11 exRun = 1 ∧ tok 12 exRun = 1 := by decide


end Stretto.C08

#print axioms Stretto.C08.step_tok
#print axioms Stretto.C08.never_both_never_twice
#print axioms Stretto.C08.conservation
#print axioms Stretto.C08.quiescent_resident_xor_called_back
#print axioms Stretto.C08.called_back_never_returned
#print axioms Stretto.C08.step_cbsMono
