import StrettoModel.Model.Lts
import StrettoModel.Proofs.Cache
import StrettoModel.Proofs.Agree
/-!
# C10 — wait() is a barrier and always returns

`wait()` = [closed? → Ok] → [non-blocking enqueue of a marker: Err when the buffer is full] →
[closed? → Ok] → block until the marker's wait-group is released.
Quantification: every state and every action of the LTS (`Model/Lts.lean`), i.e. every interleaving
of `wait()` with inserts, removes, `clear()` and `close()` of other threads and with the processor.
Fairness (the processor is eventually scheduled) is assumed for termination; OS-level starvation is
outside the model.
-/
namespace Stretto.C10
open Stretto

/-- the marker of waiter `id` is buffered, or the waiter has been released -/
def Served (c : Cache) (id : Nat) : Prop := Item.wait id ∈ c.buf ∨ id ∈ c.released

theorem drain_released (items : List Item) (c : Cache) :
    (∀ id, Item.wait id ∈ items → id ∈ (items.foldl Cache.drainItem c).released) ∧
    (∀ id ∈ c.released, id ∈ (items.foldl Cache.drainItem c).released) := by
  induction items generalizing c with
  | nil => simp
  | cons it rest ih =>
    simp only [List.foldl_cons, List.mem_cons]
    obtain ⟨i1, i2⟩ := ih (c.drainItem it)
    constructor
    · intro id hm
      rcases hm with rfl | hm
      · exact i2 _ (by simp [Cache.drainItem])
      · exact i1 id hm
    · intro id hid
      apply i2
      cases it <;> simp [Cache.drainItem, hid]

theorem handleItem_released (c : Cache) (su : Nat → Nat → Bool) (est : Nat → Int)
    (refills : List (List (Nat × Int))) (it : Item) (id : Nat) :
    id ∈ (c.handleItem su est refills it).released ↔ id ∈ c.released ∨ it = Item.wait id := by
  cases it with
  | wait w =>
    simp only [Cache.handleItem, List.mem_cons, Item.wait.injEq]
    constructor
    · rintro (h | h)
      · exact Or.inr h.symm
      · exact Or.inl h
    · rintro (h | h)
      · exact Or.inr h
      · exact Or.inl h.symm
  | update k cost ext => simp [Cache.handleItem]
  | delete k cf =>
    simp only [Cache.handleItem]
    cases (c.store.tryRemove k cf).2 <;> (simp only; split <;> simp)
  | new k cf cost v exp =>
    have hev : ∀ (vs : List (Nat × Int)) (c1 : Cache), (c1.evictVictims vs).released = c1.released := by
      intro vs
      induction vs with
      | nil => intro c1; rfl
      | cons p rest ih =>
        intro c1
        obtain ⟨vk, vc⟩ := p
        simp only [Cache.evictVictims]
        cases (c1.store.tryRemove vk 0).2 with
        | none => exact ih c1
        | some e =>
          simp only
          split
          · rw [ih]; simp
          · rw [ih]
    have hrel : (c.handleItem su est refills (Item.new k cf cost v exp)).released = c.released := by
      simp only [Cache.handleItem]
      split
      · rw [hev]; split <;> (try split) <;> simp
      · split <;> (try split) <;> simp
    rw [hrel]; simp

/-- client calls never release a waiter and never put anything in front of a buffered marker:
the buffer only grows at its end -/
theorem clients_only_append (su : Nat → Nat → Bool) (c : Cache) (k cf v : Nat) (cost : Int) (ttl now : Nat)
    (coster : Int) (only : Bool) (id : Nat) :
    (∃ tail, (c.insert su k cf v cost ttl now coster only).1.buf = c.buf ++ tail) ∧
    (c.insert su k cf v cost ttl now coster only).1.released = c.released ∧
    (∃ tail, (c.remove k cf).1.buf = c.buf ++ tail) ∧ (c.remove k cf).1.released = c.released ∧
    (∃ tail, (c.waitEnq id).1.buf = c.buf ++ tail) ∧ (c.waitEnq id).1.released = c.released := by
  refine ⟨?_, ?_, ?_, ?_, ?_, ?_⟩
  · unfold Cache.insert Cache.insertBody
    split
    · exact ⟨[], by simp⟩
    · simp only []
      split
      · exact ⟨[], by simp⟩
      · split
        · split
          · exact ⟨_, rfl⟩
          · exact ⟨[], by simp⟩
        · split
          · exact ⟨[], by simp⟩
          · split
            · exact ⟨_, rfl⟩
            · exact ⟨[], by simp⟩
  · unfold Cache.insert Cache.insertBody
    split
    · rfl
    · simp only []
      split
      · rfl
      · split
        · split <;> rfl
        · split
          · rfl
          · split
            · rfl
            · simp
  · unfold Cache.remove
    split
    · exact ⟨[], by simp⟩
    · simp only []
      cases (c.store.tryRemove k cf).2 with
      | none =>
        simp only; split
        · exact ⟨_, rfl⟩
        · exact ⟨[], by simp⟩
      | some e =>
        simp only; split
        · exact ⟨_, rfl⟩
        · exact ⟨[], by simp⟩
  · unfold Cache.remove
    split
    · rfl
    · simp only []
      cases (c.store.tryRemove k cf).2 <;> (simp only; split <;> rfl)
  · unfold Cache.waitEnq
    split
    · exact ⟨[], by simp⟩
    · split
      · exact ⟨_, rfl⟩
      · exact ⟨[], by simp⟩
  · unfold Cache.waitEnq
    split
    · rfl
    · split <;> rfl

theorem served_of_append (c c' : Cache) (id : Nat) (hb : ∃ tail, c'.buf = c.buf ++ tail)
    (hr : c'.released = c.released) (h : Served c id) : Served c' id := by
  obtain ⟨tail, ht⟩ := hb
  rcases h with h | h
  · left; rw [ht]; simp [h]
  · right; rw [hr]; exact h

/-- **no lost wake-up**: once a waiter's marker is buffered it stays "served" — buffered or released —
through every step of every actor. In particular the processor's stop iteration releases it, so a
waiter can never be left with nobody obliged to release it. -/
theorem no_lost_wakeup (su : Nat → Nat → Bool) (c c' : Cache) (a : Act) (hs : c.step su a = some c')
    (id : Nat) (h : Served c id) : Served c' id := by
  unfold Served at *
  cases a with
  | insert k cf v cost ttl now coster only =>
    simp only [Cache.step, Option.some.injEq] at hs; subst hs
    have := clients_only_append su c k cf v cost ttl now coster only id
    exact served_of_append c _ id this.1 this.2.1 h
  | get k cf now =>
    simp only [Cache.step, Option.some.injEq] at hs; subst hs
    unfold Cache.get; split
    · exact h
    · simp only []; split <;> simpa using h
  | getMut k cf now v =>
    simp only [Cache.step, Option.some.injEq] at hs; subst hs
    unfold Cache.getMutWrite; split
    · exact h
    · simp only []; split <;> simpa using h
  | remove k cf =>
    simp only [Cache.step, Option.some.injEq] at hs; subst hs
    have := clients_only_append su c k cf 0 0 0 0 0 false id
    exact served_of_append c _ id this.2.2.1 this.2.2.2.1 h
  | waitEnq w =>
    simp only [Cache.step, Option.some.injEq] at hs; subst hs
    have := clients_only_append su c 0 0 0 0 0 0 0 false w
    exact served_of_append c _ id this.2.2.2.2.1 this.2.2.2.2.2 h
  | clearReq w =>
    simp only [Cache.step, Option.some.injEq] at hs; subst hs
    unfold Cache.clearReq; split <;> exact h
  | closeBegin w =>
    simp only [Cache.step, Option.some.injEq] at hs; subst hs
    unfold Cache.closeBegin; split <;> exact h
  | updateMaxCost mc =>
    simp only [Cache.step, Option.some.injEq] at hs; subst hs; exact h
  | procItem est refills =>
    simp only [Cache.step, Cache.procItem] at hs
    split at hs
    · cases hs
    · split at hs
      · cases hs
      · rename_i it rest hb
        simp only [Option.some.injEq] at hs; subst hs
        rcases h with h | h
        · rw [hb] at h
          simp only [List.mem_cons] at h
          rcases h with h | h
          · right; rw [handleItem_released]; right; exact h.symm
          · left
            -- still in the rest of the buffer; handling an item does not touch the buffer
            have hbuf : ∀ (c1 : Cache) (it : Item), (c1.handleItem su est refills it).buf = c1.buf := by
              intro c1 it
              cases it with
              | wait w => rfl
              | update k cost ext => simp [Cache.handleItem]
              | delete k cf =>
                simp only [Cache.handleItem]
                cases (c1.store.tryRemove k cf).2 <;> (simp only; split <;> simp)
              | new k cf cost v exp =>
                have := (handleNew_buf c1 su est refills k cf cost v exp)
                exact this
            rw [hbuf]
            have : Item.wait id ∈ (({ c with buf := rest } : Cache).admitPending).buf := by
              unfold Cache.admitPending
              cases c.pendingSends with
              | nil => simpa using h
              | cons p ps =>
                simp only
                split
                · simp [h]
                · simpa using h
            exact this
        · right; rw [handleItem_released]; left
          have := (admitPending_released ({ c with buf := rest } : Cache))
          rw [this]; exact h
  | procClear =>
    simp only [Cache.step, Cache.procClear] at hs
    split at hs
    · cases hs
    · split at hs
      · cases hs
      · rename_i w rest hq
        simp only [Option.some.injEq] at hs; subst hs
        right
        have hd := drain_released c.buf { c with buf := [], clearQ := rest }
        simp only [List.mem_cons]
        right
        rcases h with h | h
        · exact hd.1 id h
        · exact hd.2 id h
  | procTick now order =>
    simp only [Cache.step, Cache.procTick] at hs
    split at hs
    · cases hs
    · simp only [Option.some.injEq] at hs; subst hs
      have hf := tick_frame c now order
      rw [hf.1, hf.2]; exact h
  | procStop =>
    simp only [Cache.step, Cache.procStop] at hs
    split at hs
    · cases hs
    · simp only [Option.some.injEq] at hs; subst hs
      right
      simp only [List.mem_append, List.mem_filterMap]
      rcases h with h | h
      · left; right; exact ⟨Item.wait id, h, rfl⟩
      · right; exact h
  | policyWorker =>
    simp only [Cache.step, Cache.policyWorkerStep] at hs
    cases hp : c.pq with
    | nil => simp [hp] at hs
    | cons b rest => simp only [hp, Option.map_some, Option.some.injEq] at hs; subst hs; exact h
  | policyClose =>
    simp only [Cache.step, Option.some.injEq] at hs; subst hs; exact h

/-- **barrier**: the processor releases a waiter through its insert-buffer branch only when the
waiter's marker is at the head of the buffer — every item enqueued before the marker has already
been taken out and handled (or discarded by a clear) — and never releases anybody else. -/
theorem marker_released_at_head (su : Nat → Nat → Bool) (c c' : Cache) (est : Nat → Int)
    (refills : List (List (Nat × Int))) (hs : c.procItem su est refills = some c') (id : Nat)
    (hnew : id ∈ c'.released) (hold : id ∉ c.released) : ∃ rest, c.buf = Item.wait id :: rest := by
  simp only [Cache.procItem] at hs
  split at hs
  · cases hs
  · split at hs
    · cases hs
    · rename_i it rest hb
      simp only [Option.some.injEq] at hs; subst hs
      rw [handleItem_released] at hnew
      rcases hnew with h | h
      · rw [admitPending_released] at h; exact absurd h hold
      · subst h; exact ⟨rest, hb⟩

/-- **progress**: with `n` items ahead of the marker, `n + 1` iterations of the processor's
insert-buffer branch (whatever the clients do in between — they only append) release the waiter;
here for the processor running alone. Under fairness the waiter therefore returns. -/
theorem released_after_handling (su : Nat → Nat → Bool) (est : Nat → Int)
    (refills : List (List (Nat × Int))) (pre : List Item) :
    ∀ (c : Cache) (post : List Item) (id : Nat), c.procExited = false →
      c.buf = pre ++ Item.wait id :: post →
      ∃ c', (List.replicate (pre.length + 1) (Act.procItem est refills)).foldl
              (fun s a => (s.step su a).getD s) c = c' ∧ id ∈ c'.released := by
  induction pre with
  | nil =>
    intro c post id halive hb
    simp only [List.length_nil, Nat.zero_add, List.replicate_one, List.foldl_cons, List.foldl_nil,
      List.nil_append] at *
    refine ⟨_, rfl, ?_⟩
    simp only [Cache.step, Cache.procItem, halive, hb, Bool.false_eq_true, if_false, Option.getD_some]
    rw [handleItem_released]; right; rfl
  | cons it pre ih =>
    intro c post id halive hb
    simp only [List.length_cons, List.replicate_succ, List.foldl_cons]
    simp only [List.cons_append] at hb
    have hstep : (c.step su (Act.procItem est refills)) =
        some ((({ c with buf := pre ++ Item.wait id :: post } : Cache).admitPending).handleItem su est refills it) := by
      simp [Cache.step, Cache.procItem, halive, hb]
    rw [hstep]
    simp only [Option.getD_some]
    -- the state after one iteration still has the marker, now with one item less ahead of it
    have hbuf' : ∃ post', ((({ c with buf := pre ++ Item.wait id :: post } : Cache).admitPending).handleItem su est refills it).buf =
        pre ++ Item.wait id :: post' := by
      have hb1 : ∃ post', (({ c with buf := pre ++ Item.wait id :: post } : Cache).admitPending).buf = pre ++ Item.wait id :: post' := by
        unfold Cache.admitPending
        cases c.pendingSends with
        | nil => exact ⟨post, rfl⟩
        | cons p ps =>
          simp only
          split
          · exact ⟨post ++ [p], by simp⟩
          · exact ⟨post, rfl⟩
      obtain ⟨post', hp⟩ := hb1
      refine ⟨post', ?_⟩
      rw [← hp]
      exact handleItem_buf _ su est refills it
    obtain ⟨post', hp⟩ := hbuf'
    have halive' : ((({ c with buf := pre ++ Item.wait id :: post } : Cache).admitPending).handleItem su est refills it).procExited = false := by
      rw [handleItem_procExited, (admitPending_frame _).2.2.1]; exact halive
    obtain ⟨c', hc', hrel⟩ := ih _ post' id halive' hp
    have : pre.length + 1 = (pre.length + 1) := rfl
    exact ⟨c', by simpa [List.replicate_succ] using hc', hrel⟩


-- progress under arbitrary interleaving -------------------------------------------------------------

/-- every action other than the processor's item / clear / stop iterations only appends to the insert
buffer and releases nobody -/
theorem other_step_appends (su : Nat → Nat → Bool) (c c' : Cache) (a : Act) (hs : c.step su a = some c')
    (hnp : (match a with | .procItem _ _ => false | .procClear => false | .procStop => false | _ => true) = true) :
    (∃ tail, c'.buf = c.buf ++ tail) ∧ c'.released = c.released := by
  cases a with
  | insert k cf v cost ttl now coster only =>
    simp only [Cache.step, Option.some.injEq] at hs; subst hs
    have := clients_only_append su c k cf v cost ttl now coster only 0
    exact ⟨this.1, this.2.1⟩
  | get k cf now =>
    simp only [Cache.step, Option.some.injEq] at hs; subst hs
    unfold Cache.get; split
    · exact ⟨⟨[], by simp⟩, rfl⟩
    · simp only []; split <;> exact ⟨⟨[], by simp⟩, by simp⟩
  | getMut k cf now v =>
    simp only [Cache.step, Option.some.injEq] at hs; subst hs
    unfold Cache.getMutWrite; split
    · exact ⟨⟨[], by simp⟩, rfl⟩
    · simp only []; split <;> exact ⟨⟨[], by simp⟩, by simp⟩
  | remove k cf =>
    simp only [Cache.step, Option.some.injEq] at hs; subst hs
    have := clients_only_append su c k cf 0 0 0 0 0 false 0
    exact ⟨this.2.2.1, this.2.2.2.1⟩
  | waitEnq w =>
    simp only [Cache.step, Option.some.injEq] at hs; subst hs
    have := clients_only_append su c 0 0 0 0 0 0 0 false w
    exact ⟨this.2.2.2.2.1, this.2.2.2.2.2⟩
  | clearReq w =>
    simp only [Cache.step, Option.some.injEq] at hs; subst hs
    unfold Cache.clearReq; split <;> exact ⟨⟨[], by simp⟩, rfl⟩
  | closeBegin w =>
    simp only [Cache.step, Option.some.injEq] at hs; subst hs
    unfold Cache.closeBegin; split <;> exact ⟨⟨[], by simp⟩, rfl⟩
  | updateMaxCost mc =>
    simp only [Cache.step, Option.some.injEq] at hs; subst hs
    exact ⟨⟨[], by simp [Cache.updateMaxCost]⟩, rfl⟩
  | procItem est refills => simp at hnp
  | procClear => simp at hnp
  | procStop => simp at hnp
  | procTick now order =>
    simp only [Cache.step, Cache.procTick] at hs
    split at hs
    · cases hs
    · simp only [Option.some.injEq] at hs; subst hs
      have hf := tick_frame c now order
      exact ⟨⟨[], by simp [hf.1]⟩, hf.2⟩
  | policyWorker =>
    simp only [Cache.step, Cache.policyWorkerStep] at hs
    cases hp : c.pq with
    | nil => simp [hp] at hs
    | cons b rest =>
      simp only [hp, Option.map_some, Option.some.injEq] at hs; subst hs
      exact ⟨⟨[], by simp⟩, rfl⟩
  | policyClose =>
    simp only [Cache.step, Option.some.injEq] at hs; subst hs
    exact ⟨⟨[], by simp [Cache.policyClose]⟩, rfl⟩

/-- nobody is ever un-released -/
theorem step_released_mono (su : Nat → Nat → Bool) (c c' : Cache) (a : Act) (hs : c.step su a = some c')
    (id : Nat) (h : id ∈ c.released) : id ∈ c'.released := by
  have := no_lost_wakeup su c c' a hs id (Or.inr h)
  -- `Served` alone would allow "back in the buffer"; rule that out step by step
  by_cases hnp : (match a with | .procItem _ _ => false | .procClear => false | .procStop => false | _ => true) = true
  · rw [(other_step_appends su c c' a hs hnp).2]; exact h
  · cases a with
    | procItem est refills =>
      simp only [Cache.step, Cache.procItem] at hs
      split at hs
      · cases hs
      · split at hs
        · cases hs
        · simp only [Option.some.injEq] at hs; subst hs
          rw [handleItem_released]; left
          rw [admitPending_released]; exact h
    | procClear =>
      simp only [Cache.step, Cache.procClear] at hs
      split at hs
      · cases hs
      · split at hs
        · cases hs
        · rename_i w rest hq
          simp only [Option.some.injEq] at hs; subst hs
          have hd := drain_released c.buf { c with buf := [], clearQ := rest }
          simp only [List.mem_cons]
          right; exact hd.2 id h
    | procStop =>
      simp only [Cache.step, Cache.procStop] at hs
      split at hs
      · cases hs
      · simp only [Option.some.injEq] at hs; subst hs
        simp only [List.mem_append]
        right; exact h
    | _ => simp at hnp

theorem run_released_mono (su : Nat → Nat → Bool) (acts : List Act) (c : Cache) (id : Nat)
    (h : id ∈ c.released) : id ∈ (Cache.run su c acts).released := by
  induction acts generalizing c with
  | nil => exact h
  | cons a rest ih =>
    simp only [Cache.run]
    apply ih
    cases hs : c.step su a with
    | none => exact h
    | some c' => exact step_released_mono su c c' a hs id h

/-- ghost: the number of processor iterations (item, clear, stop) actually taken along a run -/
def procStepsTaken (su : Nat → Nat → Bool) : Cache → List Act → Nat
  | _, [] => 0
  | c, a :: rest =>
    (match a, c.step su a with
     | .procItem _ _, some _ => 1
     | .procClear, some _ => 1
     | .procStop, some _ => 1
     | _, _ => 0) + procStepsTaken su ((c.step su a).getD c) rest

/-- **progress under every interleaving**: with `n` items ahead of a waiter's marker, after *any* run —
clients inserting, removing, waiting, clearing, closing in between, ticks, the policy worker — the
waiter has been released, or its marker is still buffered with at most `n` minus the number of
processor iterations taken so far ahead of it. -/
theorem wait_progress (su : Nat → Nat → Bool) (acts : List Act) :
    ∀ (c : Cache) (pre post : List Item) (id : Nat), c.buf = pre ++ Item.wait id :: post →
      id ∈ (Cache.run su c acts).released ∨
      ∃ pre' post', (Cache.run su c acts).buf = pre' ++ Item.wait id :: post' ∧
        pre'.length + procStepsTaken su c acts ≤ pre.length := by
  induction acts with
  | nil => intro c pre post id hb; right; exact ⟨pre, post, hb, by simp [procStepsTaken]⟩
  | cons a rest ih =>
    intro c pre post id hb
    simp only [Cache.run, procStepsTaken]
    cases hs : c.step su a with
    | none =>
      simp only [Option.getD_none]
      have := ih c pre post id hb
      rcases this with h | ⟨pre', post', h1, h2⟩
      · left; exact h
      · right; refine ⟨pre', post', h1, ?_⟩
        have h0 : (match a, (none : Option Cache) with
          | .procItem _ _, some _ => 1 | .procClear, some _ => 1 | .procStop, some _ => 1 | _, _ => 0) = 0 := by
          cases a <;> rfl
        omega
    | some c' =>
      simp only [Option.getD_some]
      by_cases hnp : (match a with | .procItem _ _ => false | .procClear => false | .procStop => false | _ => true) = true
      · -- somebody else's step: the marker keeps its place
        obtain ⟨⟨tail, ht⟩, _⟩ := other_step_appends su c c' a hs hnp
        have hb' : c'.buf = pre ++ Item.wait id :: (post ++ tail) := by rw [ht, hb]; simp
        have h0 : (match a, some c' with
          | .procItem _ _, some _ => 1 | .procClear, some _ => 1 | .procStop, some _ => 1 | _, _ => 0) = 0 := by
          cases a <;> simp at hnp <;> rfl
        rcases ih c' pre (post ++ tail) id hb' with h | ⟨pre', post', h1, h2⟩
        · left; exact h
        · right; exact ⟨pre', post', h1, by omega⟩
      · cases a with
        | procItem est refills =>
          cases pre with
          | nil =>
            -- the marker is at the head: this iteration releases the waiter
            left
            apply run_released_mono
            simp only [Cache.step, Cache.procItem] at hs
            split at hs
            · cases hs
            · simp only [List.nil_append] at hb
              rw [hb] at hs
              simp only [Option.some.injEq] at hs; subst hs
              rw [handleItem_released]; right; rfl
          | cons it pre2 =>
            simp only [Cache.step, Cache.procItem] at hs
            split at hs
            · cases hs
            · simp only [List.cons_append] at hb
              rw [hb] at hs
              simp only [Option.some.injEq] at hs; subst hs
              have hb1 : ∃ post', (({ c with buf := pre2 ++ Item.wait id :: post } : Cache).admitPending).buf =
                  pre2 ++ Item.wait id :: post' := by
                unfold Cache.admitPending
                cases c.pendingSends with
                | nil => exact ⟨post, rfl⟩
                | cons p ps =>
                  simp only
                  split
                  · exact ⟨post ++ [p], by simp⟩
                  · exact ⟨post, rfl⟩
              obtain ⟨post', hp⟩ := hb1
              have hb2 := (handleItem_buf (({ c with buf := pre2 ++ Item.wait id :: post } : Cache).admitPending) su est refills it).trans hp
              rcases ih _ pre2 post' id hb2 with h | ⟨pre', post'', h1, h2⟩
              · left; exact h
              · right; refine ⟨pre', post'', h1, ?_⟩
                simp only [List.length_cons]; omega
        | procClear =>
          left
          apply run_released_mono
          have := no_lost_wakeup su c c' .procClear hs id (Or.inl (by rw [hb]; simp))
          -- after a clear the buffer is empty: "served" means released
          simp only [Cache.step, Cache.procClear] at hs
          split at hs
          · cases hs
          · split at hs
            · cases hs
            · rename_i w rest hq
              simp only [Option.some.injEq] at hs; subst hs
              have hd := drain_released c.buf { c with buf := [], clearQ := rest }
              simp only [List.mem_cons]
              right; exact hd.1 id (by rw [hb]; simp)
        | procStop =>
          left
          apply run_released_mono
          simp only [Cache.step, Cache.procStop] at hs
          split at hs
          · cases hs
          · simp only [Option.some.injEq] at hs; subst hs
            simp only [List.mem_append, List.mem_filterMap]
            left; right; exact ⟨Item.wait id, by rw [hb]; simp, rfl⟩
        | _ => simp at hnp

/-- **`wait()` returns**: as soon as the processor has made more iterations than there were items
ahead of the marker, the waiter is released — whatever every other actor did meanwhile. Under fairness
(the processor keeps being scheduled) every `wait()` therefore returns. -/
theorem wait_returns (su : Nat → Nat → Bool) (acts : List Act) (c : Cache) (pre post : List Item) (id : Nat)
    (hb : c.buf = pre ++ Item.wait id :: post) (henough : pre.length < procStepsTaken su c acts) :
    id ∈ (Cache.run su c acts).released ∧ (Cache.run su c acts).mayReturn id true = true := by
  have := wait_progress su acts c pre post id hb
  rcases this with h | ⟨pre', post', _, h2⟩
  · exact ⟨h, by simp [Cache.mayReturn, h]⟩
  · omega

-- non-vacuity of `wait_returns`: one delete ahead of the marker, a client inserting in between, two
-- processor iterations — the premise holds and the waiter is released
def exCfg : Cfg := { itemSize := 56, ignoreInternal := false, bufCap := 4, ringCap := 2, pqCap := some 3, metricsOn := false }
def exStart : Cache := { Cache.init exCfg 100 5 with buf := [Item.delete 3 0, Item.wait 7] }
def exActs : List Act :=
  [.procItem (fun _ => 0) [], .insert 1 0 5 1 0 10 0 false, .procItem (fun _ => 0) []]
example : exStart.buf = [Item.delete 3 0] ++ Item.wait 7 :: [] := rfl
example : [Item.delete 3 0].length < procStepsTaken (fun _ _ => true) exStart exActs := by decide
example : 7 ∈ (Cache.run (fun _ _ => true) exStart exActs).released := by decide

end Stretto.C10

#print axioms Stretto.C10.no_lost_wakeup
#print axioms Stretto.C10.marker_released_at_head
#print axioms Stretto.C10.clients_only_append
#print axioms Stretto.C10.released_after_handling
#print axioms Stretto.C10.wait_progress
#print axioms Stretto.C10.wait_returns
#print axioms Stretto.C10.step_released_mono
