import StrettoModel.Proofs.Cache
import StrettoModel.Proofs.Agree
import StrettoModel.Model.Lts
/-!
# C12 — close() is final, idempotent and leaves no worker behind

`close()` = [swap `is_closed`; only the first closer goes on] → clear request + wait → stop
rendezvous with the processor → stop rendezvous with the policy worker. Quantification: every cache
state (every history before the close).  Not a theorem: that the OS thread of a worker is gone —
the model shows the worker loop has returned (`procExited`), the harness observes the rest.
-/
namespace Stretto.C12
open Stretto

/-- **closed_ops_inert**: once `is_closed` is set, every client operation returns its "closed"
answer immediately and leaves the whole state untouched: insert → false, get / get_mut → nothing,
remove / clear / wait / close → Ok without effect (nothing is enqueued, nothing blocks). -/
theorem closed_ops_inert (c : Cache) (hc : c.closed = true) (su : Nat → Nat → Bool)
    (k cf v : Nat) (cost : Int) (ttl now : Nat) (coster : Int) (only : Bool) (id : Nat) :
    c.insert su k cf v cost ttl now coster only = (c, false) ∧
    c.get k cf now = (c, none) ∧
    c.getMutWrite k cf now v = (c, none) ∧
    c.remove k cf = (c, false) ∧
    c.waitEnq id = (c, none) ∧
    c.clearReq id = (c, false) ∧
    c.closeBegin id = (c, false) := by
  simp [Cache.insert, Cache.get, Cache.getMutWrite, Cache.remove, Cache.waitEnq, Cache.clearReq,
    Cache.closeBegin, hc]

/-- **exactly one closer proceeds**: the first `close()` publishes `is_closed` and files its clear
request; any later or concurrent one sees the flag and returns Ok at once — it never reaches the
stop rendezvous, so it can neither block on it nor get an error from it. -/
theorem one_closer (c : Cache) (id id' : Nat) (hopen : c.closed = false) :
    (c.closeBegin id).2 = true ∧ (c.closeBegin id).1.closed = true ∧
    ((c.closeBegin id).1.closeBegin id') = ((c.closeBegin id).1, false) := by
  simp [Cache.closeBegin, hopen]

/-- **workers_exit / nobody left waiting**: when the processor takes the stop branch it releases
every wait marker still in the buffer and every pending clear request, then returns; afterwards no
processor iteration is enabled any more. -/
theorem stop_releases_everybody (c c' : Cache) (h : c.procStop = some c') :
    c'.procExited = true ∧
    (∀ id, Item.wait id ∈ c.buf → id ∈ c'.released) ∧
    (∀ id ∈ c.clearQ, id ∈ c'.released) ∧
    (∀ id ∈ c.released, id ∈ c'.released) := by
  unfold Cache.procStop at h
  split at h
  · cases h
  · simp only [Option.some.injEq] at h
    subst h
    refine ⟨rfl, ?_, ?_, ?_⟩
    · intro id hid
      simp only [List.mem_append, List.mem_filterMap]
      left; right
      exact ⟨Item.wait id, hid, rfl⟩
    · intro id hid; simp [hid]
    · intro id hid; simp [hid]

theorem exited_processor_is_inert (c : Cache) (h : c.procExited = true) (su : Nat → Nat → Bool)
    (est : Nat → Int) (refills : List (List (Nat × Int))) (now : Nat) (order : List (Nat × Nat)) :
    c.procItem su est refills = none ∧ c.procClear = none ∧ c.procTick now order = none ∧
    c.procStop = none := by
  simp [Cache.procItem, Cache.procClear, Cache.procTick, Cache.procStop, h]

/-- a waiter whose marker is in the buffer, or a clearer whose request is queued, when the
processor stops is released by that very step: it can return (`mayReturn`) from then on -/
theorem waiter_can_return_after_stop (c c' : Cache) (h : c.procStop = some c') (id : Nat)
    (hw : Item.wait id ∈ c.buf ∨ id ∈ c.clearQ) : c'.mayReturn id true = true := by
  obtain ⟨_, h1, h2, _⟩ := stop_releases_everybody c c' h
  unfold Cache.mayReturn
  have : id ∈ c'.released := by
    rcases hw with hw | hw
    · exact h1 id hw
    · exact h2 id hw
  simp [this]

/-- and a call that arrives after the close was published does not block at all: `wait()` and
`clear()` re-check `is_closed` after filing their request -/
theorem late_waiter_does_not_block (c : Cache) (id : Nat) (hc : c.closed = true) :
    c.mayReturn id true = true := by
  simp [Cache.mayReturn, hc]

-- the processor never touches `is_closed` -----------------------------------------------------------

theorem evictVictims_closed (vs : List (Nat × Int)) (c : Cache) : (c.evictVictims vs).closed = c.closed := by
  induction vs generalizing c with
  | nil => rfl
  | cons p rest ih =>
    obtain ⟨vk, vc⟩ := p
    simp only [Cache.evictVictims]
    cases (c.store.tryRemove vk 0).2 with
    | none => exact ih c
    | some e =>
      simp only
      split
      · rw [ih]; simp
      · rw [ih]

theorem handleItem_closed (c : Cache) (su : Nat → Nat → Bool) (est : Nat → Int)
    (refills : List (List (Nat × Int))) (it : Item) :
    (c.handleItem su est refills it).closed = c.closed := by
  cases it with
  | wait w => rfl
  | update k cost ext => simp [Cache.handleItem]
  | delete k cf =>
    simp only [Cache.handleItem]
    cases (c.store.tryRemove k cf).2 <;> (simp only; split <;> simp)
  | new k cf cost v exp =>
    simp only [Cache.handleItem]
    split <;> (try rw [evictVictims_closed]) <;> (split <;> (try split) <;> simp)

theorem admitPending_closed (c : Cache) : c.admitPending.closed = c.closed := by
  unfold Cache.admitPending
  cases c.pendingSends with
  | nil => rfl
  | cons it rest => simp only; split <;> rfl

theorem drain_closed (items : List Item) (c : Cache) : (items.foldl Cache.drainItem c).closed = c.closed := by
  induction items generalizing c with
  | nil => rfl
  | cons it rest ih =>
    simp only [List.foldl_cons]; rw [ih]
    cases it <;> simp [Cache.drainItem]

theorem sweepKeys_closed (keys : List (Nat × Nat)) (c : Cache) (now : Nat) (acc : List CB) :
    (c.sweepKeys now keys acc).1.closed = c.closed := by
  induction keys generalizing c acc with
  | nil => rfl
  | cons p rest ih =>
    obtain ⟨k, cf⟩ := p
    simp only [Cache.sweepKeys]
    rw [ih]
    unfold Cache.sweepOne
    cases c.store.expiration k with
    | none => rfl
    | some t =>
      simp only; split
      · cases (c.store.tryRemove k cf).2 <;> simp
      · rfl

theorem deliverEvictions_closed (cbs : List CB) (c : Cache) : (c.deliverEvictions cbs).closed = c.closed := by
  induction cbs generalizing c with
  | nil => rfl
  | cons cb rest ih =>
    simp only [Cache.deliverEvictions]
    rw [ih]
    cases cb with
    | exit v => rfl
    | reject k cf v cost => rfl
    | evict k cf v cost => simp only; split <;> simp

/-- `is_closed` is never reset, by anybody -/
theorem step_closed_mono (su : Nat → Nat → Bool) (c c' : Cache) (a : Act) (hs : c.step su a = some c')
    (h : c.closed = true) : c'.closed = true := by
  have inert := closed_ops_inert c h su
  cases a with
  | insert k cf v cost ttl now coster only =>
    simp only [Cache.step, (inert k cf v cost ttl now coster only 0).1, Option.some.injEq] at hs
    subst hs; exact h
  | get k cf now =>
    simp only [Cache.step, (inert k cf 0 0 0 now 0 false 0).2.1, Option.some.injEq] at hs
    subst hs; exact h
  | getMut k cf now v =>
    simp only [Cache.step, (inert k cf v 0 0 now 0 false 0).2.2.1, Option.some.injEq] at hs
    subst hs; exact h
  | remove k cf =>
    simp only [Cache.step, (inert k cf 0 0 0 0 0 false 0).2.2.2.1, Option.some.injEq] at hs
    subst hs; exact h
  | waitEnq w =>
    simp only [Cache.step, (inert 0 0 0 0 0 0 0 false w).2.2.2.2.1, Option.some.injEq] at hs
    subst hs; exact h
  | clearReq w =>
    simp only [Cache.step, (inert 0 0 0 0 0 0 0 false w).2.2.2.2.2.1, Option.some.injEq] at hs
    subst hs; exact h
  | closeBegin w =>
    simp only [Cache.step, (inert 0 0 0 0 0 0 0 false w).2.2.2.2.2.2, Option.some.injEq] at hs
    subst hs; exact h
  | updateMaxCost mc =>
    simp only [Cache.step, Option.some.injEq] at hs
    subst hs; exact h
  | procItem est refills =>
    simp only [Cache.step, Cache.procItem] at hs
    split at hs
    · cases hs
    · split at hs
      · cases hs
      · simp only [Option.some.injEq] at hs; subst hs
        rw [handleItem_closed, admitPending_closed]; exact h
  | procClear =>
    simp only [Cache.step, Cache.procClear] at hs
    split at hs
    · cases hs
    · split at hs
      · cases hs
      · simp only [Option.some.injEq] at hs; subst hs
        simp only []
        rw [drain_closed]; exact h
  | procTick now order =>
    simp only [Cache.step, Cache.procTick] at hs
    split at hs
    · cases hs
    · simp only [Option.some.injEq] at hs; subst hs
      rw [deliverEvictions_closed, sweepKeys_closed]; exact h
  | procStop =>
    simp only [Cache.step, Cache.procStop] at hs
    split at hs
    · cases hs
    · simp only [Option.some.injEq] at hs; subst hs; exact h
  | policyWorker =>
    simp only [Cache.step, Cache.policyWorkerStep] at hs
    cases hp : c.pq with
    | nil => simp [hp] at hs
    | cons b rest =>
      simp only [hp, Option.map_some, Option.some.injEq] at hs
      subst hs; exact h
  | policyClose =>
    simp only [Cache.step, Option.some.injEq] at hs
    subst hs; exact h

theorem run_closed_mono (su : Nat → Nat → Bool) (acts : List Act) (c : Cache) (h : c.closed = true) :
    (Cache.run su c acts).closed = true := by
  induction acts generalizing c with
  | nil => exact h
  | cons a rest ih =>
    simp only [Cache.run]
    apply ih
    cases hs : c.step su a with
    | none => exact h
    | some c' => exact step_closed_mono su c c' a hs h

/-- the part of the state a user can observe or that later behaviour depends on, minus what the policy
worker and `update_max_cost` may still touch after a close (the queue of get batches, the
`policy closed` flag, `max_cost`) -/
def frozen (c : Cache) :=
  (c.store, c.lfu.costs, c.lfu.used, c.buf, c.pendingSends, c.clearQ, c.ring, c.metrics, c.released, c.cbs)

/-- **close() is final, over every later history**: once `is_closed` is set and the processor has
taken its stop iteration, *no* run — any number of clients calling anything, late ticks, the policy
worker draining, further `close()` calls — changes the store, the charges, the buffer, the metrics,
the released set or the callback log any more, and the two flags stay set for ever. -/
theorem closed_is_final (su : Nat → Nat → Bool) (acts : List Act) :
    ∀ (c : Cache), c.closed = true → c.procExited = true →
      (Cache.run su c acts).closed = true ∧ (Cache.run su c acts).procExited = true ∧
      frozen (Cache.run su c acts) = frozen c := by
  induction acts with
  | nil => intro c hc he; exact ⟨hc, he, rfl⟩
  | cons a rest ih =>
    intro c hc he
    simp only [Cache.run]
    have key : ∀ c1, c.step su a = some c1 → c1.closed = true ∧ c1.procExited = true ∧ frozen c1 = frozen c := by
      intro c1 hs
      have inert := closed_ops_inert c hc su
      have dead := exited_processor_is_inert c he su
      cases a with
      | insert k cf v cost ttl now coster only =>
        simp only [Cache.step, (inert k cf v cost ttl now coster only 0).1, Option.some.injEq] at hs
        subst hs; exact ⟨hc, he, rfl⟩
      | get k cf now =>
        simp only [Cache.step, (inert k cf 0 0 0 now 0 false 0).2.1, Option.some.injEq] at hs
        subst hs; exact ⟨hc, he, rfl⟩
      | getMut k cf now v =>
        simp only [Cache.step, (inert k cf v 0 0 now 0 false 0).2.2.1, Option.some.injEq] at hs
        subst hs; exact ⟨hc, he, rfl⟩
      | remove k cf =>
        simp only [Cache.step, (inert k cf 0 0 0 0 0 false 0).2.2.2.1, Option.some.injEq] at hs
        subst hs; exact ⟨hc, he, rfl⟩
      | waitEnq w =>
        simp only [Cache.step, (inert 0 0 0 0 0 0 0 false w).2.2.2.2.1, Option.some.injEq] at hs
        subst hs; exact ⟨hc, he, rfl⟩
      | clearReq w =>
        simp only [Cache.step, (inert 0 0 0 0 0 0 0 false w).2.2.2.2.2.1, Option.some.injEq] at hs
        subst hs; exact ⟨hc, he, rfl⟩
      | closeBegin w =>
        simp only [Cache.step, (inert 0 0 0 0 0 0 0 false w).2.2.2.2.2.2, Option.some.injEq] at hs
        subst hs; exact ⟨hc, he, rfl⟩
      | updateMaxCost mc =>
        simp only [Cache.step, Option.some.injEq] at hs
        subst hs; exact ⟨hc, he, rfl⟩
      | procItem est refills => simp [Cache.step, (dead est refills 0 []).1] at hs
      | procClear => simp [Cache.step, (dead (fun _ => 0) [] 0 []).2.1] at hs
      | procTick now order => simp [Cache.step, (dead (fun _ => 0) [] now order).2.2.1] at hs
      | procStop => simp [Cache.step, (dead (fun _ => 0) [] 0 []).2.2.2] at hs
      | policyWorker =>
        simp only [Cache.step, Cache.policyWorkerStep] at hs
        cases hp : c.pq with
        | nil => simp [hp] at hs
        | cons b rest =>
          simp only [hp, Option.map_some, Option.some.injEq] at hs
          subst hs; exact ⟨hc, he, rfl⟩
      | policyClose =>
        simp only [Cache.step, Option.some.injEq] at hs
        subst hs; exact ⟨hc, he, rfl⟩
    cases hs : c.step su a with
    | none => simpa using ih c hc he
    | some c1 =>
      obtain ⟨h1, h2, h3⟩ := key c1 hs
      obtain ⟨i1, i2, i3⟩ := ih c1 h1 h2
      exact ⟨by simpa using i1, by simpa using i2, by simpa using i3.trans h3⟩

/-- **a full close, whatever else is going on**: `close()` publishes the flag, the processor takes the
stop branch — with any run of other actors before, between and after — and from then on the cache is
frozen in the state the stop iteration left. -/
theorem close_then_anything (su : Nat → Nat → Bool) (c c1 : Cache) (id : Nat) (mid later : List Act)
    (hstop : (Cache.run su (c.closeBegin id).1 mid).procStop = some c1)
    (hopen : c.closed = false) :
    (Cache.run su c1 later).closed = true ∧ (Cache.run su c1 later).procExited = true ∧
    frozen (Cache.run su c1 later) = frozen c1 := by
  have h0 : (c.closeBegin id).1.closed = true := by simp [Cache.closeBegin, hopen]
  have h1 := run_closed_mono su mid _ h0
  have hc1 : c1.closed = true ∧ c1.procExited = true := by
    unfold Cache.procStop at hstop
    split at hstop
    · cases hstop
    · simp only [Option.some.injEq] at hstop; subst hstop; exact ⟨h1, rfl⟩
  exact closed_is_final su later c1 hc1.1 hc1.2

-- non-vacuity -------------------------------------------------------------------------------
def exCfg : Cfg := { itemSize := 56, ignoreInternal := false, bufCap := 4, ringCap := 2, pqCap := some 3, metricsOn := false }
example : ((Cache.init exCfg 100 5).closeBegin 1).1.closed = true := by decide
example : (({ Cache.init exCfg 100 5 with buf := [Item.wait 7], clearQ := [9] } : Cache).procStop.map (·.released)) = some [9, 7] := by rfl

end Stretto.C12

#print axioms Stretto.C12.closed_ops_inert
#print axioms Stretto.C12.one_closer
#print axioms Stretto.C12.stop_releases_everybody
#print axioms Stretto.C12.exited_processor_is_inert
#print axioms Stretto.C12.waiter_can_return_after_stop
#print axioms Stretto.C12.late_waiter_does_not_block
#print axioms Stretto.C12.closed_is_final
#print axioms Stretto.C12.close_then_anything
