import StrettoModel.Proofs.Cache
/-!
# C12 — close() is final, idempotent and leaves no worker behind

`close()` = [swap `is_closed`; only the first closer goes on] → clear request + wait → stop
rendezvous with the processor → stop rendezvous with the policy worker. Quantification: every cache
state (every history before the close).  Not a theorem: that the OS thread of a worker is gone —
the model shows the worker loop has returned (`procExited`), the harness observes the rest.
-/
namespace Stretto.C12
open Stretto

/-- **closed_ops_inert**: once `is_closed` is set, every client operation returns its "closed"
answer immediately and leaves the whole state untouched: insert → false, get / get_mut → nothing,
remove / clear / wait / close → Ok without effect (nothing is enqueued, nothing blocks). -/
theorem closed_ops_inert (c : Cache) (hc : c.closed = true) (su : Nat → Nat → Bool)
    (k cf v : Nat) (cost : Int) (ttl now : Nat) (coster : Int) (only : Bool) (id : Nat) :
    c.insert su k cf v cost ttl now coster only = (c, false) ∧
    c.get k cf now = (c, none) ∧
    c.getMutWrite k cf now v = (c, none) ∧
    c.remove k cf = (c, false) ∧
    c.waitEnq id = (c, none) ∧
    c.clearReq id = (c, false) ∧
    c.closeBegin id = (c, false) := by
  simp [Cache.insert, Cache.get, Cache.getMutWrite, Cache.remove, Cache.waitEnq, Cache.clearReq,
    Cache.closeBegin, hc]

/-- **exactly one closer proceeds**: the first `close()` publishes `is_closed` and files its clear
request; any later or concurrent one sees the flag and returns Ok at once — it never reaches the
stop rendezvous, so it can neither block on it nor get an error from it. -/
theorem one_closer (c : Cache) (id id' : Nat) (hopen : c.closed = false) :
    (c.closeBegin id).2 = true ∧ (c.closeBegin id).1.closed = true ∧
    ((c.closeBegin id).1.closeBegin id') = ((c.closeBegin id).1, false) := by
  simp [Cache.closeBegin, hopen]

/-- **workers_exit / nobody left waiting**: when the processor takes the stop branch it releases
every wait marker still in the buffer and every pending clear request, then returns; afterwards no
processor iteration is enabled any more. -/
theorem stop_releases_everybody (c c' : Cache) (h : c.procStop = some c') :
    c'.procExited = true ∧
    (∀ id, Item.wait id ∈ c.buf → id ∈ c'.released) ∧
    (∀ id ∈ c.clearQ, id ∈ c'.released) ∧
    (∀ id ∈ c.released, id ∈ c'.released) := by
  unfold Cache.procStop at h
  split at h
  · cases h
  · simp only [Option.some.injEq] at h
    subst h
    refine ⟨rfl, ?_, ?_, ?_⟩
    · intro id hid
      simp only [List.mem_append, List.mem_filterMap]
      left; right
      exact ⟨Item.wait id, hid, rfl⟩
    · intro id hid; simp [hid]
    · intro id hid; simp [hid]

theorem exited_processor_is_inert (c : Cache) (h : c.procExited = true) (su : Nat → Nat → Bool)
    (est : Nat → Int) (refills : List (List (Nat × Int))) (now : Nat) (order : List (Nat × Nat)) :
    c.procItem su est refills = none ∧ c.procClear = none ∧ c.procTick now order = none ∧
    c.procStop = none := by
  simp [Cache.procItem, Cache.procClear, Cache.procTick, Cache.procStop, h]

/-- a waiter whose marker is in the buffer, or a clearer whose request is queued, when the
processor stops is released by that very step: it can return (`mayReturn`) from then on -/
theorem waiter_can_return_after_stop (c c' : Cache) (h : c.procStop = some c') (id : Nat)
    (hw : Item.wait id ∈ c.buf ∨ id ∈ c.clearQ) : c'.mayReturn id true = true := by
  obtain ⟨_, h1, h2, _⟩ := stop_releases_everybody c c' h
  unfold Cache.mayReturn
  have : id ∈ c'.released := by
    rcases hw with hw | hw
    · exact h1 id hw
    · exact h2 id hw
  simp [this]

/-- and a call that arrives after the close was published does not block at all: `wait()` and
`clear()` re-check `is_closed` after filing their request -/
theorem late_waiter_does_not_block (c : Cache) (id : Nat) (hc : c.closed = true) :
    c.mayReturn id true = true := by
  simp [Cache.mayReturn, hc]

-- non-vacuity -------------------------------------------------------------------------------
def exCfg : Cfg := { itemSize := 56, ignoreInternal := false, bufCap := 4, ringCap := 2, pqCap := some 3, metricsOn := false }
example : ((Cache.init exCfg 100 5).closeBegin 1).1.closed = true := by decide
example : (({ Cache.init exCfg 100 5 with buf := [Item.wait 7], clearQ := [9] } : Cache).procStop.map (·.released)) = some [9, 7] := by rfl

end Stretto.C12

#print axioms Stretto.C12.closed_ops_inert
#print axioms Stretto.C12.one_closer
#print axioms Stretto.C12.stop_releases_everybody
#print axioms Stretto.C12.exited_processor_is_inert
#print axioms Stretto.C12.waiter_can_return_after_stop
#print axioms Stretto.C12.late_waiter_does_not_block
