import StrettoModel.Proofs.Cache
import StrettoModel.Proofs.Policy
/-!
# C16 — Charged cost = given cost (or Coster value) + internal overhead

Quantification: every explicit cost, every Coster valuation `coster` of the inserted value, both
settings of `ignore_internal_cost`, every item size, every cache state in which the item is applied.
Domain: `Int` costs (no `i64` overflow of `cost + item_size`).
-/
namespace Stretto.C16
open Stretto

/-- the cost the client attaches to the item: the explicit one, or the Coster's valuation when the
explicit cost is 0 -/
def effectiveCost (cost coster : Int) : Int := if cost = 0 then coster else cost

/-- what is to be charged for it -/
def charge (c : Cache) (cost coster : Int) : Int :=
  effectiveCost cost coster + (if c.cfg.ignoreInternal then 0 else (c.cfg.itemSize : Int))

/-- **the item a new insert enqueues carries `cost + coster-if-cost-is-0`** -/
theorem insert_enqueues_effective_cost (c : Cache) (su : Nat → Nat → Bool) (k cf v : Nat) (cost : Int)
    (ttl now : Nat) (coster : Int) (hopen : c.closed = false)
    (habs : c.store.items.get k = none) (hroom : c.buf.length < c.cfg.bufCap)
    (halive : c.procExited = false) :
    (c.insert su k cf v cost ttl now coster false) =
      ({ c with buf := c.buf ++ [Item.new k cf (effectiveCost cost coster) v { d := ttl, created := now }] }, true) := by
  unfold Cache.insert Cache.insertBody Store.tryUpdate
  simp only [hopen, habs, hroom, halive, Bool.false_eq_true, if_false, Bool.false_and, if_true]
  unfold effectiveCost
  by_cases h0 : cost = 0
  · simp [h0]
  · simp [h0]

/-- **charge_formula (new key)**: when the processor applies a `New` item and the policy admits it,
the key is charged exactly `item cost + internal overhead` (no overhead when
`ignore_internal_cost`). With `insert_enqueues_effective_cost`: explicit cost, or Coster value when
the explicit cost was 0, plus the fixed per-entry overhead. -/
theorem admitted_charge (c : Cache) (su : Nat → Nat → Bool) (est : Nat → Int)
    (refills : List (List (Nat × Int))) (k cf v : Nat) (cost : Int) (exp : Time)
    (hinv : c.lfu.Inv)
    (hadd : (policyAdd c.lfu est k (c.internalCost cost) refills).added = true) :
    (policyAdd c.lfu est k (c.internalCost cost) refills).lfu.costs.get k = some (c.internalCost cost) ∧
    c.internalCost cost = cost + (if c.cfg.ignoreInternal then 0 else (c.cfg.itemSize : Int)) := by
  refine ⟨((policyAdd_spec c.lfu est k (c.internalCost cost) refills hinv).admitted hadd).2.1, ?_⟩
  unfold Cache.internalCost
  split <;> simp

/-- **charge_formula (update)**: when the processor applies an `Update` item for a charged key, the
key is re-charged `explicit cost + internal overhead + coster value` — `ext` is the Coster value
when the explicit cost was 0 and 0 otherwise — whatever it was charged before. -/
theorem update_recharges (c : Cache) (su : Nat → Nat → Bool) (est : Nat → Int)
    (refills : List (List (Nat × Int))) (k : Nat) (cost ext prev : Int)
    (hch : c.lfu.costs.get k = some prev) :
    (c.handleItem su est refills (Item.update k cost ext)).lfu.costs.get k =
      some (c.internalCost cost + ext) := by
  simp [Cache.handleItem, Lfu.update, hch]

/-- an `Update` for a key that is not charged charges nothing -/
theorem update_absent_noop (c : Cache) (su : Nat → Nat → Bool) (est : Nat → Int)
    (refills : List (List (Nat × Int))) (k : Nat) (cost ext : Int)
    (hch : c.lfu.costs.get k = none) :
    (c.handleItem su est refills (Item.update k cost ext)).lfu = c.lfu := by
  simp [Cache.handleItem, Lfu.update, hch]

/-- **callback_cost_is_charge (reject)**: a refused `New` item is handed to `on_reject` with the
cost that was to be charged (item cost + overhead) -/
theorem reject_reports_charge (c : Cache) (su : Nat → Nat → Bool) (est : Nat → Int)
    (refills : List (List (Nat × Int))) (k cf v : Nat) (cost : Int) (exp : Time)
    (hrej : (policyAdd c.lfu est k (c.internalCost cost) refills).added = false)
    (hnov : (policyAdd c.lfu est k (c.internalCost cost) refills).victims = none) :
    (c.handleItem su est refills (Item.new k cf cost v exp)).cbs =
      CB.reject k cf v (c.internalCost cost) :: c.cbs := by
  simp [Cache.handleItem, hrej, hnov]

/-- **callback_cost_is_charge (expiry)**: an entry reclaimed by the sweep is handed to `on_evict`
with its value and the cost the policy charged for it at that moment -/
theorem sweep_reports_charge (c : Cache) (now k cf : Nat) (cb : CB)
    (h : (c.sweepOne now k cf).2 = some cb) :
    ∃ e, c.store.items.get k = some e ∧ cb = CB.evict k e.conflict e.val (policyCost c.lfu k) := by
  obtain ⟨e, he, _, _, hcb⟩ := (Cache.sweepOne_removed_iff c now k cf cb).mp h
  exact ⟨e, he, hcb⟩

/-- what `evictVictims` adds to the callback log: one `on_evict` per victim found in the store, with
the cost the policy reported for that victim -/
theorem evictVictims_cbs (vs : List (Nat × Int)) (c : Cache) (x : CB) (hx : x ∈ (c.evictVictims vs).cbs) :
    x ∈ c.cbs ∨ ∃ p ∈ vs, ∃ cf v, x = CB.evict p.1 cf v p.2 := by
  induction vs generalizing c with
  | nil => left; exact hx
  | cons p rest ih =>
    obtain ⟨vk, vc⟩ := p
    simp only [Cache.evictVictims] at hx
    cases hr : (c.store.tryRemove vk 0).2 with
    | none =>
      rw [hr] at hx
      rcases ih c hx with h | ⟨q, hq, cf, v, rfl⟩
      · left; exact h
      · right; exact ⟨q, List.mem_cons_of_mem _ hq, cf, v, rfl⟩
    | some e =>
      rw [hr] at hx
      simp only at hx
      have key : ∀ c2 : Cache, c2.cbs = CB.evict vk e.conflict e.val vc :: c.cbs → x ∈ (c2.evictVictims rest).cbs →
          x ∈ c.cbs ∨ ∃ p ∈ (vk, vc) :: rest, ∃ cf v, x = CB.evict p.1 cf v p.2 := by
        intro c2 hc2 hx2
        rcases ih c2 hx2 with h | ⟨q, hq, cf, v, rfl⟩
        · rw [hc2] at h
          rcases List.mem_cons.mp h with rfl | h1
          · right; exact ⟨(vk, vc), by simp, e.conflict, e.val, rfl⟩
          · left; exact h1
        · right; exact ⟨q, List.mem_cons_of_mem _ hq, cf, v, rfl⟩
      split at hx
      · exact key _ (by simp) hx
      · exact key _ rfl hx

/-- **callback_cost_is_charge (admission victims)**: every `on_evict` the processor delivers while
applying a `New` item reports, for the evicted key, exactly the cost the policy charged for it before
the item was applied — provided the sampled candidates are what `fill_sample` may produce
(`RefillsOk`, checked at run time on the implementation's observations). -/
theorem admission_victim_reports_charge (c : Cache) (su : Nat → Nat → Bool) (est : Nat → Int)
    (refills : List (List (Nat × Int))) (k cf v : Nat) (cost : Int) (exp : Time)
    (hok : RefillsOk est (est k) (c.internalCost cost) c.lfu [] refills)
    (vk vcf vv : Nat) (vc : Int)
    (hx : CB.evict vk vcf vv vc ∈ (c.handleItem su est refills (Item.new k cf cost v exp)).cbs)
    (hnew : CB.evict vk vcf vv vc ∉ c.cbs) :
    c.lfu.costs.get vk = some vc := by
  simp only [Cache.handleItem] at hx
  have hch := policyAdd_victims_charged c.lfu est k (c.internalCost cost) refills hok
  cases hv : (policyAdd c.lfu est k (c.internalCost cost) refills).victims with
  | none =>
    rw [hv] at hx
    simp only at hx
    exfalso
    split at hx
    · split at hx <;> (simp at hx; exact hnew hx)
    · simp at hx; exact hnew hx
  | some vs =>
    rw [hv] at hx
    simp only at hx
    have := hch vs hv
    have key : ∀ c3 : Cache, (∀ y, y ∈ c3.cbs → y ∈ c.cbs ∨ ∃ a b d e', y = CB.reject a b d e') →
        CB.evict vk vcf vv vc ∈ (c3.evictVictims vs).cbs → c.lfu.costs.get vk = some vc := by
      intro c3 hc3 hx3
      rcases evictVictims_cbs vs c3 _ hx3 with h | ⟨p, hp, cf', v', heq⟩
      · rcases hc3 _ h with h1 | ⟨a, b, d, e', h1⟩
        · exact absurd h1 hnew
        · cases h1
      · cases heq
        exact this p hp
    split at hx
    · split at hx <;> exact key _ (fun y hy => Or.inl (by simpa using hy)) hx
    · refine key _ ?_ hx
      intro y hy
      simp only [Cache.met_cbs, List.mem_cons] at hy
      rcases hy with rfl | hy
      · right; exact ⟨_, _, _, _, rfl⟩
      · left; exact hy

-- non-vacuity -------------------------------------------------------------------------------
def exCfg : Cfg := { itemSize := 56, ignoreInternal := false, bufCap := 4, ringCap := 2, pqCap := some 3, metricsOn := false }
example : ((Cache.init exCfg 1000 5).insert (fun _ _ => true) 3 0 9 0 0 10 7 false).1.buf =
    [Item.new 3 0 7 9 ⟨0, 10⟩] := by decide
example : (((Cache.init exCfg 1000 5).handleItem (fun _ _ => true) (fun _ => 0) [] (Item.new 3 0 7 9 ⟨0, 10⟩)).lfu.costs) =
    [(3, 63)] := by decide

end Stretto.C16

#print axioms Stretto.C16.insert_enqueues_effective_cost
#print axioms Stretto.C16.admitted_charge
#print axioms Stretto.C16.update_recharges
#print axioms Stretto.C16.update_absent_noop
#print axioms Stretto.C16.reject_reports_charge
#print axioms Stretto.C16.sweep_reports_charge
#print axioms Stretto.C16.admission_victim_reports_charge
