import StrettoModel.Proofs.Cache
import StrettoModel.Proofs.Policy
import StrettoModel.Proofs.Agree
import StrettoModel.Proofs.Metrics
import StrettoModel.Model.Lts
import StrettoModel.Props.C17
/-!
# C16 — Charged cost = given cost (or Coster value) + internal overhead

Quantification: every explicit cost, every Coster valuation `coster` of the inserted value, both
settings of `ignore_internal_cost`, every item size, every cache state in which the item is applied.
Domain: `Int` costs (no `i64` overflow of `cost + item_size`).
-/
namespace Stretto.C16
open Stretto

/-- the cost the client attaches to the item: the explicit one, or the Coster's valuation when the
explicit cost is 0 -/
def effectiveCost (cost coster : Int) : Int := if cost = 0 then coster else cost

/-- what is to be charged for it -/
def charge (c : Cache) (cost coster : Int) : Int :=
  effectiveCost cost coster + (if c.cfg.ignoreInternal then 0 else (c.cfg.itemSize : Int))

/-- **the item a new insert enqueues carries `cost + coster-if-cost-is-0`** -/
theorem insert_enqueues_effective_cost (c : Cache) (su : Nat → Nat → Bool) (k cf v : Nat) (cost : Int)
    (ttl now : Nat) (coster : Int) (hopen : c.closed = false)
    (habs : c.store.items.get k = none) (hroom : c.buf.length < c.cfg.bufCap)
    (halive : c.procExited = false) :
    (c.insert su k cf v cost ttl now coster false) =
      ({ c with buf := c.buf ++ [Item.new k cf (effectiveCost cost coster) v { d := ttl, created := now }] }, true) := by
  unfold Cache.insert Cache.insertBody Store.tryUpdate
  simp only [hopen, habs, hroom, halive, Bool.false_eq_true, if_false, Bool.false_and, if_true]
  unfold effectiveCost
  by_cases h0 : cost = 0
  · simp [h0]
  · simp [h0]

/-- **charge_formula (new key)**: when the processor applies a `New` item and the policy admits it,
the key is charged exactly `item cost + internal overhead` (no overhead when
`ignore_internal_cost`). With `insert_enqueues_effective_cost`: explicit cost, or Coster value when
the explicit cost was 0, plus the fixed per-entry overhead. -/
theorem admitted_charge (c : Cache) (su : Nat → Nat → Bool) (est : Nat → Int)
    (refills : List (List (Nat × Int))) (k cf v : Nat) (cost : Int) (exp : Time)
    (hinv : c.lfu.Inv)
    (hadd : (policyAdd c.lfu est k (c.internalCost cost) refills).added = true) :
    (policyAdd c.lfu est k (c.internalCost cost) refills).lfu.costs.get k = some (c.internalCost cost) ∧
    c.internalCost cost = cost + (if c.cfg.ignoreInternal then 0 else (c.cfg.itemSize : Int)) := by
  refine ⟨((policyAdd_spec c.lfu est k (c.internalCost cost) refills hinv).admitted hadd).2.1, ?_⟩
  unfold Cache.internalCost
  split <;> simp

/-- **charge_formula (update)**: when the processor applies an `Update` item for a charged key, the
key is re-charged `explicit cost + internal overhead + coster value` — `ext` is the Coster value
when the explicit cost was 0 and 0 otherwise — whatever it was charged before. -/
theorem update_recharges (c : Cache) (su : Nat → Nat → Bool) (est : Nat → Int)
    (refills : List (List (Nat × Int))) (k : Nat) (cost ext prev : Int)
    (hch : c.lfu.costs.get k = some prev) :
    (c.handleItem su est refills (Item.update k cost ext)).lfu.costs.get k =
      some (c.internalCost cost + ext) := by
  simp [Cache.handleItem, Lfu.update, hch]

/-- an `Update` for a key that is not charged charges nothing -/
theorem update_absent_noop (c : Cache) (su : Nat → Nat → Bool) (est : Nat → Int)
    (refills : List (List (Nat × Int))) (k : Nat) (cost ext : Int)
    (hch : c.lfu.costs.get k = none) :
    (c.handleItem su est refills (Item.update k cost ext)).lfu = c.lfu := by
  simp [Cache.handleItem, Lfu.update, hch]

/-- **callback_cost_is_charge (reject)**: a refused `New` item is handed to `on_reject` with the
cost that was to be charged (item cost + overhead) -/
theorem reject_reports_charge (c : Cache) (su : Nat → Nat → Bool) (est : Nat → Int)
    (refills : List (List (Nat × Int))) (k cf v : Nat) (cost : Int) (exp : Time)
    (hrej : (policyAdd c.lfu est k (c.internalCost cost) refills).added = false)
    (hnov : (policyAdd c.lfu est k (c.internalCost cost) refills).victims = none) :
    (c.handleItem su est refills (Item.new k cf cost v exp)).cbs =
      CB.reject k cf v (c.internalCost cost) :: c.cbs := by
  simp [Cache.handleItem, hrej, hnov]

/-- **callback_cost_is_charge (expiry)**: an entry reclaimed by the sweep is handed to `on_evict`
with its value and the cost the policy charged for it at that moment -/
theorem sweep_reports_charge (c : Cache) (now k cf : Nat) (cb : CB)
    (h : (c.sweepOne now k cf).2 = some cb) :
    ∃ e, c.store.items.get k = some e ∧ cb = CB.evict k e.conflict e.val (policyCost c.lfu k) := by
  obtain ⟨e, he, _, _, hcb⟩ := (Cache.sweepOne_removed_iff c now k cf cb).mp h
  exact ⟨e, he, hcb⟩

/-- what `evictVictims` adds to the callback log: one `on_evict` per victim found in the store, with
the cost the policy reported for that victim -/
theorem evictVictims_cbs (vs : List (Nat × Int)) (c : Cache) (x : CB) (hx : x ∈ (c.evictVictims vs).cbs) :
    x ∈ c.cbs ∨ ∃ p ∈ vs, ∃ cf v, x = CB.evict p.1 cf v p.2 := by
  induction vs generalizing c with
  | nil => left; exact hx
  | cons p rest ih =>
    obtain ⟨vk, vc⟩ := p
    simp only [Cache.evictVictims] at hx
    cases hr : (c.store.tryRemove vk 0).2 with
    | none =>
      rw [hr] at hx
      rcases ih c hx with h | ⟨q, hq, cf, v, rfl⟩
      · left; exact h
      · right; exact ⟨q, List.mem_cons_of_mem _ hq, cf, v, rfl⟩
    | some e =>
      rw [hr] at hx
      simp only at hx
      have key : ∀ c2 : Cache, c2.cbs = CB.evict vk e.conflict e.val vc :: c.cbs → x ∈ (c2.evictVictims rest).cbs →
          x ∈ c.cbs ∨ ∃ p ∈ (vk, vc) :: rest, ∃ cf v, x = CB.evict p.1 cf v p.2 := by
        intro c2 hc2 hx2
        rcases ih c2 hx2 with h | ⟨q, hq, cf, v, rfl⟩
        · rw [hc2] at h
          rcases List.mem_cons.mp h with rfl | h1
          · right; exact ⟨(vk, vc), by simp, e.conflict, e.val, rfl⟩
          · left; exact h1
        · right; exact ⟨q, List.mem_cons_of_mem _ hq, cf, v, rfl⟩
      split at hx
      · exact key _ (by simp) hx
      · exact key _ rfl hx

/-- **callback_cost_is_charge (admission victims)**: every `on_evict` the processor delivers while
applying a `New` item reports, for the evicted key, exactly the cost the policy charged for it before
the item was applied — provided the sampled candidates are what `fill_sample` may produce
(`RefillsOk`, checked at run time on the implementation's observations). -/
theorem admission_victim_reports_charge (c : Cache) (su : Nat → Nat → Bool) (est : Nat → Int)
    (refills : List (List (Nat × Int))) (k cf v : Nat) (cost : Int) (exp : Time)
    (hok : RefillsOk est (est k) (c.internalCost cost) c.lfu [] refills)
    (vk vcf vv : Nat) (vc : Int)
    (hx : CB.evict vk vcf vv vc ∈ (c.handleItem su est refills (Item.new k cf cost v exp)).cbs)
    (hnew : CB.evict vk vcf vv vc ∉ c.cbs) :
    c.lfu.costs.get vk = some vc := by
  simp only [Cache.handleItem] at hx
  have hch := policyAdd_victims_charged c.lfu est k (c.internalCost cost) refills hok
  cases hv : (policyAdd c.lfu est k (c.internalCost cost) refills).victims with
  | none =>
    rw [hv] at hx
    simp only at hx
    exfalso
    split at hx
    · split at hx <;> (simp at hx; exact hnew hx)
    · simp at hx; exact hnew hx
  | some vs =>
    rw [hv] at hx
    simp only at hx
    have := hch vs hv
    have key : ∀ c3 : Cache, (∀ y, y ∈ c3.cbs → y ∈ c.cbs ∨ ∃ a b d e', y = CB.reject a b d e') →
        CB.evict vk vcf vv vc ∈ (c3.evictVictims vs).cbs → c.lfu.costs.get vk = some vc := by
      intro c3 hc3 hx3
      rcases evictVictims_cbs vs c3 _ hx3 with h | ⟨p, hp, cf', v', heq⟩
      · rcases hc3 _ h with h1 | ⟨a, b, d, e', h1⟩
        · exact absurd h1 hnew
        · cases h1
      · cases heq
        exact this p hp
    split at hx
    · split at hx <;> exact key _ (fun y hy => Or.inl (by simpa using hy)) hx
    · refine key _ ?_ hx
      intro y hy
      simp only [Cache.met_cbs, List.mem_cons] at hy
      rcases hy with rfl | hy
      · right; exact ⟨_, _, _, _, rfl⟩
      · left; exact hy

-- the charge of a key over whole runs ----------------------------------------------------------------

theorem sweepKeys_only_erases (keys : List (Nat × Nat)) (c : Cache) (now : Nat) (acc : List CB) (j : Nat) (x : Int)
    (h : (c.sweepKeys now keys acc).1.lfu.costs.get j = some x) : c.lfu.costs.get j = some x := by
  induction keys generalizing c acc with
  | nil => exact h
  | cons p rest ih =>
    obtain ⟨k, cf⟩ := p
    simp only [Cache.sweepKeys] at h
    have h1 := ih _ _ h
    -- one key: the policy entry of `k` is removed or nothing happens
    unfold Cache.sweepOne at h1
    split at h1
    · exact h1
    · split at h1
      · have h2 : (policyRemove c.lfu k).1.costs.get j = some x := by
          split at h1 <;> simpa using h1
        rw [policyRemove_get] at h2
        split at h2
        · cases h2
        · exact h2
      · exact h1

/-- **the charge of a key changes only when an item for that key is applied, and then it is the
item's charge**: over every step of every actor of the transition system (client calls, ticks, clear,
stop, policy worker, `update_max_cost`, admissions and evictions of *other* keys), if key `k` is
charged `x` after the step then it was already charged `x` before it, or the step was the processor
applying a buffered `New` item for `k` (then `x` = item cost + overhead) or a buffered `Update` item
for `k` (then `x` = explicit cost + overhead + coster value). With `insert_enqueues_effective_cost`
this is C16's formula for every reachable state: the charge of a resident key is the charge of the
latest item applied for it. (`c.lfu.Inv` holds in every reachable state: C01/C06.) -/
theorem charge_only_from_applied_item (su : Nat → Nat → Bool) (c c' : Cache) (a : Act)
    (hs : c.step su a = some c') (hinv : c.lfu.Inv) (k : Nat) (x : Int)
    (hx : c'.lfu.costs.get k = some x) :
    c.lfu.costs.get k = some x ∨
    ∃ est refills it rest, a = .procItem est refills ∧ c.buf = it :: rest ∧
      ((∃ cf cost v exp, it = Item.new k cf cost v exp ∧ x = c.internalCost cost) ∨
       (∃ cost ext, it = Item.update k cost ext ∧ x = c.internalCost cost + ext)) := by
  have costs_of_mcore : ∀ (c1 : Cache), c1.mcore = c.mcore → c1.lfu.costs = c.lfu.costs := by
    intro c1 h; exact congrArg (·.1) h
  cases a with
  | insert k' cf v cost ttl now coster only =>
    simp only [Cache.step, Option.some.injEq] at hs; subst hs
    left; rw [← costs_of_mcore _ (Cache.insert_mcore c su k' cf v cost ttl now coster only)]; exact hx
  | get k' cf now =>
    simp only [Cache.step, Option.some.injEq] at hs; subst hs
    left; rw [← costs_of_mcore _ (Cache.get_mcore c k' cf now)]; exact hx
  | getMut k' cf now v =>
    simp only [Cache.step, Option.some.injEq] at hs; subst hs
    left; rw [← costs_of_mcore _ (Cache.getMutWrite_mcore c k' cf now v)]; exact hx
  | remove k' cf =>
    simp only [Cache.step, Option.some.injEq] at hs; subst hs
    left; rw [← costs_of_mcore _ (Cache.remove_mcore c k' cf)]; exact hx
  | waitEnq w =>
    simp only [Cache.step, Option.some.injEq] at hs; subst hs
    left; rw [← costs_of_mcore _ (Cache.waitEnq_mcore c w)]; exact hx
  | clearReq w =>
    simp only [Cache.step, Option.some.injEq] at hs; subst hs
    left; rw [← costs_of_mcore _ (Cache.clearReq_mcore c w)]; exact hx
  | closeBegin w =>
    simp only [Cache.step, Option.some.injEq] at hs; subst hs
    left; rw [← costs_of_mcore _ (Cache.closeBegin_mcore c w)]; exact hx
  | updateMaxCost mc =>
    simp only [Cache.step, Option.some.injEq] at hs; subst hs
    left; exact hx
  | policyWorker =>
    simp only [Cache.step, Cache.policyWorkerStep] at hs
    cases hp : c.pq with
    | nil => simp [hp] at hs
    | cons b rest =>
      simp only [hp, Option.map_some, Option.some.injEq] at hs; subst hs
      left; exact hx
  | policyClose =>
    simp only [Cache.step, Option.some.injEq] at hs; subst hs
    left; exact hx
  | procStop =>
    simp only [Cache.step, Cache.procStop] at hs
    split at hs
    · cases hs
    · simp only [Option.some.injEq] at hs; subst hs
      left; exact hx
  | procClear =>
    simp only [Cache.step, Cache.procClear] at hs
    split at hs
    · cases hs
    · split at hs
      · cases hs
      · simp only [Option.some.injEq] at hs; subst hs
        simp [Lfu.clear, KMap.get] at hx
  | procTick now order =>
    simp only [Cache.step, Cache.procTick] at hs
    split at hs
    · cases hs
    · simp only [Option.some.injEq] at hs; subst hs
      left
      rw [(deliverEvictions_frame _ _).2.1] at hx
      have h2 := sweepKeys_only_erases _ _ _ _ _ _ hx
      exact h2
  | procItem est refills =>
    simp only [Cache.step, Cache.procItem] at hs
    split at hs
    · cases hs
    · split at hs
      · cases hs
      · rename_i it rest hb
        simp only [Option.some.injEq] at hs; subst hs
        have hap := admitPending_frame ({ c with buf := rest } : Cache)
        generalize hc1 : ({ c with buf := rest } : Cache).admitPending = c1 at hx
        have hl : c1.lfu = c.lfu := by rw [← hc1]; exact hap.2.1
        have hcfg : c1.cfg = c.cfg := by rw [← hc1]; exact hap.2.2.2
        have hic : ∀ z, c1.internalCost z = c.internalCost z := by
          intro z; unfold Cache.internalCost; rw [hcfg]
        cases it with
        | wait w => left; simp only [Cache.handleItem] at hx; rw [hl] at hx; exact hx
        | delete k' cf =>
          left
          have : (c1.handleItem su est refills (Item.delete k' cf)).lfu = c1.lfu ∨
              (c1.handleItem su est refills (Item.delete k' cf)).lfu = (policyRemove c1.lfu k').1 := by
            simp only [Cache.handleItem]
            split <;> split <;> simp
          rcases this with h | h
          · rw [h, hl] at hx; exact hx
          · rw [h, policyRemove_get, hl] at hx
            split at hx
            · cases hx
            · exact hx
        | update k' cost ext =>
          have hlfu : (c1.handleItem su est refills (Item.update k' cost ext)).lfu =
              (c1.lfu.update k' (c1.internalCost cost + ext)).1 := by
            simp [Cache.handleItem]
          rw [hlfu, hl] at hx
          unfold Lfu.update at hx
          cases hg : c.lfu.costs.get k' with
          | none => simp only [hg] at hx; left; exact hx
          | some prev =>
            simp only [hg] at hx
            by_cases hk : k = k'
            · subst hk
              right
              refine ⟨est, refills, _, rest, rfl, hb, Or.inr ⟨cost, ext, rfl, ?_⟩⟩
              simp only [KMap.get_set, if_true] at hx
              rw [← hic]; exact (Option.some.inj hx).symm
            · left; simpa [KMap.get_set, hk] using hx
        | new k' cf cost v exp =>
          have hlfu : (c1.handleItem su est refills (Item.new k' cf cost v exp)).lfu =
              (policyAdd c1.lfu est k' (c1.internalCost cost) refills).lfu := by
            simp only [Cache.handleItem]
            split
            · rw [(evictVictims_spec _ _).1]; split <;> (try split) <;> simp
            · split <;> (try split) <;> simp
          rw [hlfu, hl, hic] at hx
          have sp := policyAdd_spec c.lfu est k' (c.internalCost cost) refills hinv
          by_cases hk : k = k'
          · subst hk
            by_cases hbig : c.internalCost cost > c.lfu.maxCost
            · left; rw [(sp.oversize hbig).2.1] at hx; exact hx
            · cases hg : c.lfu.costs.get k with
              | some prev =>
                right
                refine ⟨est, refills, _, rest, rfl, hb, Or.inl ⟨cf, cost, v, exp, rfl, ?_⟩⟩
                have := (sp.update (by omega) ⟨prev, hg⟩).2.2.1
                rw [this] at hx; exact (Option.some.inj hx).symm
              | none =>
                cases hadd : (policyAdd c.lfu est k (c.internalCost cost) refills).added with
                | true =>
                  right
                  refine ⟨est, refills, _, rest, rfl, hb, Or.inl ⟨cf, cost, v, exp, rfl, ?_⟩⟩
                  have := (sp.admitted hadd).2.1
                  rw [this] at hx; exact (Option.some.inj hx).symm
                | false =>
                  have := sp.refused hadd hg
                  rw [this] at hx; cases hx
          · left
            rcases sp.only_released k hk with h | h
            · rw [h] at hx; cases hx
            · rw [h] at hx; exact hx


/-- the processor applies a buffered item for key `k` whose charge is `x` -/
def AppliesFor (c : Cache) (a : Act) (k : Nat) (x : Int) : Prop :=
  ∃ est refills it rest, a = .procItem est refills ∧ c.buf = it :: rest ∧
    ((∃ cf cost v exp, it = Item.new k cf cost v exp ∧ x = c.internalCost cost) ∨
     (∃ cost ext, it = Item.update k cost ext ∧ x = c.internalCost cost + ext))

/-- key `k` is charged `x` in every state along the run -/
def ChargedSince (su : Nat → Nat → Bool) (k : Nat) (x : Int) : Cache → List Act → Prop
  | c, [] => c.lfu.costs.get k = some x
  | c, a :: rest => c.lfu.costs.get k = some x ∧ ChargedSince su k x ((c.step su a).getD c) rest

/-- **the charge of a key is the charge of the latest item applied for it** — over whole runs: if
key `k` is charged `x` at the end of any run (any interleaving of any actors), then either it has been
charged `x` in every state of the run, or the run splits as `pre ++ a :: post` where `a` is the
processor applying a buffered item for `k` whose charge is `x`, and `k` has been charged `x` in every
state since. -/
theorem charge_is_latest_applied (su : Nat → Nat → Bool) (acts : List Act) :
    ∀ (c : Cache), MInv c → ∀ (k : Nat) (x : Int), (Cache.run su c acts).lfu.costs.get k = some x →
      ChargedSince su k x c acts ∨
      ∃ pre a post, acts = pre ++ a :: post ∧ AppliesFor (Cache.run su c pre) a k x ∧
        ChargedSince su k x (((Cache.run su c pre).step su a).getD (Cache.run su c pre)) post := by
  induction acts with
  | nil => intro c _ k x hx; left; exact hx
  | cons a rest ih =>
    intro c hi k x hx
    simp only [Cache.run] at hx
    cases hs : c.step su a with
    | none =>
      simp only [hs, Option.getD_none] at hx
      rcases ih c hi k x hx with h | ⟨pre, b, post, he, hap, hsince⟩
      · left
        refine ⟨?_, by simpa [hs] using h⟩
        cases rest with
        | nil => exact h
        | cons _ _ => exact h.1
      · right
        refine ⟨a :: pre, b, post, by simp [he], ?_, ?_⟩
        · simpa [Cache.run, hs] using hap
        · simpa [Cache.run, hs] using hsince
    | some c' =>
      simp only [hs, Option.getD_some] at hx
      have hi' := C17.step_minv su c c' a hs hi
      rcases ih c' hi' k x hx with h | ⟨pre, b, post, he, hap, hsince⟩
      · have h0 : c'.lfu.costs.get k = some x := by
          cases rest with
          | nil => exact h
          | cons _ _ => exact h.1
        rcases charge_only_from_applied_item su c c' a hs hi.lfuInv k x h0 with hsame | happ
        · left; exact ⟨hsame, by simpa [hs] using h⟩
        · right
          exact ⟨[], a, rest, rfl, happ, by simpa [Cache.run, hs] using h⟩
      · right
        refine ⟨a :: pre, b, post, by simp [he], ?_, ?_⟩
        · simpa [Cache.run, hs] using hap
        · simpa [Cache.run, hs] using hsince

/-- on a cache built by the builder no key is charged to begin with, so every charge in every
reachable state is that of the latest applied item -/
theorem reachable_charge_is_latest_applied (su : Nat → Nat → Bool) (cfg : Cfg) (maxCost : Int) (samples : Nat)
    (acts : List Act) (k : Nat) (x : Int)
    (hx : (Cache.run su (Cache.init cfg maxCost samples) acts).lfu.costs.get k = some x) :
    ∃ pre a post, acts = pre ++ a :: post ∧
      AppliesFor (Cache.run su (Cache.init cfg maxCost samples) pre) a k x ∧
      ChargedSince su k x (((Cache.run su (Cache.init cfg maxCost samples) pre).step su a).getD
        (Cache.run su (Cache.init cfg maxCost samples) pre)) post := by
  rcases charge_is_latest_applied su acts _ (C17.init_minv cfg maxCost samples) k x hx with h | h
  · exfalso
    have h0 : (Cache.init cfg maxCost samples).lfu.costs.get k = some x := by
      cases acts with
      | nil => exact h
      | cons _ _ => exact h.1
    simp [Cache.init, KMap.get] at h0
  · exact h


-- non-vacuity -------------------------------------------------------------------------------
def exCfg : Cfg := { itemSize := 56, ignoreInternal := false, bufCap := 4, ringCap := 2, pqCap := some 3, metricsOn := false }
example : ((Cache.init exCfg 1000 5).insert (fun _ _ => true) 3 0 9 0 0 10 7 false).1.buf =
    [Item.new 3 0 7 9 ⟨0, 10⟩] := by decide
example : (((Cache.init exCfg 1000 5).handleItem (fun _ _ => true) (fun _ => 0) [] (Item.new 3 0 7 9 ⟨0, 10⟩)).lfu.costs) =
    [(3, 63)] := by decide

-- the premise of `reachable_charge_is_latest_applied` is met: insert, apply, then an update re-charges
example : (Cache.run (fun _ _ => true) (Cache.init exCfg 1000 5)
    [.insert 3 0 77 10 0 5 0 false, .procItem (fun _ => 0) []]).lfu.costs.get 3 = some 66 := by decide
example : (Cache.run (fun _ _ => true) (Cache.init exCfg 1000 5)
    [.insert 3 0 77 10 0 5 0 false, .procItem (fun _ => 0) [], .insert 3 0 78 0 0 6 4 false, .get 9 0 6,
     .procItem (fun _ => 0) []]).lfu.costs.get 3 = some 60 := by decide

end Stretto.C16

#print axioms Stretto.C16.insert_enqueues_effective_cost
#print axioms Stretto.C16.admitted_charge
#print axioms Stretto.C16.update_recharges
#print axioms Stretto.C16.update_absent_noop
#print axioms Stretto.C16.reject_reports_charge
#print axioms Stretto.C16.sweep_reports_charge
#print axioms Stretto.C16.admission_victim_reports_charge
#print axioms Stretto.C16.charge_only_from_applied_item
#print axioms Stretto.C16.charge_is_latest_applied
#print axioms Stretto.C16.reachable_charge_is_latest_applied
