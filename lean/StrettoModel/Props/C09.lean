import StrettoModel.Proofs.Cache
/-!
# C09 — Conditional writes: insert_if_present and UpdateValidator are honoured

Quantification: every cache state (so every position of the call relative to buffered work), every
key/conflict, every validator predicate `su`, every cost/TTL/time.
-/
namespace Stretto.C09
open Stretto

/-- **iip_absent_noop**: `insert_if_present` on a key that is absent — or whose TTL has elapsed
without it having been reclaimed yet — returns false and leaves the whole cache state unchanged. -/
theorem iip_absent_noop (c : Cache) (su : Nat → Nat → Bool) (k cf v : Nat) (cost : Int)
    (ttl now : Nat) (coster : Int) (habs : c.store.get k cf now = none) :
    c.insert su k cf v cost ttl now coster true = (c, false) := by
  unfold Cache.insert Cache.insertBody
  split
  · rfl
  · simp [habs]

/-- no client-side insert (either variant) ever adds a key to the store: new entries are created
only by the processor, for `insert`, never for `insert_if_present` (which enqueues nothing on an
absent key, see `iip_absent_noop`) -/
theorem client_insert_never_creates (c : Cache) (su : Nat → Nat → Bool) (k cf v : Nat) (cost : Int)
    (ttl now : Nat) (coster : Int) (only : Bool) (j : Nat)
    (h : ((c.insert su k cf v cost ttl now coster only).1.store.items.get j).isSome = true) :
    (c.store.items.get j).isSome = true := by
  unfold Cache.insert Cache.insertBody Store.tryUpdate at h
  by_cases hc : c.closed = true
  · simpa [hc] using h
  · simp only [hc, Bool.false_eq_true, if_false] at h
    split at h
    · exact h
    · cases hg : c.store.items.get k with
      | none =>
        simp only [hg] at h
        split at h
        · exact h
        · split at h
          · simpa using h
          · simpa using h
      | some e =>
        simp only [hg] at h
        by_cases h1 : Store.conflictOk cf e = true
        · by_cases h2 : su e.val v = true
          · simp only [h1, h2, Bool.not_true, Bool.false_eq_true, if_false] at h
            have : ((c.store.items.set k { e with val := v, exp := { d := ttl, created := now } }).get j).isSome = true := by
              split at h <;> simpa using h
            rw [KMap.get_set] at this
            split at this
            · rename_i hjk; subst hjk; simp [hg]
            · exact this
          · simp only [h1, h2, Bool.not_true, Bool.false_eq_true, if_false, Bool.not_false, if_true] at h
            split at h
            · exact h
            · split at h <;> simpa using h
        · simp only [h1, Bool.not_false, if_true] at h
          split at h
          · exact h
          · split at h <;> simpa using h

/-- **iip_resident_is_update**: on a visible resident key that passes the validator,
`insert_if_present` behaves as an update of value and (eventually) cost: the value is replaced at
once, the old one leaves through `on_exit`, the call returns true. -/
theorem iip_resident_is_update (c : Cache) (su : Nat → Nat → Bool) (k cf v : Nat) (cost : Int)
    (now : Nat) (coster : Int) (e : Entry) (hopen : c.closed = false)
    (hvis : c.store.lookup k cf now = some e) (hsu : su e.val v = true) :
    let r := c.insert su k cf v cost 0 now coster true
    r.2 = true ∧ r.1.store.items.get k = some { e with val := v, exp := { d := 0, created := now } } ∧
    r.1.cbs = CB.exit e.val :: c.cbs := by
  obtain ⟨he, hcf, _⟩ := Store.lookup_some c.store k cf now e hvis
  have hget : (c.store.get k cf now).isNone = false := by simp [Store.get, hvis]
  have hu : c.store.tryUpdate su k v cf { d := 0, created := now } =
      ({ items := c.store.items.set k { e with val := v, exp := { d := 0, created := now } },
         em := c.store.em.tryUpdate k cf e.exp { d := 0, created := now } }, .update e.val) := by
    simp [Store.tryUpdate, he, hcf, hsu]
  unfold Cache.insert Cache.insertBody
  simp only [hopen, hget, hu, Bool.false_eq_true, if_false, Bool.and_false]
  split <;> simp

/-- **veto_preserves**: when the validator vetoes the replacement, the resident value and its TTL
(and the expiry index) stay exactly as they were, whichever insert variant was used. -/
theorem veto_preserves (c : Cache) (su : Nat → Nat → Bool) (k cf v : Nat) (cost : Int)
    (ttl now : Nat) (coster : Int) (only : Bool) (e : Entry)
    (he : c.store.items.get k = some e) (hveto : su e.val v = false) :
    (c.insert su k cf v cost ttl now coster only).1.store = c.store := by
  unfold Cache.insert Cache.insertBody Store.tryUpdate
  simp only [he]
  by_cases hc : c.closed = true
  · simp [hc]
  · simp only [hc, Bool.false_eq_true, if_false]
    split
    · rfl
    · by_cases h1 : Store.conflictOk cf e = true
      · simp only [h1, hveto, Bool.not_true, Bool.false_eq_true, if_false, Bool.not_false, if_true]
        split
        · rfl
        · split <;> simp
      · simp only [h1, Bool.not_false, if_true]
        split
        · rfl
        · split <;> simp

/-- the processor's insert honours the validator too -/
theorem veto_preserves_processor (s : Store) (su : Nat → Nat → Bool) (k v cf : Nat) (t : Time)
    (e : Entry) (he : s.items.get k = some e) (hveto : su e.val v = false) :
    s.tryInsert su k v cf t = s := by
  unfold Store.tryInsert
  simp only [he]
  split
  · rfl
  · simp [hveto]

-- non-vacuity -------------------------------------------------------------------------------
def exCfg : Cfg := { itemSize := 56, ignoreInternal := false, bufCap := 4, ringCap := 2, pqCap := some 3, metricsOn := true }
example : ((Cache.init exCfg 100 5).insert (fun _ _ => true) 1 0 7 1 0 10 0 true).2 = false := by decide

end Stretto.C09

#print axioms Stretto.C09.iip_absent_noop
#print axioms Stretto.C09.client_insert_never_creates
#print axioms Stretto.C09.iip_resident_is_update
#print axioms Stretto.C09.veto_preserves
#print axioms Stretto.C09.veto_preserves_processor
