import StrettoModel.Proofs.Cache
import StrettoModel.Props.C02
/-!
# C09 — Conditional writes: insert_if_present and UpdateValidator are honoured

Quantification: every cache state (so every position of the call relative to buffered work), every
key/conflict, every validator predicate `su`, every cost/TTL/time.
-/
namespace Stretto.C09
open Stretto

/-- **iip_absent_noop**: `insert_if_present` on a key that is absent — or whose TTL has elapsed
without it having been reclaimed yet — returns false and leaves the whole cache state unchanged. -/
theorem iip_absent_noop (c : Cache) (su : Nat → Nat → Bool) (k cf v : Nat) (cost : Int)
    (ttl now : Nat) (coster : Int) (habs : c.store.get k cf now = none) :
    c.insert su k cf v cost ttl now coster true = (c, false) := by
  unfold Cache.insert Cache.insertBody
  split
  · rfl
  · simp [habs]

/-- no client-side insert (either variant) ever adds a key to the store: new entries are created
only by the processor, for `insert`, never for `insert_if_present` (which enqueues nothing on an
absent key, see `iip_absent_noop`) -/
theorem client_insert_never_creates (c : Cache) (su : Nat → Nat → Bool) (k cf v : Nat) (cost : Int)
    (ttl now : Nat) (coster : Int) (only : Bool) (j : Nat)
    (h : ((c.insert su k cf v cost ttl now coster only).1.store.items.get j).isSome = true) :
    (c.store.items.get j).isSome = true := by
  unfold Cache.insert Cache.insertBody Store.tryUpdate at h
  by_cases hc : c.closed = true
  · simpa [hc] using h
  · simp only [hc, Bool.false_eq_true, if_false] at h
    split at h
    · exact h
    · cases hg : c.store.items.get k with
      | none =>
        simp only [hg] at h
        split at h
        · exact h
        · split at h
          · simpa using h
          · simpa using h
      | some e =>
        simp only [hg] at h
        by_cases h1 : Store.conflictOk cf e = true
        · by_cases h2 : su e.val v = true
          · simp only [h1, h2, Bool.not_true, Bool.false_eq_true, if_false] at h
            have : ((c.store.items.set k { e with val := v, exp := { d := ttl, created := now } }).get j).isSome = true := by
              split at h <;> simpa using h
            rw [KMap.get_set] at this
            split at this
            · rename_i hjk; subst hjk; simp [hg]
            · exact this
          · simp only [h1, h2, Bool.not_true, Bool.false_eq_true, if_false, Bool.not_false, if_true] at h
            split at h
            · exact h
            · split at h <;> simpa using h
        · simp only [h1, Bool.not_false, if_true] at h
          split at h
          · exact h
          · split at h <;> simpa using h

/-- **iip_resident_is_update**: on a visible resident key that passes the validator,
`insert_if_present` behaves as an update of value and (eventually) cost: the value is replaced at
once, the old one leaves through `on_exit`, the call returns true. -/
theorem iip_resident_is_update (c : Cache) (su : Nat → Nat → Bool) (k cf v : Nat) (cost : Int)
    (now : Nat) (coster : Int) (e : Entry) (hopen : c.closed = false)
    (hvis : c.store.lookup k cf now = some e) (hsu : su e.val v = true) :
    let r := c.insert su k cf v cost 0 now coster true
    r.2 = true ∧ r.1.store.items.get k = some { e with val := v, exp := { d := 0, created := now } } ∧
    r.1.cbs = CB.exit e.val :: c.cbs := by
  obtain ⟨he, hcf, _⟩ := Store.lookup_some c.store k cf now e hvis
  have hget : (c.store.get k cf now).isNone = false := by simp [Store.get, hvis]
  have hu : c.store.tryUpdate su k v cf { d := 0, created := now } =
      ({ items := c.store.items.set k { e with val := v, exp := { d := 0, created := now } },
         em := c.store.em.tryUpdate k cf e.exp { d := 0, created := now } }, .update e.val) := by
    simp [Store.tryUpdate, he, hcf, hsu]
  unfold Cache.insert Cache.insertBody
  simp only [hopen, hget, hu, Bool.false_eq_true, if_false, Bool.and_false]
  split <;> simp

/-- **veto_preserves**: when the validator vetoes the replacement, the resident value and its TTL
(and the expiry index) stay exactly as they were, whichever insert variant was used. -/
theorem veto_preserves (c : Cache) (su : Nat → Nat → Bool) (k cf v : Nat) (cost : Int)
    (ttl now : Nat) (coster : Int) (only : Bool) (e : Entry)
    (he : c.store.items.get k = some e) (hveto : su e.val v = false) :
    (c.insert su k cf v cost ttl now coster only).1.store = c.store := by
  unfold Cache.insert Cache.insertBody Store.tryUpdate
  simp only [he]
  by_cases hc : c.closed = true
  · simp [hc]
  · simp only [hc, Bool.false_eq_true, if_false]
    split
    · rfl
    · by_cases h1 : Store.conflictOk cf e = true
      · simp only [h1, hveto, Bool.not_true, Bool.false_eq_true, if_false, Bool.not_false, if_true]
        split
        · rfl
        · split <;> simp
      · simp only [h1, Bool.not_false, if_true]
        split
        · rfl
        · split <;> simp

/-- the processor's insert honours the validator too -/
theorem veto_preserves_processor (s : Store) (su : Nat → Nat → Bool) (k v cf : Nat) (t : Time)
    (e : Entry) (he : s.items.get k = some e) (hveto : su e.val v = false) :
    s.tryInsert su k v cf t = s := by
  unfold Store.tryInsert
  simp only [he]
  split
  · rfl
  · simp [hveto]

-- over whole runs: where resident keys come from -----------------------------------------------------

/-- the keys an action may bring into the cache: only an unconditional `insert` names one;
`insert_if_present`, `get_mut` writes, lookups, removes and every processor / worker iteration name none -/
def createOf : Act → List Nat
  | .insert k _ _ _ _ _ _ false => [k]
  | _ => []

def createsOf (acts : List Act) : List Nat := (acts.map createOf).flatten

/-- origin invariant: every resident key, and every key on its way to the store, was named by an
unconditional `insert` -/
structure Orig (U : List Nat) (c : Cache) : Prop where
  resident : ∀ k e, c.store.items.get k = some e → k ∈ U
  buffered : ∀ k cf cost v exp, Item.new k cf cost v exp ∈ c.buf ++ c.pendingSends → k ∈ U

theorem orig_mono (U U' : List Nat) (c : Cache) (h : Orig U c) (hsub : ∀ p ∈ U, p ∈ U') : Orig U' c :=
  ⟨fun k e he => hsub _ (h.resident k e he), fun k cf cost v exp hm => hsub _ (h.buffered k cf cost v exp hm)⟩

/-- **the origin invariant is preserved by every step of every actor** -/
theorem step_orig (su : Nat → Nat → Bool) (U : List Nat) (c c' : Cache) (a : Act)
    (hs : c.step su a = some c') (h : Orig U c) : Orig (U ++ createOf a) c' := by
  have hmono : Orig (U ++ createOf a) c := orig_mono U _ c h (fun p hp => by simp [hp])
  cases a with
  | insert k cf v cost ttl now coster only =>
    simp only [Cache.step, Option.some.injEq] at hs; subst hs
    unfold Cache.insert
    split
    · exact hmono
    · unfold Cache.insertBody
      simp only []
      split
      · exact hmono
      · have hstore : ∀ j e, (c.store.tryUpdate su k v cf { d := ttl, created := now }).1.items.get j = some e →
            ∃ e', c.store.items.get j = some e' := by
          intro j e hje
          unfold Store.tryUpdate at hje
          cases hg : c.store.items.get k with
          | none => simp only [hg] at hje; exact ⟨e, hje⟩
          | some e0 =>
            simp only [hg] at hje
            split at hje
            · exact ⟨e, hje⟩
            · split at hje
              · exact ⟨e, hje⟩
              · simp only [KMap.get_set] at hje
                split at hje
                · rename_i hjk; subst hjk; exact ⟨e0, hg⟩
                · exact ⟨e, hje⟩
        have hres : ∀ j e, (c.store.tryUpdate su k v cf { d := ttl, created := now }).1.items.get j = some e →
            j ∈ U ++ createOf (Act.insert k cf v cost ttl now coster only) := by
          intro j e hje
          obtain ⟨e', he'⟩ := hstore j e hje
          simp [h.resident j e' he']
        split
        · split
          · refine ⟨hres, ?_⟩
            intro k' cf' cost' v' exp' hm
            simp only [List.append_assoc, List.mem_append, List.mem_cons, List.not_mem_nil, or_false] at hm
            rcases hm with hm | hm | hm
            · exact hmono.buffered k' cf' cost' v' exp' (by simp [hm])
            · cases hm
            · exact hmono.buffered k' cf' cost' v' exp' (by simp [hm])
          · exact ⟨hres, hmono.buffered⟩
        · split
          · exact hmono
          · rename_i honly
            split
            · refine ⟨hmono.resident, ?_⟩
              intro k' cf' cost' v' exp' hm
              simp only [List.append_assoc, List.mem_append, List.mem_cons, List.not_mem_nil, or_false] at hm
              rcases hm with hm | hm | hm
              · exact hmono.buffered k' cf' cost' v' exp' (by simp [hm])
              · cases hm
                have : only = false := by simpa using honly
                subst this; simp [createOf]
              · exact hmono.buffered k' cf' cost' v' exp' (by simp [hm])
            · exact ⟨by simpa using hmono.resident, by simpa using hmono.buffered⟩
  | get k cf now =>
    simp only [Cache.step, Option.some.injEq] at hs; subst hs
    unfold Cache.get
    split
    · exact hmono
    · simp only []
      split <;> exact ⟨by simpa using hmono.resident, by simpa using hmono.buffered⟩
  | getMut k cf now v =>
    simp only [Cache.step, Option.some.injEq] at hs; subst hs
    unfold Cache.getMutWrite
    split
    · exact hmono
    · simp only []
      split
      · exact ⟨by simpa using hmono.resident, by simpa using hmono.buffered⟩
      · refine ⟨?_, by simpa using hmono.buffered⟩
        intro j e hje
        simp only [Cache.met_store, Cache.ringPush_store] at hje
        unfold Store.getMutWrite at hje
        cases hl : c.store.lookup k cf now with
        | none => simp only [hl] at hje; exact hmono.resident j e hje
        | some e0 =>
          simp only [hl, KMap.get_set] at hje
          split at hje
          · rename_i hjk; subst hjk
            obtain ⟨he0, _, _⟩ := Store.lookup_some c.store j cf now e0 hl
            exact hmono.resident j e0 he0
          · exact hmono.resident j e hje
  | remove k cf =>
    simp only [Cache.step, Option.some.injEq] at hs; subst hs
    unfold Cache.remove
    split
    · exact hmono
    · simp only []
      have hres : ∀ j e, (c.store.tryRemove k cf).1.items.get j = some e → c.store.items.get j = some e := by
        intro j e hje
        rw [Store.tryRemove_get] at hje
        split at hje
        · cases hje
        · exact hje
      have hbuf : ∀ (buf' pend' : List Item),
          (∀ x, x ∈ buf' ++ pend' → x ∈ c.buf ++ c.pendingSends ∨ x = Item.delete k cf) →
          ∀ k' cf' cost' v' exp', Item.new k' cf' cost' v' exp' ∈ buf' ++ pend' →
            k' ∈ U ++ createOf (Act.remove k cf) := by
        intro buf' pend' hsub k' cf' cost' v' exp' hm
        rcases hsub _ hm with h1 | h1
        · exact hmono.buffered k' cf' cost' v' exp' h1
        · cases h1
      cases hr : (c.store.tryRemove k cf).2 with
      | none =>
        simp only
        split
        · exact ⟨hmono.resident, hbuf _ _ (by intro x hx; simp only [List.mem_append, List.mem_singleton] at hx ⊢; rcases hx with (h1 | h1) | h1 <;> simp [h1])⟩
        · exact ⟨hmono.resident, hbuf _ _ (by intro x hx; simp only [List.mem_append, List.mem_singleton] at hx ⊢; rcases hx with h1 | h1 | h1 <;> simp [h1])⟩
      | some e0 =>
        simp only
        split
        · exact ⟨fun j e hje => hmono.resident j e (hres j e hje), hbuf _ _ (by intro x hx; simp only [List.mem_append, List.mem_singleton] at hx ⊢; rcases hx with (h1 | h1) | h1 <;> simp [h1])⟩
        · exact ⟨fun j e hje => hmono.resident j e (hres j e hje), hbuf _ _ (by intro x hx; simp only [List.mem_append, List.mem_singleton] at hx ⊢; rcases hx with h1 | h1 | h1 <;> simp [h1])⟩
  | waitEnq id =>
    simp only [Cache.step, Option.some.injEq] at hs; subst hs
    unfold Cache.waitEnq
    split
    · exact hmono
    · split
      · refine ⟨hmono.resident, ?_⟩
        intro k' cf' cost' v' exp' hm
        simp only [List.append_assoc, List.mem_append, List.mem_cons, List.not_mem_nil, or_false] at hm
        rcases hm with hm | hm | hm
        · exact hmono.buffered k' cf' cost' v' exp' (by simp [hm])
        · cases hm
        · exact hmono.buffered k' cf' cost' v' exp' (by simp [hm])
      · exact hmono
  | clearReq id =>
    simp only [Cache.step, Option.some.injEq] at hs; subst hs
    unfold Cache.clearReq; split <;> exact ⟨hmono.resident, hmono.buffered⟩
  | closeBegin id =>
    simp only [Cache.step, Option.some.injEq] at hs; subst hs
    unfold Cache.closeBegin; split <;> exact ⟨hmono.resident, hmono.buffered⟩
  | updateMaxCost mc =>
    simp only [Cache.step, Option.some.injEq] at hs; subst hs; exact ⟨hmono.resident, hmono.buffered⟩
  | procItem est refills =>
    simp only [Cache.step, Cache.procItem] at hs
    split at hs
    · cases hs
    · split at hs
      · cases hs
      · rename_i it rest hb
        simp only [Option.some.injEq] at hs; subst hs
        simp only [createOf, List.append_nil]
        have hf := admitPending_frame ({ c with buf := rest } : Cache)
        have hpop : ∀ x, x ∈ (({ c with buf := rest } : Cache).admitPending).buf ++
            (({ c with buf := rest } : Cache).admitPending).pendingSends → x ∈ c.buf ++ c.pendingSends := by
          intro x hx
          rw [admitPending_mem] at hx
          rw [hb]
          simp only [List.cons_append, List.mem_cons]
          right; exact hx
        have hhead : it ∈ c.buf ++ c.pendingSends := by rw [hb]; simp
        have hbufH : ∀ (c1 : Cache) (it : Item), (c1.handleItem su est refills it).buf = c1.buf :=
          fun c1 it => handleItem_buf c1 su est refills it
        have hpendH : ∀ (c1 : Cache) (it : Item), (c1.handleItem su est refills it).pendingSends = c1.pendingSends := by
          intro c1 it
          cases it with
          | wait w => rfl
          | update k cost ext => simp [Cache.handleItem]
          | delete k cf =>
            simp only [Cache.handleItem]
            cases (c1.store.tryRemove k cf).2 <;> (simp only; split <;> simp)
          | new k cf cost v exp =>
            simp only [Cache.handleItem]
            split <;> (try rw [(evictVictims_spec _ _).2.2.1]) <;> (split <;> (try split) <;> simp)
        refine ⟨?_, ?_⟩
        · intro j e hje
          cases it with
          | wait w => exact h.resident j e (by simpa [Cache.handleItem, hf.1] using hje)
          | update k cost ext => exact h.resident j e (by simpa [Cache.handleItem, hf.1] using hje)
          | delete k cf =>
            simp only [Cache.handleItem] at hje
            have : (({ c with buf := rest } : Cache).admitPending.store.tryRemove k cf).1.items.get j = some e := by
              cases hr : (({ c with buf := rest } : Cache).admitPending.store.tryRemove k cf).2 <;>
                (simp only [hr] at hje; split at hje <;> simpa using hje)
            rw [Store.tryRemove_get] at this
            split at this
            · cases this
            · rw [hf.1] at this; exact h.resident j e this
          | new k cf cost v exp =>
            have hnew : k ∈ U := h.buffered k cf cost v exp hhead
            simp only [Cache.handleItem] at hje
            have hpre : ∀ (c2 : Cache), c2.store = ({ c with buf := rest } : Cache).admitPending.store ∨
                c2.store = (({ c with buf := rest } : Cache).admitPending.store.tryInsert su k v cf exp) →
                c2.store.items.get j = some e → j ∈ U := by
              intro c2 hc2 hj2
              rcases hc2 with hc2 | hc2
              · rw [hc2, hf.1] at hj2; exact h.resident j e hj2
              · rw [hc2] at hj2
                rcases C02.tryInsert_get _ su k v cf exp j e hj2 with h1 | ⟨h1, _⟩
                · rw [hf.1] at h1; exact h.resident j e h1
                · subst h1; exact hnew
            split at hje
            · have hje' := C02.evictVictims_get _ _ j e hje
              split at hje'
              · split at hje'
                · exact hpre _ (Or.inr (by simp)) hje'
                · exact hpre _ (Or.inr (by simp)) hje'
              · exact hpre _ (Or.inl (by simp)) hje'
            · split at hje
              · split at hje
                · exact hpre _ (Or.inr (by simp)) hje
                · exact hpre _ (Or.inr (by simp)) hje
              · exact hpre _ (Or.inl (by simp)) hje
        · intro k' cf' cost' v' exp' hm
          rw [hbufH, hpendH] at hm
          exact h.buffered k' cf' cost' v' exp' (hpop _ hm)
  | procClear =>
    simp only [Cache.step] at hs
    obtain ⟨h1, h2, h3⟩ := C02.procClear_empty c c' hs
    refine ⟨(fun j e hje => by rw [h1 j] at hje; cases hje), ?_⟩
    intro k' cf' cost' v' exp' hm
    rw [h2, h3] at hm
    exact hmono.buffered k' cf' cost' v' exp' (by simp at hm; simp [hm])
  | procTick now order =>
    simp only [Cache.step, Cache.procTick] at hs
    split at hs
    · cases hs
    · simp only [Option.some.injEq] at hs; subst hs
      simp only [createOf, List.append_nil]
      have hd := deliverEvictions_frame
        ((({ c with store := { c.store with em := (c.store.em.tryCleanup now).1 } } : Cache).sweepKeys now order []).2.reverse)
        (({ c with store := { c.store with em := (c.store.em.tryCleanup now).1 } } : Cache).sweepKeys now order []).1
      have hk := sweepKeys_frame order ({ c with store := { c.store with em := (c.store.em.tryCleanup now).1 } } : Cache) now []
      refine ⟨?_, ?_⟩
      · intro j e hje
        rw [hd.1] at hje
        exact h.resident j e (by simpa using C02.sweepKeys_get order _ now [] j e hje)
      · intro k' cf' cost' v' exp' hm
        rw [hd.2.2.1, hd.2.2.2, hk.1] at hm
        have hp : (({ c with store := { c.store with em := (c.store.em.tryCleanup now).1 } } : Cache).sweepKeys now order []).1.pendingSends = c.pendingSends := by
          have : ∀ (keys : List (Nat × Nat)) (c0 : Cache) (acc : List CB), (c0.sweepKeys now keys acc).1.pendingSends = c0.pendingSends := by
            intro keys
            induction keys with
            | nil => intro c0 acc; simp [Cache.sweepKeys]
            | cons p rest ih =>
              intro c0 acc
              obtain ⟨k, cf⟩ := p
              simp only [Cache.sweepKeys]
              rw [ih]
              unfold Cache.sweepOne
              cases c0.store.expiration k with
              | none => rfl
              | some t => simp only; split
                          · cases (c0.store.tryRemove k cf).2 <;> simp
                          · rfl
          exact this order _ []
        rw [hp] at hm
        exact h.buffered k' cf' cost' v' exp' hm
  | procStop =>
    simp only [Cache.step, Cache.procStop] at hs
    split at hs
    · cases hs
    · simp only [Option.some.injEq] at hs; subst hs
      refine ⟨hmono.resident, ?_⟩
      intro k' cf' cost' v' exp' hm
      simp only [List.nil_append] at hm
      exact hmono.buffered k' cf' cost' v' exp' (by simp [hm])
  | policyWorker =>
    simp only [Cache.step, Cache.policyWorkerStep] at hs
    cases hp : c.pq with
    | nil => simp [hp] at hs
    | cons b rest => simp only [hp, Option.map_some, Option.some.injEq] at hs; subst hs; exact ⟨hmono.resident, hmono.buffered⟩
  | policyClose =>
    simp only [Cache.step, Option.some.injEq] at hs; subst hs; exact ⟨hmono.resident, hmono.buffered⟩

theorem exec_orig (su : Nat → Nat → Bool) (U : List Nat) (c : Cache) (acts : List Act)
    (h : Orig U c) : Orig (U ++ createsOf acts) (Cache.run su c acts) := by
  induction acts generalizing c U with
  | nil => simpa [createsOf, Cache.run] using h
  | cons a rest ih =>
    simp only [Cache.run]
    have hstep : Orig (U ++ createOf a) ((c.step su a).getD c) := by
      cases hs : c.step su a with
      | none => exact orig_mono U _ c h (fun p hp => by simp [hp])
      | some c' => exact step_orig su U c c' a hs h
    have := ih (U ++ createOf a) _ hstep
    simpa [createsOf, List.append_assoc] using this

/-- **insert_if_present never creates an entry — over whole histories**: after any sequence of actions
of any actors from the builder's state (clients calling anything, in any interleaving with the
processor, the sweeper and the policy worker), every resident key was named by an *unconditional*
`insert` in that history. Whatever `insert_if_present` calls were made, at whatever point relative to
buffered work, removes, expiry and clears: a key only ever written conditionally is not resident, is not
on its way to the store, and no lookup returns anything for it. -/
theorem only_unconditional_inserts_create (su : Nat → Nat → Bool) (cfg : Cfg) (maxCost : Int) (samples : Nat)
    (acts : List Act) (k : Nat) (hk : k ∉ createsOf acts) :
    (Cache.run su (Cache.init cfg maxCost samples) acts).store.items.get k = none ∧
    (∀ cf cost v exp, Item.new k cf cost v exp ∉ (Cache.run su (Cache.init cfg maxCost samples) acts).buf) ∧
    (∀ cf now, ((Cache.run su (Cache.init cfg maxCost samples) acts).get k cf now).2 = none) := by
  have hp : Orig [] (Cache.init cfg maxCost samples) :=
    ⟨(fun k e he => by simp [Cache.init, Store.empty] at he),
     (fun k cf cost v exp hm => by simp [Cache.init] at hm)⟩
  have ho := exec_orig su [] _ acts hp
  simp only [List.nil_append] at ho
  have hnone : (Cache.run su (Cache.init cfg maxCost samples) acts).store.items.get k = none := by
    cases hg : (Cache.run su (Cache.init cfg maxCost samples) acts).store.items.get k with
    | none => rfl
    | some e => exact absurd (ho.resident k e hg) hk
  refine ⟨hnone, ?_, ?_⟩
  · intro cf cost v exp hm
    exact hk (ho.buffered k cf cost v exp (by simp [hm]))
  · intro cf now
    cases hget : ((Cache.run su (Cache.init cfg maxCost samples) acts).get k cf now).2 with
    | none => rfl
    | some v =>
      exfalso
      unfold Cache.get at hget
      split at hget
      · cases hget
      · simp only [Cache.ringPush_store] at hget
        cases hl : (Cache.run su (Cache.init cfg maxCost samples) acts).store.lookup k cf now with
        | none => simp [Store.get, hl] at hget
        | some e =>
          have he := (Store.lookup_some _ k cf now e hl).1
          rw [hnone] at he; cases he

-- non-vacuity -------------------------------------------------------------------------------
def exCfg : Cfg := { itemSize := 56, ignoreInternal := false, bufCap := 4, ringCap := 2, pqCap := some 3, metricsOn := true }
example : ((Cache.init exCfg 100 5).insert (fun _ _ => true) 1 0 7 1 0 10 0 true).2 = false := by decide
/-- the hypothesis is met by histories that do write the key — conditionally only — and the conclusion is not
trivially true of every key: an unconditional insert, applied, makes its key resident -/
example : (1 : Nat) ∉ createsOf [.insert 1 0 7 1 0 10 0 true, .insert 2 0 8 1 0 10 0 false, .procItem (fun _ => 0) [],
    .insert 1 0 9 1 0 11 0 true] := by decide
example : ((Cache.run (fun _ _ => true) (Cache.init exCfg 100 5)
    [.insert 1 0 7 1 0 10 0 true, .insert 2 0 8 1 0 10 0 false, .procItem (fun _ => 0) [],
     .insert 1 0 9 1 0 11 0 true]).store.items.get 2).isSome = true := by decide

end Stretto.C09

#print axioms Stretto.C09.iip_absent_noop
#print axioms Stretto.C09.client_insert_never_creates
#print axioms Stretto.C09.iip_resident_is_update
#print axioms Stretto.C09.veto_preserves
#print axioms Stretto.C09.veto_preserves_processor
#print axioms Stretto.C09.step_orig
#print axioms Stretto.C09.only_unconditional_inserts_create
