import StrettoModel.Proofs.Cache
import StrettoModel.Props.C15
/-!
# C19 — AsyncCache behaves exactly like Cache

In the model the two flavours are one transition system; they differ in a single configuration
field, the capacity of the policy's get-batch queue (`pqCap = some 3` for `Cache`, `none` for
`AsyncCache`). (Both `remove`s wait for room in the insert buffer, both `close()`s rendezvous with
the workers; the stop channel's capacity, 0 vs 1, is below the model's granularity.) Every theorem
of C01–C18/C20 quantifies over all `Cfg`, hence holds for both flavours. The theorems here show that
the queue capacity cannot influence anything a client observes except the `gets_kept` /
`gets_dropped` split and, through lost batches, the popularity estimates (which are oracle inputs).
That the real `AsyncCache` follows the model is checked differentially against `Cache` on three
executors by the harness (a test, not a proof).
-/
namespace Stretto.C19
open Stretto

/-- the same state seen with another policy-queue capacity -/
def withQ (c : Cache) (q : Option Nat) : Cache := { c with cfg := { c.cfg with pqCap := q } }

/-- **lookups do not depend on the flavour**: what `get` returns is determined by `is_closed`, the
store and the clock alone -/
theorem get_result_flavour_independent (c : Cache) (q : Option Nat) (k cf now : Nat) :
    ((withQ c q).get k cf now).2 = (c.get k cf now).2 ∧
    (c.get k cf now).2 = if c.closed then none else c.store.get k cf now := by
  have h1 : ∀ d : Cache, (d.get k cf now).2 = if d.closed then none else d.store.get k cf now := by
    intro d
    unfold Cache.get
    split
    · simp [*]
    · rename_i hc
      simp only [Cache.ringPush_store]
      cases d.store.get k cf now <;> simp [hc]
  exact ⟨by rw [h1, h1]; rfl, h1 c⟩

theorem get_ttl_flavour_independent (c : Cache) (q : Option Nat) (k cf now : Nat) :
    (withQ c q).getTtl k cf now = c.getTtl k cf now := rfl

/-- **writes do not depend on the flavour**: `insert` / `insert_if_present` / `remove` / `wait` /
`clear` / `close` never read the queue capacity: same answer, same successor state -/
theorem insert_flavour_independent (c : Cache) (q : Option Nat) (su : Nat → Nat → Bool) (k cf v : Nat)
    (cost : Int) (ttl now : Nat) (coster : Int) (only : Bool) :
    ((withQ c q).insert su k cf v cost ttl now coster only).2 = (c.insert su k cf v cost ttl now coster only).2 ∧
    ((withQ c q).insert su k cf v cost ttl now coster only).1 =
      withQ (c.insert su k cf v cost ttl now coster only).1 q := by
  unfold Cache.insert Cache.insertBody withQ Cache.met
  simp only []
  split
  · exact ⟨rfl, rfl⟩
  · split
    · exact ⟨rfl, rfl⟩
    · split
      · split <;> exact ⟨rfl, rfl⟩
      · split
        · exact ⟨rfl, rfl⟩
        · split
          · exact ⟨rfl, rfl⟩
          · split <;> exact ⟨rfl, rfl⟩

theorem remove_flavour_independent (c : Cache) (q : Option Nat) (k cf : Nat) :
    ((withQ c q).remove k cf).2 = (c.remove k cf).2 ∧
    ((withQ c q).remove k cf).1 = withQ (c.remove k cf).1 q := by
  unfold Cache.remove withQ
  simp only []
  split
  · exact ⟨rfl, rfl⟩
  · cases (c.store.tryRemove k cf).2 <;> (simp only; split <;> exact ⟨rfl, rfl⟩)

theorem protocol_flavour_independent (c : Cache) (q : Option Nat) (id : Nat) :
    ((withQ c q).waitEnq id).2 = (c.waitEnq id).2 ∧ ((withQ c q).clearReq id).2 = (c.clearReq id).2 ∧
    ((withQ c q).closeBegin id).2 = (c.closeBegin id).2 ∧
    (withQ c q).mayReturn id true = c.mayReturn id true := by
  unfold Cache.waitEnq Cache.clearReq Cache.closeBegin Cache.mayReturn withQ
  refine ⟨?_, ?_, ?_, rfl⟩
  · simp only []; split
    · rfl
    · split <;> rfl
  · simp only []; split <;> rfl
  · simp only []; split <;> rfl

/-- **the processor does not depend on the flavour**: clear, tick and stop iterations never read
the queue capacity -/
theorem processor_flavour_independent (c : Cache) (q : Option Nat) (now : Nat) (order : List (Nat × Nat)) :
    (withQ c q).procClear = c.procClear.map (withQ · q) ∧ (withQ c q).procStop = c.procStop.map (withQ · q) := by
  constructor
  · unfold Cache.procClear withQ
    simp only []
    split
    · rfl
    · cases hq : c.clearQ with
      | nil => rfl
      | cons id rest =>
        simp only [Option.map_some, Option.some.injEq]
        have : ∀ (items : List Item) (d : Cache) (qq : Option Nat),
            items.foldl Cache.drainItem { d with cfg := { d.cfg with pqCap := qq } } =
              { (items.foldl Cache.drainItem d) with cfg := { (items.foldl Cache.drainItem d).cfg with pqCap := qq } } := by
          intro items
          induction items with
          | nil => intro d qq; rfl
          | cons it rest ih =>
            intro d qq
            simp only [List.foldl_cons]
            have : Cache.drainItem { d with cfg := { d.cfg with pqCap := qq } } it =
                { (Cache.drainItem d it) with cfg := { (Cache.drainItem d it).cfg with pqCap := qq } } := by
              cases it <;> rfl
            rw [this, ih]
        have h := this c.buf { c with buf := [], clearQ := rest } q
        simp only at h
        rw [h]
  · unfold Cache.procStop withQ
    simp only []
    split <;> rfl

/-- the only place the flavour matters: a full bounded queue drops a batch, the unbounded one keeps it -/
theorem flavour_difference_is_the_queue (c : Cache) (k : Nat) (hq : c.cfg.pqCap = none) :
    (c.ringPush k).metrics.dropGets = c.metrics.dropGets :=
  C15.unbounded_queue_never_drops c k hq

end Stretto.C19

#print axioms Stretto.C19.get_result_flavour_independent
#print axioms Stretto.C19.get_ttl_flavour_independent
#print axioms Stretto.C19.insert_flavour_independent
#print axioms Stretto.C19.remove_flavour_independent
#print axioms Stretto.C19.protocol_flavour_independent
#print axioms Stretto.C19.processor_flavour_independent
#print axioms Stretto.C19.flavour_difference_is_the_queue
