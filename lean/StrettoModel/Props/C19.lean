import StrettoModel.Proofs.Cache
import StrettoModel.Props.C15
import StrettoModel.Model.Lts
import StrettoModel.Proofs.Frames
/-!
# C19 — AsyncCache behaves exactly like Cache

In the model the two flavours are one transition system; they differ in a single configuration
field, the capacity of the policy's get-batch queue (`pqCap = some 3` for `Cache`, `none` for
`AsyncCache`). (Both `remove`s wait for room in the insert buffer, both `close()`s rendezvous with
the workers; the stop channel's capacity, 0 vs 1, is below the model's granularity.) Every theorem
of C01–C18/C20 quantifies over all `Cfg`, hence holds for both flavours. The theorems here show that
the queue capacity cannot influence anything a client observes except the `gets_kept` /
`gets_dropped` split and, through lost batches, the popularity estimates (which are oracle inputs).
That the real `AsyncCache` follows the model is checked differentially against `Cache` on three
executors by the harness (a test, not a proof).
-/
namespace Stretto.C19
open Stretto

/-- the same state seen with another policy-queue capacity -/
def withQ (c : Cache) (q : Option Nat) : Cache := { c with cfg := { c.cfg with pqCap := q } }

/-- **lookups do not depend on the flavour**: what `get` returns is determined by `is_closed`, the
store and the clock alone -/
theorem get_result_flavour_independent (c : Cache) (q : Option Nat) (k cf now : Nat) :
    ((withQ c q).get k cf now).2 = (c.get k cf now).2 ∧
    (c.get k cf now).2 = if c.closed then none else c.store.get k cf now := by
  have h1 : ∀ d : Cache, (d.get k cf now).2 = if d.closed then none else d.store.get k cf now := by
    intro d
    unfold Cache.get
    split
    · simp [*]
    · rename_i hc
      simp only [Cache.ringPush_store]
      cases d.store.get k cf now <;> simp [hc]
  exact ⟨by rw [h1, h1]; rfl, h1 c⟩

theorem get_ttl_flavour_independent (c : Cache) (q : Option Nat) (k cf now : Nat) :
    (withQ c q).getTtl k cf now = c.getTtl k cf now := rfl

/-- **writes do not depend on the flavour**: `insert` / `insert_if_present` / `remove` / `wait` /
`clear` / `close` never read the queue capacity: same answer, same successor state -/
theorem insert_flavour_independent (c : Cache) (q : Option Nat) (su : Nat → Nat → Bool) (k cf v : Nat)
    (cost : Int) (ttl now : Nat) (coster : Int) (only : Bool) :
    ((withQ c q).insert su k cf v cost ttl now coster only).2 = (c.insert su k cf v cost ttl now coster only).2 ∧
    ((withQ c q).insert su k cf v cost ttl now coster only).1 =
      withQ (c.insert su k cf v cost ttl now coster only).1 q := by
  unfold Cache.insert Cache.insertBody withQ Cache.met
  simp only []
  split
  · exact ⟨rfl, rfl⟩
  · split
    · exact ⟨rfl, rfl⟩
    · split
      · split <;> exact ⟨rfl, rfl⟩
      · split
        · exact ⟨rfl, rfl⟩
        · split
          · exact ⟨rfl, rfl⟩
          · split <;> exact ⟨rfl, rfl⟩

theorem remove_flavour_independent (c : Cache) (q : Option Nat) (k cf : Nat) :
    ((withQ c q).remove k cf).2 = (c.remove k cf).2 ∧
    ((withQ c q).remove k cf).1 = withQ (c.remove k cf).1 q := by
  unfold Cache.remove withQ
  simp only []
  split
  · exact ⟨rfl, rfl⟩
  · cases (c.store.tryRemove k cf).2 <;> (simp only; split <;> exact ⟨rfl, rfl⟩)

theorem protocol_flavour_independent (c : Cache) (q : Option Nat) (id : Nat) :
    ((withQ c q).waitEnq id).2 = (c.waitEnq id).2 ∧ ((withQ c q).clearReq id).2 = (c.clearReq id).2 ∧
    ((withQ c q).closeBegin id).2 = (c.closeBegin id).2 ∧
    (withQ c q).mayReturn id true = c.mayReturn id true := by
  unfold Cache.waitEnq Cache.clearReq Cache.closeBegin Cache.mayReturn withQ
  refine ⟨?_, ?_, ?_, rfl⟩
  · simp only []; split
    · rfl
    · split <;> rfl
  · simp only []; split <;> rfl
  · simp only []; split <;> rfl

/-- **the processor does not depend on the flavour**: clear, tick and stop iterations never read
the queue capacity -/
theorem processor_flavour_independent (c : Cache) (q : Option Nat) (now : Nat) (order : List (Nat × Nat)) :
    (withQ c q).procClear = c.procClear.map (withQ · q) ∧ (withQ c q).procStop = c.procStop.map (withQ · q) := by
  constructor
  · unfold Cache.procClear withQ
    simp only []
    split
    · rfl
    · cases hq : c.clearQ with
      | nil => rfl
      | cons id rest =>
        simp only [Option.map_some, Option.some.injEq]
        have : ∀ (items : List Item) (d : Cache) (qq : Option Nat),
            items.foldl Cache.drainItem { d with cfg := { d.cfg with pqCap := qq } } =
              { (items.foldl Cache.drainItem d) with cfg := { (items.foldl Cache.drainItem d).cfg with pqCap := qq } } := by
          intro items
          induction items with
          | nil => intro d qq; rfl
          | cons it rest ih =>
            intro d qq
            simp only [List.foldl_cons]
            have : Cache.drainItem { d with cfg := { d.cfg with pqCap := qq } } it =
                { (Cache.drainItem d it) with cfg := { (Cache.drainItem d it).cfg with pqCap := qq } } := by
              cases it <;> rfl
            rw [this, ih]
        have h := this c.buf { c with buf := [], clearQ := rest } q
        simp only at h
        rw [h]
  · unfold Cache.procStop withQ
    simp only []
    split <;> rfl

/-- the only place the flavour matters: a full bounded queue drops a batch, the unbounded one keeps it -/
theorem flavour_difference_is_the_queue (c : Cache) (k : Nat) (hq : c.cfg.pqCap = none) :
    (c.ringPush k).metrics.dropGets = c.metrics.dropGets :=
  C15.unbounded_queue_never_drops c k hq

-- same operations, quiescence between them -------------------------------------------------------

theorem withQ_met (c : Cache) (q : Option Nat) (f : Metrics → Metrics) : (withQ c q).met f = withQ (c.met f) q := by
  unfold withQ Cache.met
  simp only []
  split <;> rfl

theorem evictVictims_withQ (vs : List (Nat × Int)) (c : Cache) (q : Option Nat) :
    (withQ c q).evictVictims vs = withQ (c.evictVictims vs) q := by
  induction vs generalizing c with
  | nil => rfl
  | cons p rest ih =>
    obtain ⟨vk, vc⟩ := p
    simp only [Cache.evictVictims]
    have hs : (withQ c q).store = c.store := rfl
    rw [hs]
    cases (c.store.tryRemove vk 0).2 with
    | none => exact ih c
    | some e =>
      simp only
      have ht : (withQ c q).tracked = c.tracked := rfl
      rw [ht]
      split
      · rw [← ih]; congr 1
        unfold withQ Cache.met; simp only []; split <;> rfl
      · rw [← ih]; rfl

theorem handleItem_withQ (c : Cache) (q : Option Nat) (su : Nat → Nat → Bool) (est : Nat → Int)
    (refills : List (List (Nat × Int))) (it : Item) :
    (withQ c q).handleItem su est refills it = withQ (c.handleItem su est refills it) q := by
  cases it with
  | wait w => rfl
  | update k cost ext =>
    simp only [Cache.handleItem]
    unfold withQ Cache.met; simp only []; split <;> rfl
  | delete k cf =>
    simp only [Cache.handleItem]
    have hs : (withQ c q).store = c.store := rfl
    have hl : (withQ c q).lfu = c.lfu := rfl
    rw [hs, hl]
    cases (c.store.tryRemove k cf).2 <;> (simp only; split <;> first | rfl | (unfold withQ Cache.met; simp only []; split <;> rfl))
  | new k cf cost v exp =>
    simp only [Cache.handleItem]
    have hl : (withQ c q).lfu = c.lfu := rfl
    have hi : (withQ c q).internalCost cost = c.internalCost cost := rfl
    rw [hl, hi]
    split
    · rw [← evictVictims_withQ]
      congr 1
      unfold withQ Cache.met
      simp only []
      split <;> (try split) <;> rfl
    · unfold withQ Cache.met
      simp only []
      split <;> (try split) <;> rfl

theorem admitPending_withQ (c : Cache) (q : Option Nat) : (withQ c q).admitPending = withQ c.admitPending q := by
  cases c with
  | mk cfg store lfu buf pendingSends clearQ ring pq metrics tracked closed policyClosed procExited released cbs =>
    cases pendingSends with
    | nil => rfl
    | cons it rest =>
      by_cases h : buf.length < cfg.bufCap <;> simp [Cache.admitPending, withQ, h]

theorem sweepOne_withQ (c : Cache) (q : Option Nat) (now k cf : Nat) :
    (withQ c q).sweepOne now k cf = (withQ (c.sweepOne now k cf).1 q, (c.sweepOne now k cf).2) := by
  unfold Cache.sweepOne
  have hs : (withQ c q).store = c.store := rfl
  have hl : (withQ c q).lfu = c.lfu := rfl
  rw [hs, hl]
  cases c.store.expiration k with
  | none => rfl
  | some t =>
    simp only
    split
    · cases (c.store.tryRemove k cf).2 <;> (simp only; unfold withQ Cache.met; simp only []; split <;> rfl)
    · rfl

theorem sweepKeys_withQ (keys : List (Nat × Nat)) (c : Cache) (q : Option Nat) (now : Nat) (acc : List CB) :
    (withQ c q).sweepKeys now keys acc = (withQ (c.sweepKeys now keys acc).1 q, (c.sweepKeys now keys acc).2) := by
  induction keys generalizing c acc with
  | nil => rfl
  | cons p rest ih =>
    obtain ⟨k, cf⟩ := p
    simp only [Cache.sweepKeys, sweepOne_withQ]
    exact ih _ _

theorem deliverEvictions_withQ (cbs : List CB) (c : Cache) (q : Option Nat) :
    (withQ c q).deliverEvictions cbs = withQ (c.deliverEvictions cbs) q := by
  induction cbs generalizing c with
  | nil => rfl
  | cons cb rest ih =>
    simp only [Cache.deliverEvictions]
    rw [← ih]
    congr 1
    cases cb with
    | exit v => rfl
    | reject k cf v cost => rfl
    | evict k cf v cost =>
      simp only
      have ht : (withQ c q).tracked = c.tracked := rfl
      rw [ht]
      unfold withQ Cache.met
      simp only []
      split <;> (try split) <;> rfl

/-- with nothing queued for the policy worker a bounded queue of capacity ≥ 1 takes the batch just as
the unbounded one does -/
theorem ringPush_withQ_quiescent (c : Cache) (n : Nat) (hn : 0 < n) (hasync : c.cfg.pqCap = none)
    (hq : c.pq = []) (k : Nat) :
    (withQ c (some n)).ringPush k = withQ (c.ringPush k) (some n) := by
  unfold Cache.ringPush
  have h1 : (withQ c (some n)).ring = c.ring := rfl
  have h2 : (withQ c (some n)).cfg.ringCap = c.cfg.ringCap := rfl
  have h3 : (withQ c (some n)).policyClosed = c.policyClosed := rfl
  have h4 : (withQ c (some n)).cfg.pqCap = some n := rfl
  have h5 : (withQ c (some n)).pq = [] := hq
  simp only [h1, h2, h3, h4, h5, hasync, hq, List.length_nil, hn, decide_true, if_true]
  split
  · split
    · rfl
    · unfold withQ Cache.met; simp only []; split <;> rfl
  · rfl

/-- **at a quiescent point the two flavours take the same step**: from a state with no batch queued
for the policy worker, every action of every actor leads `Cache` (bounded queue, any capacity ≥ 1) and
`AsyncCache` (unbounded queue) to the same successor state (up to that one configuration field) and is
enabled in the one iff it is in the other. -/
theorem quiescent_step_agrees (su : Nat → Nat → Bool) (c : Cache) (n : Nat) (hn : 0 < n)
    (hasync : c.cfg.pqCap = none) (hq : c.pq = []) (a : Act) :
    (withQ c (some n)).step su a = (c.step su a).map (withQ · (some n)) := by
  cases a with
  | insert k cf v cost ttl now coster only =>
    simp only [Cache.step, Option.map_some, Option.some.injEq]
    exact (insert_flavour_independent c (some n) su k cf v cost ttl now coster only).2
  | get k cf now =>
    simp only [Cache.step, Option.map_some, Option.some.injEq]
    unfold Cache.get
    have hc : (withQ c (some n)).closed = c.closed := rfl
    rw [hc]
    split
    · rfl
    · simp only [ringPush_withQ_quiescent c n hn hasync hq k]
      have hs : (withQ (c.ringPush k) (some n)).store = (c.ringPush k).store := rfl
      rw [hs]
      cases (c.ringPush k).store.get k cf now <;> (dsimp only; exact withQ_met _ _ _)
  | getMut k cf now v =>
    simp only [Cache.step, Option.map_some, Option.some.injEq]
    unfold Cache.getMutWrite
    have hc : (withQ c (some n)).closed = c.closed := rfl
    rw [hc]
    split
    · rfl
    · simp only [ringPush_withQ_quiescent c n hn hasync hq k]
      have hs : (withQ (c.ringPush k) (some n)).store = (c.ringPush k).store := rfl
      rw [hs]
      cases ((c.ringPush k).store.getMutWrite k cf now v).2 with
      | none => dsimp only; exact withQ_met _ _ _
      | some old => dsimp only; unfold withQ Cache.met; simp only []; split <;> rfl
  | remove k cf =>
    simp only [Cache.step, Option.map_some, Option.some.injEq]
    exact (remove_flavour_independent c (some n) k cf).2
  | waitEnq w =>
    simp only [Cache.step, Option.map_some, Option.some.injEq]
    unfold Cache.waitEnq withQ; simp only []; split
    · rfl
    · split <;> rfl
  | clearReq w =>
    simp only [Cache.step, Option.map_some, Option.some.injEq]
    unfold Cache.clearReq withQ; simp only []; split <;> rfl
  | closeBegin w =>
    simp only [Cache.step, Option.map_some, Option.some.injEq]
    unfold Cache.closeBegin withQ; simp only []; split <;> rfl
  | updateMaxCost mc => rfl
  | procItem est refills =>
    simp only [Cache.step, Cache.procItem]
    have he : (withQ c (some n)).procExited = c.procExited := rfl
    have hb : (withQ c (some n)).buf = c.buf := rfl
    rw [he, hb]
    split
    · rfl
    · cases c.buf with
      | nil => rfl
      | cons it rest =>
        simp only [Option.map_some, Option.some.injEq]
        change (withQ { c with buf := rest } (some n)).admitPending.handleItem su est refills it = _
        rw [admitPending_withQ, handleItem_withQ]
  | procClear =>
    simp only [Cache.step]
    exact (processor_flavour_independent c (some n) 0 []).1
  | procTick now order =>
    simp only [Cache.step, Cache.procTick]
    have he : (withQ c (some n)).procExited = c.procExited := rfl
    rw [he]
    split
    · rfl
    · simp only [Option.map_some, Option.some.injEq]
      change ((withQ { c with store := { c.store with em := (c.store.em.tryCleanup now).1 } } (some n)).sweepKeys now order []).1.deliverEvictions
          ((withQ { c with store := { c.store with em := (c.store.em.tryCleanup now).1 } } (some n)).sweepKeys now order []).2.reverse = _
      rw [sweepKeys_withQ]
      simp only []
      rw [deliverEvictions_withQ]
  | procStop =>
    simp only [Cache.step]
    exact (processor_flavour_independent c (some n) 0 []).2
  | policyWorker =>
    simp only [Cache.step, Cache.policyWorkerStep]
    have hp : (withQ c (some n)).pq = c.pq := rfl
    rw [hp]
    cases c.pq <;> rfl
  | policyClose => rfl

/-- the policy worker has consumed every queued batch -/
def settle (c : Cache) : Cache := { c with pq := [] }

theorem settle_is_worker_run (su : Nat → Nat → Bool) (c : Cache) :
    Cache.run su c (List.replicate c.pq.length Act.policyWorker) = settle c := by
  generalize hn : c.pq.length = m
  induction m generalizing c with
  | zero =>
    have : c.pq = [] := List.length_eq_zero_iff.mp hn
    simp only [List.replicate, Cache.run, settle]
    cases c; simp_all
  | succ m ih =>
    cases hp : c.pq with
    | nil => simp [hp] at hn
    | cons b rest =>
      simp only [List.replicate, Cache.run, Cache.step, Cache.policyWorkerStep, hp, Option.map_some, Option.getD_some]
      rw [ih]
      · simp [settle]
      · simp [hp] at hn; simpa using hn

/-- a history "with quiescence between the operations": after every action the policy worker catches up -/
def seqRun (su : Nat → Nat → Bool) : Cache → List Act → Cache
  | c, [] => c
  | c, a :: rest => seqRun su (settle ((c.step su a).getD c)) rest

/-- **C19 in the model**: for the same sequence of operations with quiescence between them — any
client calls, any processor iterations, ticks, clears, close — the two flavours go through the same
states: every return value, the store, the remaining TTLs, the callback log and every metrics counter
are equal after every operation (they are all read off the state; the per-call answers are the
`…_flavour_independent` theorems above). In particular a bounded queue never drops a batch on such a
history. -/
theorem flavours_agree_with_quiescence (su : Nat → Nat → Bool) (n : Nat) (hn : 0 < n) (acts : List Act) :
    ∀ (c : Cache), c.cfg.pqCap = none → c.pq = [] →
      seqRun su (withQ c (some n)) acts = withQ (seqRun su c acts) (some n) := by
  induction acts with
  | nil => intro c _ _; rfl
  | cons a rest ih =>
    intro c hasync hq
    simp only [seqRun]
    rw [quiescent_step_agrees su c n hn hasync hq a]
    have hcfg : ∀ c' , c.step su a = some c' → c'.cfg.pqCap = none := by
      intro c' hs
      have := step_cfg su c c' a hs
      rw [this]; exact hasync
    cases hs : c.step su a with
    | none =>
      simp only [Option.map_none, Option.getD_none]
      have : settle (withQ c (some n)) = withQ (settle c) (some n) := rfl
      rw [this]
      exact ih (settle c) hasync rfl
    | some c' =>
      simp only [Option.map_some, Option.getD_some]
      have : settle (withQ c' (some n)) = withQ (settle c') (some n) := rfl
      rw [this]
      exact ih (settle c') (hcfg c' hs) rfl


-- non-vacuity: a freshly built AsyncCache meets the premises, and on a history with lookups (ring of 2,
-- so batches are flushed) the bounded flavour ends with the same counters
def exCfgA : Cfg := { itemSize := 56, ignoreInternal := false, bufCap := 4, ringCap := 2, pqCap := none, metricsOn := true }
def exHist : List Act :=
  [.insert 3 0 77 10 0 5 0 false, .procItem (fun _ => 0) [], .get 3 0 6, .get 4 0 6, .get 3 0 7, .get 3 0 8]
example : (Cache.init exCfgA 100 5).cfg.pqCap = none ∧ (Cache.init exCfgA 100 5).pq = [] := ⟨rfl, rfl⟩
example : ((seqRun (fun _ _ => true) (withQ (Cache.init exCfgA 100 5) (some 1)) exHist).metrics.keepGets,
           (seqRun (fun _ _ => true) (withQ (Cache.init exCfgA 100 5) (some 1)) exHist).metrics.dropGets,
           (seqRun (fun _ _ => true) (withQ (Cache.init exCfgA 100 5) (some 1)) exHist).metrics.hit) = (4, 0, 3) := by decide

end Stretto.C19

#print axioms Stretto.C19.get_result_flavour_independent
#print axioms Stretto.C19.get_ttl_flavour_independent
#print axioms Stretto.C19.insert_flavour_independent
#print axioms Stretto.C19.remove_flavour_independent
#print axioms Stretto.C19.protocol_flavour_independent
#print axioms Stretto.C19.processor_flavour_independent
#print axioms Stretto.C19.flavour_difference_is_the_queue
#print axioms Stretto.C19.quiescent_step_agrees
#print axioms Stretto.C19.settle_is_worker_run
#print axioms Stretto.C19.flavours_agree_with_quiescence
