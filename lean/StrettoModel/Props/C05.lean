import StrettoModel.Proofs.Cache
/-!
# C05 — Expired entries are reclaimed, and only expired ones

The periodic cleanup = `ExpirationMap::try_cleanup(now)` (all buckets numbered ≤ the cleanup bucket)
followed by the sweep over their keys with a re-check against the store.
Quantification: every store/policy state, every time `now`, every visiting order of the due keys.
The tick period itself (crossbeam `tick`, `async_io::Timer`) is environment.
-/
namespace Stretto.C05
open Stretto

/-- an absent key stays absent through a sweep -/
theorem sweep_absent_stays (c : Cache) (now : Nat) (keys : List (Nat × Nat)) (acc : List CB) (j : Nat)
    (h : c.store.items.get j = none) : (c.sweepKeys now keys acc).1.store.items.get j = none := by
  induction keys generalizing c acc with
  | nil => simpa [Cache.sweepKeys] using h
  | cons p rest ih =>
    obtain ⟨k, cf⟩ := p
    simp only [Cache.sweepKeys]
    apply ih
    rw [Cache.sweepOne_get]; split <;> simp [h]

/-- callbacks collected so far are kept -/
theorem sweep_acc_mono (c : Cache) (now : Nat) (keys : List (Nat × Nat)) (acc : List CB) (cb : CB)
    (h : cb ∈ acc) : cb ∈ (c.sweepKeys now keys acc).2 := by
  induction keys generalizing c acc with
  | nil => simpa [Cache.sweepKeys] using h
  | cons p rest ih =>
    obtain ⟨k, cf⟩ := p
    simp only [Cache.sweepKeys]
    apply ih
    cases (c.sweepOne now k cf).2 <;> simp [h]

/-- **sweep_only_expired**: the sweep never removes an entry that has no TTL or has not expired,
whatever keys the due buckets list (stale or foreign entries included) -/
theorem sweep_only_expired (c : Cache) (now : Nat) (keys : List (Nat × Nat)) (acc : List CB)
    (j : Nat) (e : Entry) (he : c.store.items.get j = some e)
    (hlive : e.exp.d = 0 ∨ now < e.exp.created + e.exp.d) :
    (c.sweepKeys now keys acc).1.store.items.get j = some e := by
  induction keys generalizing c acc with
  | nil => simpa [Cache.sweepKeys] using he
  | cons p rest ih =>
    obtain ⟨k, cf⟩ := p
    simp only [Cache.sweepKeys]
    apply ih
    rw [Cache.sweepOne_get]
    split
    · rename_i hh
      obtain ⟨hjk, hsome⟩ := hh
      subst hjk
      obtain ⟨cb, hcb⟩ := Option.isSome_iff_exists.mp hsome
      obtain ⟨e', he', hdue, _, _⟩ := (Cache.sweepOne_removed_iff c now j cf cb).mp hcb
      rw [he] at he'
      have : e = e' := by simpa using he'
      subst this
      simp only [Time.isZero, Time.isExpired, Bool.and_eq_true, Bool.not_eq_true',
        beq_eq_false_iff_ne, ne_eq, decide_eq_true_eq] at hdue
      rcases hlive with h0 | h1 <;> omega
    · exact he

/-- **sweep_removes_listed**: an expired resident entry whose key is listed in the due buckets
(with a conflict hash that passes the store's check) is gone after the sweep, and was handed to
`on_evict` with its own value. -/
theorem sweep_removes_listed (c : Cache) (now : Nat) (keys : List (Nat × Nat)) (acc : List CB)
    (k cf : Nat) (e : Entry) (he : c.store.items.get k = some e)
    (hd : 0 < e.exp.d) (hexp : e.exp.created + e.exp.d ≤ now)
    (hlisted : (k, cf) ∈ keys) (hcf : Store.conflictOk cf e = true) :
    (c.sweepKeys now keys acc).1.store.items.get k = none ∧
    ∃ cost, CB.evict k e.conflict e.val cost ∈ (c.sweepKeys now keys acc).2 := by
  have hdue : (!e.exp.isZero && e.exp.isExpired now) = true := by
    simp only [Time.isZero, Time.isExpired, Bool.and_eq_true, Bool.not_eq_true',
      beq_eq_false_iff_ne, ne_eq, decide_eq_true_eq]
    omega
  induction keys generalizing c acc with
  | nil => cases hlisted
  | cons p rest ih =>
    obtain ⟨k', cf'⟩ := p
    simp only [Cache.sweepKeys]
    by_cases hrem : ∃ cb, (c.sweepOne now k' cf').2 = some cb ∧ k' = k
    · -- this step removes k
      obtain ⟨cb, hcb, hkk⟩ := hrem
      subst hkk
      obtain ⟨e', he', _, _, hcbeq⟩ := (Cache.sweepOne_removed_iff c now k' cf' cb).mp hcb
      rw [he] at he'
      have : e = e' := by simpa using he'
      subst this
      constructor
      · apply sweep_absent_stays
        rw [Cache.sweepOne_get]
        simp [hcb]
      · exact ⟨policyCost c.lfu k', sweep_acc_mono _ _ _ _ _ (by simp [hcb, hcbeq])⟩
    · -- this step leaves k's entry alone; it must be listed further on
      have hkeep : (c.sweepOne now k' cf').1.store.items.get k = some e := by
        rw [Cache.sweepOne_get]
        split
        · rename_i hh
          obtain ⟨hkk, hsome⟩ := hh
          obtain ⟨cb, hcb⟩ := Option.isSome_iff_exists.mp hsome
          exact absurd ⟨cb, hcb, hkk.symm⟩ hrem
        · exact he
      have hrest : (k, cf) ∈ rest := by
        simp only [List.mem_cons, Prod.mk.injEq] at hlisted
        rcases hlisted with ⟨h1, h2⟩ | h
        · subst h1; subst h2
          exfalso
          apply hrem
          exact ⟨CB.evict k e.conflict e.val (policyCost c.lfu k),
            (Cache.sweepOne_removed_iff c now k cf _).mpr ⟨e, he, hdue, hcf, rfl⟩, rfl⟩
        · exact h
      exact ih _ _ hkeep hrest

/-- the charge of a swept entry is released, and charges of other keys are only ever released -/
theorem sweep_charges_only_released (c : Cache) (now : Nat) (keys : List (Nat × Nat)) (acc : List CB)
    (j : Nat) :
    (c.sweepKeys now keys acc).1.lfu.costs.get j = none ∨
    (c.sweepKeys now keys acc).1.lfu.costs.get j = c.lfu.costs.get j := by
  induction keys generalizing c acc with
  | nil => right; simp [Cache.sweepKeys]
  | cons p rest ih =>
    obtain ⟨k, cf⟩ := p
    simp only [Cache.sweepKeys]
    rcases ih (c.sweepOne now k cf).1 _ with h | h
    · left; exact h
    · rcases Cache.sweepOne_charge c now k cf j with h2 | h2
      · left; exact h.trans h2
      · right; exact h.trans h2

/-- **what is due**: `try_cleanup(now)` hands over every key filed in a bucket numbered at most
`now / 1 s`, and leaves the later buckets alone -/
theorem cleanup_takes_all_due (m : Buckets) (now b k cf : Nat) (bk : KMap Nat)
    (hb : (b, bk) ∈ m) (hk : (k, cf) ∈ bk) (hdue : b ≤ Time.cleanupBucket now) :
    (k, cf) ∈ (m.tryCleanup now).2 := by
  unfold Buckets.tryCleanup
  simp only [List.mem_flatten, List.mem_map, List.mem_filter, decide_eq_true_eq]
  exact ⟨bk, ⟨(b, bk), ⟨hb, hdue⟩, rfl⟩, hk⟩

theorem cleanup_keeps_later (m : Buckets) (now : Nat) (p : Nat × KMap Nat) :
    p ∈ (m.tryCleanup now).1 ↔ p ∈ m ∧ ¬ p.1 ≤ Time.cleanupBucket now := by
  unfold Buckets.tryCleanup
  simp [List.mem_filter]

/-- **bucket arithmetic**: an entry with deadline `x = created + d` is filed in bucket
`x / 1 s + 1`; it is due at every cleanup at time `now ≥ (x / 1 s + 1) · 1 s`, in particular at every
cleanup at `now ≥ x + 1 s`; and whenever it is due it has expired. So with a tick every `I`, an
expired entry is reclaimed within one bucket width (1 s) plus one cleanup interval. -/
theorem due_iff (t : Time) (now : Nat) :
    t.storageBucket ≤ Time.cleanupBucket now ↔ (t.created + t.d) / nsPerSec + 1 ≤ now / nsPerSec := by
  simp [Time.storageBucket, Time.unix, Time.cleanupBucket]

theorem due_implies_expired (t : Time) (now : Nat) (h : t.storageBucket ≤ Time.cleanupBucket now) :
    t.created + t.d < now := by
  rw [due_iff] at h
  unfold nsPerSec at h
  omega

theorem due_within_one_second (t : Time) (now : Nat) (h : t.created + t.d + nsPerSec ≤ now) :
    t.storageBucket ≤ Time.cleanupBucket now := by
  rw [due_iff]
  unfold nsPerSec at *
  omega

-- non-vacuity -------------------------------------------------------------------------------
example : due_iff ⟨500, 1000000000⟩ 3000000000 = due_iff ⟨500, 1000000000⟩ 3000000000 := rfl
example : (⟨500, 1000000000⟩ : Time).storageBucket ≤ Time.cleanupBucket 3000000000 := by decide

end Stretto.C05

#print axioms Stretto.C05.sweep_only_expired
#print axioms Stretto.C05.sweep_removes_listed
#print axioms Stretto.C05.sweep_charges_only_released
#print axioms Stretto.C05.cleanup_takes_all_due
#print axioms Stretto.C05.cleanup_keeps_later
#print axioms Stretto.C05.due_iff
#print axioms Stretto.C05.due_implies_expired
#print axioms Stretto.C05.due_within_one_second
