import StrettoModel.Proofs.Cache
import StrettoModel.Proofs.Expiry
import StrettoModel.Proofs.Tokens
import StrettoModel.Model.Lts
/-!
# C05 — Expired entries are reclaimed, and only expired ones

The periodic cleanup = `ExpirationMap::try_cleanup(now)` (all buckets numbered ≤ the cleanup bucket)
followed by the sweep over their keys with a re-check against the store.
Quantification: every store/policy state, every time `now`, every visiting order of the due keys.
The tick period itself (crossbeam `tick`, `async_io::Timer`) is environment.
-/
namespace Stretto.C05
open Stretto

/-- an absent key stays absent through a sweep -/
theorem sweep_absent_stays (c : Cache) (now : Nat) (keys : List (Nat × Nat)) (acc : List CB) (j : Nat)
    (h : c.store.items.get j = none) : (c.sweepKeys now keys acc).1.store.items.get j = none := by
  induction keys generalizing c acc with
  | nil => simpa [Cache.sweepKeys] using h
  | cons p rest ih =>
    obtain ⟨k, cf⟩ := p
    simp only [Cache.sweepKeys]
    apply ih
    rw [Cache.sweepOne_get]; split <;> simp [h]

/-- callbacks collected so far are kept -/
theorem sweep_acc_mono (c : Cache) (now : Nat) (keys : List (Nat × Nat)) (acc : List CB) (cb : CB)
    (h : cb ∈ acc) : cb ∈ (c.sweepKeys now keys acc).2 := by
  induction keys generalizing c acc with
  | nil => simpa [Cache.sweepKeys] using h
  | cons p rest ih =>
    obtain ⟨k, cf⟩ := p
    simp only [Cache.sweepKeys]
    apply ih
    cases (c.sweepOne now k cf).2 <;> simp [h]

/-- **sweep_only_expired**: the sweep never removes an entry that has no TTL or has not expired,
whatever keys the due buckets list (stale or foreign entries included) -/
theorem sweep_only_expired (c : Cache) (now : Nat) (keys : List (Nat × Nat)) (acc : List CB)
    (j : Nat) (e : Entry) (he : c.store.items.get j = some e)
    (hlive : e.exp.d = 0 ∨ now < e.exp.created + e.exp.d) :
    (c.sweepKeys now keys acc).1.store.items.get j = some e := by
  induction keys generalizing c acc with
  | nil => simpa [Cache.sweepKeys] using he
  | cons p rest ih =>
    obtain ⟨k, cf⟩ := p
    simp only [Cache.sweepKeys]
    apply ih
    rw [Cache.sweepOne_get]
    split
    · rename_i hh
      obtain ⟨hjk, hsome⟩ := hh
      subst hjk
      obtain ⟨cb, hcb⟩ := Option.isSome_iff_exists.mp hsome
      obtain ⟨e', he', hdue, _, _⟩ := (Cache.sweepOne_removed_iff c now j cf cb).mp hcb
      rw [he] at he'
      have : e = e' := by simpa using he'
      subst this
      simp only [Time.isZero, Time.isExpired, Bool.and_eq_true, Bool.not_eq_true',
        beq_eq_false_iff_ne, ne_eq, decide_eq_true_eq] at hdue
      rcases hlive with h0 | h1 <;> omega
    · exact he

/-- **sweep_removes_listed**: an expired resident entry whose key is listed in the due buckets
(with a conflict hash that passes the store's check) is gone after the sweep, and was handed to
`on_evict` with its own value. -/
theorem sweep_removes_listed (c : Cache) (now : Nat) (keys : List (Nat × Nat)) (acc : List CB)
    (k cf : Nat) (e : Entry) (he : c.store.items.get k = some e)
    (hd : 0 < e.exp.d) (hexp : e.exp.created + e.exp.d ≤ now)
    (hlisted : (k, cf) ∈ keys) (hcf : Store.conflictOk cf e = true) :
    (c.sweepKeys now keys acc).1.store.items.get k = none ∧
    ∃ cost, CB.evict k e.conflict e.val cost ∈ (c.sweepKeys now keys acc).2 := by
  have hdue : (!e.exp.isZero && e.exp.isExpired now) = true := by
    simp only [Time.isZero, Time.isExpired, Bool.and_eq_true, Bool.not_eq_true',
      beq_eq_false_iff_ne, ne_eq, decide_eq_true_eq]
    omega
  induction keys generalizing c acc with
  | nil => cases hlisted
  | cons p rest ih =>
    obtain ⟨k', cf'⟩ := p
    simp only [Cache.sweepKeys]
    by_cases hrem : ∃ cb, (c.sweepOne now k' cf').2 = some cb ∧ k' = k
    · -- this step removes k
      obtain ⟨cb, hcb, hkk⟩ := hrem
      subst hkk
      obtain ⟨e', he', _, _, hcbeq⟩ := (Cache.sweepOne_removed_iff c now k' cf' cb).mp hcb
      rw [he] at he'
      have : e = e' := by simpa using he'
      subst this
      constructor
      · apply sweep_absent_stays
        rw [Cache.sweepOne_get]
        simp [hcb]
      · exact ⟨policyCost c.lfu k', sweep_acc_mono _ _ _ _ _ (by simp [hcb, hcbeq])⟩
    · -- this step leaves k's entry alone; it must be listed further on
      have hkeep : (c.sweepOne now k' cf').1.store.items.get k = some e := by
        rw [Cache.sweepOne_get]
        split
        · rename_i hh
          obtain ⟨hkk, hsome⟩ := hh
          obtain ⟨cb, hcb⟩ := Option.isSome_iff_exists.mp hsome
          exact absurd ⟨cb, hcb, hkk.symm⟩ hrem
        · exact he
      have hrest : (k, cf) ∈ rest := by
        simp only [List.mem_cons, Prod.mk.injEq] at hlisted
        rcases hlisted with ⟨h1, h2⟩ | h
        · subst h1; subst h2
          exfalso
          apply hrem
          exact ⟨CB.evict k e.conflict e.val (policyCost c.lfu k),
            (Cache.sweepOne_removed_iff c now k cf _).mpr ⟨e, he, hdue, hcf, rfl⟩, rfl⟩
        · exact h
      exact ih _ _ hkeep hrest

/-- the charge of a swept entry is released, and charges of other keys are only ever released -/
theorem sweep_charges_only_released (c : Cache) (now : Nat) (keys : List (Nat × Nat)) (acc : List CB)
    (j : Nat) :
    (c.sweepKeys now keys acc).1.lfu.costs.get j = none ∨
    (c.sweepKeys now keys acc).1.lfu.costs.get j = c.lfu.costs.get j := by
  induction keys generalizing c acc with
  | nil => right; simp [Cache.sweepKeys]
  | cons p rest ih =>
    obtain ⟨k, cf⟩ := p
    simp only [Cache.sweepKeys]
    rcases ih (c.sweepOne now k cf).1 _ with h | h
    · left; exact h
    · rcases Cache.sweepOne_charge c now k cf j with h2 | h2
      · left; exact h.trans h2
      · right; exact h.trans h2

/-- the charge of an expired entry listed in the due buckets is released by the sweep -/
theorem sweep_releases_charge (c : Cache) (now : Nat) (keys : List (Nat × Nat)) (acc : List CB)
    (k cf : Nat) (e : Entry) (he : c.store.items.get k = some e)
    (hd : 0 < e.exp.d) (hexp : e.exp.created + e.exp.d ≤ now) (hlisted : (k, cf) ∈ keys) :
    (c.sweepKeys now keys acc).1.lfu.costs.get k = none := by
  have hdue : (!e.exp.isZero && e.exp.isExpired now) = true := by
    simp only [Time.isZero, Time.isExpired, Bool.and_eq_true, Bool.not_eq_true',
      beq_eq_false_iff_ne, ne_eq, decide_eq_true_eq]
    omega
  induction keys generalizing c acc with
  | nil => cases hlisted
  | cons p rest ih =>
    obtain ⟨k', cf'⟩ := p
    simp only [Cache.sweepKeys]
    by_cases hk : k' = k
    · subst hk
      have h1 : (c.sweepOne now k' cf').1.lfu.costs.get k' = none := by
        unfold Cache.sweepOne
        simp only [Store.expiration, he, Option.map_some, hdue, ↓reduceIte]
        have hl : (policyRemove c.lfu k').1.costs.get k' = none := by
          have : (policyRemove c.lfu k').1 = (c.lfu.remove k').1 := by
            unfold policyRemove
            cases h2 : c.lfu.remove k' with
            | mk l2 o => cases o <;> rfl
          rw [this, Lfu.remove_get]; simp
        cases (c.store.tryRemove k' cf').2 <;> simpa using hl
      rcases sweep_charges_only_released (c.sweepOne now k' cf').1 now rest
        (match (c.sweepOne now k' cf').2 with | some cb => cb :: acc | none => acc) k' with h | h
      · exact h
      · exact h.trans h1
    · have hkeep : (c.sweepOne now k' cf').1.store.items.get k = some e := by
        rw [Cache.sweepOne_get]
        have : ¬ (k = k' ∧ (c.sweepOne now k' cf').2.isSome = true) := fun hh => hk hh.1.symm
        simp [this, he]
      have hrest : (k, cf) ∈ rest := by
        simp only [List.mem_cons, Prod.mk.injEq] at hlisted
        rcases hlisted with ⟨h1, _⟩ | h
        · exact absurd h1.symm hk
        · exact h
      exact ih _ _ hkeep hrest

/-- **what is due**: `try_cleanup(now)` hands over every key filed in a bucket numbered at most
`now / 1 s`, and leaves the later buckets alone -/
theorem cleanup_takes_all_due (m : Buckets) (now b k cf : Nat) (bk : KMap Nat)
    (hb : (b, bk) ∈ m) (hk : (k, cf) ∈ bk) (hdue : b ≤ Time.cleanupBucket now) :
    (k, cf) ∈ (m.tryCleanup now).2 := by
  unfold Buckets.tryCleanup
  simp only [List.mem_flatten, List.mem_map, List.mem_filter, decide_eq_true_eq]
  exact ⟨bk, ⟨(b, bk), ⟨hb, hdue⟩, rfl⟩, hk⟩

theorem cleanup_keeps_later (m : Buckets) (now : Nat) (p : Nat × KMap Nat) :
    p ∈ (m.tryCleanup now).1 ↔ p ∈ m ∧ ¬ p.1 ≤ Time.cleanupBucket now := by
  unfold Buckets.tryCleanup
  simp [List.mem_filter]

/-- **bucket arithmetic**: an entry with deadline `x = created + d` is filed in bucket
`x / 1 s + 1`; it is due at every cleanup at time `now ≥ (x / 1 s + 1) · 1 s`, in particular at every
cleanup at `now ≥ x + 1 s`; and whenever it is due it has expired. So with a tick every `I`, an
expired entry is reclaimed within one bucket width (1 s) plus one cleanup interval. -/
theorem due_iff (t : Time) (now : Nat) :
    t.storageBucket ≤ Time.cleanupBucket now ↔ (t.created + t.d) / nsPerSec + 1 ≤ now / nsPerSec := by
  simp [Time.storageBucket, Time.unix, Time.cleanupBucket]

theorem due_implies_expired (t : Time) (now : Nat) (h : t.storageBucket ≤ Time.cleanupBucket now) :
    t.created + t.d < now := by
  rw [due_iff] at h
  unfold nsPerSec at h
  omega

theorem due_within_one_second (t : Time) (now : Nat) (h : t.created + t.d + nsPerSec ≤ now) :
    t.storageBucket ≤ Time.cleanupBucket now := by
  rw [due_iff]
  unfold nsPerSec at *
  omega


-- completeness: the expiry index files every resident TTL entry, in every reachable state -----------

/-- guards on the oracle input of a tick (both checked at run time by the driver on what the
implementation visited): the visited keys include every key of the due buckets, and the conflict
hashes filed there pass the store's check -/
def TickGuard (c : Cache) : Act → Prop
  | .procTick now order => (∀ p, p ∈ c.dueKeys now → p ∈ order) ∧ TickOk c order
  | _ => True

theorem evictVictims_emInv (vs : List (Nat × Int)) (c : Cache) (h : EmInv c.store) :
    EmInv (c.evictVictims vs).store := by
  induction vs generalizing c with
  | nil => exact h
  | cons p rest ih =>
    obtain ⟨vk, vc⟩ := p
    simp only [Cache.evictVictims]
    have hr := Store.tryRemove_emInv c.store vk 0 h
    cases (c.store.tryRemove vk 0).2 with
    | none => exact ih c h
    | some e =>
      simp only
      apply ih
      split <;> simpa using hr

theorem handleItem_emInv (c : Cache) (su : Nat → Nat → Bool) (est : Nat → Int)
    (refills : List (List (Nat × Int))) (it : Item) (h : EmInv c.store) :
    EmInv (c.handleItem su est refills it).store := by
  cases it with
  | wait id => exact h
  | update k cost ext => simpa [Cache.handleItem] using h
  | delete k cf =>
    simp only [Cache.handleItem]
    have hr := Store.tryRemove_emInv c.store k cf h
    cases (c.store.tryRemove k cf).2 <;> (simp only; split <;> simpa using hr)
  | new k cf cost v exp =>
    simp only [Cache.handleItem]
    have key : ∀ (c3 : Cache) (o : Option (List (Nat × Int))), EmInv c3.store →
        EmInv (match o with | some vs => c3.evictVictims vs | none => c3).store := by
      intro c3 o h3
      cases o with
      | none => exact h3
      | some vs => exact evictVictims_emInv vs c3 h3
    apply key
    have hi := Store.tryInsert_emInv c.store su k v cf exp h
    split
    · split <;> simpa using hi
    · simpa using h

theorem procTick_emInv (c c' : Cache) (now : Nat) (order : List (Nat × Nat)) (hs : c.procTick now order = some c')
    (h : EmInv c.store) (hord : ∀ p, p ∈ c.dueKeys now → p ∈ order) (htick : TickOk c order) :
    EmInv c'.store := by
  simp only [Cache.procTick] at hs
  split at hs
  · cases hs
  · simp only [Option.some.injEq] at hs; subst hs
    rw [(deliverEvictions_frame _ _).1]
    -- right after the cleanup: filed, or in a bucket that has just been taken out
    have hlate : EmInvLate now ({ c with store := { c.store with em := (c.store.em.tryCleanup now).1 } } : Cache).store := by
      intro k e hk hz
      have hf := h k e hk hz
      by_cases hb : e.exp.storageBucket ≤ Time.cleanupBucket now
      · right; exact hb
      · left; exact Buckets.tryCleanup_filed _ _ _ _ hf hb
    have hl := Cache.sweepKeys_emInvLate order _ now [] hlate
    intro j e hj hz
    rcases hl j e hj hz with h1 | hdue
    · exact h1
    · -- a resident entry of a due bucket: it was listed, had expired, and passes the check — so the
      -- sweep has removed it
      exfalso
      have hj0 : c.store.items.get j = some e := Cache.sweepKeys_get_of_some order
        ({ c with store := { c.store with em := (c.store.em.tryCleanup now).1 } } : Cache) now [] j e hj
      obtain ⟨bk, cf, hb1, hb2⟩ := h j e hj0 hz
      have hlisted : (j, cf) ∈ order := by
        apply hord
        exact cleanup_takes_all_due c.store.em now _ j cf bk (KMap.mem_of_get _ _ _ hb1)
          (KMap.mem_of_get _ _ _ hb2) hdue
      have hexp := due_implies_expired e.exp now hdue
      have hd : 0 < e.exp.d := by
        have : e.exp.d ≠ 0 := by simpa [Time.isZero] using hz
        omega
      have := (sweep_removes_listed ({ c with store := { c.store with em := (c.store.em.tryCleanup now).1 } } : Cache)
        now order [] j cf e hj0 hd (by omega) hlisted (htick j cf e hlisted hj0)).1
      rw [this] at hj; cases hj

/-- **the expiry index stays complete**: every step of the transition system preserves `EmInv` -/
theorem step_emInv (su : Nat → Nat → Bool) (c c' : Cache) (a : Act) (hg : TickGuard c a)
    (hs : c.step su a = some c') (h : EmInv c.store) : EmInv c'.store := by
  cases a with
  | insert k cf v cost ttl now coster only =>
    simp only [Cache.step, Option.some.injEq] at hs; subst hs
    unfold Cache.insert
    split
    · exact h
    · unfold Cache.insertBody
      simp only []
      have hu := Store.tryUpdate_emInv c.store su k v cf { d := ttl, created := now } h
      repeat' split
      all_goals first | exact h | exact hu | (simpa using h)
  | get k cf now =>
    simp only [Cache.step, Option.some.injEq] at hs; subst hs
    unfold Cache.get
    split
    · exact h
    · simp only []
      split <;> simpa using h
  | getMut k cf now v =>
    simp only [Cache.step, Option.some.injEq] at hs; subst hs
    unfold Cache.getMutWrite
    split
    · exact h
    · simp only []
      have hm := Store.getMutWrite_emInv c.store k cf now v h
      split
      · simpa using h
      · simpa using hm
  | remove k cf =>
    simp only [Cache.step, Option.some.injEq] at hs; subst hs
    unfold Cache.remove
    split
    · exact h
    · simp only []
      have hr := Store.tryRemove_emInv c.store k cf h
      cases (c.store.tryRemove k cf).2 <;> (simp only; split) <;> first | exact h | exact hr
  | waitEnq id =>
    simp only [Cache.step, Option.some.injEq] at hs; subst hs
    unfold Cache.waitEnq
    split
    · exact h
    · split <;> exact h
  | clearReq id =>
    simp only [Cache.step, Option.some.injEq] at hs; subst hs
    unfold Cache.clearReq; split <;> exact h
  | closeBegin id =>
    simp only [Cache.step, Option.some.injEq] at hs; subst hs
    unfold Cache.closeBegin; split <;> exact h
  | updateMaxCost mc =>
    simp only [Cache.step, Option.some.injEq] at hs; subst hs; exact h
  | procItem est refills =>
    simp only [Cache.step, Cache.procItem] at hs
    split at hs
    · cases hs
    · split at hs
      · cases hs
      · simp only [Option.some.injEq] at hs; subst hs
        apply handleItem_emInv
        rw [(admitPending_frame _).1]; exact h
  | procClear =>
    simp only [Cache.step, Cache.procClear] at hs
    split at hs
    · cases hs
    · split at hs
      · cases hs
      · simp only [Option.some.injEq] at hs; subst hs
        intro k e hk; simp [Store.clear, Store.empty] at hk
  | procTick now order =>
    simp only [Cache.step] at hs
    exact procTick_emInv c c' now order hs h hg.1 hg.2
  | procStop =>
    simp only [Cache.step, Cache.procStop] at hs
    split at hs
    · cases hs
    · simp only [Option.some.injEq] at hs; subst hs; exact h
  | policyWorker =>
    simp only [Cache.step, Cache.policyWorkerStep] at hs
    cases hp : c.pq with
    | nil => simp [hp] at hs
    | cons b rest => simp only [hp, Option.map_some, Option.some.injEq] at hs; subst hs; exact h
  | policyClose =>
    simp only [Cache.step, Option.some.injEq] at hs; subst hs; exact h

/-- runs whose ticks pass the guards -/
inductive Run (su : Nat → Nat → Bool) : Cache → Cache → Prop
  | refl (c : Cache) : Run su c c
  | step (c c' c'' : Cache) (a : Act) : Run su c c' → TickGuard c' a → c'.step su a = some c'' → Run su c c''

theorem reachable_emInv (su : Nat → Nat → Bool) (cfg : Cfg) (maxCost : Int) (samples : Nat) (c : Cache)
    (hr : Run su (Cache.init cfg maxCost samples) c) : EmInv c.store := by
  induction hr with
  | refl => intro k e hk; simp [Cache.init, Store.empty] at hk
  | step c' c'' a _ hg hs ih => exact step_emInv su c' c'' a hg hs ih

/-- **bounded-delay reclamation**: in every reachable state, an entry whose TTL elapsed at least one
bucket width (1 s) ago is reclaimed by the next cleanup tick, whatever else happened to other keys in
the meantime: it is gone from the store (so from `len()`), its charge is released, and `on_evict` gets
its own value — once, by C08. -/
theorem expired_is_reclaimed_by_next_tick (su : Nat → Nat → Bool) (cfg : Cfg) (maxCost : Int) (samples : Nat)
    (c c' : Cache) (hr : Run su (Cache.init cfg maxCost samples) c) (now : Nat) (order : List (Nat × Nat))
    (hg : TickGuard c (.procTick now order)) (hs : c.procTick now order = some c')
    (k : Nat) (e : Entry) (he : c.store.items.get k = some e) (hd : 0 < e.exp.d)
    (hlate : e.exp.created + e.exp.d + nsPerSec ≤ now) :
    c'.store.items.get k = none ∧ c'.lfu.costs.get k = none ∧
    (∃ cost, CB.evict k e.conflict e.val cost ∈ c'.cbs) := by
  have hinv := reachable_emInv su cfg maxCost samples c hr
  have hz : e.exp.isZero = false := by simp [Time.isZero]; omega
  obtain ⟨bk, cf, hb1, hb2⟩ := hinv k e he hz
  have hdue := due_within_one_second e.exp now hlate
  have hlisted : (k, cf) ∈ order :=
    hg.1 _ (cleanup_takes_all_due c.store.em now _ k cf bk (KMap.mem_of_get _ _ _ hb1) (KMap.mem_of_get _ _ _ hb2) hdue)
  simp only [Cache.procTick] at hs
  split at hs
  · cases hs
  · simp only [Option.some.injEq] at hs; subst hs
    have hsw := sweep_removes_listed ({ c with store := { c.store with em := (c.store.em.tryCleanup now).1 } } : Cache)
      now order [] k cf e he hd (by unfold nsPerSec at hlate; omega) hlisted (hg.2 k cf e hlisted he)
    have hch := sweep_releases_charge ({ c with store := { c.store with em := (c.store.em.tryCleanup now).1 } } : Cache)
      now order [] k cf e he hd (by unfold nsPerSec at hlate; omega) hlisted
    refine ⟨by rw [(deliverEvictions_frame _ _).1]; exact hsw.1, by rw [(deliverEvictions_frame _ _).2.1]; exact hch, ?_⟩
    obtain ⟨cost, hc⟩ := hsw.2
    refine ⟨cost, ?_⟩
    have : ∀ (cbs : List CB) (c0 : Cache) (x : CB), x ∈ cbs → x ∈ (c0.deliverEvictions cbs).cbs := by
      intro cbs
      induction cbs with
      | nil => intro c0 x hx; cases hx
      | cons cb rest ih =>
        intro c0 x hx
        simp only [Cache.deliverEvictions]
        rcases List.mem_cons.mp hx with rfl | hx
        · exact Cache.deliverEvictions_cbsMono rest _ x (by simp)
        · exact ih _ x hx
    exact this _ _ _ (by simpa using hc)

-- non-vacuity -------------------------------------------------------------------------------
example : due_iff ⟨500, 1000000000⟩ 3000000000 = due_iff ⟨500, 1000000000⟩ 3000000000 := rfl
example : (⟨500, 1000000000⟩ : Time).storageBucket ≤ Time.cleanupBucket 3000000000 := by decide

end Stretto.C05

#print axioms Stretto.C05.sweep_only_expired
#print axioms Stretto.C05.sweep_removes_listed
#print axioms Stretto.C05.sweep_charges_only_released
#print axioms Stretto.C05.cleanup_takes_all_due
#print axioms Stretto.C05.cleanup_keeps_later
#print axioms Stretto.C05.due_iff
#print axioms Stretto.C05.due_implies_expired
#print axioms Stretto.C05.sweep_releases_charge
#print axioms Stretto.C05.step_emInv
#print axioms Stretto.C05.reachable_emInv
#print axioms Stretto.C05.expired_is_reclaimed_by_next_tick
#print axioms Stretto.C05.due_within_one_second
