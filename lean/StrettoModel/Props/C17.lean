import StrettoModel.Proofs.Metrics
import StrettoModel.Model.Lts
import StrettoModel.Model.Histogram
/-!
# C17 — Metrics obey conservation laws

The eleven counters are `u64` totals (the stripes summed); every law is therefore stated modulo
2^64, which is plain equality whenever the true quantities fit in a `u64`. Quantification: every run
of the transition system of `Model/Lts.lean` (any interleaving of client calls with the processor's
and the policy worker's steps), every validator, every oracle input.
-/
namespace Stretto.C17
open Stretto

theorem init_minv (cfg : Cfg) (maxCost : Int) (samples : Nat) : MInv (Cache.init cfg maxCost samples) := by
  refine ⟨⟨KMap.wf_nil, by simp [Cache.init, Cache.mcore, KMap.total]⟩, ?_⟩
  intro _
  simp [Cache.init, Cache.mcore]

/-- `handle_item` keeps the conservation invariant -/
theorem handleItem_minv (c : Cache) (su : Nat → Nat → Bool) (est : Nat → Int)
    (refills : List (List (Nat × Int))) (it : Item) (hi : MInv c) :
    MInv (c.handleItem su est refills it) := by
  cases it with
  | wait w => exact minv_transfer c _ rfl hi
  | update k cost ext =>
    simp only [Cache.handleItem]
    have hb := (Lfu.update_bal c.lfu k (c.internalCost cost + ext) hi.lfuInv).1
    have hinv' := Lfu.update_inv c.lfu k (c.internalCost cost + ext) hi.lfuInv
    refine minv_of_bal c _ _ false hi (by simp) (by simpa using hinv') (by simpa using hb) ?_
    intro hon
    simp [Cache.met_metrics, hon, (applyEvs_spec _ c.metrics).2.2.2.1]
  | delete k cf =>
    simp only [Cache.handleItem]
    have hb := (policyRemove_bal c.lfu k hi.lfuInv).1
    have hinv' : (policyRemove c.lfu k).1.Inv := by
      have : (policyRemove c.lfu k).1 = (c.lfu.remove k).1 := by
        unfold policyRemove
        cases h2 : c.lfu.remove k with
        | mk l2 o => cases o <;> rfl
      rw [this]; exact Lfu.remove_inv c.lfu k hi.lfuInv
    have key : MInv (if ((c.store.tryRemove k cf).1.expiration k).isNone then
        ({ ({ c with store := (c.store.tryRemove k cf).1 } : Cache) with lfu := (policyRemove c.lfu k).1 }).met
          fun m => m.applyEvs (policyRemove c.lfu k).2
      else { c with store := (c.store.tryRemove k cf).1 }) := by
      split
      · refine minv_of_bal c _ _ false hi (by simp) (by simpa using hinv') (by simpa using hb) ?_
        intro hon
        simp [Cache.met_metrics, hon, (applyEvs_spec _ c.metrics).2.2.2.1]
      · exact minv_transfer c _ rfl hi
    cases hr : (c.store.tryRemove k cf).2 with
    | none => simpa [hr] using key
    | some e => simp only; exact minv_transfer _ _ rfl key
  | new k cf cost v exp =>
    simp only [Cache.handleItem]
    have hbal := policyAdd_bal c.lfu est k (c.internalCost cost) refills hi.lfuInv
    have hspec := policyAdd_spec c.lfu est k (c.internalCost cost) refills hi.lfuInv
    simp only at hbal
    -- the state before the victims are taken out of the store
    have key : ∀ c1 : Cache, c1.lfu = (policyAdd c.lfu est k (c.internalCost cost) refills).lfu →
        c1.cfg.metricsOn = c.cfg.metricsOn →
        (c.cfg.metricsOn = true →
          c1.metrics.costAdd = (c.metrics.applyEvs (policyAdd c.lfu est k (c.internalCost cost) refills).events).costAdd ∧
          c1.metrics.costEvict = (c.metrics.applyEvs (policyAdd c.lfu est k (c.internalCost cost) refills).events).costEvict ∧
          c1.metrics.keyEvict = (c.metrics.applyEvs (policyAdd c.lfu est k (c.internalCost cost) refills).events).keyEvict ∧
          c1.metrics.keyAdd = (if (policyAdd c.lfu est k (c.internalCost cost) refills).added then u64 (c.metrics.keyAdd + 1)
            else c.metrics.keyAdd)) →
        MInv (match (policyAdd c.lfu est k (c.internalCost cost) refills).victims with
          | some vs => c1.evictVictims vs
          | none => c1) := by
      intro c1 hl hcfg hm
      have h1 : MInv c1 :=
        minv_of_bal c c1 _ _ hi hcfg (by rw [hl]; exact hspec.inv) (by rw [hl]; exact hbal.1) hm
      cases (policyAdd c.lfu est k (c.internalCost cost) refills).victims with
      | none => exact h1
      | some vs => exact minv_transfer c1 _ (Cache.evictVictims_mcore vs c1) h1
    have s4 := (applyEvs_spec (policyAdd c.lfu est k (c.internalCost cost) refills).events c.metrics).2.2.2.1
    cases hadd : (policyAdd c.lfu est k (c.internalCost cost) refills).added with
    | true =>
      simp only [↓reduceIte]
      by_cases hon : c.cfg.metricsOn = true
      · simp only [Cache.met_cfg, hon, ↓reduceIte]
        apply key
        · simp
        · simp [hon]
        · intro _
          simp [Cache.met_metrics, hon, hadd, s4]
      · simp only [Cache.met_cfg, hon]
        apply key
        · simp
        · simp
        · intro h; exact absurd h hon
    | false =>
      simp only [Bool.false_eq_true, ↓reduceIte]
      apply key
      · simp
      · simp
      · intro hon
        simp [Cache.met_metrics, hon, hadd, s4]

theorem sweepOne_minv (c : Cache) (now k cf : Nat) (hi : MInv c) : MInv (c.sweepOne now k cf).1 := by
  unfold Cache.sweepOne
  cases c.store.expiration k with
  | none => exact hi
  | some t =>
    simp only
    split
    · have hb := (policyRemove_bal c.lfu k hi.lfuInv).1
      have hinv' : (policyRemove c.lfu k).1.Inv := by
        have : (policyRemove c.lfu k).1 = (c.lfu.remove k).1 := by
          unfold policyRemove
          cases h2 : c.lfu.remove k with
          | mk l2 o => cases o <;> rfl
        rw [this]; exact Lfu.remove_inv c.lfu k hi.lfuInv
      have key : MInv (({ c with lfu := (policyRemove c.lfu k).1 } : Cache).met
          fun m => m.applyEvs (policyRemove c.lfu k).2) := by
        refine minv_of_bal c _ _ false hi (by simp) (by simpa using hinv') (by simpa using hb) ?_
        intro hon
        simp [Cache.met_metrics, hon, (applyEvs_spec _ c.metrics).2.2.2.1]
      cases (c.store.tryRemove k cf).2 with
      | none => exact minv_transfer _ _ rfl key
      | some e => exact minv_transfer _ _ rfl key
    · exact hi

theorem sweepKeys_minv (keys : List (Nat × Nat)) (c : Cache) (now : Nat) (acc : List CB) (hi : MInv c) :
    MInv (c.sweepKeys now keys acc).1 := by
  induction keys generalizing c acc with
  | nil => simpa [Cache.sweepKeys] using hi
  | cons p rest ih =>
    obtain ⟨k, cf⟩ := p
    simp only [Cache.sweepKeys]
    exact ih _ _ (sweepOne_minv c now k cf hi)

/-- **the conservation invariant is preserved by every step** of the transition system -/
theorem step_minv (su : Nat → Nat → Bool) (c c' : Cache) (a : Act) (hs : c.step su a = some c')
    (hi : MInv c) : MInv c' := by
  cases a with
  | insert k cf v cost ttl now coster only =>
    simp only [Cache.step, Option.some.injEq] at hs; subst hs
    exact minv_transfer c _ (Cache.insert_mcore ..) hi
  | get k cf now =>
    simp only [Cache.step, Option.some.injEq] at hs; subst hs
    exact minv_transfer c _ (Cache.get_mcore ..) hi
  | getMut k cf now v =>
    simp only [Cache.step, Option.some.injEq] at hs; subst hs
    exact minv_transfer c _ (Cache.getMutWrite_mcore ..) hi
  | remove k cf =>
    simp only [Cache.step, Option.some.injEq] at hs; subst hs
    exact minv_transfer c _ (Cache.remove_mcore ..) hi
  | waitEnq id =>
    simp only [Cache.step, Option.some.injEq] at hs; subst hs
    exact minv_transfer c _ (Cache.waitEnq_mcore ..) hi
  | clearReq id =>
    simp only [Cache.step, Option.some.injEq] at hs; subst hs
    exact minv_transfer c _ (Cache.clearReq_mcore ..) hi
  | closeBegin id =>
    simp only [Cache.step, Option.some.injEq] at hs; subst hs
    exact minv_transfer c _ (Cache.closeBegin_mcore ..) hi
  | updateMaxCost mc =>
    simp only [Cache.step, Option.some.injEq] at hs; subst hs
    exact minv_transfer c _ rfl hi
  | procItem est refills =>
    simp only [Cache.step, Cache.procItem] at hs
    split at hs
    · cases hs
    · split at hs
      · cases hs
      · rename_i it rest hb
        simp only [Option.some.injEq] at hs; subst hs
        apply handleItem_minv
        exact minv_transfer c _ ((Cache.admitPending_mcore _).trans rfl) hi
  | procClear =>
    simp only [Cache.step, Cache.procClear] at hs
    split at hs
    · cases hs
    · split at hs
      · cases hs
      · simp only [Option.some.injEq] at hs; subst hs
        refine ⟨⟨KMap.wf_nil, by simp [Cache.mcore, Lfu.clear, KMap.total]⟩, ?_⟩
        intro _
        simp [Cache.mcore, Lfu.clear]
  | procTick now order =>
    simp only [Cache.step, Cache.procTick] at hs
    split at hs
    · cases hs
    · simp only [Option.some.injEq] at hs; subst hs
      refine minv_transfer _ _ (Cache.deliverEvictions_mcore _ _) ?_
      apply sweepKeys_minv
      exact minv_transfer c _ rfl hi
  | procStop =>
    simp only [Cache.step, Cache.procStop] at hs
    split at hs
    · cases hs
    · simp only [Option.some.injEq] at hs; subst hs
      exact minv_transfer c _ rfl hi
  | policyWorker =>
    simp only [Cache.step, Cache.policyWorkerStep] at hs
    cases hp : c.pq with
    | nil => simp [hp] at hs
    | cons b rest =>
      simp only [hp, Option.map_some, Option.some.injEq] at hs; subst hs
      exact minv_transfer c _ rfl hi
  | policyClose =>
    simp only [Cache.step, Option.some.injEq] at hs; subst hs
    exact minv_transfer c _ rfl hi

/-- every state of every run from the empty cache satisfies the conservation invariant -/
theorem exec_minv (su : Nat → Nat → Bool) (c : Cache) (acts : List Act) (hi : MInv c) :
    MInv (Cache.run su c acts) := by
  induction acts generalizing c with
  | nil => exact hi
  | cons a rest ih =>
    simp only [Cache.run]
    apply ih
    cases hs : c.step su a with
    | none => exact hi
    | some c' => exact step_minv su c c' a hs hi

theorem flag_of_mcore {c c' : Cache} (h : c'.mcore = c.mcore) : c'.cfg.metricsOn = c.cfg.metricsOn :=
  congrArg (fun t => t.2.2.1) h

theorem handleItem_flag (c : Cache) (su : Nat → Nat → Bool) (est : Nat → Int)
    (refills : List (List (Nat × Int))) (it : Item) :
    (c.handleItem su est refills it).cfg.metricsOn = c.cfg.metricsOn := by
  cases it with
  | wait w => rfl
  | update k cost ext => simp [Cache.handleItem]
  | delete k cf =>
    simp only [Cache.handleItem]
    cases (c.store.tryRemove k cf).2 <;> (simp only; split <;> simp)
  | new k cf cost v exp =>
    simp only [Cache.handleItem]
    have : ∀ (c1 : Cache) (o : Option (List (Nat × Int))), c1.cfg.metricsOn = c.cfg.metricsOn →
        (match o with | some vs => c1.evictVictims vs | none => c1).cfg.metricsOn = c.cfg.metricsOn := by
      intro c1 o h
      cases o with
      | none => exact h
      | some vs => exact (flag_of_mcore (Cache.evictVictims_mcore vs c1)).trans h
    apply this
    split
    · split <;> simp
    · simp

theorem sweepKeys_flag (keys : List (Nat × Nat)) (c : Cache) (now : Nat) (acc : List CB) :
    (c.sweepKeys now keys acc).1.cfg.metricsOn = c.cfg.metricsOn := by
  induction keys generalizing c acc with
  | nil => simp [Cache.sweepKeys]
  | cons p rest ih =>
    obtain ⟨k, cf⟩ := p
    simp only [Cache.sweepKeys]
    rw [ih]
    unfold Cache.sweepOne
    cases c.store.expiration k with
    | none => rfl
    | some t =>
      simp only
      split
      · cases (c.store.tryRemove k cf).2 <;> simp
      · rfl

/-- the metrics switch is fixed at construction: no step changes it -/
theorem step_flag (su : Nat → Nat → Bool) (c c' : Cache) (a : Act) (hs : c.step su a = some c') :
    c'.cfg.metricsOn = c.cfg.metricsOn := by
  cases a with
  | insert k cf v cost ttl now coster only =>
    simp only [Cache.step, Option.some.injEq] at hs; subst hs
    exact flag_of_mcore (Cache.insert_mcore ..)
  | get k cf now =>
    simp only [Cache.step, Option.some.injEq] at hs; subst hs
    exact flag_of_mcore (Cache.get_mcore ..)
  | getMut k cf now v =>
    simp only [Cache.step, Option.some.injEq] at hs; subst hs
    exact flag_of_mcore (Cache.getMutWrite_mcore ..)
  | remove k cf =>
    simp only [Cache.step, Option.some.injEq] at hs; subst hs
    exact flag_of_mcore (Cache.remove_mcore ..)
  | waitEnq id =>
    simp only [Cache.step, Option.some.injEq] at hs; subst hs
    exact flag_of_mcore (Cache.waitEnq_mcore ..)
  | clearReq id =>
    simp only [Cache.step, Option.some.injEq] at hs; subst hs
    exact flag_of_mcore (Cache.clearReq_mcore ..)
  | closeBegin id =>
    simp only [Cache.step, Option.some.injEq] at hs; subst hs
    exact flag_of_mcore (Cache.closeBegin_mcore ..)
  | updateMaxCost mc =>
    simp only [Cache.step, Option.some.injEq] at hs; subst hs; rfl
  | procItem est refills =>
    simp only [Cache.step, Cache.procItem] at hs
    split at hs
    · cases hs
    · split at hs
      · cases hs
      · simp only [Option.some.injEq] at hs; subst hs
        rw [handleItem_flag]
        exact flag_of_mcore ((Cache.admitPending_mcore _).trans rfl)
  | procClear =>
    simp only [Cache.step, Cache.procClear] at hs
    split at hs
    · cases hs
    · split at hs
      · cases hs
      · rename_i id rest _
        simp only [Option.some.injEq] at hs; subst hs
        have := flag_of_mcore (Cache.drain_mcore c.buf ({ c with buf := [], clearQ := rest } : Cache))
        exact this
  | procTick now order =>
    simp only [Cache.step, Cache.procTick] at hs
    split at hs
    · cases hs
    · simp only [Option.some.injEq] at hs; subst hs
      rw [flag_of_mcore (Cache.deliverEvictions_mcore _ _), sweepKeys_flag]
  | procStop =>
    simp only [Cache.step, Cache.procStop] at hs
    split at hs
    · cases hs
    · simp only [Option.some.injEq] at hs; subst hs; rfl
  | policyWorker =>
    simp only [Cache.step, Cache.policyWorkerStep] at hs
    cases hp : c.pq with
    | nil => simp [hp] at hs
    | cons b rest => simp only [hp, Option.map_some, Option.some.injEq] at hs; subst hs; rfl
  | policyClose =>
    simp only [Cache.step, Option.some.injEq] at hs; subst hs; rfl

theorem exec_flag (su : Nat → Nat → Bool) (c : Cache) (acts : List Act) :
    (Cache.run su c acts).cfg.metricsOn = c.cfg.metricsOn := by
  induction acts generalizing c with
  | nil => rfl
  | cons a rest ih =>
    simp only [Cache.run]
    rw [ih]
    cases hs : c.step su a with
    | none => rfl
    | some c' => exact step_flag su c c' a hs

/-- **C17, the two differences**: in every reachable state, with metrics enabled,
`keys_added − keys_evicted` is the number of charged entries and `cost_added − cost_evicted` is the
charged total (mod 2^64), and the charged total is the sum of the per-key charges. -/
theorem conservation (su : Nat → Nat → Bool) (cfg : Cfg) (maxCost : Int) (samples : Nat) (acts : List Act)
    (hon : cfg.metricsOn = true) :
    let c := Cache.run su (Cache.init cfg maxCost samples) acts
    ((c.metrics.keyAdd : Int) - c.metrics.keyEvict - c.lfu.costs.length) % 18446744073709551616 = 0 ∧
    ((c.metrics.costAdd : Int) - c.metrics.costEvict - c.lfu.used) % 18446744073709551616 = 0 ∧
    c.lfu.used = KMap.total c.lfu.costs := by
  intro c
  have hi := exec_minv su _ acts (init_minv cfg maxCost samples)
  have hcfg : c.cfg.metricsOn = true := by
    show (Cache.run su (Cache.init cfg maxCost samples) acts).cfg.metricsOn = true
    rw [exec_flag]; exact hon
  obtain ⟨h1, h2⟩ := hi.2 hcfg
  exact ⟨h2, h1, hi.1.2⟩

-- hits + misses ------------------------------------------------------------------------------------

/-- ghost: the number of lookups made on the open cache since the last served `clear()` -/
def ghostStep (c : Cache) (n : Nat) : Act → Nat
  | .get _ _ _ => if c.closed then n else n + 1
  | .getMut _ _ _ _ => if c.closed then n else n + 1
  | .procClear => if c.procClear.isSome then 0 else n
  | _ => n

def lookupsAfter (su : Nat → Nat → Bool) : Cache → Nat → List Act → Nat
  | _, n, [] => n
  | c, n, a :: rest => lookupsAfter su ((c.step su a).getD c) (ghostStep c n a) rest

/-- `hits + misses` is the ghost count, mod 2^64 -/
def HM (c : Cache) (n : Nat) : Prop :=
  c.cfg.metricsOn = true → ((c.metrics.hit : Int) + c.metrics.miss - n) % 18446744073709551616 = 0

theorem hm_transfer (c c' : Cache) (n : Nat) (h : c'.hm = c.hm) (hf : c'.cfg.metricsOn = c.cfg.metricsOn)
    (hi : HM c n) : HM c' n := by
  intro hon
  have h1 : c'.metrics.hit = c.metrics.hit := congrArg Prod.fst h
  have h2 : c'.metrics.miss = c.metrics.miss := congrArg Prod.snd h
  rw [h1, h2]; exact hi (hf ▸ hon)

theorem get_hm (c : Cache) (k cf now n : Nat) (hi : HM c n) :
    HM (c.get k cf now).1 (if c.closed then n else n + 1) := by
  unfold Cache.get
  split
  · exact hi
  · intro hon
    have hon' : c.cfg.metricsOn = true := by
      have := flag_of_mcore (Cache.get_mcore c k cf now)
      unfold Cache.get at this
      simp only [*, Bool.false_eq_true, ↓reduceIte] at this
      first | (rw [← this]; done) | (rw [← this]; exact hon)
    have h0 := hi hon'
    have hr := Cache.ringPush_hm c k
    have hr1 : (c.ringPush k).metrics.hit = c.metrics.hit := congrArg Prod.fst hr
    have hr2 : (c.ringPush k).metrics.miss = c.metrics.miss := congrArg Prod.snd hr
    simp only []
    split
    · simp only [Cache.met_metrics, Cache.ringPush_cfg, hon', ↓reduceIte, hr1, hr2]
      have := u64_cast (c.metrics.miss + 1)
      omega
    · simp only [Cache.met_metrics, Cache.ringPush_cfg, hon', ↓reduceIte, hr1, hr2]
      have := u64_cast (c.metrics.hit + 1)
      omega

theorem getMut_hm (c : Cache) (k cf now v n : Nat) (hi : HM c n) :
    HM (c.getMutWrite k cf now v).1 (if c.closed then n else n + 1) := by
  unfold Cache.getMutWrite
  split
  · exact hi
  · intro hon
    have hon' : c.cfg.metricsOn = true := by
      have := flag_of_mcore (Cache.getMutWrite_mcore c k cf now v)
      unfold Cache.getMutWrite at this
      simp only [*, Bool.false_eq_true, ↓reduceIte] at this
      first | (rw [← this]; done) | (rw [← this]; exact hon)
    have h0 := hi hon'
    have hr := Cache.ringPush_hm c k
    have hr1 : (c.ringPush k).metrics.hit = c.metrics.hit := congrArg Prod.fst hr
    have hr2 : (c.ringPush k).metrics.miss = c.metrics.miss := congrArg Prod.snd hr
    simp only []
    split
    · simp only [Cache.met_metrics, Cache.ringPush_cfg, hon', ↓reduceIte, hr1, hr2]
      have := u64_cast (c.metrics.miss + 1)
      omega
    · simp only [Cache.met_metrics, Cache.ringPush_cfg, hon', ↓reduceIte, hr1, hr2]
      have := u64_cast (c.metrics.hit + 1)
      omega

/-- every step keeps `hits + misses` equal to the ghost count -/
theorem step_hm (su : Nat → Nat → Bool) (c c' : Cache) (a : Act) (n : Nat) (hs : c.step su a = some c')
    (hi : HM c n) : HM c' (ghostStep c n a) := by
  have hf := step_flag su c c' a hs
  cases a with
  | insert k cf v cost ttl now coster only =>
    simp only [Cache.step, Option.some.injEq] at hs; subst hs
    exact hm_transfer c _ n (Cache.insert_hm ..) hf hi
  | get k cf now =>
    simp only [Cache.step, Option.some.injEq] at hs; subst hs
    exact get_hm c k cf now n hi
  | getMut k cf now v =>
    simp only [Cache.step, Option.some.injEq] at hs; subst hs
    exact getMut_hm c k cf now v n hi
  | remove k cf =>
    simp only [Cache.step, Option.some.injEq] at hs; subst hs
    exact hm_transfer c _ n (Cache.remove_hm ..) hf hi
  | waitEnq id =>
    simp only [Cache.step, Option.some.injEq] at hs; subst hs
    exact hm_transfer c _ n (Cache.waitEnq_hm ..) hf hi
  | clearReq id =>
    simp only [Cache.step, Option.some.injEq] at hs; subst hs
    exact hm_transfer c _ n (Cache.clearReq_hm ..) hf hi
  | closeBegin id =>
    simp only [Cache.step, Option.some.injEq] at hs; subst hs
    exact hm_transfer c _ n (Cache.closeBegin_hm ..) hf hi
  | updateMaxCost mc =>
    simp only [Cache.step, Option.some.injEq] at hs; subst hs
    exact hm_transfer c _ n rfl hf hi
  | procItem est refills =>
    simp only [Cache.step, Cache.procItem] at hs
    split at hs
    · cases hs
    · split at hs
      · cases hs
      · simp only [Option.some.injEq] at hs; subst hs
        exact hm_transfer c _ n ((Cache.handleItem_hm ..).trans ((Cache.admitPending_hm _).trans rfl)) hf hi
  | procClear =>
    simp only [Cache.step] at hs
    simp only [ghostStep, hs, Option.isSome_some, ↓reduceIte]
    simp only [Cache.procClear] at hs
    split at hs
    · cases hs
    · split at hs
      · cases hs
      · simp only [Option.some.injEq] at hs; subst hs
        intro _; simp
  | procTick now order =>
    simp only [Cache.step, Cache.procTick] at hs
    split at hs
    · cases hs
    · simp only [Option.some.injEq] at hs; subst hs
      exact hm_transfer c _ n ((Cache.deliverEvictions_hm _ _).trans ((Cache.sweepKeys_hm ..).trans rfl)) hf hi
  | procStop =>
    simp only [Cache.step, Cache.procStop] at hs
    split at hs
    · cases hs
    · simp only [Option.some.injEq] at hs; subst hs
      exact hm_transfer c _ n rfl hf hi
  | policyWorker =>
    simp only [Cache.step, Cache.policyWorkerStep] at hs
    cases hp : c.pq with
    | nil => simp [hp] at hs
    | cons b rest =>
      simp only [hp, Option.map_some, Option.some.injEq] at hs; subst hs
      exact hm_transfer c _ n rfl hf hi
  | policyClose =>
    simp only [Cache.step, Option.some.injEq] at hs; subst hs
    exact hm_transfer c _ n rfl hf hi

theorem ghostStep_disabled (su : Nat → Nat → Bool) (c : Cache) (n : Nat) (a : Act) (hs : c.step su a = none) :
    ghostStep c n a = n := by
  cases a <;> simp_all [ghostStep, Cache.step]

/-- **C17, lookups**: after any run from the empty cache, `hits + misses` equals (mod 2^64) the number
of lookups (`get`, `get_mut`) made while the cache was open since the last served `clear()` -/
theorem hits_plus_misses (su : Nat → Nat → Bool) (cfg : Cfg) (maxCost : Int) (samples : Nat) (acts : List Act)
    (hon : cfg.metricsOn = true) :
    let c := Cache.run su (Cache.init cfg maxCost samples) acts
    ((c.metrics.hit : Int) + c.metrics.miss - lookupsAfter su (Cache.init cfg maxCost samples) 0 acts)
      % 18446744073709551616 = 0 := by
  intro c
  have gen : ∀ (acts : List Act) (c0 : Cache) (n : Nat), HM c0 n →
      HM (Cache.run su c0 acts) (lookupsAfter su c0 n acts) := by
    intro acts
    induction acts with
    | nil => intro c0 n h; exact h
    | cons a rest ih =>
      intro c0 n h
      simp only [Cache.run, lookupsAfter]
      apply ih
      cases hs : c0.step su a with
      | none => rw [ghostStep_disabled su c0 n a hs]; exact h
      | some c1 => exact step_hm su c0 c1 a n hs h
  have h0 : HM (Cache.init cfg maxCost samples) 0 := by intro _; simp [Cache.init]
  have := gen acts _ 0 h0
  apply this
  show (Cache.run su (Cache.init cfg maxCost samples) acts).cfg.metricsOn = true
  rw [exec_flag]; exact hon

-- sets_dropped, sets_rejected ----------------------------------------------------------------------

/-- **sets_dropped counts exactly the inserts of non-resident keys refused for lack of buffer space**:
an insert call on the open cache bumps the counter iff it returned false although it was allowed to
create the key (not `insert_if_present`) and no resident entry was updated — that is, iff the buffer
had no room; no other counter of the conservation laws moves. -/
theorem dropSets_exact (c : Cache) (su : Nat → Nat → Bool) (k cf v : Nat) (cost : Int) (ttl now : Nat)
    (coster : Int) (hopen : c.closed = false) (hon : c.cfg.metricsOn = true) :
    let r := c.insert su k cf v cost ttl now coster false
    let updated := match (c.store.tryUpdate su k v cf { d := ttl, created := now }).2 with
      | .update _ => true
      | _ => false
    let room := c.buf.length < c.cfg.bufCap && !c.procExited
    (updated = false ∧ room = false → r.2 = false ∧ r.1.metrics.dropSets = u64 (c.metrics.dropSets + 1)) ∧
    (¬ (updated = false ∧ room = false) → r.2 = true ∧ r.1.metrics.dropSets = c.metrics.dropSets) := by
  intro r updated room
  simp only [r, updated, room]
  unfold Cache.insert Cache.insertBody
  simp only [hopen, Bool.false_eq_true, ↓reduceIte, Bool.false_and]
  cases (c.store.tryUpdate su k v cf { d := ttl, created := now }).2 with
  | update old =>
    simp only
    refine ⟨fun h => by simp at h, fun _ => ?_⟩
    split <;> simp
  | notExist =>
    simp only
    by_cases hroom : (decide (c.buf.length < c.cfg.bufCap) && !c.procExited) = true
    · simp [hroom]
    · simp [hroom, Cache.met_metrics, hon]
  | reject =>
    simp only
    by_cases hroom : (decide (c.buf.length < c.cfg.bufCap) && !c.procExited) = true
    · simp [hroom]
    · simp [hroom, Cache.met_metrics, hon]
  | conflict =>
    simp only
    by_cases hroom : (decide (c.buf.length < c.cfg.bufCap) && !c.procExited) = true
    · simp [hroom]
    · simp [hroom, Cache.met_metrics, hon]

/-- **sets_rejected counts exactly the policy's popularity rejections**: one `policy.add` reports
`RejectSets` once iff the eviction loop ran and refused the newcomer (its estimate was below the
sample minimum), never otherwise -/
theorem rejectSets_exact (l : Lfu) (est : Nat → Int) (key : Nat) (cost : Int)
    (refills : List (List (Nat × Int))) (hinv : l.Inv) :
    let R := policyAdd l est key cost refills
    nReject R.events = (if R.victims.isSome ∧ R.added = false ∧ R.stuck = false then 1 else 0) :=
  (policyAdd_bal l est key cost refills hinv).2

-- clear, life expectancy ---------------------------------------------------------------------------

/-- **counters restart from zero at `clear()`** -/
theorem clear_resets (c c' : Cache) (hs : c.procClear = some c') : c'.metrics = {} := by
  unfold Cache.procClear at hs
  split at hs
  · cases hs
  · split at hs
    · cases hs
    · simp only [Option.some.injEq] at hs; subst hs; rfl

/-- **every eviction of a tracked entry adds one sample** (sweep path): delivering the `on_evict`
of key `k` adds exactly one sample to the life-expectancy histogram iff `k` was tracked, and untracks
it -/
theorem sweep_eviction_of_tracked_adds_one_sample (c : Cache) (k cf v : Nat) (cost : Int)
    (hon : c.cfg.metricsOn = true) :
    (c.deliverEvictions [CB.evict k cf v cost]).metrics.lifeCount =
      c.metrics.lifeCount + (if c.tracked.contains k then 1 else 0) ∧
    (c.deliverEvictions [CB.evict k cf v cost]).tracked = c.tracked.filter (· != k) := by
  simp only [Cache.deliverEvictions]
  split
  · rename_i h; simp [Cache.met_metrics, hon, h, Cache.met]
  · rename_i h; simp [h]

/-- the same for a victim of an admission that is found in the store -/
theorem admission_eviction_of_tracked_adds_one_sample (c : Cache) (vk : Nat) (vc : Int) (e : Entry)
    (hon : c.cfg.metricsOn = true) (hres : (c.store.tryRemove vk 0).2 = some e) :
    (c.evictVictims [(vk, vc)]).metrics.lifeCount =
      c.metrics.lifeCount + (if c.tracked.contains vk then 1 else 0) ∧
    (c.evictVictims [(vk, vc)]).tracked = c.tracked.filter (· != vk) := by
  simp only [Cache.evictVictims, hres]
  split
  · rename_i h; simp [Cache.met_metrics, hon, h, Cache.met]
  · rename_i h; simp [h]

-- the histogram type behind `life_expectancy_seconds()` --------------------------------------------

/-- one bucket more than bounds, and `count` is the sum of the buckets -/
def Hist.WF (h : Hist) : Prop := h.buckets.length = h.bounds.length + 1 ∧ h.count = h.buckets.sum

theorem bucketIdx_le (bs : List Int) (v : Int) : Hist.bucketIdx bs v ≤ bs.length := by
  induction bs with
  | nil => simp [Hist.bucketIdx]
  | cons b rest ih => simp only [Hist.bucketIdx]; split <;> simp <;> omega

/-- **the bucket of a sample**: every bound before it is ≤ the value, and its own bound (if it is not
the overflow bucket) is > the value -/
theorem bucketIdx_spec (bs : List Int) (v : Int) :
    (∀ j, j < Hist.bucketIdx bs v → ∀ b, bs[j]? = some b → b ≤ v) ∧
    (∀ b, bs[Hist.bucketIdx bs v]? = some b → v < b) := by
  induction bs with
  | nil => simp [Hist.bucketIdx]
  | cons b rest ih =>
    simp only [Hist.bucketIdx]
    split
    · rename_i hlt
      exact ⟨fun j hj => by omega, fun b' hb' => by simp at hb'; omega⟩
    · rename_i hge
      refine ⟨?_, ?_⟩
      · intro j hj b' hb'
        cases j with
        | zero => simp at hb'; omega
        | succ j' =>
          simp only [List.getElem?_cons_succ] at hb'
          exact ih.1 j' (by omega) b' hb'
      · intro b' hb'
        have : (b :: rest)[1 + Hist.bucketIdx rest v]? = rest[Hist.bucketIdx rest v]? := by
          rw [Nat.add_comm]; simp
        rw [this] at hb'
        exact ih.2 b' hb'

theorem incAt_length (l : List Int) (i : Nat) : (Hist.incAt l i).length = l.length := by
  induction l generalizing i with
  | nil => rfl
  | cons x rest ih => cases i <;> simp [Hist.incAt, ih]

theorem incAt_sum (l : List Int) (i : Nat) (h : i < l.length) : (Hist.incAt l i).sum = l.sum + 1 := by
  induction l generalizing i with
  | nil => simp at h
  | cons x rest ih =>
    cases i with
    | zero => simp [Hist.incAt]; omega
    | succ j =>
      simp only [Hist.incAt, List.sum_cons]
      rw [ih j (by simpa using h)]; omega

/-- `update` moves exactly one bucket, by one -/
theorem incAt_get (l : List Int) (i j : Nat) (h : i < l.length) :
    (Hist.incAt l i).getD j 0 = l.getD j 0 + (if j = i then 1 else 0) := by
  induction l generalizing i j with
  | nil => simp at h
  | cons x rest ih =>
    cases i with
    | zero => cases j <;> simp [Hist.incAt]
    | succ i' =>
      cases j with
      | zero => simp [Hist.incAt]
      | succ j' =>
        simp only [Hist.incAt, List.getD_cons_succ]
        rw [ih i' j' (by simpa using h)]
        simp

theorem hist_new_wf (bounds : List Int) : Hist.WF (Hist.new bounds) := by
  refine ⟨by simp [Hist.new], ?_⟩
  simp only [Hist.new]
  generalize bounds.length + 1 = n
  induction n with
  | zero => rfl
  | succ k ih => simp [List.replicate_succ, ← ih]

/-- **count equals the sum of the buckets**, after every `update` -/
theorem hist_update_wf (h : Hist) (v : Int) (hw : Hist.WF h) : Hist.WF (h.update v) := by
  obtain ⟨h1, h2⟩ := hw
  have hi : Hist.bucketIdx h.bounds v < h.buckets.length := by
    have := bucketIdx_le h.bounds v; omega
  refine ⟨by simp [Hist.update, incAt_length, h1], ?_⟩
  simp only [Hist.update]
  rw [incAt_sum _ _ hi, h2]

theorem hist_clear_wf (h : Hist) (hw : Hist.WF h) : Hist.WF h.clear := by
  refine ⟨by simp [Hist.clear, hw.1], ?_⟩
  simp only [Hist.clear]
  generalize h.buckets = l
  induction l with
  | nil => rfl
  | cons x rest ih => simp [← ih]

/-- in every state reachable from `new` by updates and clears, `count` = Σ buckets -/
theorem hist_count_eq_sum_buckets (bounds : List Int) (ops : List (Option Int)) :
    Hist.WF (ops.foldl (fun h o => match o with | some v => h.update v | none => h.clear) (Hist.new bounds)) := by
  have gen : ∀ (ops : List (Option Int)) (h : Hist), Hist.WF h →
      Hist.WF (ops.foldl (fun h o => match o with | some v => h.update v | none => h.clear) h) := by
    intro ops
    induction ops with
    | nil => intro h hw; exact hw
    | cons o rest ih =>
      intro h hw
      simp only [List.foldl_cons]
      apply ih
      cases o with
      | none => exact hist_clear_wf h hw
      | some v => exact hist_update_wf h v hw
  exact gen ops _ (hist_new_wf bounds)

example : ((Hist.new [1, 2, 4, 8]).update 3 |>.update 8 |>.update 0).buckets = [1, 0, 1, 0, 1] := by decide

-- non-vacuity ---------------------------------------------------------------------------------------
def exCfg : Cfg := { itemSize := 56, ignoreInternal := true, bufCap := 4, ringCap := 2, pqCap := some 3, metricsOn := true }
/-- two inserts applied, one lookup hit, one miss -/
def exActs : List Act :=
  [.insert 3 0 77 5 0 0 0 false, .insert 4 0 78 7 0 0 0 false, .procItem (fun _ => 0) [], .procItem (fun _ => 0) [],
   .get 3 0 0, .get 9 0 0]
def exRun : Cache := Cache.run (fun _ _ => true) (Cache.init exCfg 1000 5) exActs
example : exRun.metrics.keyAdd = 2 ∧ exRun.metrics.costAdd = 12 ∧ exRun.lfu.used = 12 ∧
    exRun.lfu.costs.length = 2 ∧ exRun.metrics.hit = 1 ∧ exRun.metrics.miss = 1 := by decide
example : lookupsAfter (fun _ _ => true) (Cache.init exCfg 1000 5) 0 exActs = 2 := by decide


end Stretto.C17

#print axioms Stretto.C17.step_minv
#print axioms Stretto.C17.conservation
#print axioms Stretto.C17.hits_plus_misses
#print axioms Stretto.C17.dropSets_exact
#print axioms Stretto.C17.rejectSets_exact
#print axioms Stretto.C17.clear_resets
#print axioms Stretto.C17.hist_count_eq_sum_buckets
#print axioms Stretto.C17.bucketIdx_spec
#print axioms Stretto.C17.incAt_get
#print axioms Stretto.C17.sweep_eviction_of_tracked_adds_one_sample
#print axioms Stretto.C17.admission_eviction_of_tracked_adds_one_sample
