import StrettoModel.Proofs.Policy
import StrettoModel.Proofs.Termination
/-!
# C07 — Admission and eviction follow the TinyLFU / sampled-LFU rule

Quantification: every charged set `l` (keys distinct, `used` = sum of charges, any `maxCost`, also
over-budget states), every estimate function `est`, every incoming `(key, cost)`, and every
sequence `refills` of what `fill_sample` appends at each iteration (i.e. every `HashMap` iteration
order). The theorems hold for *every* iteration the loop performs; `loop_terminates` bounds their number.
-/
namespace Stretto.C07
open Stretto

/-- **room_admits_clean**: when there is room a new key is always admitted and nothing is evicted
or changed. -/
theorem room_admits_clean (l : Lfu) (est : Nat → Int) (key : Nat) (cost : Int)
    (refills : List (List (Nat × Int))) (hinv : l.Inv) (hc : cost ≤ l.maxCost)
    (hnew : l.costs.get key = none) (hroom : l.roomLeft cost ≥ 0) :
    let R := policyAdd l est key cost refills
    R.added = true ∧ R.victims = none ∧ R.lfu.costs.get key = some cost ∧
      ∀ j, j ≠ key → R.lfu.costs.get j = l.costs.get j :=
  (policyAdd_spec l est key cost refills hinv).room hc hnew hroom

/-- **eviction rule, every iteration**: an iteration happens only while room is still lacking; the
victim it picks is an entry of the current sample, no entry of the sample is less popular than it,
and it is no more popular than the newcomer; an iteration that picks no victim is a rejection and
then every sampled candidate is strictly more popular than the newcomer. -/
theorem eviction_rule (l : Lfu) (est : Nat → Int) (key : Nat) (cost : Int)
    (refills : List (List (Nat × Int))) (hinv : l.Inv) :
    ∀ it ∈ (policyAdd l est key cost refills).log,
      it.room < 0 ∧
      match it.victim with
      | some v => v ∈ it.sample ∧ (∀ p ∈ it.sample, est v.1 ≤ est p.1) ∧ est v.1 ≤ est key
      | none => ∀ p ∈ it.sample, est key < est p.1 :=
  (policyAdd_spec l est key cost refills hinv).iters

/-- the victims returned are exactly the victims of the iterations, in order -/
theorem victims_are_iteration_victims (l : Lfu) (est : Nat → Int) (key : Nat) (cost : Int)
    (refills : List (List (Nat × Int))) (hinv : l.Inv)
    (h : (policyAdd l est key cost refills).log ≠ []) :
    (policyAdd l est key cost refills).victims =
      some ((policyAdd l est key cost refills).log.filterMap (·.victim)) :=
  (policyAdd_spec l est key cost refills hinv).victims_log h

/-- **reject_iff**: on the popularity path (new key, not oversize, no room) the newcomer is refused
exactly when some iteration found it strictly less popular than the least popular candidate. -/
theorem reject_iff (l : Lfu) (est : Nat → Int) (key : Nat) (cost : Int)
    (refills : List (List (Nat × Int))) (hinv : l.Inv) (hc : cost ≤ l.maxCost)
    (hnew : l.costs.get key = none) (hroom : l.roomLeft cost < 0)
    (hrun : (policyAdd l est key cost refills).stuck = false) :
    (policyAdd l est key cost refills).added = false ↔
      ∃ it ∈ (policyAdd l est key cost refills).log, it.victim = none :=
  (policyAdd_spec l est key cost refills hinv).reject_iff hc hnew hroom hrun

/-- **victims_released**: every victim's charge is released (even when the newcomer is then
rejected), and no other charge is touched. -/
theorem victims_released (l : Lfu) (est : Nat → Int) (key : Nat) (cost : Int)
    (refills : List (List (Nat × Int))) (hinv : l.Inv) :
    let R := policyAdd l est key cost refills
    (∀ it ∈ R.log, ∀ v, it.victim = some v → v.1 ≠ key → R.lfu.costs.get v.1 = none) ∧
    (∀ j, j ≠ key → R.lfu.costs.get j = none ∨ R.lfu.costs.get j = l.costs.get j) :=
  ⟨(policyAdd_spec l est key cost refills hinv).released,
   (policyAdd_spec l est key cost refills hinv).only_released⟩

/-- **sample size**: what `fill_sample` appends brings the sample to `samples` (= 5) entries, or — when
the residents do not suffice — to at least as many entries as there are charged keys ("five, or all if
fewer"), never beyond `samples`; entries are charged keys with their current cost. -/
theorem refill_size (l : Lfu) (n : Nat) (extras : List (Nat × Int))
    (hv : l.validRefill n extras = true) (hn : n < l.samples) :
    (n + extras.length = l.samples ∨ l.costs.length ≤ n + extras.length) ∧ n + extras.length ≤ l.samples ∧
    ∀ p ∈ extras, l.costs.get p.1 = some p.2 := by
  unfold Lfu.validRefill at hv
  have hn' : ¬ n ≥ l.samples := by omega
  simp only [hn', if_false, Bool.and_eq_true, Bool.or_eq_true, beq_iff_eq, List.all_eq_true, decide_eq_true_eq] at hv
  refine ⟨hv.1.1.2, by have := hv.1.1.1; omega, fun p hp => hv.1.2 p hp⟩

/-- whichever of the equally unpopular candidates the tie-break oracle proposes (`tiePick`: the first one, as
the Rust scan `if hits < min_hits` finds it, the last one, any other), the entry taken is in the sample and
carries the minimum estimate of the whole sample; a proposal that is not a minimum is never taken. With the
oracle's default answer the first minimum is taken (`first_minimum_by_default`). -/
theorem victim_is_a_minimum (est : Nat → Int) (s : List (Nat × Int)) (i : Nat)
    (q : Nat × Int) (h : Int) (hm : minEntry est s = some (i, q, h)) :
    s[i]? = some q ∧ h = est q.1 ∧ ∀ p ∈ s, h ≤ est p.1 :=
  minEntry_spec est s i q h hm

/-- the oracle's default answer (index 0) reproduces the scan of the code as it stands: the first minimum -/
theorem first_minimum_by_default (est : Nat → Int) (s : List (Nat × Int))
    (h0 : tiePick est s = 0) : minEntry est s = minEntryFirst est s := by
  unfold minEntry
  cases hf : minEntryFirst est s with
  | none => rfl
  | some r =>
    obtain ⟨i, q, h⟩ := r
    simp only [h0]
    cases hs : s[0]? with
    | none => rfl
    | some q' =>
      simp only
      split
      · rename_i heq
        -- the head is a minimum, so the first-minimum scan returns it
        cases s with
        | nil => simp at hs
        | cons p rest =>
          simp only [List.getElem?_cons_zero, Option.some.injEq] at hs
          subst hs
          simp only [minEntryFirst] at hf
          cases hr : minEntryFirst est rest with
          | none => simp only [hr, Option.some.injEq, Prod.mk.injEq] at hf; obtain ⟨rfl, rfl, rfl⟩ := hf; rfl
          | some r' =>
            obtain ⟨i', q'', h'⟩ := r'
            simp only [hr] at hf
            split at hf
            · simp only [Option.some.injEq, Prod.mk.injEq] at hf; obtain ⟨rfl, rfl, rfl⟩ := hf; rfl
            · rename_i hnle
              simp only [Option.some.injEq, Prod.mk.injEq] at hf; obtain ⟨rfl, rfl, rfl⟩ := hf
              exact absurd (by rw [heq]; exact Int.le_refl _) hnle
      · rfl

/-- **the tie-break is free**: every entry of the sample that carries the minimum estimate can be the one
taken — there is an answer of the oracle for which `minEntry` returns exactly that entry (the rule C07 states
does not single one out) -/
theorem tie_break_is_free (est : Nat → Int) (s : List (Nat × Int)) (j : Nat) (q : Nat × Int)
    (hj : s[j]? = some q) (hmin : ∀ p ∈ s, est q.1 ≤ est p.1) (hpick : tiePick est s = j) :
    minEntry est s = some (j, q, est q.1) := by
  unfold minEntry
  cases hf : minEntryFirst est s with
  | none =>
    have : s = [] := (minEntryFirst_none est s).mp hf
    subst this; simp at hj
  | some r =>
    obtain ⟨i0, q0, h0⟩ := r
    obtain ⟨h1, h2, h3⟩ := minEntryFirst_spec est s i0 q0 h0 hf
    have hq0 : q0 ∈ s := List.mem_of_getElem? h1
    have hq : q ∈ s := List.mem_of_getElem? hj
    have heq : est q.1 = h0 := by
      have a := hmin q0 hq0
      have b := h3 q hq
      rw [h2] at b ⊢
      omega
    simp only [hpick, hj, heq, if_true]

/-- **loop_terminates**: "evicted one at a time only while room is still lacking" is a loop without an
explicit bound in the code. Offered `#charged · samples + 1` iterations whose refills are what
`fill_sample` may produce (`RefillsOk`), `policy.add` finishes — admitted or rejected — without using
them up: each iteration that continues either releases a charged key or discards a stale duplicate of a
key it released earlier, and refills only ever add charged keys. -/
theorem loop_terminates (l : Lfu) (est : Nat → Int) (key : Nat) (cost : Int)
    (refills : List (List (Nat × Int))) (hinv : l.Inv)
    (hok : RefillsOk est (est key) cost l [] refills)
    (hmany : l.costs.length * l.samples < refills.length) :
    (policyAdd l est key cost refills).stuck = false :=
  policyAdd_terminates l est key cost refills hinv hok hmany

-- non-vacuity -------------------------------------------------------------------------------
/-- a concrete over-budget admission: three residents, newcomer needs two victims -/
def exLfu : Lfu := { costs := [(1, 4), (2, 4), (3, 4)], used := 12, maxCost := 12, samples := 5 }
def exEst : Nat → Int := fun k => if k = 9 then 3 else if k = 1 then 1 else 2
example : exLfu.Inv := ⟨by simp [KMap.WF, KMap.keys, exLfu], by decide⟩
example : (policyAdd exLfu exEst 9 6 [[(1, 4), (2, 4), (3, 4)], [], []]).added = true ∧
    (policyAdd exLfu exEst 9 6 [[(1, 4), (2, 4), (3, 4)], [], []]).victims = some [(1, 4), (3, 4)] ∧
    (policyAdd exLfu exEst 9 6 [[(1, 4), (2, 4), (3, 4)], [], []]).stuck = false := by decide
example : (policyAdd exLfu (fun k => if k = 9 then 0 else 2) 9 6 [[(1, 4), (2, 4), (3, 4)]]).added = false ∧
    (policyAdd exLfu (fun k => if k = 9 then 0 else 2) 9 6 [[(1, 4), (2, 4), (3, 4)]]).stuck = false := by decide

end Stretto.C07

#print axioms Stretto.C07.room_admits_clean
#print axioms Stretto.C07.eviction_rule
#print axioms Stretto.C07.victims_are_iteration_victims
#print axioms Stretto.C07.reject_iff
#print axioms Stretto.C07.victims_released
#print axioms Stretto.C07.refill_size
#print axioms Stretto.C07.victim_is_a_minimum
#print axioms Stretto.C07.first_minimum_by_default
#print axioms Stretto.C07.tie_break_is_free
#print axioms Stretto.C07.loop_terminates
