/-!
# Key hashing (mirrors `src/lib.rs`: `TransparentHasher`, `TransparentKeyBuilder`, `KeyBuilder::build_key`)

An integer key of any supported type is an `Int` in the type's range; `as u64` is reduction mod 2^64
(sign extension for the signed types).
-/
namespace Stretto

/-- the integer key types `TransparentKey` is implemented for (`bool` is `u8` 0/1 under `Hash`) -/
inductive IntTy
  | u8 | u16 | u32 | u64 | usize | i8 | i16 | i32 | i64 | isize
deriving Repr, BEq, DecidableEq

def IntTy.lo : IntTy → Int
  | .i8 => -128 | .i16 => -32768 | .i32 => -2147483648
  | .i64 => -9223372036854775808 | .isize => -9223372036854775808
  | _ => 0

def IntTy.hi : IntTy → Int
  | .u8 => 255 | .u16 => 65535 | .u32 => 4294967295
  | .u64 => 18446744073709551615 | .usize => 18446744073709551615
  | .i8 => 127 | .i16 => 32767 | .i32 => 2147483647
  | .i64 => 9223372036854775807 | .isize => 9223372036854775807

def IntTy.InRange (t : IntTy) (x : Int) : Prop := t.lo ≤ x ∧ x ≤ t.hi

/-- `TransparentHasher::write_*` followed by `finish`: `x as u64` -/
def transparentIndex (x : Int) : Nat := (x % 18446744073709551616).toNat

/-- `TransparentKeyBuilder::build_key` -/
def transparentBuildKey (x : Int) : Nat × Nat := (transparentIndex x, 0)

end Stretto
