/-!
# Association-list finite maps with natural-number keys

Stands for Rust's `HashMap<u64, _>` wherever the model needs a finite map. The no-duplicate-keys
invariant `WF` is kept as a separate predicate (never a subtype); `set` and `erase` preserve it.
-/
namespace Stretto

abbrev KMap (α : Type) := List (Nat × α)

namespace KMap
variable {α : Type}

def get (m : KMap α) (k : Nat) : Option α := (m.find? (·.1 == k)).map (·.2)
def erase (m : KMap α) (k : Nat) : KMap α := m.filter (·.1 != k)
def set (m : KMap α) (k : Nat) (v : α) : KMap α := (k, v) :: erase m k
def keys (m : KMap α) : List Nat := m.map (·.1)
def contains (m : KMap α) (k : Nat) : Bool := (get m k).isSome
def WF (m : KMap α) : Prop := (keys m).Nodup

/-- sum of the values of an integer-valued map -/
def total (m : KMap Int) : Int := (m.map (·.2)).sum

/-- insertion sort by key, to print a canonical form -/
def insertSorted (p : Nat × α) : KMap α → KMap α
  | [] => [p]
  | q :: rest => if p.1 ≤ q.1 then p :: q :: rest else q :: insertSorted p rest

def sorted (m : KMap α) : KMap α := m.foldr insertSorted []

end KMap
end Stretto
