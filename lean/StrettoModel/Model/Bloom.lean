/-!
# Doorkeeper Bloom filter (mirrors `src/bbloom.rs`)

The bitset `Vec<u64>` is modelled as the set of bit positions that are set, bit `i` being
bit `i % 64` of word `i / 64` (which is what `set`/`is_set` address through their byte pointer
on a little-endian machine: byte `(i % 64) / 8` of that word, bit `i % 8`).
-/
namespace Stretto

structure Bloom where
  /-- `size_exp`: the filter has `2 ^ exp` bits -/
  exp : Nat
  /-- `set_locs`: number of probes per hash -/
  k : Nat
  /-- positions of the bits that are set -/
  bits : List Nat
deriving Repr, BEq

namespace Bloom

/-- number of bits, `size + 1` in the Rust code -/
def nbits (b : Bloom) : Nat := 2 ^ b.exp

/-- `mix`: the finalizer of splitmix64 on `u64` (wrapping multiplications), applied to the hash
before the probe positions are derived from its highest and lowest bits -/
def mix64 (h : Nat) : Nat :=
  let z := h % 18446744073709551616
  let z := ((z ^^^ (z >>> 30)) * 0xbf58476d1ce4e5b9) % 18446744073709551616
  let z := ((z ^^^ (z >>> 27)) * 0x94d049bb133111eb) % 18446744073709551616
  z ^^^ (z >>> 31)

/-- `hash >> shift`, `shift = 64 - exp` (of the mixed hash) -/
def hi (b : Bloom) (h : Nat) : Nat := mix64 h / 2 ^ (64 - b.exp)

/-- `(hash << shift) >> shift` in `u64` (of the mixed hash) -/
def lo (b : Bloom) (h : Nat) : Nat := mix64 h % 2 ^ b.exp

/-- `(h + i * l) & size` -/
def pos (b : Bloom) (h i : Nat) : Nat := (b.hi h + i * b.lo h) % 2 ^ b.exp

def isSet (b : Bloom) (i : Nat) : Bool := b.bits.contains i

def set (b : Bloom) (i : Nat) : Bloom := { b with bits := i :: b.bits }

/-- the probe positions of a hash -/
def probes (b : Bloom) (h : Nat) : List Nat := (List.range b.k).map (b.pos h)

/-- `Bloom::add` -/
def add (b : Bloom) (h : Nat) : Bloom := (b.probes h).foldl set b

/-- `Bloom::contains` -/
def contains (b : Bloom) (h : Nat) : Bool := (b.probes h).all b.isSet

/-- `Bloom::contains_or_add`: returns `true` when the hash was added -/
def containsOrAdd (b : Bloom) (h : Nat) : Bloom × Bool :=
  if b.contains h then (b, false) else (b.add h, true)

/-- `Bloom::reset` and `Bloom::clear` -/
def reset (b : Bloom) : Bloom := { b with bits := [] }

/-- canonical form of the bit set, for comparison with the implementation -/
def canon (b : Bloom) : List Nat :=
  (List.range b.nbits).filter b.isSet

end Bloom
end Stretto
