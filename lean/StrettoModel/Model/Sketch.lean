/-!
# Count-min sketch with 4-bit counters (mirrors `src/sketch.rs`)

A row is the `Vec<u8>` of `CountMinRow`, one `Nat < 256` per byte, two counters per byte.
Every index access is an `Option`: `none` is the Rust index-out-of-bounds panic.
-/
namespace Stretto

/-- counter held in byte `b`: `(b >> ((i & 1) * 4)) & 0x0f` with `odd = (i & 1 == 1)` -/
def nib (b : Nat) (odd : Bool) : Nat :=
  if odd then (b >>> 4) &&& 0x0f else b &&& 0x0f

/-- `1 << shift` for `shift = (i & 1) * 4` -/
def nibUnit (odd : Bool) : Nat := if odd then 16 else 1

/-- `(v >> 1) & 0x77` -/
def byteHalve (b : Nat) : Nat := (b >>> 1) &&& 0x77

abbrev Row := List Nat

namespace Row

/-- `CountMinRow::get` -/
def get (r : Row) (i : Nat) : Option Nat :=
  (r[i / 2]?).map (fun b => nib b (i % 2 == 1))

/-- `CountMinRow::increment` -/
def inc (r : Row) (i : Nat) : Option Row :=
  match r[i / 2]? with
  | none => none
  | some b =>
    if nib b (i % 2 == 1) < 15 then some (r.set (i / 2) (b + nibUnit (i % 2 == 1)))
    else some r

/-- `CountMinRow::reset` -/
def reset (r : Row) : Row := r.map byteHalve

/-- `CountMinRow::clear` -/
def clear (r : Row) : Row := r.map (fun _ => 0)

end Row

/-- `CountMinSketch`: one `(seed, row)` pair per depth level, and the index mask. -/
structure Sketch where
  rows : List (Nat × Row)
  mask : Nat
deriving Repr, BEq

namespace Sketch

/-- `(hashed ^ seed) & mask` -/
def idx (mask seed h : Nat) : Nat := (h ^^^ seed) &&& mask

/-- `CountMinSketch::new` after the random seeds have been drawn: `width` bytes per row. -/
def mk' (seeds : List Nat) (width mask : Nat) : Sketch :=
  { rows := seeds.map (fun s => (s, List.replicate width 0)), mask := mask }

def incRows (mask h : Nat) : List (Nat × Row) → Option (List (Nat × Row))
  | [] => some []
  | (s, r) :: rest =>
    match r.inc (idx mask s h), incRows mask h rest with
    | some r', some rest' => some ((s, r') :: rest')
    | _, _ => none

/-- `CountMinSketch::increment` -/
def increment (sk : Sketch) (h : Nat) : Option Sketch :=
  (incRows sk.mask h sk.rows).map (fun rs => { sk with rows := rs })

def estRows (mask h : Nat) : List (Nat × Row) → Nat → Option Nat
  | [], m => some m
  | (s, r) :: rest, m =>
    match r.get (idx mask s h) with
    | none => none
    | some v => estRows mask h rest (if v < m then v else m)

/-- `CountMinSketch::estimate` (`min` starts at 255) -/
def estimate (sk : Sketch) (h : Nat) : Option Nat := estRows sk.mask h sk.rows 255

/-- `CountMinSketch::reset` -/
def reset (sk : Sketch) : Sketch := { sk with rows := sk.rows.map (fun p => (p.1, p.2.reset)) }

/-- `CountMinSketch::clear` -/
def clear (sk : Sketch) : Sketch := { sk with rows := sk.rows.map (fun p => (p.1, p.2.clear)) }

end Sketch
end Stretto
