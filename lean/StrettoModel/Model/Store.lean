import StrettoModel.Model.KMap
/-!
# Time, expiration map and sharded store (mirrors `src/ttl.rs`, `src/store.rs`)

Time is nanoseconds since the epoch (`Nat`); a `Duration` is nanoseconds. The 256 shards only select
a lock, so the store is one logical map from index hash to entry. Values are opaque ids.
-/
namespace Stretto

def nsPerSec : Nat := 1000000000

/-- `ttl::Time { d, created_at }` -/
structure Time where
  /-- time to live; 0 = never expires -/
  d : Nat
  created : Nat
deriving Repr, BEq, DecidableEq

namespace Time

def isZero (t : Time) : Bool := t.d == 0

/-- `created_at.elapsed() >= d` (an `Err` from a clock running backwards counts as not expired) -/
def isExpired (t : Time) (now : Nat) : Bool := now ≥ t.created && now - t.created ≥ t.d

/-- the moment the entry stops being served -/
def deadline (t : Time) : Nat := t.created + t.d

/-- `get_ttl`: `none` stands for `Duration::MAX` (no expiry) -/
def getTtl (t : Time) (now : Nat) : Option Nat :=
  if t.d == 0 then none
  else if now - t.created ≥ t.d then some 0 else some (t.d - (now - t.created))

/-- `unix()`: whole seconds of `created_at + d` -/
def unix (t : Time) : Nat := (t.created + t.d) / nsPerSec

/-- `storage_bucket` -/
def storageBucket (t : Time) : Nat := t.unix + 1

/-- `cleanup_bucket(Time::now())` -/
def cleanupBucket (now : Nat) : Nat := now / nsPerSec

end Time

/-- `ExpirationMap`: bucket number ↦ (index ↦ conflict) -/
abbrev Buckets := KMap (KMap Nat)

namespace Buckets

def bucketPut (m : Buckets) (b k c : Nat) : Buckets :=
  m.set b (((m.get b).getD []).set k c)

/-- `try_insert` -/
def tryInsert (m : Buckets) (k c : Nat) (t : Time) : Buckets :=
  if t.isZero then m else bucketPut m t.storageBucket k c

/-- `try_update` -/
def tryUpdate (m : Buckets) (k c : Nat) (old new : Time) : Buckets :=
  if old.isZero && new.isZero then m
  else if !old.isZero && !new.isZero && old.storageBucket == new.storageBucket then m
  else
    let m1 := if old.isZero then m else
      match m.get old.storageBucket with
      | some bk => m.set old.storageBucket (bk.erase k)
      | none => m
    if new.isZero then m1 else bucketPut m1 new.storageBucket k c

/-- `try_remove` -/
def tryRemove (m : Buckets) (k : Nat) (t : Time) : Buckets :=
  match m.get t.storageBucket with
  | some bk => m.set t.storageBucket (bk.erase k)
  | none => m

/-- `try_cleanup`: every bucket numbered ≤ the cleanup bucket is taken out; returns the rest and
the keys of the due buckets -/
def tryCleanup (m : Buckets) (now : Nat) : Buckets × List (Nat × Nat) :=
  let due := m.filter (fun p => p.1 ≤ Time.cleanupBucket now)
  (m.filter (fun p => ¬ p.1 ≤ Time.cleanupBucket now), (due.map (·.2)).flatten)

end Buckets

/-- `StoreItem` -/
structure Entry where
  conflict : Nat
  val : Nat
  exp : Time
deriving Repr, BEq, DecidableEq

/-- `ShardedMap` -/
structure Store where
  items : KMap Entry
  em : Buckets
deriving Repr, BEq

/-- `UpdateResult` -/
inductive UpdateResult
  | notExist | reject | conflict | update (old : Nat)
deriving Repr, BEq, DecidableEq

namespace Store

def empty : Store := { items := [], em := [] }

def conflictOk (conflict : Nat) (e : Entry) : Bool := conflict == 0 || conflict == e.conflict

/-- the entry `get`/`get_mut` would serve -/
def lookup (s : Store) (k conflict now : Nat) : Option Entry :=
  match s.items.get k with
  | none => none
  | some e =>
    if !conflictOk conflict e then none
    else if !e.exp.isZero && e.exp.isExpired now then none
    else some e

/-- `get` → the value -/
def get (s : Store) (k conflict now : Nat) : Option Nat := (s.lookup k conflict now).map (·.val)

/-- `ValueRef::ttl` / fixed `get_ttl`; the inner `none` is `Duration::MAX` -/
def getTtl (s : Store) (k conflict now : Nat) : Option (Option Nat) :=
  (s.lookup k conflict now).map (·.exp.getTtl now)

/-- `get_mut` followed by `write v` -/
def getMutWrite (s : Store) (k conflict now v : Nat) : Store × Option Nat :=
  match s.lookup k conflict now with
  | none => (s, none)
  | some e => ({ s with items := s.items.set k { e with val := v } }, some e.val)

/-- `try_insert` (the processor's insert) -/
def tryInsert (s : Store) (shouldUpdate : Nat → Nat → Bool) (k v conflict : Nat) (t : Time) : Store :=
  match s.items.get k with
  | none => { items := s.items.set k ⟨conflict, v, t⟩, em := s.em.tryInsert k conflict t }
  | some e =>
    if !conflictOk conflict e then s
    else if !shouldUpdate e.val v then s
    else { items := s.items.set k ⟨conflict, v, t⟩, em := s.em.tryUpdate k conflict e.exp t }

/-- `try_update` (the client-side immediate update) -/
def tryUpdate (s : Store) (shouldUpdate : Nat → Nat → Bool) (k v conflict : Nat) (t : Time) :
    Store × UpdateResult :=
  match s.items.get k with
  | none => (s, .notExist)
  | some e =>
    if !conflictOk conflict e then (s, .conflict)
    else if !shouldUpdate e.val v then (s, .reject)
    else ({ items := s.items.set k { e with val := v, exp := t },
            em := s.em.tryUpdate k conflict e.exp t }, .update e.val)

/-- `try_remove` -/
def tryRemove (s : Store) (k conflict : Nat) : Store × Option Entry :=
  match s.items.get k with
  | none => (s, none)
  | some e =>
    if !conflictOk conflict e then (s, none)
    else ({ items := s.items.erase k,
            em := if e.exp.isZero then s.em else s.em.tryRemove k e.exp }, some e)

/-- `expiration` -/
def expiration (s : Store) (k : Nat) : Option Time := (s.items.get k).map (·.exp)

def len (s : Store) : Nat := s.items.length

/-- `clear` -/
def clear (_ : Store) : Store := empty

end Store
end Stretto
