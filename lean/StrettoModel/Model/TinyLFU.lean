import StrettoModel.Model.Sketch
import StrettoModel.Model.Bloom
/-!
# TinyLFU admission estimator (mirrors `policy.rs`, `TinyLFU`)
-/
namespace Stretto

structure TinyLFU where
  sk : Sketch
  dk : Bloom
  samples : Nat
  w : Nat
deriving Repr, BEq

namespace TinyLFU

/-- `TinyLFU::estimate` -/
def estimate (t : TinyLFU) (h : Nat) : Option Nat :=
  (t.sk.estimate h).map (fun e => if t.dk.contains h then e + 1 else e)

/-- `TinyLFU::reset` -/
def reset (t : TinyLFU) : TinyLFU :=
  { t with w := 0, dk := t.dk.reset, sk := t.sk.reset }

/-- `TinyLFU::try_reset` -/
def tryReset (t : TinyLFU) : TinyLFU :=
  let t' := { t with w := t.w + 1 }
  if t'.w ≥ t'.samples then t'.reset else t'

/-- `TinyLFU::increment` -/
def increment (t : TinyLFU) (h : Nat) : Option TinyLFU :=
  let (dk', added) := t.dk.containsOrAdd h
  if added then some ({ t with dk := dk' }).tryReset
  else (t.sk.increment h).map (fun sk' => ({ t with dk := dk', sk := sk' }).tryReset)

/-- `TinyLFU::increments` -/
def increments (t : TinyLFU) : List Nat → Option TinyLFU
  | [] => some t
  | h :: hs => match t.increment h with
    | none => none
    | some t' => increments t' hs

/-- `TinyLFU::clear` -/
def clear (t : TinyLFU) : TinyLFU :=
  { t with w := 0, dk := t.dk.reset, sk := t.sk.clear }

end TinyLFU
end Stretto
