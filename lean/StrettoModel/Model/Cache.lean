import StrettoModel.Model.Store
import StrettoModel.Model.Policy
/-!
# The cache: client operations, insert buffer, processor, cleanup, clear / wait / close protocol
(mirrors `src/cache.rs`, `src/cache/sync.rs`, `src/cache/async.rs`, `src/ring.rs`,
`src/policy/{sync,async}.rs`)

Granularity: one client call (or one half of a blocking call: request / return) and one iteration of
the processor loop are atomic steps; any interleaving of such steps is a run. Popularity estimates
and `HashMap` iteration orders are oracle inputs (see `Policy.lean`); the TinyLFU estimator itself
is modelled and proved separately (`TinyLFU.lean`, C13).
-/
namespace Stretto

/-- what travels through the insert buffer (`enum Item`) -/
inductive Item
  | new (key conflict : Nat) (cost : Int) (val : Nat) (exp : Time)
  | update (key : Nat) (cost ext : Int)
  | delete (key conflict : Nat)
  | wait (id : Nat)
deriving Repr, BEq, DecidableEq

/-- a callback invocation (`CacheCallback`) -/
inductive CB
  | exit (val : Nat)
  | evict (key conflict val : Nat) (cost : Int)
  | reject (key conflict val : Nat) (cost : Int)
deriving Repr, BEq, DecidableEq

def CB.val : CB → Nat
  | .exit v => v
  | .evict _ _ v _ => v
  | .reject _ _ v _ => v

/-- the eleven striped counters, each a `u64` total -/
structure Metrics where
  hit : Nat := 0
  miss : Nat := 0
  keyAdd : Nat := 0
  keyUpdate : Nat := 0
  keyEvict : Nat := 0
  costAdd : Nat := 0
  costEvict : Nat := 0
  dropSets : Nat := 0
  rejectSets : Nat := 0
  dropGets : Nat := 0
  keepGets : Nat := 0
  /-- samples in the life-expectancy histogram -/
  lifeCount : Nat := 0
deriving Repr, BEq, DecidableEq

def u64 (x : Int) : Nat := (x % 18446744073709551616).toNat

namespace Metrics
def applyEv (m : Metrics) : MEv → Metrics
  | .costAdd d => { m with costAdd := u64 (m.costAdd + d) }
  | .costEvict c => { m with costEvict := u64 (m.costEvict + c) }
  | .keyEvict => { m with keyEvict := u64 (m.keyEvict + 1) }
  | .keyUpdate => { m with keyUpdate := u64 (m.keyUpdate + 1) }
  | .rejectSets => { m with rejectSets := u64 (m.rejectSets + 1) }
def applyEvs (m : Metrics) (evs : List MEv) : Metrics := evs.foldl applyEv m
def toList (m : Metrics) : List Nat :=
  [m.hit, m.miss, m.keyAdd, m.keyUpdate, m.keyEvict, m.costAdd, m.costEvict, m.dropSets,
   m.rejectSets, m.dropGets, m.keepGets]
end Metrics

/-- configuration fixed at `finalize()` -/
structure Cfg where
  /-- `size_of::<StoreItem<V>>()` -/
  itemSize : Nat
  ignoreInternal : Bool
  /-- insert buffer capacity -/
  bufCap : Nat
  /-- `buffer_items` -/
  ringCap : Nat
  /-- policy queue capacity; `none` = unbounded (async flavour) -/
  pqCap : Option Nat
  metricsOn : Bool
deriving Repr, BEq

structure Cache where
  cfg : Cfg
  store : Store
  lfu : Lfu
  /-- insert buffer, oldest first -/
  buf : List Item
  /-- `Delete` items of `remove()` calls blocked on the full buffer, in arrival order -/
  pendingSends : List Item
  /-- pending clear requests (ids of the requesters), oldest first -/
  clearQ : List Nat
  /-- pending get batch -/
  ring : List Nat
  /-- policy queue of flushed get batches, oldest first -/
  pq : List (List Nat)
  metrics : Metrics
  /-- keys whose admission time is tracked for the life-expectancy histogram -/
  tracked : List Nat
  closed : Bool
  policyClosed : Bool
  procExited : Bool
  /-- wait-group ids that have been released (`wg.done()`) -/
  released : List Nat
  /-- callback log, newest first -/
  cbs : List CB
deriving Repr, BEq

namespace Cache

def init (cfg : Cfg) (maxCost : Int) (samples : Nat) : Cache :=
  { cfg, store := Store.empty, lfu := { costs := [], used := 0, maxCost, samples },
    buf := [], pendingSends := [], clearQ := [], ring := [], pq := [], metrics := {}, tracked := [], closed := false,
    policyClosed := false, procExited := false, released := [], cbs := [] }

def met (c : Cache) (f : Metrics → Metrics) : Cache :=
  if c.cfg.metricsOn then { c with metrics := f c.metrics } else c

/-- `calculate_internal_cost` -/
def internalCost (c : Cache) (cost : Int) : Int :=
  if c.cfg.ignoreInternal then cost else cost + c.cfg.itemSize

-- client operations ------------------------------------------------------------------------

/-- the body of `try_insert_in` after its closed-check: `ext` is the Coster's valuation of the value
(used when `cost = 0`). Returns the `bool` the call returns. -/
def insertBody (c : Cache) (shouldUpdate : Nat → Nat → Bool) (k conflict v : Nat) (cost : Int) (ttl : Nat)
    (now : Nat) (coster : Int) (onlyUpdate : Bool) : Cache × Bool :=
  let exp : Time := { d := ttl, created := now }
  -- an expired entry that has not been reclaimed yet counts as absent for `insert_if_present`
  if onlyUpdate && (c.store.get k conflict now).isNone then (c, false) else
  let ext : Int := if cost == 0 then coster else 0
  let r := c.store.tryUpdate shouldUpdate k v conflict exp
  -- the non-blocking send succeeds when the buffer has room and the processor has not gone
  -- (a call that passed its closed-check before a `close()` finds the channel disconnected)
  let room := c.buf.length < c.cfg.bufCap && !c.procExited
  match r.2 with
  | .update old =>
    -- an update returns true whether or not the item fits in the buffer
    if room then
      ({ c with store := r.1, cbs := CB.exit old :: c.cbs, buf := c.buf ++ [Item.update k cost ext] }, true)
    else ({ c with store := r.1, cbs := CB.exit old :: c.cbs }, true)
  | _ =>
    if onlyUpdate then (c, false)
    else if room then
      ({ c with buf := c.buf ++ [Item.new k conflict (cost + ext) v exp] }, true)
    else (c.met fun m => { m with dropSets := u64 (m.dropSets + 1) }, false)

/-- `try_insert_in`: the closed-check, then the body. (The two are separate atomic sections: a
`close()` can slip in between; `insertBody` is what then still runs.) -/
def insert (c : Cache) (shouldUpdate : Nat → Nat → Bool) (k conflict v : Nat) (cost : Int) (ttl : Nat)
    (now : Nat) (coster : Int) (onlyUpdate : Bool) : Cache × Bool :=
  if c.closed then (c, false) else c.insertBody shouldUpdate k conflict v cost ttl now coster onlyUpdate

/-- `RingStripe::push` + `LFUPolicy::push` -/
def ringPush (c : Cache) (k : Nat) : Cache :=
  let data := c.ring ++ [k]
  if data.length ≥ c.cfg.ringCap then
    if c.policyClosed then { c with ring := [] }
    else
      let fits := match c.cfg.pqCap with
        | none => true
        | some cap => c.pq.length < cap
      if fits then
        ({ c with ring := [], pq := c.pq ++ [data] }).met fun m => { m with keepGets := u64 (m.keepGets + data.length) }
      else ({ c with ring := [] }).met fun m => { m with dropGets := u64 (m.dropGets + data.length) }
  else { c with ring := data }

/-- `get` -/
def get (c : Cache) (k conflict now : Nat) : Cache × Option Nat :=
  if c.closed then (c, none) else
  let c := c.ringPush k
  match c.store.get k conflict now with
  | none => (c.met fun m => { m with miss := u64 (m.miss + 1) }, none)
  | some v => (c.met fun m => { m with hit := u64 (m.hit + 1) }, some v)

/-- `get_mut` followed by a write of `v` through the returned reference -/
def getMutWrite (c : Cache) (k conflict now v : Nat) : Cache × Option Nat :=
  if c.closed then (c, none) else
  let c := c.ringPush k
  let r := c.store.getMutWrite k conflict now v
  match r.2 with
  | none => (c.met fun m => { m with miss := u64 (m.miss + 1) }, none)
  | some old => (({ c with store := r.1 }).met fun m => { m with hit := u64 (m.hit + 1) }, some old)

/-- `get_ttl` -/
def getTtl (c : Cache) (k conflict now : Nat) : Option (Option Nat) := c.store.getTtl k conflict now

/-- `try_remove`: the entry is deleted from the store at once; the `Delete` item is sent with a
blocking send, so when the buffer is full the call stays blocked (returns `true` here) until the
processor frees a slot. -/
def remove (c : Cache) (k conflict : Nat) : Cache × Bool :=
  if c.closed then (c, false) else
  let r := c.store.tryRemove k conflict
  let c := match r.2 with
    | some e => { c with store := r.1, cbs := CB.exit e.val :: c.cbs }
    | none => c
  if c.buf.length < c.cfg.bufCap && c.pendingSends.isEmpty then
    ({ c with buf := c.buf ++ [Item.delete k conflict] }, false)
  else ({ c with pendingSends := c.pendingSends ++ [Item.delete k conflict] }, true)

/-- a blocked sender completes its send as soon as there is room -/
def admitPending (c : Cache) : Cache :=
  match c.pendingSends with
  | it :: rest => if c.buf.length < c.cfg.bufCap then { c with buf := c.buf ++ [it], pendingSends := rest } else c
  | [] => c

/-- first half of `wait()`: `none` = returned Ok at once (closed), `some false` = Err (buffer full),
`some true` = marker enqueued -/
def waitEnq (c : Cache) (id : Nat) : Cache × Option Bool :=
  if c.closed then (c, none)
  else if c.buf.length < c.cfg.bufCap then ({ c with buf := c.buf ++ [Item.wait id] }, some true)
  else (c, some false)

/-- a blocked `wait()` / `clear()` / `close()` may return when its wait-group was released, or
(re-check after the request) when the cache is closed -/
def mayReturn (c : Cache) (id : Nat) (recheckClosed : Bool) : Bool :=
  c.released.contains id || (recheckClosed && c.closed)

/-- first half of `clear()`: returns `false` when it returned at once (closed) -/
def clearReq (c : Cache) (id : Nat) : Cache × Bool :=
  if c.closed then (c, false) else ({ c with clearQ := c.clearQ ++ [id] }, true)

/-- first half of `close()`: returns `false` when another close already happened -/
def closeBegin (c : Cache) (id : Nat) : Cache × Bool :=
  if c.closed then (c, false) else ({ c with closed := true, clearQ := c.clearQ ++ [id] }, true)

/-- `update_max_cost` -/
def updateMaxCost (c : Cache) (mc : Int) : Cache := { c with lfu := c.lfu.updateMaxCost mc }

def len (c : Cache) : Nat := c.store.len

-- processor ---------------------------------------------------------------------------------

/-- removal of the victims of an admission from the store, with their `on_evict` callbacks -/
def evictVictims (c : Cache) : List (Nat × Int) → Cache
  | [] => c
  | (vk, vc) :: rest =>
    match (c.store.tryRemove vk 0).2 with
    | some e =>
      let tracked := c.tracked.contains vk
      let c1 := { c with store := (c.store.tryRemove vk 0).1, cbs := CB.evict vk e.conflict e.val vc :: c.cbs,
                         tracked := c.tracked.filter (· != vk) }
      let c2 := if tracked then c1.met fun m => { m with lifeCount := m.lifeCount + 1 } else c1
      evictVictims c2 rest
    | none => evictVictims c rest

/-- `handle_item` -/
def handleItem (c : Cache) (shouldUpdate : Nat → Nat → Bool) (est : Nat → Int)
    (refills : List (List (Nat × Int))) : Item → Cache
  | .new k conflict cost v exp =>
    let cost' := c.internalCost cost
    let R := policyAdd c.lfu est k cost' refills
    let c := { c with lfu := R.lfu }
    let c := c.met fun m => m.applyEvs R.events
    let c :=
      if R.added then
        let c := { c with store := c.store.tryInsert shouldUpdate k v conflict exp }
        -- `track_admission`: the admission time is recorded only inside the pruning branch
        -- (`start_ts.len() > num_to_keep`), which needs more than `num_to_keep` (100000) tracked
        -- keys to begin with: in this model (fewer admissions than that) no key is ever tracked.
        if c.cfg.metricsOn then
          { c with metrics := { c.metrics with keyAdd := u64 (c.metrics.keyAdd + 1) } }
        else c
      else { c with cbs := CB.reject k conflict v cost' :: c.cbs }
    match R.victims with
    | some vs => c.evictVictims vs
    | none => c
  | .update k cost ext =>
    let cost' := c.internalCost cost + ext
    ({ c with lfu := (c.lfu.update k cost').1 }).met fun m => m.applyEvs (c.lfu.update k cost').2.2
  | .delete k conflict =>
    let r := c.store.tryRemove k conflict
    let c1 := { c with store := r.1 }
    let c2 := if (r.1.expiration k).isNone then
        ({ c1 with lfu := (policyRemove c.lfu k).1 }).met fun m => m.applyEvs (policyRemove c.lfu k).2
      else c1
    match r.2 with
    | some e => { c2 with cbs := CB.exit e.val :: c2.cbs }
    | none => c2
  | .wait id => { c with released := id :: c.released }

/-- one iteration of the loop taking the insert-buffer branch -/
def procItem (c : Cache) (shouldUpdate : Nat → Nat → Bool) (est : Nat → Int)
    (refills : List (List (Nat × Int))) : Option Cache :=
  if c.procExited then none else
  match c.buf with
  | [] => none
  | it :: rest => some ((({ c with buf := rest }).admitPending).handleItem shouldUpdate est refills it)

/-- what the cleaner does with a buffered item -/
def drainItem (c : Cache) : Item → Cache
  | .new k conflict cost v _ => { c with cbs := CB.evict k conflict v cost :: c.cbs }
  | .update .. => c
  | .delete .. => c
  | .wait id => { c with released := id :: c.released }

/-- one iteration taking the clear branch: drain the buffer, clear policy, store and metrics,
release the requester -/
def procClear (c : Cache) : Option Cache :=
  if c.procExited then none else
  match c.clearQ with
  | [] => none
  | id :: rest =>
    let c := c.buf.foldl drainItem { c with buf := [], clearQ := rest }
    some { c with lfu := c.lfu.clear, store := c.store.clear, metrics := {}, released := id :: c.released }

/-- the sweep looks at one key of a due bucket: re-check against the store, then release the charge
and remove the entry -/
def sweepOne (c : Cache) (now k conflict : Nat) : Cache × Option CB :=
  match c.store.expiration k with
  | none => (c, none)
  | some t =>
    if !t.isZero && t.isExpired now then
      let cost := policyCost c.lfu k
      let c1 := ({ c with lfu := (policyRemove c.lfu k).1 }).met fun m => m.applyEvs (policyRemove c.lfu k).2
      match (c.store.tryRemove k conflict).2 with
      | some e => ({ c1 with store := (c.store.tryRemove k conflict).1 }, some (CB.evict k e.conflict e.val cost))
      | none => (c1, none)
    else (c, none)

/-- the sweep over the keys of the due buckets, in the order the implementation visited them -/
def sweepKeys (c : Cache) (now : Nat) : List (Nat × Nat) → List CB → Cache × List CB
  | [], acc => (c, acc)
  | (k, conflict) :: rest, acc =>
    sweepKeys (c.sweepOne now k conflict).1 now rest
      (match (c.sweepOne now k conflict).2 with
       | some cb => cb :: acc
       | none => acc)

/-- the callbacks of a sweep are delivered after all removals -/
def deliverEvictions (c : Cache) : List CB → Cache
  | [] => c
  | cb :: rest =>
    let c := match cb with
      | .evict k _ _ _ =>
        let tracked := c.tracked.contains k
        let c := { c with tracked := c.tracked.filter (· != k) }
        if tracked then c.met fun m => { m with lifeCount := m.lifeCount + 1 } else c
      | _ => c
    deliverEvictions { c with cbs := cb :: c.cbs } rest

/-- one iteration taking the ticker branch; `order` = the due keys in the order visited -/
def procTick (c : Cache) (now : Nat) (order : List (Nat × Nat)) : Option Cache :=
  if c.procExited then none else
  let (em', _) := c.store.em.tryCleanup now
  let c := { c with store := { c.store with em := em' } }
  let (c, evicted) := c.sweepKeys now order []
  some (c.deliverEvictions evicted.reverse)

/-- the due keys, as a set, for the guard on `order` -/
def dueKeys (c : Cache) (now : Nat) : List (Nat × Nat) := (c.store.em.tryCleanup now).2

/-- one iteration taking the stop branch: release every waiter, then return -/
def procStop (c : Cache) : Option Cache :=
  if c.procExited then none else
  let waits := c.buf.filterMap fun | .wait id => some id | _ => none
  some { c with procExited := true, buf := [], clearQ := [], released := c.clearQ ++ waits ++ c.released }

/-- the policy worker dequeues one batch (its effect on the estimator is C13's subject) -/
def policyWorkerStep (c : Cache) : Option (Cache × List Nat) :=
  match c.pq with
  | [] => none
  | b :: rest => some ({ c with pq := rest }, b)

/-- `policy.close()` at the end of `close()` -/
def policyClose (c : Cache) : Cache := { c with policyClosed := true }

end Cache
end Stretto
