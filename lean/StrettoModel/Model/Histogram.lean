/-!
# `Histogram` (mirrors `src/histogram.rs`)

Bounds are the `f64` bounds truncated to `i64` (the only way `update` reads them); the model covers
integer-valued bounds. Counters are unbounded `Int`s (domain assumption: no `i64` overflow).
-/
namespace Stretto

structure Hist where
  bounds : List Int
  count : Int
  /-- `count_per_bucket`, one more than there are bounds -/
  buckets : List Int
  min : Int
  max : Int
  sum : Int
deriving Repr, BEq, DecidableEq

namespace Hist

/-- `Histogram::new` -/
def new (bounds : List Int) : Hist :=
  { bounds := bounds, count := 0, buckets := List.replicate (bounds.length + 1) 0,
    min := 9223372036854775807, max := 0, sum := 0 }

/-- the bucket `update` picks: the first one whose bound exceeds the value, or the last -/
def bucketIdx : List Int → Int → Nat
  | [], _ => 0
  | b :: rest, v => if v < b then 0 else 1 + bucketIdx rest v

def incAt : List Int → Nat → List Int
  | [], _ => []
  | x :: rest, 0 => (x + 1) :: rest
  | x :: rest, i + 1 => x :: incAt rest i

/-- `update` -/
def update (h : Hist) (v : Int) : Hist :=
  { h with max := if v > h.max then v else h.max, min := if v < h.min then v else h.min,
           sum := h.sum + v, count := h.count + 1, buckets := incAt h.buckets (bucketIdx h.bounds v) }

/-- `clear` -/
def clear (h : Hist) : Hist :=
  { h with count := 0, buckets := h.buckets.map (fun _ => 0), sum := 0, max := 0, min := 0 }

/-- the scan of `percentile`: subtract bucket counts until nothing is left -/
def pctScan (bounds : List Int) (dflt : Int) : List Int → Nat → Int → Int
  | [], _, _ => dflt
  | b :: rest, idx, pval =>
    if pval - b ≤ 0 then (if idx == bounds.length then dflt else bounds.getD idx dflt)
    else pctScan bounds dflt rest (idx + 1) (pval - b)

/-- `percentile(num / den)` for a `p` that is exact in binary (0.5, 0.75, ...) -/
def percentile (h : Hist) (num den : Nat) : Int :=
  if h.count == 0 then h.bounds.headD 0
  else pctScan h.bounds (h.bounds.getLastD 0) h.buckets 0 (h.count * num / den)

end Hist
end Stretto
