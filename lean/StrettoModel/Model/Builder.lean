/-!
# `CacheBuilder::finalize` validation (mirrors `cache/sync.rs`, `cache/async.rs`)
-/
namespace Stretto

inductive FinalizeVerdict
  | ok | invalidNumCounters | invalidMaxCost | invalidBufferSize
deriving Repr, BEq, DecidableEq

/-- the three checks, in the order the builder performs them -/
def finalizeCheck (numCounters : Nat) (maxCost : Int) (bufSize : Nat) : FinalizeVerdict :=
  if numCounters == 0 then .invalidNumCounters
  else if maxCost == 0 then .invalidMaxCost
  else if bufSize == 0 then .invalidBufferSize
  else .ok

def FinalizeVerdict.name : FinalizeVerdict → String
  | .ok => "ok"
  | .invalidNumCounters => "InvalidNumCounters"
  | .invalidMaxCost => "InvalidMaxCost"
  | .invalidBufferSize => "InvalidBufferSize"

end Stretto
