/-!
# `CacheBuilder::finalize` validation (mirrors `cache/sync.rs`, `cache/async.rs`)
-/
namespace Stretto

inductive FinalizeVerdict
  | ok | invalidNumCounters | invalidMaxCost | invalidBufferSize
deriving Repr, BEq, DecidableEq

/-- the three checks, in the order the builder performs them -/
def finalizeCheck (numCounters : Nat) (maxCost : Int) (bufSize : Nat) : FinalizeVerdict :=
  if numCounters == 0 then .invalidNumCounters
  else if maxCost == 0 then .invalidMaxCost
  else if bufSize == 0 then .invalidBufferSize
  else .ok

def FinalizeVerdict.name : FinalizeVerdict → String
  | .ok => "ok"
  | .invalidNumCounters => "InvalidNumCounters"
  | .invalidMaxCost => "InvalidMaxCost"
  | .invalidBufferSize => "InvalidBufferSize"

end Stretto

namespace Stretto

/-- the plain fields of `CacheBuilderCore` (the typed slots — key builder, coster, validator, callback,
hasher — are represented by the identifier of what was plugged in; 0 = the default) -/
structure BuilderCore where
  numCounters : Nat
  maxCost : Int
  bufferItems : Nat := 64
  insertBufferSize : Nat := 32768
  metrics : Bool := false
  ignoreInternalCost : Bool := false
  cleanupNs : Nat := 2000000000
  keyBuilder : Nat := 0
  coster : Nat := 0
  validator : Nat := 0
  callback : Nat := 0
  hasher : Nat := 0
deriving Repr, BEq, DecidableEq

/-- the builder calls; the last five rebuild the whole struct in the code (they change a type parameter)
and must carry every other field across -/
inductive Setter
  | numCounters (n : Nat) | maxCost (m : Int) | bufferItems (n : Nat) | bufferSize (n : Nat)
  | metrics (b : Bool) | ignoreInternal (b : Bool) | cleanup (ns : Nat)
  | keyBuilder (id : Nat) | coster (id : Nat) | validator (id : Nat) | callback (id : Nat) | hasher (id : Nat)
deriving Repr, BEq, DecidableEq

def BuilderCore.set (b : BuilderCore) : Setter → BuilderCore
  | .numCounters n => { b with numCounters := n }
  | .maxCost m => { b with maxCost := m }
  | .bufferItems n => { b with bufferItems := n }
  | .bufferSize n => { b with insertBufferSize := n }
  | .metrics v => { b with metrics := v }
  | .ignoreInternal v => { b with ignoreInternalCost := v }
  | .cleanup ns => { b with cleanupNs := ns }
  | .keyBuilder id => { b with keyBuilder := id }
  | .coster id => { b with coster := id }
  | .validator id => { b with validator := id }
  | .callback id => { b with callback := id }
  | .hasher id => { b with hasher := id }

/-- what the components of the built cache are given -/
structure Effective where
  /-- aging window of the TinyLFU / width basis of the sketch -/
  numCounters : Nat
  maxCost : Int
  /-- capacity of the get ring -/
  ringCap : Nat
  /-- capacity of the insert buffer -/
  bufCap : Nat
  metricsOn : Bool
  ignoreInternalCost : Bool
  cleanupNs : Nat
deriving Repr, BEq, DecidableEq

/-- `finalize`: the three checks, then every field goes to the component that uses it -/
def BuilderCore.finalize (b : BuilderCore) : Except FinalizeVerdict Effective :=
  match finalizeCheck b.numCounters b.maxCost b.insertBufferSize with
  | .ok => .ok { numCounters := b.numCounters, maxCost := b.maxCost, ringCap := b.bufferItems,
                 bufCap := b.insertBufferSize, metricsOn := b.metrics,
                 ignoreInternalCost := b.ignoreInternalCost, cleanupNs := b.cleanupNs }
  | v => .error v

/-- a whole chain of builder calls -/
def buildWith (numCounters : Nat) (maxCost : Int) (calls : List Setter) : Except FinalizeVerdict Effective :=
  (calls.foldl BuilderCore.set { numCounters, maxCost }).finalize

end Stretto
