import StrettoModel.Model.Cache
/-!
# The cache as a labelled transition system

One action = one client call (or one half of a blocking call) or one iteration of a worker loop.
A run is any sequence of actions; this over-approximates every program of any number of client
threads interleaved with the two workers at this granularity.
-/
namespace Stretto

inductive Act
  | insert (k conflict v : Nat) (cost : Int) (ttl now : Nat) (coster : Int) (only : Bool)
  | get (k conflict now : Nat)
  | getMut (k conflict now v : Nat)
  | remove (k conflict : Nat)
  | waitEnq (id : Nat)
  | clearReq (id : Nat)
  | closeBegin (id : Nat)
  | updateMaxCost (mc : Int)
  | procItem (est : Nat → Int) (refills : List (List (Nat × Int)))
  | procClear
  | procTick (now : Nat) (order : List (Nat × Nat))
  | procStop
  | policyWorker
  | policyClose

/-- `none` = the action is not enabled in this state -/
def Cache.step (su : Nat → Nat → Bool) (c : Cache) : Act → Option Cache
  | .insert k cf v cost ttl now coster only => some (c.insert su k cf v cost ttl now coster only).1
  | .get k cf now => some (c.get k cf now).1
  | .getMut k cf now v => some (c.getMutWrite k cf now v).1
  | .remove k cf => some (c.remove k cf).1
  | .waitEnq id => some (c.waitEnq id).1
  | .clearReq id => some (c.clearReq id).1
  | .closeBegin id => some (c.closeBegin id).1
  | .updateMaxCost mc => some (c.updateMaxCost mc)
  | .procItem est refills => c.procItem su est refills
  | .procClear => c.procClear
  | .procTick now order => c.procTick now order
  | .procStop => c.procStop
  | .policyWorker => (c.policyWorkerStep).map (·.1)
  | .policyClose => some c.policyClose

/-- run a sequence of actions, skipping the ones that are not enabled -/
def Cache.run (su : Nat → Nat → Bool) (c : Cache) : List Act → Cache
  | [] => c
  | a :: rest => Cache.run su ((c.step su a).getD c) rest

end Stretto
