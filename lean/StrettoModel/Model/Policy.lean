import StrettoModel.Model.KMap
/-!
# Sampled-LFU cost bookkeeping and the admission / eviction loop (mirrors `src/policy.rs`)

`i64` costs are unbounded `Int`s (domain assumption `Dom`: no overflow). Choices the Rust code
takes from `HashMap` iteration order enter as *oracle inputs*: for every iteration of the eviction
loop, the entries `fill_sample` appended. Popularity estimates enter as a function `est`.
-/
namespace Stretto

/-- metric updates emitted by the policy (`Metrics::add` calls) -/
inductive MEv
  | costAdd (d : Int)      -- `CostAdd`, may be negative (the `!diff` trick adds 2^64 - d)
  | costEvict (c : Int)
  | keyEvict
  | keyUpdate
  | rejectSets
deriving Repr, BEq, DecidableEq

/-- `SampledLFU` -/
structure Lfu where
  costs : KMap Int
  used : Int
  maxCost : Int
  /-- `samples` (`DEFAULT_SAMPLES` = 5) -/
  samples : Nat
deriving Repr, BEq

namespace Lfu

/-- `room_left` -/
def roomLeft (l : Lfu) (cost : Int) : Int := l.maxCost - (l.used + cost)

/-- `increment` -/
def increment (l : Lfu) (k : Nat) (c : Int) : Lfu :=
  { l with costs := l.costs.set k c, used := l.used + c }

/-- `remove` -/
def remove (l : Lfu) (k : Nat) : Lfu × Option Int :=
  match l.costs.get k with
  | none => (l, none)
  | some c => ({ l with costs := l.costs.erase k, used := l.used - c }, some c)

/-- `update`; the metric events are emitted only when metrics are on (`withMetrics`) -/
def update (l : Lfu) (k : Nat) (c : Int) : Lfu × Bool × List MEv :=
  match l.costs.get k with
  | none => (l, false, [])
  | some prev =>
    ({ l with costs := l.costs.set k c, used := l.used + (c - prev) }, true,
     if prev = c then [MEv.keyUpdate] else [MEv.keyUpdate, MEv.costAdd (c - prev)])

/-- `clear` -/
def clear (l : Lfu) : Lfu := { l with costs := [], used := 0 }

/-- `update_max_cost` -/
def updateMaxCost (l : Lfu) (mc : Int) : Lfu := { l with maxCost := mc }

/-- What `fill_sample` may append to a sample of length `n`: nothing when the sample is full;
otherwise a duplicate-free run of charged keys with their current costs, never more than are missing,
bringing the sample to `samples` entries — or, when the residents do not suffice, to at least as many
entries as there are charged keys ("five, or all if fewer"; the code as it stands appends every charged
key then, a refill that skips keys already sampled appends the others: both are valid). -/
def validRefill (l : Lfu) (n : Nat) (extras : List (Nat × Int)) : Bool :=
  if n ≥ l.samples then extras.isEmpty
  else
    (decide (extras.length ≤ l.samples - n) &&
      (n + extras.length == l.samples || decide (l.costs.length ≤ n + extras.length))) &&
    extras.all (fun p => l.costs.get p.1 == some p.2) &&
    (extras.map (·.1)).eraseDups.length == extras.length

end Lfu

/-- index and hits of the first least popular sample entry: first strict minimum, as the Rust loop
(`if hits < min_hits`) finds it; `none` for an empty sample -/
def minEntryFirst (est : Nat → Int) : List (Nat × Int) → Option (Nat × (Nat × Int) × Int)
  | [] => none
  | p :: rest =>
    match minEntryFirst est rest with
    | none => some (0, p, est p.1)
    | some (i, q, h) => if est p.1 ≤ h then some (0, p, est p.1) else some (i + 1, q, h)

/-- numeric code of a sample: the argument under which the popularity oracle answers the tie-break
question for that sample (index hashes are below 2^64, charges within ±2^63: injective there) -/
def sampleCode : List (Nat × Int) → Nat
  | [] => 1
  | p :: rest => sampleCode rest * 2 ^ 130 + p.1 * 2 ^ 65 + (p.2 + 2 ^ 64).toNat

/-- the index the oracle proposes for this sample. The popularity oracle `est` is one function on `Nat`:
below 2^64 it is the sketch's estimate of that index hash; at `2^64 + sampleCode s` it says which of the
equally least popular entries of `s` the implementation takes (property C07 is indifferent to it: a scan
that keeps the first minimum, the last one, a heap, … are all correct). -/
def tiePick (est : Nat → Int) (s : List (Nat × Int)) : Nat := (est (2 ^ 64 + sampleCode s)).toNat

/-- index and hits of the least popular sample entry: *a* minimum — the one the tie-break oracle
proposes if that entry is a minimum, the first one otherwise (the oracle's default answer 0 gives the
first minimum, which is what the Rust scan `if hits < min_hits` finds); `none` for an empty sample -/
def minEntry (est : Nat → Int) (s : List (Nat × Int)) : Option (Nat × (Nat × Int) × Int) :=
  match minEntryFirst est s with
  | none => none
  | some (i, q, h) =>
    match s[tiePick est s]? with
    | some q' => if est q'.1 = h then some (tiePick est s, q', h) else some (i, q, h)
    | none => some (i, q, h)

/-- `sample[min_id] = sample[new_len]; sample.drain(new_len..)` -/
def swapRemove (s : List (Nat × Int)) (i : Nat) : List (Nat × Int) :=
  match s.getLast? with
  | none => s
  | some last => (s.set i last).dropLast

/-- ghost record of one iteration of the eviction loop: room before it, the sample after the
refill, and the victim chosen (`none` = the newcomer was rejected at this iteration) -/
structure IterLog where
  room : Int
  sample : List (Nat × Int)
  victim : Option (Nat × Int)
deriving Repr, BEq

/-- result of `policy.add` -/
structure AddResult where
  lfu : Lfu
  /-- `None` when the eviction loop was not entered -/
  victims : Option (List (Nat × Int))
  added : Bool
  events : List MEv
  /-- the loop ran out of oracle iterations while room was still lacking -/
  stuck : Bool := false
  /-- ghost: one entry per loop iteration, oldest first -/
  log : List IterLog := []
deriving Repr, BEq

/-- the eviction loop of `add`; one element of `refills` per iteration -/
def evictLoop (est : Nat → Int) (incHits : Int) (key : Nat) (cost : Int) :
    Lfu → List (Nat × Int) → List (Nat × Int) → List MEv → List IterLog →
    List (List (Nat × Int)) → AddResult
  | l, _, victims, evs, log, [] =>
    if l.roomLeft cost ≥ 0 then
      { lfu := l.increment key cost, victims := some victims.reverse, added := true,
        events := (MEv.costAdd cost :: evs).reverse, log := log.reverse }
    else { lfu := l, victims := some victims.reverse, added := false, events := evs.reverse,
           stuck := true, log := log.reverse }
  | l, sample, victims, evs, log, extras :: more =>
    if l.roomLeft cost ≥ 0 then
      { lfu := l.increment key cost, victims := some victims.reverse, added := true,
        events := (MEv.costAdd cost :: evs).reverse, log := log.reverse }
    else
      let sample := sample ++ extras
      match minEntry est sample with
      | none =>
        -- empty sample: `min_hits = i64::MAX`, the newcomer is rejected
        { lfu := l, victims := some victims.reverse, added := false,
          events := (MEv.rejectSets :: evs).reverse,
          log := (⟨l.roomLeft cost, sample, none⟩ :: log).reverse }
      | some (i, (vk, vc), h) =>
        if incHits < h then
          { lfu := l, victims := some victims.reverse, added := false,
            events := (MEv.rejectSets :: evs).reverse,
            log := (⟨l.roomLeft cost, sample, none⟩ :: log).reverse }
        else
          let (l', removed) := l.remove vk
          let evs' := match removed with
            | some c => MEv.keyEvict :: MEv.costEvict c :: evs
            | none => evs
          evictLoop est incHits key cost l' (swapRemove sample i) ((vk, vc) :: victims) evs'
            (⟨l.roomLeft cost, sample, some (vk, vc)⟩ :: log) more

/-- `policy.add` -/
def policyAdd (l : Lfu) (est : Nat → Int) (key : Nat) (cost : Int)
    (refills : List (List (Nat × Int))) : AddResult :=
  if cost > l.maxCost then { lfu := l, victims := none, added := false, events := [] }
  else
    match l.update key cost with
    | (l', true, evs) => { lfu := l', victims := none, added := false, events := evs }
    | (_, false, _) =>
      if l.roomLeft cost ≥ 0 then
        { lfu := l.increment key cost, victims := none, added := true, events := [MEv.costAdd cost] }
      else evictLoop est (est key) key cost l [] [] [] [] refills

/-- `policy.remove` -/
def policyRemove (l : Lfu) (k : Nat) : Lfu × List MEv :=
  match l.remove k with
  | (l', some c) => (l', [MEv.costEvict c, MEv.keyEvict])
  | (l', none) => (l', [])

/-- `policy.cost` -/
def policyCost (l : Lfu) (k : Nat) : Int := (l.costs.get k).getD (-1)

/-- `policy.cap` -/
def policyCap (l : Lfu) : Int := l.maxCost - l.used

end Stretto
