import StrettoModel.Model.Sketch
/-! Lemmas about the count-min sketch model. -/
namespace Stretto

theorem nib_lt (b : Nat) (odd : Bool) : nib b odd < 16 := by
  unfold nib; split
  · exact Nat.lt_succ_of_le Nat.and_le_right
  · exact Nat.lt_succ_of_le Nat.and_le_right

/-- the 512-row table: incrementing a non-saturated counter of a byte -/
theorem nib_inc_table : ∀ b : Fin 256, ∀ odd : Bool, nib b.val odd < 15 →
    nib (b.val + nibUnit odd) odd = nib b.val odd + 1 ∧
    nib (b.val + nibUnit odd) (!odd) = nib b.val (!odd) ∧
    b.val + nibUnit odd < 256 := by
  decide +kernel

theorem nib_inc (b : Nat) (hb : b < 256) (odd : Bool) (h : nib b odd < 15) :
    nib (b + nibUnit odd) odd = nib b odd + 1 ∧
    nib (b + nibUnit odd) (!odd) = nib b (!odd) ∧
    b + nibUnit odd < 256 :=
  nib_inc_table ⟨b, hb⟩ odd h

theorem nib_halve_table : ∀ b : Fin 256, ∀ odd : Bool,
    nib (byteHalve b.val) odd = nib b.val odd / 2 ∧ byteHalve b.val < 256 := by
  decide +kernel

theorem nib_halve (b : Nat) (hb : b < 256) (odd : Bool) :
    nib (byteHalve b) odd = nib b odd / 2 ∧ byteHalve b < 256 :=
  nib_halve_table ⟨b, hb⟩ odd

theorem nib_zero (odd : Bool) : nib 0 odd = 0 := by cases odd <;> rfl

namespace Row

/-- every byte of the row is a `u8` -/
def Bytes (r : Row) : Prop := ∀ b ∈ r, b < 256

theorem bytes_replicate (n : Nat) : Bytes (List.replicate n 0) := by
  intro b hb; simp [List.mem_replicate] at hb; omega

theorem get_some_iff (r : Row) (i : Nat) : (∃ v, r.get i = some v) ↔ i / 2 < r.length := by
  unfold get
  constructor
  · rintro ⟨v, hv⟩
    cases h : r[i / 2]? with
    | none => simp [h] at hv
    | some b => exact (List.getElem?_eq_some_iff.mp h).1
  · intro h
    exact ⟨nib r[i / 2] (i % 2 == 1), by simp [List.getElem?_eq_getElem h]⟩

theorem get_lt (r : Row) (i v : Nat) (h : r.get i = some v) : v < 16 := by
  unfold get at h
  cases hb : r[i / 2]? with
  | none => simp [hb] at h
  | some b => simp [hb] at h; subst h; exact nib_lt _ _

theorem inc_some (r : Row) (i : Nat) (h : i / 2 < r.length) : ∃ r', r.inc i = some r' := by
  unfold inc
  simp only [List.getElem?_eq_getElem h]
  split <;> exact ⟨_, rfl⟩

theorem inc_length (r r' : Row) (i : Nat) (h : r.inc i = some r') : r'.length = r.length := by
  unfold inc at h
  split at h
  · cases h
  · split at h <;> cases h <;> simp

theorem inc_bytes (r r' : Row) (i : Nat) (hb : r.Bytes) (h : r.inc i = some r') : r'.Bytes := by
  unfold inc at h
  split at h
  · cases h
  · rename_i b hget
    split at h
    · cases h
      intro x hx
      have := List.mem_or_eq_of_mem_set hx
      rcases this with hx | hx
      · exact hb x hx
      · subst hx
        have hbm : b ∈ r := List.mem_of_getElem? hget
        exact (nib_inc b (hb b hbm) _ (by assumption)).2.2
    · cases h; exact hb

/-- the incremented counter goes up by one unless saturated at 15 -/
theorem get_inc_self (r r' : Row) (i v : Nat) (hb : r.Bytes) (h : r.inc i = some r')
    (hv : r.get i = some v) : r'.get i = some (if v < 15 then v + 1 else v) := by
  unfold inc at h
  unfold get at hv ⊢
  cases hget : r[i / 2]? with
  | none => simp [hget] at hv
  | some b =>
    simp only [hget, Option.map_some, Option.some.injEq] at hv h
    have hlen : i / 2 < r.length := (List.getElem?_eq_some_iff.mp hget).1
    have hbm : b ∈ r := List.mem_of_getElem? hget
    subst hv
    split at h
    · rename_i hlt
      cases h
      simp [List.getElem?_set_self hlen, hlt, (nib_inc b (hb b hbm) _ hlt).1]
    · rename_i hlt
      cases h
      simp [hget, hlt]

/-- every other counter is left alone -/
theorem get_inc_other (r r' : Row) (i j : Nat) (hb : r.Bytes) (h : r.inc i = some r')
    (hij : i ≠ j) : r'.get j = r.get j := by
  unfold inc at h
  unfold get
  cases hget : r[i / 2]? with
  | none => simp [hget] at h
  | some b =>
    simp only [hget] at h
    have hlen : i / 2 < r.length := (List.getElem?_eq_some_iff.mp hget).1
    have hbm : b ∈ r := List.mem_of_getElem? hget
    split at h
    · rename_i hlt
      cases h
      by_cases hbyte : i / 2 = j / 2
      · -- same byte, the other nibble
        have hpar : (j % 2 == 1) = !(i % 2 == 1) := by
          have : i % 2 ≠ j % 2 := by omega
          have h1 : i % 2 = 0 ∨ i % 2 = 1 := by omega
          have h2 : j % 2 = 0 ∨ j % 2 = 1 := by omega
          rcases h1 with h1 | h1 <;> rcases h2 with h2 | h2 <;> simp_all
        rw [← hbyte, List.getElem?_set_self hlen, hget]
        simp only [Option.map_some, Option.some.injEq]
        rw [hpar]
        exact (nib_inc b (hb b hbm) _ hlt).2.1
      · rw [List.getElem?_set_ne hbyte]
    · cases h; rfl

theorem get_inc_mono (r r' : Row) (i j v : Nat) (hb : r.Bytes) (h : r.inc i = some r')
    (hv : r.get j = some v) : ∃ v', r'.get j = some v' ∧ v ≤ v' := by
  by_cases hij : i = j
  · subst hij
    refine ⟨_, get_inc_self r r' i v hb h hv, ?_⟩
    split <;> omega
  · exact ⟨v, by rw [get_inc_other r r' i j hb h hij]; exact hv, Nat.le_refl _⟩

theorem reset_bytes (r : Row) (hb : r.Bytes) : r.reset.Bytes := by
  intro x hx
  unfold reset at hx
  obtain ⟨b, hbm, rfl⟩ := List.mem_map.mp hx
  exact (nib_halve b (hb b hbm) false).2

/-- `reset` halves every counter -/
theorem get_reset (r : Row) (i : Nat) (hb : r.Bytes) :
    r.reset.get i = (r.get i).map (· / 2) := by
  unfold get reset
  rw [List.getElem?_map]
  cases hget : r[i / 2]? with
  | none => simp
  | some b =>
    have hbm : b ∈ r := List.mem_of_getElem? hget
    simp [(nib_halve b (hb b hbm) _).1]

theorem clear_bytes (r : Row) : r.clear.Bytes := by
  intro x hx
  unfold clear at hx
  obtain ⟨b, _, rfl⟩ := List.mem_map.mp hx
  omega

theorem get_clear (r : Row) (i : Nat) : r.clear.get i = (r.get i).map (fun _ => 0) := by
  unfold get clear
  rw [List.getElem?_map]
  cases hget : r[i / 2]? with
  | none => simp
  | some b => simp [nib_zero]

theorem get_replicate (n i : Nat) (h : i / 2 < n) : Row.get (List.replicate n 0) i = some 0 := by
  unfold get
  simp [h, nib_zero]

end Row
end Stretto

namespace Stretto
namespace Sketch

/-- rows hold `u8`s and every masked index addresses a byte inside its row -/
def WF (sk : Sketch) : Prop := ∀ p ∈ sk.rows, p.2.Bytes ∧ sk.mask < 2 * p.2.length

theorem idx_le (mask seed h : Nat) : idx mask seed h ≤ mask := Nat.and_le_right

/-- `index_in_range`: for every hash the masked index addresses a byte of the row -/
theorem idx_in_range (sk : Sketch) (hwf : sk.WF) (p : Nat × Row) (hp : p ∈ sk.rows) (h : Nat) :
    idx sk.mask p.1 h / 2 < p.2.length := by
  have := (hwf p hp).2
  have := idx_le sk.mask p.1 h
  omega

/-- every counter of key `h` is at least `n` -/
def LB (sk : Sketch) (h n : Nat) : Prop :=
  ∀ p ∈ sk.rows, ∃ v, p.2.get (idx sk.mask p.1 h) = some v ∧ n ≤ v

theorem LB_zero (sk : Sketch) (hwf : sk.WF) (h : Nat) : sk.LB h 0 := by
  intro p hp
  obtain ⟨v, hv⟩ := (Row.get_some_iff p.2 _).mpr (idx_in_range sk hwf p hp h)
  exact ⟨v, hv, Nat.zero_le _⟩

theorem LB_mono (sk : Sketch) (h n m : Nat) (hnm : m ≤ n) (hl : sk.LB h n) : sk.LB h m := by
  intro p hp
  obtain ⟨v, hv, hle⟩ := hl p hp
  exact ⟨v, hv, Nat.le_trans hnm hle⟩

theorem mk'_WF (seeds : List Nat) (width mask : Nat) (h : mask < 2 * width) :
    (mk' seeds width mask).WF := by
  intro p hp
  unfold mk' at hp
  simp only [List.mem_map] at hp
  obtain ⟨s, _, rfl⟩ := hp
  exact ⟨Row.bytes_replicate _, by simpa [mk'] using h⟩

/-- on a fresh sketch every key estimates zero -/
theorem mk'_get_zero (seeds : List Nat) (width mask : Nat) (hm : mask < 2 * width)
    (p : Nat × Row) (hp : p ∈ (mk' seeds width mask).rows) (h : Nat) :
    p.2.get (idx mask p.1 h) = some 0 := by
  unfold mk' at hp
  simp only [List.mem_map] at hp
  obtain ⟨s, _, rfl⟩ := hp
  apply Row.get_replicate
  have := idx_le mask s h
  simp only
  omega

-- estimate -------------------------------------------------------------------------------

theorem estRows_spec (mask h : Nat) (rows : List (Nat × Row)) (m : Nat)
    (hsome : ∀ p ∈ rows, ∃ v, p.2.get (idx mask p.1 h) = some v) :
    ∃ e, estRows mask h rows m = some e ∧ e ≤ m ∧
      (∀ p ∈ rows, ∀ v, p.2.get (idx mask p.1 h) = some v → e ≤ v) ∧
      (e = m ∨ ∃ p ∈ rows, p.2.get (idx mask p.1 h) = some e) := by
  induction rows generalizing m with
  | nil => exact ⟨m, rfl, Nat.le_refl _, by simp, Or.inl rfl⟩
  | cons p rest ih =>
    obtain ⟨s, r⟩ := p
    obtain ⟨v, hv⟩ := hsome (s, r) (by simp)
    simp only at hv
    have hrest : ∀ p ∈ rest, ∃ v, p.2.get (idx mask p.1 h) = some v :=
      fun p hp => hsome p (by simp [hp])
    simp only [estRows, hv]
    obtain ⟨e, he, hle, hall, hwit⟩ := ih (if v < m then v else m) hrest
    refine ⟨e, he, ?_, ?_, ?_⟩
    · split at hle <;> omega
    · intro p hp v' hv'
      simp only [List.mem_cons] at hp
      rcases hp with rfl | hp
      · simp only at hv'
        rw [hv] at hv'; cases hv'
        split at hle <;> omega
      · exact hall p hp v' hv'
    · rcases hwit with hwit | ⟨p, hp, hpe⟩
      · by_cases hvm : v < m
        · simp only [hvm, if_true] at hwit
          exact Or.inr ⟨(s, r), by simp, by simpa [hwit] using hv⟩
        · simp only [hvm, if_false] at hwit
          exact Or.inl hwit
      · exact Or.inr ⟨p, by simp [hp], hpe⟩

/-- `estimate` never panics on a well-formed sketch, and is the minimum of the key's counters -/
theorem estimate_spec (sk : Sketch) (hwf : sk.WF) (h : Nat) :
    ∃ e, sk.estimate h = some e ∧
      (∀ p ∈ sk.rows, ∀ v, p.2.get (idx sk.mask p.1 h) = some v → e ≤ v) ∧
      (e = 255 ∨ ∃ p ∈ sk.rows, p.2.get (idx sk.mask p.1 h) = some e) := by
  have hsome : ∀ p ∈ sk.rows, ∃ v, p.2.get (idx sk.mask p.1 h) = some v :=
    fun p hp => (Row.get_some_iff p.2 _).mpr (idx_in_range sk hwf p hp h)
  obtain ⟨e, he, _, hall, hwit⟩ := estRows_spec sk.mask h sk.rows 255 hsome
  exact ⟨e, he, hall, hwit⟩

theorem estimate_ge_of_LB (sk : Sketch) (hwf : sk.WF) (h n : Nat) (hn : n ≤ 255)
    (hl : sk.LB h n) : ∃ e, sk.estimate h = some e ∧ n ≤ e := by
  obtain ⟨e, he, _, hwit⟩ := estimate_spec sk hwf h
  refine ⟨e, he, ?_⟩
  rcases hwit with rfl | ⟨p, hp, hpe⟩
  · exact hn
  · obtain ⟨v, hv, hle⟩ := hl p hp
    rw [hv] at hpe; cases hpe; exact hle

theorem estimate_le_15 (sk : Sketch) (hwf : sk.WF) (hne : sk.rows ≠ []) (h e : Nat)
    (he : sk.estimate h = some e) : e ≤ 15 := by
  obtain ⟨e', he', hall, _⟩ := estimate_spec sk hwf h
  rw [he] at he'; cases he'
  cases hr : sk.rows with
  | nil => exact absurd hr hne
  | cons p rest =>
    have hp : p ∈ sk.rows := by simp [hr]
    obtain ⟨v, hv⟩ := (Row.get_some_iff p.2 _).mpr (idx_in_range sk hwf p hp h)
    have := hall p hp v hv
    have := Row.get_lt _ _ _ hv
    omega

-- increment ------------------------------------------------------------------------------

theorem incRows_spec (mask h : Nat) (rows : List (Nat × Row))
    (hwf : ∀ p ∈ rows, p.2.Bytes ∧ mask < 2 * p.2.length) :
    ∃ rows', incRows mask h rows = some rows' ∧ rows'.length = rows.length ∧
      ∀ p' ∈ rows', ∃ p ∈ rows, p'.1 = p.1 ∧ p.2.inc (idx mask p.1 h) = some p'.2 := by
  induction rows with
  | nil => exact ⟨[], rfl, rfl, by simp⟩
  | cons p rest ih =>
    obtain ⟨s, r⟩ := p
    have hin : idx mask s h / 2 < r.length := by
      have := (hwf (s, r) (by simp)).2
      have := idx_le mask s h
      simp only at *; omega
    obtain ⟨r', hr'⟩ := Row.inc_some r _ hin
    obtain ⟨rest', hrest', hlen, hf⟩ := ih (fun p hp => hwf p (by simp [hp]))
    refine ⟨(s, r') :: rest', ?_, by simp [hlen], ?_⟩
    · simp [incRows, hr', hrest']
    · intro p' hp'
      simp only [List.mem_cons] at hp'
      rcases hp' with rfl | hp'
      · exact ⟨(s, r), by simp, rfl, hr'⟩
      · obtain ⟨p, hp, h1, h2⟩ := hf p' hp'
        exact ⟨p, by simp [hp], h1, h2⟩

/-- `increment` never panics on a well-formed sketch; the result is well-formed, no counter of
any key went down, and every counter of the incremented key went up by one unless saturated -/
theorem increment_spec (sk : Sketch) (hwf : sk.WF) (h : Nat) :
    ∃ sk', sk.increment h = some sk' ∧ sk'.WF ∧ sk'.mask = sk.mask ∧
      sk'.rows.length = sk.rows.length ∧
      (∀ k n, sk.LB k n → sk'.LB k n) ∧
      (∀ n, sk.LB h n → sk'.LB h (if n < 15 then n + 1 else n)) := by
  obtain ⟨rows', hrows', hlen, hf⟩ := incRows_spec sk.mask h sk.rows hwf
  refine ⟨{ sk with rows := rows' }, by simp [increment, hrows'], ?_, rfl, hlen, ?_, ?_⟩
  · intro p' hp'
    obtain ⟨p, hp, hs, hinc⟩ := hf p' hp'
    have := hwf p hp
    exact ⟨Row.inc_bytes _ _ _ this.1 hinc, by rw [Row.inc_length _ _ _ hinc]; exact this.2⟩
  · intro k n hl p' hp'
    obtain ⟨p, hp, hs, hinc⟩ := hf p' hp'
    obtain ⟨v, hv, hle⟩ := hl p hp
    obtain ⟨v', hv', hle'⟩ := Row.get_inc_mono _ _ _ _ v (hwf p hp).1 hinc hv
    exact ⟨v', by simpa [hs] using hv', Nat.le_trans hle hle'⟩
  · intro n hl p' hp'
    obtain ⟨p, hp, hs, hinc⟩ := hf p' hp'
    obtain ⟨v, hv, hle⟩ := hl p hp
    have := Row.get_inc_self _ _ _ v (hwf p hp).1 hinc hv
    refine ⟨_, by simpa [hs] using this, ?_⟩
    have := Row.get_lt _ _ _ hv
    split <;> split <;> omega

-- reset / clear --------------------------------------------------------------------------

theorem reset_WF (sk : Sketch) (hwf : sk.WF) : sk.reset.WF := by
  intro p hp
  unfold reset at hp
  simp only [List.mem_map] at hp
  obtain ⟨q, hq, rfl⟩ := hp
  exact ⟨Row.reset_bytes _ (hwf q hq).1, by simpa [Row.reset, reset] using (hwf q hq).2⟩

theorem clear_WF (sk : Sketch) (hwf : sk.WF) : sk.clear.WF := by
  intro p hp
  unfold clear at hp
  simp only [List.mem_map] at hp
  obtain ⟨q, hq, rfl⟩ := hp
  exact ⟨Row.clear_bytes _, by simpa [Row.clear, clear] using (hwf q hq).2⟩

end Sketch
end Stretto

namespace Stretto
namespace Sketch

/-- `reset_halves`: after `reset`, every counter of every key is half of what it was -/
theorem get_reset (sk : Sketch) (hwf : sk.WF) (h : Nat) (p' : Nat × Row) (hp' : p' ∈ sk.reset.rows) :
    ∃ p ∈ sk.rows, p'.1 = p.1 ∧
      p'.2.get (idx sk.reset.mask p'.1 h) = (p.2.get (idx sk.mask p.1 h)).map (· / 2) := by
  unfold reset at hp' ⊢
  simp only [List.mem_map] at hp'
  obtain ⟨q, hq, rfl⟩ := hp'
  exact ⟨q, hq, rfl, Row.get_reset _ _ (hwf q hq).1⟩

/-- after `clear`, every counter of every key is zero -/
theorem get_clear (sk : Sketch) (hwf : sk.WF) (h : Nat) (p' : Nat × Row) (hp' : p' ∈ sk.clear.rows) :
    p'.2.get (idx sk.clear.mask p'.1 h) = some 0 := by
  unfold clear at hp' ⊢
  simp only [List.mem_map] at hp'
  obtain ⟨q, hq, rfl⟩ := hp'
  simp only
  rw [Row.get_clear]
  obtain ⟨v, hv⟩ := (Row.get_some_iff q.2 _).mpr (idx_in_range sk hwf q hq h)
  simp [hv]

theorem estimate_clear (sk : Sketch) (hwf : sk.WF) (hne : sk.rows ≠ []) (h : Nat) :
    sk.clear.estimate h = some 0 := by
  have hwf' := clear_WF sk hwf
  obtain ⟨e, he, hall, _⟩ := estimate_spec sk.clear hwf' h
  cases hr : sk.rows with
  | nil => exact absurd hr hne
  | cons p rest =>
    have hp : (p.1, p.2.clear) ∈ sk.clear.rows := by simp [clear, hr]
    have := hall _ hp 0 (get_clear sk hwf h _ hp)
    have : e = 0 := by omega
    rw [he, this]

end Sketch
end Stretto

namespace Stretto
namespace Sketch

theorem estimate_zero_of_all_zero (sk : Sketch) (hwf : sk.WF) (hne : sk.rows ≠ []) (h : Nat)
    (hz : ∀ p ∈ sk.rows, p.2.get (idx sk.mask p.1 h) = some 0) : sk.estimate h = some 0 := by
  obtain ⟨e, he, hall, _⟩ := estimate_spec sk hwf h
  cases hr : sk.rows with
  | nil => exact absurd hr hne
  | cons p rest =>
    have hp : p ∈ sk.rows := by simp [hr]
    have := hall p hp 0 (hz p hp)
    have : e = 0 := by omega
    rw [he, this]

theorem estimate_mk' (seeds : List Nat) (width mask : Nat) (hm : mask < 2 * width)
    (hs : seeds ≠ []) (h : Nat) : (mk' seeds width mask).estimate h = some 0 := by
  apply estimate_zero_of_all_zero _ (mk'_WF seeds width mask hm)
  · simpa [mk'] using hs
  · intro p hp
    exact mk'_get_zero seeds width mask hm p hp h

end Sketch
end Stretto
