import StrettoModel.Model.Lts
import StrettoModel.Proofs.Cache
import StrettoModel.Proofs.Policy
/-!
Invariant behind C06: resident ⊆ charged, and a charge without a resident entry belongs to a key
with a `Delete` item still on its way to the processor.
-/
namespace Stretto

def pendingDelete (c : Cache) (k : Nat) : Prop := ∃ cf, Item.delete k cf ∈ c.buf ++ c.pendingSends

structure Inv06 (c : Cache) : Prop where
  storeWF : c.store.items.WF
  lfuInv : c.lfu.Inv
  resident_charged : ∀ k, (c.store.items.get k).isSome = true → (c.lfu.costs.get k).isSome = true
  charged_resident : ∀ k, (c.lfu.costs.get k).isSome = true →
    (c.store.items.get k).isSome = true ∨ pendingDelete c k

/-- the invariant is only claimed while the processor is alive -/
def Good06 (c : Cache) : Prop := c.procExited = true ∨ Inv06 c

/-- guard on the oracle input of a tick: the conflict hashes filed in the due buckets pass the
store's check for the entries they refer to (checked at run time by the driver) -/
def TickOk (c : Cache) (order : List (Nat × Nat)) : Prop :=
  ∀ k cf e, (k, cf) ∈ order → c.store.items.get k = some e → Store.conflictOk cf e = true

theorem inv06_transfer (c c' : Cache)
    (hs : ∀ k, (c'.store.items.get k).isSome = (c.store.items.get k).isSome)
    (hwf : c'.store.items.WF) (hl : c'.lfu.costs = c.lfu.costs) (hli : c'.lfu.Inv)
    (hp : ∀ k, pendingDelete c k → pendingDelete c' k) (h : Inv06 c) : Inv06 c' := by
  refine ⟨hwf, hli, ?_, ?_⟩
  · intro k hk; rw [hl]; rw [hs] at hk; exact h.resident_charged k hk
  · intro k hk; rw [hl] at hk
    rcases h.charged_resident k hk with h1 | h1
    · left; rw [hs]; exact h1
    · right; exact hp k h1

-- store-level key preservation ---------------------------------------------------------------

theorem Store.tryUpdate_keys (s : Store) (su : Nat → Nat → Bool) (k v cf : Nat) (t : Time) (j : Nat) :
    ((s.tryUpdate su k v cf t).1.items.get j).isSome = (s.items.get j).isSome ∧
    (s.items.WF → (s.tryUpdate su k v cf t).1.items.WF) := by
  unfold Store.tryUpdate
  cases hg : s.items.get k with
  | none => simp
  | some e =>
    simp only
    split
    · simp
    · split
      · simp
      · refine ⟨?_, fun h => KMap.wf_set _ _ _ h⟩
        simp only [KMap.get_set]
        split
        · rename_i hjk; subst hjk; simp [hg]
        · rfl

theorem Store.getMutWrite_keys (s : Store) (k cf now v j : Nat) :
    ((s.getMutWrite k cf now v).1.items.get j).isSome = (s.items.get j).isSome ∧
    (s.items.WF → (s.getMutWrite k cf now v).1.items.WF) := by
  unfold Store.getMutWrite
  cases hl : s.lookup k cf now with
  | none => simp
  | some e =>
    have hg := (Store.lookup_some s k cf now e hl).1
    refine ⟨?_, fun h => KMap.wf_set _ _ _ h⟩
    simp only [KMap.get_set]
    split
    · rename_i hjk; subst hjk; simp [hg]
    · rfl

theorem Store.tryRemove_wf (s : Store) (k cf : Nat) (h : s.items.WF) : (s.tryRemove k cf).1.items.WF := by
  unfold Store.tryRemove
  cases s.items.get k with
  | none => exact h
  | some e => simp only; split
              · exact h
              · exact KMap.wf_erase _ _ h

-- client operations ----------------------------------------------------------------------------

theorem Store.tryRemove_none_store (s : Store) (k cf : Nat) (h : (s.tryRemove k cf).2 = none) :
    (s.tryRemove k cf).1 = s := by
  unfold Store.tryRemove at *
  cases hg : s.items.get k with
  | none => simp
  | some e => simp only [hg] at h ⊢; split <;> simp_all

theorem mem_buf_snoc {x i : Item} {b p : List Item} (hx : x ∈ b ++ p) : x ∈ (b ++ [i]) ++ p := by
  simp only [List.mem_append] at *
  rcases hx with h | h
  · exact Or.inl (Or.inl h)
  · exact Or.inr h

theorem mem_pend_snoc {x i : Item} {b p : List Item} (hx : x ∈ b ++ p) : x ∈ b ++ (p ++ [i]) := by
  simp only [List.mem_append] at *
  rcases hx with h | h
  · exact Or.inl h
  · exact Or.inr (Or.inl h)

theorem insertBody_inv06 (c : Cache) (su : Nat → Nat → Bool) (k cf v : Nat) (cost : Int) (ttl now : Nat)
    (coster : Int) (only : Bool) (h : Inv06 c) : Inv06 (c.insertBody su k cf v cost ttl now coster only).1 := by
  have hk := fun j => (Store.tryUpdate_keys c.store su k v cf { d := ttl, created := now } j).1
  have hwf := (Store.tryUpdate_keys c.store su k v cf { d := ttl, created := now } 0).2 h.storeWF
  unfold Cache.insertBody
  simp only []
  split
  · exact h
  · split
    · -- update path
      split
      · refine inv06_transfer c _ ?_ ?_ ?_ ?_ ?_ h
        · simpa using hk
        · simpa using hwf
        · rfl
        · exact h.lfuInv
        · intro j ⟨cf', hm⟩; exact ⟨cf', mem_buf_snoc hm⟩
      · refine inv06_transfer c _ ?_ ?_ ?_ ?_ ?_ h
        · simpa using hk
        · simpa using hwf
        · rfl
        · exact h.lfuInv
        · intro j hj; exact hj
    · split
      · exact h
      · split
        · refine inv06_transfer c _ ?_ ?_ ?_ ?_ ?_ h
          · intro j; rfl
          · exact h.storeWF
          · rfl
          · exact h.lfuInv
          · intro j ⟨cf', hm⟩; exact ⟨cf', mem_buf_snoc hm⟩
        · refine inv06_transfer c _ ?_ ?_ ?_ ?_ ?_ h
          · intro j; simp
          · simpa using h.storeWF
          · simp
          · simpa using h.lfuInv
          · intro j ⟨cf', hm⟩; exact ⟨cf', by simpa using hm⟩

theorem insert_inv06 (c : Cache) (su : Nat → Nat → Bool) (k cf v : Nat) (cost : Int) (ttl now : Nat)
    (coster : Int) (only : Bool) (h : Inv06 c) : Inv06 (c.insert su k cf v cost ttl now coster only).1 := by
  unfold Cache.insert
  split
  · exact h
  · exact insertBody_inv06 c su k cf v cost ttl now coster only h

theorem frame_inv06 (c c' : Cache) (hs : c'.store = c.store) (hl : c'.lfu = c.lfu)
    (hb : c'.buf = c.buf) (hp : c'.pendingSends = c.pendingSends) (h : Inv06 c) : Inv06 c' := by
  refine inv06_transfer c c' ?_ ?_ ?_ ?_ ?_ h
  · intro j; rw [hs]
  · rw [hs]; exact h.storeWF
  · rw [hl]
  · rw [hl]; exact h.lfuInv
  · intro j ⟨cf', hm⟩; exact ⟨cf', by rw [hb, hp]; exact hm⟩

/-- same entries (the expiry index may differ) -/
theorem frame_inv06' (c c' : Cache) (hs : c'.store.items = c.store.items) (hl : c'.lfu = c.lfu)
    (hb : c'.buf = c.buf) (hp : c'.pendingSends = c.pendingSends) (h : Inv06 c) : Inv06 c' := by
  refine inv06_transfer c c' ?_ ?_ ?_ ?_ ?_ h
  · intro j; rw [hs]
  · rw [hs]; exact h.storeWF
  · rw [hl]
  · rw [hl]; exact h.lfuInv
  · intro j ⟨cf', hm⟩; exact ⟨cf', by rw [hb, hp]; exact hm⟩

theorem get_inv06 (c : Cache) (k cf now : Nat) (h : Inv06 c) : Inv06 (c.get k cf now).1 := by
  unfold Cache.get
  split
  · exact h
  · simp only []
    split <;> exact frame_inv06 c _ (by simp) (by simp) (by simp) (by simp) h

theorem getMut_inv06 (c : Cache) (k cf now v : Nat) (h : Inv06 c) : Inv06 (c.getMutWrite k cf now v).1 := by
  unfold Cache.getMutWrite
  split
  · exact h
  · have hk := fun j => (Store.getMutWrite_keys (c.ringPush k).store k cf now v j).1
    have hwf := (Store.getMutWrite_keys (c.ringPush k).store k cf now v 0).2 (by simpa using h.storeWF)
    simp only []
    split
    · exact frame_inv06 c _ (by simp) (by simp) (by simp) (by simp) h
    · refine inv06_transfer c _ ?_ ?_ ?_ ?_ ?_ h
      · intro j; simpa using hk j
      · simpa using hwf
      · simp
      · simpa using h.lfuInv
      · intro j ⟨cf', hm⟩; exact ⟨cf', by simpa using hm⟩

theorem remove_inv06 (c : Cache) (k cf : Nat) (h : Inv06 c) : Inv06 (c.remove k cf).1 := by
  unfold Cache.remove
  split
  · exact h
  · have hget := fun j => Store.tryRemove_get c.store k cf j
    have hwf := Store.tryRemove_wf c.store k cf h.storeWF
    -- any state whose store is the store after the removal, with the Delete appended somewhere
    have key : ∀ (c1 : Cache), c1.store = (c.store.tryRemove k cf).1 → c1.lfu = c.lfu →
        (∀ x, x ∈ c.buf ++ c.pendingSends → x ∈ c1.buf ++ c1.pendingSends) →
        Item.delete k cf ∈ c1.buf ++ c1.pendingSends → Inv06 c1 := by
      intro c1 hs hl hsub hdel
      refine ⟨by simpa [hs] using hwf, by simpa [hl] using h.lfuInv, ?_, ?_⟩
      · intro j hj
        simp only [hs, hget] at hj
        simp only [hl]
        split at hj
        · cases hj
        · exact h.resident_charged j hj
      · intro j hj
        simp only [hl] at hj
        by_cases hjk : j = k
        · subst hjk; right; exact ⟨cf, hdel⟩
        · rcases h.charged_resident j hj with h1 | ⟨cf', hm⟩
          · left; simp only [hs, hget]; simp [hjk, h1]
          · right; exact ⟨cf', hsub _ hm⟩
    simp only []
    cases hr : (c.store.tryRemove k cf).2 with
    | some e =>
      simp only
      split
      · exact key _ rfl rfl (fun x hx => mem_buf_snoc hx) (by simp)
      · exact key _ rfl rfl (fun x hx => mem_pend_snoc hx) (by simp)
    | none =>
      have hst := Store.tryRemove_none_store c.store k cf hr
      simp only
      split
      · exact key _ (by simpa using hst.symm) rfl (fun x hx => mem_buf_snoc hx) (by simp)
      · exact key _ (by simpa using hst.symm) rfl (fun x hx => mem_pend_snoc hx) (by simp)

end Stretto

namespace Stretto

-- helpers for the processor steps ---------------------------------------------------------------

theorem Store.tryInsert_absent (s : Store) (su : Nat → Nat → Bool) (k v cf : Nat) (t : Time)
    (h : s.items.get k = none) (j : Nat) :
    (s.tryInsert su k v cf t).items.get j = if j = k then some ⟨cf, v, t⟩ else s.items.get j := by
  unfold Store.tryInsert
  simp [h, KMap.get_set]

theorem Store.tryInsert_wf (s : Store) (su : Nat → Nat → Bool) (k v cf : Nat) (t : Time)
    (h : s.items.WF) : (s.tryInsert su k v cf t).items.WF := by
  unfold Store.tryInsert
  cases s.items.get k with
  | none => exact KMap.wf_set _ _ _ h
  | some e =>
    simp only
    split
    · exact h
    · split
      · exact h
      · exact KMap.wf_set _ _ _ h

/-- eviction of the victims: policy, buffer untouched; exactly the victims' keys leave the store -/
theorem evictVictims_spec (vs : List (Nat × Int)) (c : Cache) :
    (c.evictVictims vs).lfu = c.lfu ∧ (c.evictVictims vs).buf = c.buf ∧
    (c.evictVictims vs).pendingSends = c.pendingSends ∧
    (c.evictVictims vs).procExited = c.procExited ∧
    (c.store.items.WF → (c.evictVictims vs).store.items.WF) ∧
    ∀ j, (c.evictVictims vs).store.items.get j =
      if j ∈ vs.map (·.1) then none else c.store.items.get j := by
  induction vs generalizing c with
  | nil => simp [Cache.evictVictims]
  | cons p rest ih =>
    obtain ⟨vk, vc⟩ := p
    simp only [Cache.evictVictims]
    cases hr : (c.store.tryRemove vk 0).2 with
    | none =>
      simp only
      obtain ⟨h1, h2, h3, h4, h5, h6⟩ := ih c
      refine ⟨h1, h2, h3, h4, h5, ?_⟩
      intro j
      rw [h6 j]
      -- vk was not resident (conflict 0 always passes)
      have hnot : c.store.items.get vk = none := by
        cases hg : c.store.items.get vk with
        | none => rfl
        | some e =>
          have := (Store.tryRemove_some_iff c.store vk 0 e).mpr ⟨hg, by simp [Store.conflictOk]⟩
          rw [hr] at this; cases this
      simp only [List.map_cons, List.mem_cons]
      by_cases hj : j = vk
      · subst hj
        simp only [true_or, if_true]
        split
        · rfl
        · exact hnot
      · simp only [hj, false_or]
    | some e =>
      simp only
      have hstore : ∀ (c2 : Cache), c2.store = (c.store.tryRemove vk 0).1 → c2.lfu = c.lfu →
          c2.buf = c.buf → c2.pendingSends = c.pendingSends → c2.procExited = c.procExited →
          (c2.evictVictims rest).lfu = c.lfu ∧ (c2.evictVictims rest).buf = c.buf ∧
          (c2.evictVictims rest).pendingSends = c.pendingSends ∧
          (c2.evictVictims rest).procExited = c.procExited ∧
          (c.store.items.WF → (c2.evictVictims rest).store.items.WF) ∧
          ∀ j, (c2.evictVictims rest).store.items.get j =
            if j ∈ ((vk, vc) :: rest).map (·.1) then none else c.store.items.get j := by
        intro c2 hs hl hb hp he
        obtain ⟨h1, h2, h3, h4, h5, h6⟩ := ih c2
        refine ⟨h1.trans hl, h2.trans hb, h3.trans hp, h4.trans he, ?_, ?_⟩
        · intro hwf; apply h5; rw [hs]; exact Store.tryRemove_wf _ _ _ hwf
        · intro j
          rw [h6 j, hs, Store.tryRemove_get]
          simp only [hr, Option.isSome_some, and_true, List.map_cons, List.mem_cons]
          by_cases hj : j = vk
          · subst hj; simp only [true_or, if_true]; split <;> rfl
          · simp only [hj, false_or, if_false]
      split
      · exact hstore _ (by simp) (by simp) (by simp) (by simp) (by simp)
      · exact hstore _ rfl rfl rfl rfl rfl

/-- what is left to send after the processor popped the head of the buffer -/
theorem admitPending_mem (c : Cache) (x : Item) :
    x ∈ c.admitPending.buf ++ c.admitPending.pendingSends ↔ x ∈ c.buf ++ c.pendingSends := by
  unfold Cache.admitPending
  cases hp : c.pendingSends with
  | nil => simp [hp]
  | cons it rest =>
    simp only
    split
    · simp only [List.mem_append, List.mem_cons, List.mem_singleton, List.not_mem_nil, or_false]
      constructor
      · rintro ((h | h) | h)
        · exact Or.inl h
        · exact Or.inr (Or.inl h)
        · exact Or.inr (Or.inr h)
      · rintro (h | h | h)
        · exact Or.inl (Or.inl h)
        · exact Or.inl (Or.inr h)
        · exact Or.inr h
    · simp [hp]

theorem admitPending_frame (c : Cache) :
    c.admitPending.store = c.store ∧ c.admitPending.lfu = c.lfu ∧ c.admitPending.procExited = c.procExited ∧
    c.admitPending.cfg = c.cfg := by
  unfold Cache.admitPending
  cases c.pendingSends with
  | nil => simp
  | cons it rest => simp only; split <;> simp

end Stretto

namespace Stretto

/-- the invariant right after the processor popped `it` from the buffer: the popped `Delete` no
longer counts as pending -/
structure InvPop (c : Cache) (it : Item) : Prop where
  storeWF : c.store.items.WF
  lfuInv : c.lfu.Inv
  resident_charged : ∀ k, (c.store.items.get k).isSome = true → (c.lfu.costs.get k).isSome = true
  charged_resident : ∀ k, (c.lfu.costs.get k).isSome = true →
    (c.store.items.get k).isSome = true ∨ pendingDelete c k ∨ ∃ cf, it = Item.delete k cf

theorem pop_invPop (c : Cache) (it : Item) (rest : List Item) (hb : c.buf = it :: rest) (h : Inv06 c) :
    InvPop (({ c with buf := rest } : Cache).admitPending) it := by
  have hf := admitPending_frame ({ c with buf := rest } : Cache)
  refine ⟨by rw [hf.1]; exact h.storeWF, by rw [hf.2.1]; exact h.lfuInv, ?_, ?_⟩
  · intro k hk; rw [hf.1] at hk; rw [hf.2.1]; exact h.resident_charged k hk
  · intro k hk
    rw [hf.2.1] at hk
    rcases h.charged_resident k hk with h1 | ⟨cf, hm⟩
    · left; rw [hf.1]; exact h1
    · right
      rw [hb] at hm
      simp only [List.cons_append, List.mem_cons] at hm
      rcases hm with hm | hm
      · right; exact ⟨cf, hm.symm⟩
      · left; exact ⟨cf, (admitPending_mem _ _).mpr (by simpa using hm)⟩

/-- guard on the oracle inputs of an admission: no sampled victim is the incoming key itself
(sample entries are charged keys, the incoming key is not charged; checked by the driver) -/
def VictimsOk (c : Cache) (est : Nat → Int) (refills : List (List (Nat × Int))) : Item → Prop
  | .new k _ cost _ _ => ∀ vs, (policyAdd c.lfu est k (c.internalCost cost) refills).victims = some vs →
      ∀ v ∈ vs, v.1 ≠ k
  | _ => True

theorem handleNew_inv06 (c : Cache) (su : Nat → Nat → Bool) (est : Nat → Int)
    (refills : List (List (Nat × Int))) (k cf : Nat) (cost : Int) (v : Nat) (exp : Time)
    (h : InvPop c (Item.new k cf cost v exp))
    (hv : VictimsOk c est refills (Item.new k cf cost v exp)) :
    Inv06 (c.handleItem su est refills (Item.new k cf cost v exp)) := by
  have spec := policyAdd_spec c.lfu est k (c.internalCost cost) refills h.lfuInv
  -- abbreviations
  generalize hR : policyAdd c.lfu est k (c.internalCost cost) refills = R at spec hv
  simp only [VictimsOk, hR] at hv
  -- the state after admission / rejection, before the victims are removed from the store
  let c2 : Cache :=
    if R.added then
      (if (({ c with lfu := R.lfu } : Cache).met fun m => m.applyEvs R.events).cfg.metricsOn then
        { (({ c with lfu := R.lfu } : Cache).met fun m => m.applyEvs R.events) with
          store := c.store.tryInsert su k v cf exp,
          metrics := { (({ c with lfu := R.lfu } : Cache).met fun m => m.applyEvs R.events).metrics with
            keyAdd := u64 ((({ c with lfu := R.lfu } : Cache).met fun m => m.applyEvs R.events).metrics.keyAdd + 1) } }
      else { (({ c with lfu := R.lfu } : Cache).met fun m => m.applyEvs R.events) with
          store := c.store.tryInsert su k v cf exp })
    else { (({ c with lfu := R.lfu } : Cache).met fun m => m.applyEvs R.events) with
        cbs := CB.reject k cf v (c.internalCost cost) :: c.cbs }
  have hc2 : c.handleItem su est refills (Item.new k cf cost v exp) =
      (match R.victims with | some vs => c2.evictVictims vs | none => c2) := by
    simp only [Cache.handleItem, hR, c2]
    split <;> (split <;> simp_all)
  -- facts about c2
  have hc2lfu : c2.lfu = R.lfu := by simp only [c2]; split <;> (try split) <;> simp
  have hc2buf : c2.buf = c.buf ∧ c2.pendingSends = c.pendingSends := by
    simp only [c2]; split <;> (try split) <;> simp
  have hknew : R.added = true → c.store.items.get k = none := by
    intro ha
    have hk0 := (spec.admitted ha).2.2
    cases hg : c.store.items.get k with
    | none => rfl
    | some e =>
      have := h.resident_charged k (by simp [hg])
      rw [hk0] at this; cases this
  have hc2store : ∀ j, c2.store.items.get j =
      if R.added = true ∧ j = k then some ⟨cf, v, exp⟩ else c.store.items.get j := by
    intro j
    by_cases ha : R.added = true
    · have := Store.tryInsert_absent c.store su k v cf exp (hknew ha) j
      simp only [c2, ha, if_true]
      split <;> simp [this]
    · simp only [c2, ha]; simp
  have hc2wf : c2.store.items.WF := by
    by_cases ha : R.added = true
    · simp only [c2, ha, if_true]; split <;> exact Store.tryInsert_wf _ _ _ _ _ _ h.storeWF
    · simp only [c2, ha]; simpa using h.storeWF
  -- the final state
  have hfin : ∃ vs : List (Nat × Int), (R.victims = some vs ∨ (R.victims = none ∧ vs = [])) ∧
      (c.handleItem su est refills (Item.new k cf cost v exp)) = c2.evictVictims vs := by
    cases hvs : R.victims with
    | none => exact ⟨[], Or.inr ⟨rfl, rfl⟩, by rw [hc2, hvs]; simp [Cache.evictVictims]⟩
    | some vs => exact ⟨vs, Or.inl rfl, by rw [hc2, hvs]⟩
  obtain ⟨vs, hvs, hfinal⟩ := hfin
  rw [hfinal]
  obtain ⟨e1, e2, e3, _, e5, e6⟩ := evictVictims_spec vs c2
  have hvk : ∀ p ∈ vs, p.1 ≠ k := by
    rcases hvs with hvs | ⟨_, rfl⟩
    · exact hv vs hvs
    · intro p hp; cases hp
  -- victims are iteration victims
  have hvlog : ∀ p ∈ vs, ∃ it ∈ R.log, it.victim = some p := by
    rcases hvs with hvs | ⟨_, rfl⟩
    · intro p hp
      have := spec.victims_eq vs hvs
      rw [this] at hp
      simp only [List.mem_filterMap] at hp
      exact hp
    · intro p hp; cases hp
  refine ⟨e5 hc2wf, by rw [e1, hc2lfu]; exact spec.inv, ?_, ?_⟩
  · -- resident ⇒ charged
    intro j hj
    rw [e1, hc2lfu]
    rw [e6 j] at hj
    split at hj
    · cases hj
    · rename_i hnotv
      rw [hc2store j] at hj
      by_cases hjk : j = k
      · subst hjk
        by_cases ha : R.added = true
        · rw [(spec.admitted ha).2.1]; rfl
        · -- not admitted: k was resident hence charged; update path or oversize keep the charge
          simp only [ha, false_and, if_false] at hj
          have hch := h.resident_charged j hj
          by_cases hbig : c.internalCost cost > c.lfu.maxCost
          · rw [(spec.oversize hbig).2.1]; exact hch
          · obtain ⟨prev, hprev⟩ := Option.isSome_iff_exists.mp hch
            rw [(spec.update (by omega) ⟨prev, hprev⟩).2.2.1]; rfl
      · simp only [hjk, and_false, if_false] at hj
        have hch := h.resident_charged j hj
        rcases spec.only_released j hjk with hn | hsame
        · -- the charge went away: j was a victim, so it cannot be resident now
          obtain ⟨it, hit, vc, hvic⟩ := spec.only_victims j hjk hch hn
          exfalso
          apply hnotv
          have hne : R.log ≠ [] := by intro hnil; rw [hnil] at hit; cases hit
          have hveq := spec.victims_log hne
          rcases hvs with hvs | ⟨hnone, _⟩
          · rw [hvs] at hveq
            have : vs = R.log.filterMap (·.victim) := Option.some.inj hveq
            rw [this]
            simp only [List.mem_map, List.mem_filterMap]
            exact ⟨(j, vc), ⟨it, hit, hvic⟩, rfl⟩
          · rw [hnone] at hveq; cases hveq
        · rw [hsame]; exact hch
  · -- charged ⇒ resident or a Delete is pending
    intro j hj
    rw [e1, hc2lfu] at hj
    have hpend : ∀ j, pendingDelete c j → pendingDelete (c2.evictVictims vs) j := by
      intro j ⟨cf', hm⟩; exact ⟨cf', by rw [e2, e3, hc2buf.1, hc2buf.2]; exact hm⟩
    by_cases hjk : j = k
    · subst hjk
      have hnv : j ∉ vs.map (·.1) := by
        intro hm
        obtain ⟨p, hp, hpe⟩ := List.mem_map.mp hm
        exact hvk p hp hpe
      have hres : (c2.store.items.get j).isSome = true →
          ((c2.evictVictims vs).store.items.get j).isSome = true := by
        intro hr; rw [e6 j]; simp only [hnv, if_false]; exact hr
      by_cases ha : R.added = true
      · left; apply hres; rw [hc2store j]; simp [ha]
      · have haf : R.added = false := by simpa using ha
        -- not admitted yet charged: it was charged before
        have hch0 : (c.lfu.costs.get j).isSome = true := by
          cases hg : c.lfu.costs.get j with
          | some prev => rfl
          | none => have := spec.refused haf hg; rw [this] at hj; cases hj
        rcases h.charged_resident j hch0 with h1 | h1 | ⟨cf', h1⟩
        · left; apply hres; rw [hc2store j]; simp only [ha, false_and, if_false]; exact h1
        · right; exact hpend j h1
        · cases h1
    · rcases spec.only_released j hjk with hn | hsame
      · rw [hn] at hj; cases hj
      · rw [hsame] at hj
        rcases h.charged_resident j hj with h1 | h1 | ⟨cf', h1⟩
        · left
          rw [e6 j]
          have hnv : j ∉ vs.map (·.1) := by
            intro hm
            obtain ⟨p, hp, hpe⟩ := List.mem_map.mp hm
            obtain ⟨it, hit, hvic⟩ := hvlog p hp
            have := spec.released it hit p hvic (by rw [hpe]; exact hjk)
            rw [hpe, hsame] at this
            rw [this] at hj; cases hj
          simp only [hnv, if_false]
          rw [hc2store j]
          simp only [hjk, and_false, if_false]
          exact h1
        · right; exact hpend j h1
        · cases h1

end Stretto

namespace Stretto

theorem handleUpdate_inv06 (c : Cache) (su : Nat → Nat → Bool) (est : Nat → Int)
    (refills : List (List (Nat × Int))) (k : Nat) (cost ext : Int)
    (h : InvPop c (Item.update k cost ext)) :
    Inv06 (c.handleItem su est refills (Item.update k cost ext)) := by
  have hkeys : ∀ j, (((c.lfu.update k (c.internalCost cost + ext)).1).costs.get j).isSome =
      (c.lfu.costs.get j).isSome := by
    intro j
    unfold Lfu.update
    cases hg : c.lfu.costs.get k with
    | none => rfl
    | some prev =>
      simp only [KMap.get_set]
      split
      · rename_i hjk; subst hjk; simp [hg]
      · rfl
  simp only [Cache.handleItem]
  refine ⟨by simpa using h.storeWF, by simpa using Lfu.update_inv c.lfu k _ h.lfuInv, ?_, ?_⟩
  · intro j hj
    simp only [Cache.met_store] at hj
    simp only [Cache.met_lfu, hkeys]
    exact h.resident_charged j hj
  · intro j hj
    simp only [Cache.met_lfu, hkeys] at hj
    rcases h.charged_resident j hj with h1 | ⟨cf, hm⟩ | ⟨cf, h1⟩
    · left; simpa using h1
    · right; exact ⟨cf, by simpa using hm⟩
    · cases h1

theorem handleWait_inv06 (c : Cache) (su : Nat → Nat → Bool) (est : Nat → Int)
    (refills : List (List (Nat × Int))) (id : Nat) (h : InvPop c (Item.wait id)) :
    Inv06 (c.handleItem su est refills (Item.wait id)) := by
  simp only [Cache.handleItem]
  refine ⟨h.storeWF, h.lfuInv, h.resident_charged, ?_⟩
  intro j hj
  rcases h.charged_resident j hj with h1 | ⟨cf, hm⟩ | ⟨cf, h1⟩
  · left; exact h1
  · right; exact ⟨cf, hm⟩
  · cases h1

theorem policyRemove_get (l : Lfu) (k j : Nat) :
    (policyRemove l k).1.costs.get j = if j = k then none else l.costs.get j := by
  have : (policyRemove l k).1 = (l.remove k).1 := by
    unfold policyRemove
    cases h2 : l.remove k with
    | mk l2 o => cases o <;> rfl
  rw [this, Lfu.remove_get]

theorem policyRemove_inv (l : Lfu) (k : Nat) (h : l.Inv) : (policyRemove l k).1.Inv := by
  have : (policyRemove l k).1 = (l.remove k).1 := by
    unfold policyRemove
    cases h2 : l.remove k with
    | mk l2 o => cases o <;> rfl
  rw [this]; exact Lfu.remove_inv l k h

theorem handleDelete_inv06 (c : Cache) (su : Nat → Nat → Bool) (est : Nat → Int)
    (refills : List (List (Nat × Int))) (k cf : Nat) (h : InvPop c (Item.delete k cf)) :
    Inv06 (c.handleItem su est refills (Item.delete k cf)) := by
  have hget := fun j => Store.tryRemove_get c.store k cf j
  have hwf := Store.tryRemove_wf c.store k cf h.storeWF
  -- the state before the callback is appended
  let c2 : Cache :=
    if ((c.store.tryRemove k cf).1.expiration k).isNone then
      (({ c with store := (c.store.tryRemove k cf).1, lfu := (policyRemove c.lfu k).1 } : Cache).met
        fun m => m.applyEvs (policyRemove c.lfu k).2)
    else { c with store := (c.store.tryRemove k cf).1 }
  have hfin : ∃ cbs', c.handleItem su est refills (Item.delete k cf) = { c2 with cbs := cbs' } := by
    simp only [Cache.handleItem, c2]
    cases (c.store.tryRemove k cf).2 <;> exact ⟨_, rfl⟩
  obtain ⟨cbs', hfinal⟩ := hfin
  rw [hfinal]
  by_cases hgone : ((c.store.tryRemove k cf).1.expiration k).isNone = true
  · -- the index is no longer held by the store: the charge is released
    have hc2 : c2 = (({ c with store := (c.store.tryRemove k cf).1, lfu := (policyRemove c.lfu k).1 } : Cache).met
        fun m => m.applyEvs (policyRemove c.lfu k).2) := by simp only [c2, hgone, if_true]
    have hknone : (c.store.tryRemove k cf).1.items.get k = none := by
      simpa [Store.expiration] using hgone
    refine ⟨by simp only [hc2, Cache.met_store]; exact hwf,
            by simp only [hc2, Cache.met_lfu]; exact policyRemove_inv c.lfu k h.lfuInv, ?_, ?_⟩
    · intro j hj
      simp only [hc2, Cache.met_store, Cache.met_lfu] at hj ⊢
      rw [policyRemove_get]
      by_cases hjk : j = k
      · subst hjk; rw [hknone] at hj; cases hj
      · simp only [hjk, if_false]
        rw [hget j] at hj
        simp only [hjk, false_and, if_false] at hj
        exact h.resident_charged j hj
    · intro j hj
      simp only [hc2, Cache.met_lfu] at hj
      rw [policyRemove_get] at hj
      by_cases hjk : j = k
      · subst hjk; simp at hj
      · simp only [hjk, if_false] at hj
        rcases h.charged_resident j hj with h1 | ⟨cf', hm⟩ | ⟨cf', h1⟩
        · left
          simp only [hc2, Cache.met_store]
          rw [hget j]; simp only [hjk, false_and, if_false]; exact h1
        · right; exact ⟨cf', by simp only [hc2, Cache.met_buf, Cache.met_pendingSends]; exact hm⟩
        · exfalso; apply hjk; cases h1; rfl
  · -- the index is still held (an entry of another key colliding on it): the charge stays
    have hc2 : c2 = { c with store := (c.store.tryRemove k cf).1 } := by simp only [c2, hgone]; simp
    have hksome : ((c.store.tryRemove k cf).1.items.get k).isSome = true := by
      cases hg : (c.store.tryRemove k cf).1.items.get k with
      | some e => rfl
      | none => exfalso; apply hgone; simp [Store.expiration, hg]
    -- nothing was removed: the store is unchanged
    have hsame : (c.store.tryRemove k cf).1 = c.store := by
      apply Store.tryRemove_none_store
      cases hr : (c.store.tryRemove k cf).2 with
      | none => rfl
      | some e =>
        have := hget k
        simp only [hr, Option.isSome_some, and_self, if_true] at this
        rw [this] at hksome; cases hksome
    refine ⟨by simp only [hc2]; exact hwf, by simp only [hc2]; exact h.lfuInv, ?_, ?_⟩
    · intro j hj
      simp only [hc2, hsame] at hj ⊢
      exact h.resident_charged j hj
    · intro j hj
      simp only [hc2] at hj
      rcases h.charged_resident j hj with h1 | ⟨cf', hm⟩ | ⟨cf', h1⟩
      · left; simp only [hc2, hsame]; exact h1
      · right; exact ⟨cf', by simp only [hc2]; exact hm⟩
      · left
        have : j = k := by cases h1; rfl
        subst this
        simp only [hc2]; exact hksome

theorem procItem_inv06 (c c' : Cache) (su : Nat → Nat → Bool) (est : Nat → Int)
    (refills : List (List (Nat × Int))) (h : Inv06 c)
    (hv : ∀ it rest, c.buf = it :: rest →
      VictimsOk (({ c with buf := rest } : Cache).admitPending) est refills it)
    (hs : c.procItem su est refills = some c') : Inv06 c' := by
  unfold Cache.procItem at hs
  split at hs
  · cases hs
  · split at hs
    · cases hs
    · rename_i it rest hb
      simp only [Option.some.injEq] at hs
      subst hs
      have hp := pop_invPop c it rest hb h
      have hvk := hv it rest hb
      cases it with
      | new k cf cost v exp => exact handleNew_inv06 _ su est refills k cf cost v exp hp hvk
      | update k cost ext => exact handleUpdate_inv06 _ su est refills k cost ext hp
      | delete k cf => exact handleDelete_inv06 _ su est refills k cf hp
      | wait id => exact handleWait_inv06 _ su est refills id hp

end Stretto

namespace Stretto

theorem drain_frame' (items : List Item) (c : Cache) :
    (items.foldl Cache.drainItem c).store = c.store ∧ (items.foldl Cache.drainItem c).lfu = c.lfu ∧
    (items.foldl Cache.drainItem c).buf = c.buf ∧
    (items.foldl Cache.drainItem c).pendingSends = c.pendingSends := by
  induction items generalizing c with
  | nil => simp
  | cons it rest ih =>
    simp only [List.foldl_cons]
    have := ih (c.drainItem it)
    cases it <;> simpa [Cache.drainItem] using this

theorem procClear_inv06 (c c' : Cache) (hs : c.procClear = some c') : Inv06 c' := by
  unfold Cache.procClear at hs
  split at hs
  · cases hs
  · split at hs
    · cases hs
    · simp only [Option.some.injEq] at hs
      subst hs
      refine ⟨by simp [Store.clear, Store.empty, KMap.wf_nil], Lfu.clear_inv _, ?_, ?_⟩
      · intro k hk; simp [Store.clear, Store.empty] at hk
      · intro k hk; simp [Lfu.clear] at hk

/-- one sweep step keeps the invariant, provided the conflict filed in the bucket passes the
store's check for the entry it refers to -/
theorem sweepOne_inv06 (c : Cache) (now k cf : Nat) (h : Inv06 c)
    (hok : ∀ e, c.store.items.get k = some e → Store.conflictOk cf e = true) :
    Inv06 (c.sweepOne now k cf).1 := by
  have hget := fun j => Cache.sweepOne_get c now k cf j
  have hfr : (c.sweepOne now k cf).1.buf = c.buf ∧ (c.sweepOne now k cf).1.pendingSends = c.pendingSends := by
    unfold Cache.sweepOne
    cases c.store.expiration k with
    | none => simp
    | some t => simp only; split
                · cases (c.store.tryRemove k cf).2 <;> simp
                · simp
  -- did this step remove k?
  cases hrem : (c.sweepOne now k cf).2 with
  | some cb =>
    obtain ⟨e, he, hdue, hcf, _⟩ := (Cache.sweepOne_removed_iff c now k cf cb).mp hrem
    -- store: k erased; policy: k released
    have hstore : (c.sweepOne now k cf).1.store.items = c.store.items.erase k := by
      unfold Cache.sweepOne
      simp only [Store.expiration, he, Option.map_some, hdue, if_true]
      have htr : (c.store.tryRemove k cf).2 = some e := (Store.tryRemove_some_iff c.store k cf e).mpr ⟨he, hcf⟩
      simp only [htr]
      unfold Store.tryRemove
      simp [he, hcf]
    have hlfu : (c.sweepOne now k cf).1.lfu = (policyRemove c.lfu k).1 := by
      unfold Cache.sweepOne
      simp only [Store.expiration, he, Option.map_some, hdue, if_true]
      have htr : (c.store.tryRemove k cf).2 = some e := (Store.tryRemove_some_iff c.store k cf e).mpr ⟨he, hcf⟩
      simp [htr]
    refine ⟨by rw [hstore]; exact KMap.wf_erase _ _ h.storeWF, by rw [hlfu]; exact policyRemove_inv _ _ h.lfuInv, ?_, ?_⟩
    · intro j hj
      rw [hstore, KMap.get_erase] at hj
      rw [hlfu, policyRemove_get]
      split at hj
      · cases hj
      · rename_i hjk; simp only [hjk, if_false]; exact h.resident_charged j hj
    · intro j hj
      rw [hlfu, policyRemove_get] at hj
      by_cases hjk : j = k
      · simp [hjk] at hj
      · simp only [hjk, if_false] at hj
        rcases h.charged_resident j hj with h1 | ⟨cf', hm⟩
        · left; rw [hstore, KMap.get_erase]; simp only [hjk, if_false]; exact h1
        · right; exact ⟨cf', by rw [hfr.1, hfr.2]; exact hm⟩
  | none =>
    -- nothing removed from the store; the charge of k is dropped only if k was due, and then the
    -- conflict check must have failed — excluded by the guard — or k was not resident at all
    have hstore : ∀ j, (c.sweepOne now k cf).1.store.items.get j = c.store.items.get j := by
      intro j; rw [hget j, hrem]; simp
    have hwf : (c.sweepOne now k cf).1.store.items.WF := by
      unfold Cache.sweepOne at hrem ⊢
      cases hx : c.store.expiration k with
      | none => simpa using h.storeWF
      | some t =>
        simp only [hx] at hrem ⊢
        split
        · rename_i hdue
          simp only [hdue, if_true] at hrem
          cases htr : (c.store.tryRemove k cf).2 with
          | none => simpa using h.storeWF
          | some e => simp [htr] at hrem
        · simpa using h.storeWF
    have hlfu : (c.sweepOne now k cf).1.lfu = c.lfu := by
      unfold Cache.sweepOne at hrem ⊢
      cases hg : c.store.items.get k with
      | none => simp [Store.expiration, hg]
      | some e =>
        simp only [Store.expiration, hg, Option.map_some] at hrem ⊢
        split
        · rename_i hdue
          -- due and resident with a passing conflict: it would have been removed
          exfalso
          have htr : (c.store.tryRemove k cf).2 = some e :=
            (Store.tryRemove_some_iff c.store k cf e).mpr ⟨hg, hok e hg⟩
          simp [hdue, htr] at hrem
        · rfl
    refine ⟨hwf, by rw [hlfu]; exact h.lfuInv, ?_, ?_⟩
    · intro j hj; rw [hstore] at hj; rw [hlfu]; exact h.resident_charged j hj
    · intro j hj; rw [hlfu] at hj
      rcases h.charged_resident j hj with h1 | ⟨cf', hm⟩
      · left; rw [hstore]; exact h1
      · right; exact ⟨cf', by rw [hfr.1, hfr.2]; exact hm⟩

theorem sweepKeys_inv06 (keys : List (Nat × Nat)) (c : Cache) (now : Nat) (acc : List CB) (h : Inv06 c)
    (hok : TickOk c keys) : Inv06 (c.sweepKeys now keys acc).1 := by
  induction keys generalizing c acc with
  | nil => simpa [Cache.sweepKeys] using h
  | cons p rest ih =>
    obtain ⟨k, cf⟩ := p
    simp only [Cache.sweepKeys]
    apply ih
    · exact sweepOne_inv06 c now k cf h (fun e he => hok k cf e (by simp) he)
    · intro k' cf' e hm he
      rw [Cache.sweepOne_get] at he
      split at he
      · cases he
      · exact hok k' cf' e (by simp [hm]) he

theorem deliverEvictions_frame (cbs : List CB) (c : Cache) :
    (c.deliverEvictions cbs).store = c.store ∧ (c.deliverEvictions cbs).lfu = c.lfu ∧
    (c.deliverEvictions cbs).buf = c.buf ∧ (c.deliverEvictions cbs).pendingSends = c.pendingSends := by
  induction cbs generalizing c with
  | nil => simp [Cache.deliverEvictions]
  | cons cb rest ih =>
    simp only [Cache.deliverEvictions]
    have := ih ({ (match cb with
      | .evict k _ _ _ =>
        let tracked := c.tracked.contains k
        let c := { c with tracked := c.tracked.filter (· != k) }
        if tracked then c.met fun m => { m with lifeCount := m.lifeCount + 1 } else c
      | _ => c) with cbs := cb :: (match cb with
      | .evict k _ _ _ =>
        let tracked := c.tracked.contains k
        let c := { c with tracked := c.tracked.filter (· != k) }
        if tracked then c.met fun m => { m with lifeCount := m.lifeCount + 1 } else c
      | _ => c).cbs })
    cases cb with
    | exit v => simpa using this
    | reject k cf v cost => simpa using this
    | evict k cf v cost =>
      simp only at this ⊢
      split at this <;> split <;> simp_all

theorem procTick_inv06 (c c' : Cache) (now : Nat) (order : List (Nat × Nat)) (h : Inv06 c)
    (hok : TickOk c order) (hs : c.procTick now order = some c') : Inv06 c' := by
  unfold Cache.procTick at hs
  split at hs
  · cases hs
  · simp only [Option.some.injEq] at hs
    subst hs
    -- dropping the due buckets touches neither entries nor charges
    have h0 : Inv06 ({ c with store := { c.store with em := (c.store.em.tryCleanup now).1 } } : Cache) :=
      frame_inv06' c _ (by simp) (by simp) (by simp) (by simp) h
    have h1 := sweepKeys_inv06 order _ now [] h0 (by
      intro k cf e hm he; exact hok k cf e hm (by simpa using he))
    have hf := deliverEvictions_frame
      ((({ c with store := { c.store with em := (c.store.em.tryCleanup now).1 } } : Cache).sweepKeys now order []).2.reverse)
      (({ c with store := { c.store with em := (c.store.em.tryCleanup now).1 } } : Cache).sweepKeys now order []).1
    exact frame_inv06 _ _ hf.1 hf.2.1 hf.2.2.1 hf.2.2.2 h1

end Stretto

namespace Stretto

/-- handling an item never touches the insert buffer, nor the processor's liveness -/
theorem evictVictims_fields (vs : List (Nat × Int)) (c : Cache) :
    (c.evictVictims vs).buf = c.buf ∧ (c.evictVictims vs).procExited = c.procExited :=
  ⟨(evictVictims_spec vs c).2.1, (evictVictims_spec vs c).2.2.2.1⟩

theorem handleItem_buf (c : Cache) (su : Nat → Nat → Bool) (est : Nat → Int)
    (refills : List (List (Nat × Int))) (it : Item) : (c.handleItem su est refills it).buf = c.buf := by
  cases it with
  | wait w => rfl
  | update k cost ext => simp [Cache.handleItem]
  | delete k cf =>
    simp only [Cache.handleItem]
    cases (c.store.tryRemove k cf).2 <;> (simp only; split <;> simp)
  | new k cf cost v exp =>
    simp only [Cache.handleItem]
    split <;> (try rw [(evictVictims_fields _ _).1]) <;> (split <;> (try split) <;> simp)

theorem handleNew_buf (c : Cache) (su : Nat → Nat → Bool) (est : Nat → Int)
    (refills : List (List (Nat × Int))) (k cf : Nat) (cost : Int) (v : Nat) (exp : Time) :
    (c.handleItem su est refills (Item.new k cf cost v exp)).buf = c.buf :=
  handleItem_buf c su est refills _

theorem handleItem_procExited (c : Cache) (su : Nat → Nat → Bool) (est : Nat → Int)
    (refills : List (List (Nat × Int))) (it : Item) :
    (c.handleItem su est refills it).procExited = c.procExited := by
  cases it with
  | wait w => rfl
  | update k cost ext => simp [Cache.handleItem]
  | delete k cf =>
    simp only [Cache.handleItem]
    cases (c.store.tryRemove k cf).2 <;> (simp only; split <;> simp)
  | new k cf cost v exp =>
    simp only [Cache.handleItem]
    split <;> (try rw [(evictVictims_fields _ _).2]) <;> (split <;> (try split) <;> simp)

theorem admitPending_released (c : Cache) : c.admitPending.released = c.released := by
  unfold Cache.admitPending
  cases c.pendingSends with
  | nil => rfl
  | cons it rest => simp only; split <;> rfl

theorem sweepOne_frame (c : Cache) (now k cf : Nat) :
    (c.sweepOne now k cf).1.buf = c.buf ∧ (c.sweepOne now k cf).1.released = c.released := by
  unfold Cache.sweepOne
  cases c.store.expiration k with
  | none => simp
  | some t => simp only; split
              · cases (c.store.tryRemove k cf).2 <;> simp
              · simp

theorem sweepKeys_frame (keys : List (Nat × Nat)) (c : Cache) (now : Nat) (acc : List CB) :
    (c.sweepKeys now keys acc).1.buf = c.buf ∧ (c.sweepKeys now keys acc).1.released = c.released := by
  induction keys generalizing c acc with
  | nil => simp [Cache.sweepKeys]
  | cons p rest ih =>
    obtain ⟨k, cf⟩ := p
    simp only [Cache.sweepKeys]
    have h1 := ih (c.sweepOne now k cf).1 (match (c.sweepOne now k cf).2 with | some cb => cb :: acc | none => acc)
    have h2 := sweepOne_frame c now k cf
    exact ⟨(ih _ _).1.trans h2.1, (ih _ _).2.trans h2.2⟩

theorem deliverEvictions_released (cbs : List CB) (c : Cache) :
    (c.deliverEvictions cbs).released = c.released := by
  induction cbs generalizing c with
  | nil => simp [Cache.deliverEvictions]
  | cons cb rest ih =>
    simp only [Cache.deliverEvictions]
    rw [ih]
    cases cb with
    | exit v => rfl
    | reject k cf v cost => rfl
    | evict k cf v cost => simp only; split <;> simp

/-- a cleanup tick touches neither the buffer nor the released set -/
theorem tick_frame (c : Cache) (now : Nat) (order : List (Nat × Nat)) :
    let c0 : Cache := { c with store := { c.store with em := (c.store.em.tryCleanup now).1 } }
    (((c0.sweepKeys now order []).1.deliverEvictions (c0.sweepKeys now order []).2.reverse).buf = c.buf) ∧
    (((c0.sweepKeys now order []).1.deliverEvictions (c0.sweepKeys now order []).2.reverse).released = c.released) := by
  intro c0
  have h1 := sweepKeys_frame order c0 now []
  have h2 := deliverEvictions_frame (c0.sweepKeys now order []).2.reverse (c0.sweepKeys now order []).1
  have h3 := deliverEvictions_released (c0.sweepKeys now order []).2.reverse (c0.sweepKeys now order []).1
  exact ⟨h2.2.2.1.trans h1.1, h3.trans h1.2⟩

end Stretto
