import StrettoModel.Model.Lts
import StrettoModel.Proofs.Cache
import StrettoModel.Proofs.Policy
/-!
Invariant behind C06: resident ⊆ charged, and a charge without a resident entry belongs to a key
with a `Delete` item still on its way to the processor.
-/
namespace Stretto

def pendingDelete (c : Cache) (k : Nat) : Prop := ∃ cf, Item.delete k cf ∈ c.buf ++ c.pendingSends

structure Inv06 (c : Cache) : Prop where
  storeWF : c.store.items.WF
  lfuInv : c.lfu.Inv
  resident_charged : ∀ k, (c.store.items.get k).isSome = true → (c.lfu.costs.get k).isSome = true
  charged_resident : ∀ k, (c.lfu.costs.get k).isSome = true →
    (c.store.items.get k).isSome = true ∨ pendingDelete c k

/-- the invariant is only claimed while the processor is alive -/
def Good06 (c : Cache) : Prop := c.procExited = true ∨ Inv06 c

/-- guard on the oracle input of a tick: the conflict hashes filed in the due buckets pass the
store's check for the entries they refer to (checked at run time by the driver) -/
def TickOk (c : Cache) (order : List (Nat × Nat)) : Prop :=
  ∀ k cf e, (k, cf) ∈ order → c.store.items.get k = some e → Store.conflictOk cf e = true

theorem inv06_transfer (c c' : Cache)
    (hs : ∀ k, (c'.store.items.get k).isSome = (c.store.items.get k).isSome)
    (hwf : c'.store.items.WF) (hl : c'.lfu.costs = c.lfu.costs) (hli : c'.lfu.Inv)
    (hp : ∀ k, pendingDelete c k → pendingDelete c' k) (h : Inv06 c) : Inv06 c' := by
  refine ⟨hwf, hli, ?_, ?_⟩
  · intro k hk; rw [hl]; rw [hs] at hk; exact h.resident_charged k hk
  · intro k hk; rw [hl] at hk
    rcases h.charged_resident k hk with h1 | h1
    · left; rw [hs]; exact h1
    · right; exact hp k h1

-- store-level key preservation ---------------------------------------------------------------

theorem Store.tryUpdate_keys (s : Store) (su : Nat → Nat → Bool) (k v cf : Nat) (t : Time) (j : Nat) :
    ((s.tryUpdate su k v cf t).1.items.get j).isSome = (s.items.get j).isSome ∧
    (s.items.WF → (s.tryUpdate su k v cf t).1.items.WF) := by
  unfold Store.tryUpdate
  cases hg : s.items.get k with
  | none => simp
  | some e =>
    simp only
    split
    · simp
    · split
      · simp
      · refine ⟨?_, fun h => KMap.wf_set _ _ _ h⟩
        simp only [KMap.get_set]
        split
        · rename_i hjk; subst hjk; simp [hg]
        · rfl

theorem Store.getMutWrite_keys (s : Store) (k cf now v j : Nat) :
    ((s.getMutWrite k cf now v).1.items.get j).isSome = (s.items.get j).isSome ∧
    (s.items.WF → (s.getMutWrite k cf now v).1.items.WF) := by
  unfold Store.getMutWrite
  cases hl : s.lookup k cf now with
  | none => simp
  | some e =>
    have hg := (Store.lookup_some s k cf now e hl).1
    refine ⟨?_, fun h => KMap.wf_set _ _ _ h⟩
    simp only [KMap.get_set]
    split
    · rename_i hjk; subst hjk; simp [hg]
    · rfl

theorem Store.tryRemove_wf (s : Store) (k cf : Nat) (h : s.items.WF) : (s.tryRemove k cf).1.items.WF := by
  unfold Store.tryRemove
  cases s.items.get k with
  | none => exact h
  | some e => simp only; split
              · exact h
              · exact KMap.wf_erase _ _ h

-- client operations ----------------------------------------------------------------------------

theorem insert_inv06 (c : Cache) (su : Nat → Nat → Bool) (k cf v : Nat) (cost : Int) (ttl now : Nat)
    (coster : Int) (only : Bool) (h : Inv06 c) : Inv06 (c.insert su k cf v cost ttl now coster only).1 := by
  have hk := fun j => Store.tryUpdate_keys c.store su k v cf { d := ttl, created := now } j
  unfold Cache.insert
  split
  · exact h
  · split
    · exact h
    · cases hu : c.store.tryUpdate su k v cf { d := ttl, created := now } with
      | mk s' r =>
        have hk' : ∀ j, (s'.items.get j).isSome = (c.store.items.get j).isSome := by
          intro j; have := (hk j).1; rw [hu] at this; exact this
        have hwf' : s'.items.WF := by have := (hk 0).2 h.storeWF; rw [hu] at this; exact this
        cases r with
        | update old =>
          simp only
          split
          · apply inv06_transfer c _ hk' hwf' rfl h.lfuInv _ h
            intro j ⟨cf', hm⟩
            exact ⟨cf', by simp only [List.append_assoc, List.mem_append] at hm ⊢; tauto⟩
          · exact inv06_transfer c _ hk' hwf' rfl h.lfuInv (fun j hj => hj) h
        | notExist =>
          simp only
          split
          · exact h
          · split
            · apply inv06_transfer c _ (fun _ => rfl) h.storeWF rfl h.lfuInv _ h
              intro j ⟨cf', hm⟩
              exact ⟨cf', by simp only [List.append_assoc, List.mem_append] at hm ⊢; tauto⟩
            · exact inv06_transfer c _ (by simp) (by simpa using h.storeWF) (by simp) (by simpa using h.lfuInv)
                (fun j ⟨cf', hm⟩ => ⟨cf', by simpa using hm⟩) h
        | reject =>
          simp only
          split
          · exact h
          · split
            · apply inv06_transfer c _ (fun _ => rfl) h.storeWF rfl h.lfuInv _ h
              intro j ⟨cf', hm⟩
              exact ⟨cf', by simp only [List.append_assoc, List.mem_append] at hm ⊢; tauto⟩
            · exact inv06_transfer c _ (by simp) (by simpa using h.storeWF) (by simp) (by simpa using h.lfuInv)
                (fun j ⟨cf', hm⟩ => ⟨cf', by simpa using hm⟩) h
        | conflict =>
          simp only
          split
          · exact h
          · split
            · apply inv06_transfer c _ (fun _ => rfl) h.storeWF rfl h.lfuInv _ h
              intro j ⟨cf', hm⟩
              exact ⟨cf', by simp only [List.append_assoc, List.mem_append] at hm ⊢; tauto⟩
            · exact inv06_transfer c _ (by simp) (by simpa using h.storeWF) (by simp) (by simpa using h.lfuInv)
                (fun j ⟨cf', hm⟩ => ⟨cf', by simpa using hm⟩) h

theorem get_inv06 (c : Cache) (k cf now : Nat) (h : Inv06 c) : Inv06 (c.get k cf now).1 := by
  unfold Cache.get
  split
  · exact h
  · split <;>
      exact inv06_transfer c _ (by simp) (by simpa using h.storeWF) (by simp) (by simpa using h.lfuInv)
        (fun j ⟨cf', hm⟩ => ⟨cf', by simpa using hm⟩) h

theorem getMut_inv06 (c : Cache) (k cf now v : Nat) (h : Inv06 c) : Inv06 (c.getMutWrite k cf now v).1 := by
  unfold Cache.getMutWrite
  split
  · exact h
  · have hk := fun j => Store.getMutWrite_keys (c.ringPush k).store k cf now v j
    cases hg : (c.ringPush k).store.getMutWrite k cf now v with
    | mk s' r =>
      have hk' : ∀ j, (s'.items.get j).isSome = (c.store.items.get j).isSome := by
        intro j; have := (hk j).1; rw [hg] at this; simpa using this
      have hwf' : s'.items.WF := by
        have := (hk 0).2 (by simpa using h.storeWF); rw [hg] at this; exact this
      cases r with
      | none =>
        exact inv06_transfer c _ (by simp) (by simpa using h.storeWF) (by simp) (by simpa using h.lfuInv)
          (fun j ⟨cf', hm⟩ => ⟨cf', by simpa using hm⟩) h
      | some old =>
        exact inv06_transfer c _ (by simpa using hk') (by simpa using hwf') (by simp) (by simpa using h.lfuInv)
          (fun j ⟨cf', hm⟩ => ⟨cf', by simpa using hm⟩) h

theorem remove_inv06 (c : Cache) (k cf : Nat) (h : Inv06 c) : Inv06 (c.remove k cf).1 := by
  unfold Cache.remove
  split
  · exact h
  · -- after the store part: k possibly gone, everything else as before
    have hget := fun j => Store.tryRemove_get c.store k cf j
    have hwf := Store.tryRemove_wf c.store k cf h.storeWF
    -- the state after the store step, before the send
    have key : ∀ (c1 : Cache), c1.store = (c.store.tryRemove k cf).1 → c1.lfu = c.lfu →
        ∀ (buf' pend' : List Item), (∀ x, x ∈ c.buf ++ c.pendingSends → x ∈ buf' ++ pend') →
        Item.delete k cf ∈ buf' ++ pend' →
        Inv06 { c1 with buf := buf', pendingSends := pend' } := by
      intro c1 hs hl buf' pend' hsub hdel
      refine ⟨by simpa [hs] using hwf, by simpa [hl] using h.lfuInv, ?_, ?_⟩
      · intro j hj
        simp only [hs, hget] at hj
        simp only [hl]
        split at hj
        · cases hj
        · exact h.resident_charged j hj
      · intro j hj
        simp only [hl] at hj
        by_cases hjk : j = k
        · subst hjk; right; exact ⟨cf, hdel⟩
        · rcases h.charged_resident j hj with h1 | ⟨cf', hm⟩
          · left; simp only [hs, hget]; simp [hjk, h1]
          · right; exact ⟨cf', hsub _ hm⟩
    cases htr : c.store.tryRemove k cf with
    | mk s' removed =>
      cases removed with
      | some e =>
        simp only
        split
        · have := key { c with store := s', cbs := CB.exit e.val :: c.cbs } (by simp [htr]) rfl
            (c.buf ++ [Item.delete k cf]) c.pendingSends
            (by intro x hx; simp only [List.mem_append] at hx ⊢; tauto) (by simp)
          simpa using this
        · have := key { c with store := s', cbs := CB.exit e.val :: c.cbs } (by simp [htr]) rfl
            c.buf (c.pendingSends ++ [Item.delete k cf])
            (by intro x hx; simp only [List.mem_append] at hx ⊢; tauto) (by simp)
          simpa using this
      | none =>
        have hs' : s' = (c.store.tryRemove k cf).1 := by rw [htr]
        simp only
        split
        · have := key c (by
              have := Store.tryRemove_some_iff c.store k cf
              -- nothing removed: the store is unchanged
              unfold Store.tryRemove at htr ⊢
              cases hg : c.store.items.get k with
              | none => simp [hg]
              | some e => simp only [hg] at htr ⊢; split at htr <;> simp_all) rfl
            (c.buf ++ [Item.delete k cf]) c.pendingSends
            (by intro x hx; simp only [List.mem_append] at hx ⊢; tauto) (by simp)
          simpa using this
        · have := key c (by
              unfold Store.tryRemove at htr ⊢
              cases hg : c.store.items.get k with
              | none => simp [hg]
              | some e => simp only [hg] at htr ⊢; split at htr <;> simp_all) rfl
            c.buf (c.pendingSends ++ [Item.delete k cf])
            (by intro x hx; simp only [List.mem_append] at hx ⊢; tauto) (by simp)
          simpa using this

end Stretto
