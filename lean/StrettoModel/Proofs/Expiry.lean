import StrettoModel.Proofs.Agree
import StrettoModel.Proofs.Metrics
/-!
# The expiry index is complete

`EmInv`: every resident entry with a TTL is filed, under its own key, in the bucket of its deadline.
This is what makes the periodic sweep find every expired entry (C05, completeness half).
-/
namespace Stretto

/-- key `k` is filed in bucket `b` -/
def filed (m : Buckets) (b k : Nat) : Prop := ∃ bk cf, m.get b = some bk ∧ bk.get k = some cf

namespace Buckets

theorem bucketPut_filed_self (m : Buckets) (b k c : Nat) : filed (bucketPut m b k c) b k :=
  ⟨((KMap.get m b).getD []).set k c, c, by simp [bucketPut], by simp⟩

/-- `bucketPut` never loses a filing -/
theorem bucketPut_filed_mono (m : Buckets) (b k c b' j : Nat) (h : filed m b' j) :
    filed (bucketPut m b k c) b' j := by
  obtain ⟨bk, cf, h1, h2⟩ := h
  by_cases hb : b' = b
  · subst hb
    by_cases hj : j = k
    · subst hj; exact bucketPut_filed_self m b' j c
    · exact ⟨((KMap.get m b').getD []).set k c, cf, by simp [bucketPut], by simp [h1, hj, h2]⟩
  · exact ⟨bk, cf, by simp [bucketPut, hb, h1], h2⟩

/-- erasing `k` from one bucket keeps every other key's filings -/
theorem eraseIn_filed (m : Buckets) (b k b' j : Nat) (bk0 : KMap Nat) (hj : j ≠ k) (h : filed m b' j) :
    filed (m.set b (bk0.erase k)) b' j ∨ (b' = b ∧ m.get b ≠ some bk0) := by
  obtain ⟨bk, cf, h1, h2⟩ := h
  by_cases hb : b' = b
  · subst hb
    by_cases he : m.get b' = some bk0
    · left
      rw [h1] at he
      have : bk = bk0 := by simpa using he
      subst this
      exact ⟨bk.erase k, cf, by simp, by simp [hj, h2]⟩
    · right; exact ⟨rfl, he⟩
  · left; exact ⟨bk, cf, by simp [hb, h1], h2⟩

theorem tryRemove_filed (m : Buckets) (k : Nat) (t : Time) (b' j : Nat) (hj : j ≠ k) (h : filed m b' j) :
    filed (m.tryRemove k t) b' j := by
  unfold tryRemove
  cases hg : m.get t.storageBucket with
  | none => exact h
  | some bk =>
    rcases eraseIn_filed m t.storageBucket k b' j bk hj h with h1 | ⟨_, h2⟩
    · exact h1
    · exact absurd hg h2

theorem tryInsert_filed_mono (m : Buckets) (k c : Nat) (t : Time) (b' j : Nat) (h : filed m b' j) :
    filed (m.tryInsert k c t) b' j := by
  unfold tryInsert
  split
  · exact h
  · exact bucketPut_filed_mono m _ k c b' j h

theorem tryInsert_filed_self (m : Buckets) (k c : Nat) (t : Time) (hz : t.isZero = false) :
    filed (m.tryInsert k c t) t.storageBucket k := by
  unfold tryInsert
  simp only [hz, Bool.false_eq_true, ↓reduceIte]
  exact bucketPut_filed_self m _ k c

theorem tryUpdate_filed_other (m : Buckets) (k c : Nat) (old new : Time) (b' j : Nat) (hj : j ≠ k)
    (h : filed m b' j) : filed (m.tryUpdate k c old new) b' j := by
  unfold tryUpdate
  split
  · exact h
  · split
    · exact h
    · have h1 : filed (if old.isZero then m else
          match m.get old.storageBucket with
          | some bk => m.set old.storageBucket (bk.erase k)
          | none => m) b' j := by
        split
        · exact h
        · cases hg : m.get old.storageBucket with
          | none => exact h
          | some bk =>
            rcases eraseIn_filed m old.storageBucket k b' j bk hj h with h1 | ⟨_, h2⟩
            · exact h1
            · exact absurd hg h2
      simp only []
      split
      · exact h1
      · exact bucketPut_filed_mono _ _ k c b' j h1

/-- after `try_update`, the key is filed in the bucket of its new deadline (given it was filed in the
bucket of the old one) -/
theorem tryUpdate_filed_self (m : Buckets) (k c : Nat) (old new : Time) (hz : new.isZero = false)
    (hold : old.isZero = false → filed m old.storageBucket k) :
    filed (m.tryUpdate k c old new) new.storageBucket k := by
  unfold tryUpdate
  simp only [hz, Bool.and_false, Bool.false_eq_true, ↓reduceIte, Bool.not_false, Bool.and_true]
  split
  · rename_i hsame
    simp only [Bool.and_eq_true, Bool.not_eq_true', beq_iff_eq] at hsame
    rw [← hsame.2]
    exact hold hsame.1
  · exact bucketPut_filed_self _ _ k c

/-- `get` on a list filtered by a predicate on the key -/
theorem get_filter_key {α : Type} (m : KMap α) (q : Nat → Bool) (b : Nat) :
    KMap.get (m.filter (fun p => q p.1)) b = if q b then KMap.get m b else none := by
  induction m with
  | nil => simp
  | cons p m ih =>
    simp only [List.filter_cons]
    by_cases hq : q p.1 = true
    · simp only [hq, ↓reduceIte, KMap.get_cons]
      by_cases hb : p.1 = b
      · subst hb; simp [hq]
      · simp [hb, ih]
    · simp only [hq, Bool.false_eq_true, ↓reduceIte, KMap.get_cons]
      by_cases hb : p.1 = b
      · subst hb; simp [hq, ih]
      · simp [hb, ih]

theorem tryCleanup_filed (m : Buckets) (now b j : Nat) (h : filed m b j)
    (hlate : ¬ b ≤ Time.cleanupBucket now) : filed (m.tryCleanup now).1 b j := by
  obtain ⟨bk, cf, h1, h2⟩ := h
  refine ⟨bk, cf, ?_, h2⟩
  unfold tryCleanup
  have := get_filter_key m (fun x => !decide (x ≤ Time.cleanupBucket now)) b
  simp only [decide_not] at this ⊢
  rw [this]
  simp [hlate, h1]

end Buckets

/-- **every resident entry with a TTL is filed in the bucket of its deadline** -/
def EmInv (s : Store) : Prop :=
  ∀ k e, s.items.get k = some e → e.exp.isZero = false → filed s.em e.exp.storageBucket k

namespace Store

theorem tryInsert_emInv (s : Store) (su : Nat → Nat → Bool) (k v cf : Nat) (t : Time) (h : EmInv s) :
    EmInv (s.tryInsert su k v cf t) := by
  unfold tryInsert
  cases hg : s.items.get k with
  | none =>
    intro j e hj hz
    simp only [KMap.get_set] at hj
    split at hj
    · rename_i hjk; subst hjk
      cases hj
      exact Buckets.tryInsert_filed_self _ _ _ _ hz
    · exact Buckets.tryInsert_filed_mono _ _ _ _ _ _ (h j e hj hz)
  | some e0 =>
    simp only
    split
    · exact h
    · split
      · exact h
      · intro j e hj hz
        simp only [KMap.get_set] at hj
        split at hj
        · rename_i hjk; subst hjk
          cases hj
          exact Buckets.tryUpdate_filed_self _ _ _ _ _ hz (fun ho => h j e0 hg ho)
        · rename_i hjk
          exact Buckets.tryUpdate_filed_other _ _ _ _ _ _ _ hjk (h j e hj hz)

theorem tryUpdate_emInv (s : Store) (su : Nat → Nat → Bool) (k v cf : Nat) (t : Time) (h : EmInv s) :
    EmInv (s.tryUpdate su k v cf t).1 := by
  unfold tryUpdate
  cases hg : s.items.get k with
  | none => exact h
  | some e0 =>
    simp only
    split
    · exact h
    · split
      · exact h
      · intro j e hj hz
        simp only [KMap.get_set] at hj
        split at hj
        · rename_i hjk; subst hjk
          cases hj
          exact Buckets.tryUpdate_filed_self _ _ _ _ _ hz (fun ho => h j e0 hg ho)
        · rename_i hjk
          exact Buckets.tryUpdate_filed_other _ _ _ _ _ _ _ hjk (h j e hj hz)

theorem getMutWrite_emInv (s : Store) (k cf now v : Nat) (h : EmInv s) : EmInv (s.getMutWrite k cf now v).1 := by
  unfold getMutWrite
  cases hl : s.lookup k cf now with
  | none => exact h
  | some e0 =>
    have hg := (lookup_some s k cf now e0 hl).1
    intro j e hj hz
    simp only [KMap.get_set] at hj
    split at hj
    · rename_i hjk; subst hjk
      cases hj
      exact h j e0 hg hz
    · exact h j e hj hz

theorem tryRemove_emInv (s : Store) (k cf : Nat) (h : EmInv s) : EmInv (s.tryRemove k cf).1 := by
  unfold tryRemove
  cases hg : s.items.get k with
  | none => exact h
  | some e0 =>
    simp only
    split
    · exact h
    · intro j e hj hz
      simp only [KMap.get_erase] at hj
      split at hj
      · cases hj
      · rename_i hjk
        have := h j e hj hz
        simp only
        split
        · exact this
        · exact Buckets.tryRemove_filed _ _ _ _ _ hjk this

end Store
end Stretto

namespace Stretto

/-- during a sweep at `now`: filed, or in a bucket the cleanup has just taken out -/
def EmInvLate (now : Nat) (s : Store) : Prop :=
  ∀ k e, s.items.get k = some e → e.exp.isZero = false →
    filed s.em e.exp.storageBucket k ∨ e.exp.storageBucket ≤ Time.cleanupBucket now

theorem Store.tryRemove_emInvLate (s : Store) (now k cf : Nat) (h : EmInvLate now s) :
    EmInvLate now (s.tryRemove k cf).1 := by
  unfold Store.tryRemove
  cases hg : s.items.get k with
  | none => exact h
  | some e0 =>
    simp only
    split
    · exact h
    · intro j e hj hz
      simp only [KMap.get_erase] at hj
      split at hj
      · cases hj
      · rename_i hjk
        rcases h j e hj hz with h1 | h1
        · left
          simp only
          split
          · exact h1
          · exact Buckets.tryRemove_filed _ _ _ _ _ hjk h1
        · right; exact h1

namespace Cache

theorem sweepOne_emInvLate (c : Cache) (now k cf : Nat) (h : EmInvLate now c.store) :
    EmInvLate now (c.sweepOne now k cf).1.store := by
  unfold sweepOne
  cases c.store.expiration k with
  | none => exact h
  | some t =>
    simp only
    split
    · have := Store.tryRemove_emInvLate c.store now k cf h
      cases hr : (c.store.tryRemove k cf).2 with
      | none => simpa using h
      | some e => simpa using this
    · exact h

theorem sweepKeys_emInvLate (keys : List (Nat × Nat)) (c : Cache) (now : Nat) (acc : List CB)
    (h : EmInvLate now c.store) : EmInvLate now (c.sweepKeys now keys acc).1.store := by
  induction keys generalizing c acc with
  | nil => simpa [sweepKeys] using h
  | cons p rest ih =>
    obtain ⟨k, cf⟩ := p
    simp only [sweepKeys]
    exact ih _ _ (sweepOne_emInvLate c now k cf h)

theorem sweepKeys_get_of_some (keys : List (Nat × Nat)) (c : Cache) (now : Nat) (acc : List CB) (j : Nat) (e : Entry)
    (h : (c.sweepKeys now keys acc).1.store.items.get j = some e) : c.store.items.get j = some e := by
  induction keys generalizing c acc with
  | nil => simpa [sweepKeys] using h
  | cons p rest ih =>
    obtain ⟨k, cf⟩ := p
    simp only [sweepKeys] at h
    have := ih _ _ h
    rw [sweepOne_get] at this
    split at this
    · cases this
    · exact this

end Cache
end Stretto
