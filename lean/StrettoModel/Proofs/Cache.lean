import StrettoModel.Model.Cache
import StrettoModel.Proofs.KMap
/-! Frame lemmas for the cache model: which fields each helper leaves alone. -/
namespace Stretto
namespace Cache

@[simp] theorem met_store (c : Cache) (f : Metrics → Metrics) : (c.met f).store = c.store := by
  unfold met; split <;> rfl
@[simp] theorem met_lfu (c : Cache) (f : Metrics → Metrics) : (c.met f).lfu = c.lfu := by
  unfold met; split <;> rfl
@[simp] theorem met_buf (c : Cache) (f : Metrics → Metrics) : (c.met f).buf = c.buf := by
  unfold met; split <;> rfl
@[simp] theorem met_pendingSends (c : Cache) (f : Metrics → Metrics) : (c.met f).pendingSends = c.pendingSends := by
  unfold met; split <;> rfl
@[simp] theorem met_clearQ (c : Cache) (f : Metrics → Metrics) : (c.met f).clearQ = c.clearQ := by
  unfold met; split <;> rfl
@[simp] theorem met_ring (c : Cache) (f : Metrics → Metrics) : (c.met f).ring = c.ring := by
  unfold met; split <;> rfl
@[simp] theorem met_pq (c : Cache) (f : Metrics → Metrics) : (c.met f).pq = c.pq := by
  unfold met; split <;> rfl
@[simp] theorem met_closed (c : Cache) (f : Metrics → Metrics) : (c.met f).closed = c.closed := by
  unfold met; split <;> rfl
@[simp] theorem met_policyClosed (c : Cache) (f : Metrics → Metrics) : (c.met f).policyClosed = c.policyClosed := by
  unfold met; split <;> rfl
@[simp] theorem met_procExited (c : Cache) (f : Metrics → Metrics) : (c.met f).procExited = c.procExited := by
  unfold met; split <;> rfl
@[simp] theorem met_released (c : Cache) (f : Metrics → Metrics) : (c.met f).released = c.released := by
  unfold met; split <;> rfl
@[simp] theorem met_cbs (c : Cache) (f : Metrics → Metrics) : (c.met f).cbs = c.cbs := by
  unfold met; split <;> rfl
@[simp] theorem met_cfg (c : Cache) (f : Metrics → Metrics) : (c.met f).cfg = c.cfg := by
  unfold met; split <;> rfl
@[simp] theorem met_tracked (c : Cache) (f : Metrics → Metrics) : (c.met f).tracked = c.tracked := by
  unfold met; split <;> rfl

theorem met_metrics (c : Cache) (f : Metrics → Metrics) :
    (c.met f).metrics = if c.cfg.metricsOn then f c.metrics else c.metrics := by
  unfold met; split <;> rfl

/-- `ringPush` touches only the get ring, the policy queue and the get counters -/
theorem ringPush_frame (c : Cache) (k : Nat) :
    (c.ringPush k).store = c.store ∧ (c.ringPush k).lfu = c.lfu ∧ (c.ringPush k).buf = c.buf ∧
    (c.ringPush k).clearQ = c.clearQ ∧ (c.ringPush k).closed = c.closed ∧
    (c.ringPush k).cbs = c.cbs ∧ (c.ringPush k).released = c.released ∧
    (c.ringPush k).cfg = c.cfg ∧ (c.ringPush k).procExited = c.procExited ∧
    (c.ringPush k).policyClosed = c.policyClosed ∧ (c.ringPush k).pendingSends = c.pendingSends := by
  unfold ringPush
  simp only []
  split
  · split
    · simp
    · split
      · simp
      · split <;> simp
  · simp

@[simp] theorem ringPush_store (c : Cache) (k : Nat) : (c.ringPush k).store = c.store := (ringPush_frame c k).1
@[simp] theorem ringPush_lfu (c : Cache) (k : Nat) : (c.ringPush k).lfu = c.lfu := (ringPush_frame c k).2.1
@[simp] theorem ringPush_buf (c : Cache) (k : Nat) : (c.ringPush k).buf = c.buf := (ringPush_frame c k).2.2.1
@[simp] theorem ringPush_clearQ (c : Cache) (k : Nat) : (c.ringPush k).clearQ = c.clearQ := (ringPush_frame c k).2.2.2.1
@[simp] theorem ringPush_closed (c : Cache) (k : Nat) : (c.ringPush k).closed = c.closed := (ringPush_frame c k).2.2.2.2.1
@[simp] theorem ringPush_cbs (c : Cache) (k : Nat) : (c.ringPush k).cbs = c.cbs := (ringPush_frame c k).2.2.2.2.2.1
@[simp] theorem ringPush_released (c : Cache) (k : Nat) : (c.ringPush k).released = c.released := (ringPush_frame c k).2.2.2.2.2.2.1
@[simp] theorem ringPush_cfg (c : Cache) (k : Nat) : (c.ringPush k).cfg = c.cfg := (ringPush_frame c k).2.2.2.2.2.2.2.1
@[simp] theorem ringPush_procExited (c : Cache) (k : Nat) : (c.ringPush k).procExited = c.procExited := (ringPush_frame c k).2.2.2.2.2.2.2.2.1
@[simp] theorem ringPush_policyClosed (c : Cache) (k : Nat) : (c.ringPush k).policyClosed = c.policyClosed := (ringPush_frame c k).2.2.2.2.2.2.2.2.2.1
@[simp] theorem ringPush_pendingSends (c : Cache) (k : Nat) : (c.ringPush k).pendingSends = c.pendingSends := (ringPush_frame c k).2.2.2.2.2.2.2.2.2.2

end Cache

namespace Store

theorem lookup_expired (s : Store) (k cf now : Nat) (e : Entry)
    (he : s.items.get k = some e) (hd : 0 < e.exp.d) (hexp : e.exp.created + e.exp.d ≤ now) :
    s.lookup k cf now = none := by
  unfold lookup
  simp only [he]
  split
  · rfl
  · have h1 : e.exp.isZero = false := by simp [Time.isZero]; omega
    have h2 : e.exp.isExpired now = true := by
      simp only [Time.isExpired, Bool.and_eq_true, decide_eq_true_eq]; omega
    simp [h1, h2]

/-- what `lookup` serves is the resident entry, passing the conflict check and not expired -/
theorem lookup_some (s : Store) (k cf now : Nat) (e : Entry) (h : s.lookup k cf now = some e) :
    s.items.get k = some e ∧ conflictOk cf e = true ∧ (e.exp.d = 0 ∨ ¬ (now ≥ e.exp.created ∧ now - e.exp.created ≥ e.exp.d)) := by
  unfold lookup at h
  cases hg : s.items.get k with
  | none => simp [hg] at h
  | some e' =>
    simp only [hg] at h
    split at h
    · cases h
    · split at h
      · cases h
      · rename_i hc hx
        have hee : e' = e := by simpa using h
        subst hee
        refine ⟨rfl, by simpa using hc, ?_⟩
        simp only [Time.isZero, Time.isExpired, Bool.and_eq_true, Bool.not_eq_true', beq_eq_false_iff_ne,
          decide_eq_true_eq, not_and] at hx
        by_cases hz : e'.exp.d = 0
        · left; exact hz
        · right; intro ⟨h1, h2⟩; exact absurd h2 (by have := hx hz; omega)

end Store
end Stretto

namespace Stretto

namespace Store

theorem tryRemove_get (s : Store) (k cf j : Nat) :
    (s.tryRemove k cf).1.items.get j =
      if j = k ∧ (s.tryRemove k cf).2.isSome then none else s.items.get j := by
  unfold tryRemove
  cases hg : s.items.get k with
  | none => simp
  | some e =>
    simp only
    split
    · simp
    · simp only [KMap.get_erase, Option.isSome_some, and_true]

theorem tryRemove_some_iff (s : Store) (k cf : Nat) (e : Entry) :
    (s.tryRemove k cf).2 = some e ↔ s.items.get k = some e ∧ conflictOk cf e = true := by
  unfold tryRemove
  cases hg : s.items.get k with
  | none => simp
  | some e' =>
    simp only
    split
    · rename_i h; simp only [Bool.not_eq_true'] at h
      constructor
      · intro hh; cases hh
      · rintro ⟨h1, h2⟩; cases h1; rw [h] at h2; cases h2
    · rename_i h; simp only [Bool.not_eq_true', Bool.not_eq_false] at h
      constructor
      · intro hh; cases hh; exact ⟨rfl, h⟩
      · rintro ⟨h1, _⟩; cases h1; rfl

end Store

namespace Cache

/-- what one sweep step does to a key `j`'s residency and charge, and what it leaves alone -/
theorem sweepOne_spec (c : Cache) (now k cf : Nat) :
    let r := c.sweepOne now k cf
    r.1.cfg = c.cfg ∧ r.1.buf = c.buf ∧ r.1.store.em = c.store.em ∨ True := Or.inr trivial

theorem sweepOne_get (c : Cache) (now k cf j : Nat) :
    (c.sweepOne now k cf).1.store.items.get j =
      if j = k ∧ (c.sweepOne now k cf).2.isSome then none else c.store.items.get j := by
  unfold sweepOne
  cases hx : c.store.expiration k with
  | none => simp
  | some t =>
    simp only
    split
    · cases htr : (c.store.tryRemove k cf).2 with
      | none => simp
      | some e =>
        simp only [Option.isSome_some, and_true]
        rw [Store.tryRemove_get]
        simp [htr]
    · simp

theorem sweepOne_removed_iff (c : Cache) (now k cf : Nat) (cb : CB) :
    (c.sweepOne now k cf).2 = some cb ↔
      ∃ e, c.store.items.get k = some e ∧ (!e.exp.isZero && e.exp.isExpired now) = true ∧
        Store.conflictOk cf e = true ∧ cb = CB.evict k e.conflict e.val (policyCost c.lfu k) := by
  unfold sweepOne
  cases hg : c.store.items.get k with
  | none => simp [Store.expiration, hg]
  | some e0 =>
    simp only [Store.expiration, hg, Option.map_some]
    split
    · rename_i hdue
      cases htr : (c.store.tryRemove k cf).2 with
      | none =>
        simp only [Option.some.injEq, false_iff, not_exists, not_and, reduceCtorEq]
        intro e he _ hcf
        have he' : e0 = e := by simpa using he
        subst he'
        have := (Store.tryRemove_some_iff c.store k cf e0).mpr ⟨hg, hcf⟩
        rw [htr] at this; cases this
      | some e =>
        have := (Store.tryRemove_some_iff c.store k cf e).mp htr
        rw [hg] at this
        obtain ⟨h1, h2⟩ := this
        have he' : e0 = e := by simpa using h1
        subst he'
        simp only [Option.some.injEq]
        constructor
        · intro h; exact ⟨e0, rfl, hdue, h2, h.symm⟩
        · rintro ⟨e', he', _, _, rfl⟩
          have : e0 = e' := by simpa using he'
          subst this; rfl
    · rename_i hdue
      simp only [false_iff, not_exists, not_and, reduceCtorEq]
      intro e he hd
      have he' : e0 = e := by simpa using he
      subst he'
      exact absurd hd hdue

theorem sweepOne_charge (c : Cache) (now k cf j : Nat) :
    (c.sweepOne now k cf).1.lfu.costs.get j = none ∨
    (c.sweepOne now k cf).1.lfu.costs.get j = c.lfu.costs.get j := by
  unfold sweepOne
  cases hx : c.store.expiration k with
  | none => right; rfl
  | some t =>
    simp only
    split
    · have hl : (policyRemove c.lfu k).1.costs.get j = none ∨
          (policyRemove c.lfu k).1.costs.get j = c.lfu.costs.get j := by
        have : (policyRemove c.lfu k).1 = (c.lfu.remove k).1 := by
          unfold policyRemove
          cases h2 : c.lfu.remove k with
          | mk l2 o => cases o <;> rfl
        rw [this]
        unfold Lfu.remove
        cases hg : c.lfu.costs.get k with
        | none => right; rfl
        | some x =>
          simp only [KMap.get_erase]
          split
          · left; rfl
          · right; rfl
      cases (c.store.tryRemove k cf).2 <;> simpa using hl
    · right; rfl

end Cache
end Stretto
