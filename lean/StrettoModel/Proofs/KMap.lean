import StrettoModel.Model.KMap
/-! Rewriting lemmas for `KMap`. -/
namespace Stretto
namespace KMap
variable {α : Type}

@[simp] theorem get_nil (k : Nat) : get ([] : KMap α) k = none := rfl

theorem get_cons (p : Nat × α) (m : KMap α) (k : Nat) :
    get (p :: m) k = if p.1 = k then some p.2 else get m k := by
  unfold get; simp [List.find?_cons]; split <;> simp_all

@[simp, grind =] theorem get_erase (m : KMap α) (k j : Nat) :
    get (erase m k) j = if j = k then none else get m j := by
  induction m with
  | nil => simp [erase]
  | cons p m ih =>
    unfold erase at *
    simp only [List.filter_cons]
    by_cases h : p.1 = k
    · simp [h, ih, get_cons]; split <;> simp_all [eq_comm]
    · simp [h, get_cons, ih]; split <;> simp_all [eq_comm]

@[simp, grind =] theorem get_set (m : KMap α) (k j : Nat) (v : α) :
    get (set m k v) j = if j = k then some v else get m j := by
  unfold set; rw [get_cons]; simp; split <;> simp_all [eq_comm]

theorem get_none_of_not_mem (m : KMap α) (k : Nat) (h : k ∉ keys m) : get m k = none := by
  induction m with
  | nil => rfl
  | cons p m ih =>
    simp only [keys, List.map_cons, List.mem_cons, not_or] at h
    rw [get_cons]
    have : ¬ p.1 = k := fun e => h.1 e.symm
    simp [this, ih h.2]

theorem mem_keys_of_get (m : KMap α) (k : Nat) (v : α) (h : get m k = some v) : k ∈ keys m := by
  induction m with
  | nil => simp at h
  | cons p m ih =>
    rw [get_cons] at h
    simp only [keys, List.map_cons, List.mem_cons]
    split at h
    · left; omega
    · right; exact ih h

theorem mem_of_get (m : KMap α) (k : Nat) (v : α) (h : get m k = some v) : (k, v) ∈ m := by
  induction m with
  | nil => simp at h
  | cons p m ih =>
    rw [get_cons] at h
    split at h
    · rename_i hk
      cases h
      simp only [List.mem_cons]; left
      cases p; simp_all
    · simp only [List.mem_cons]; right; exact ih h

theorem get_of_mem (m : KMap α) (hwf : WF m) (k : Nat) (v : α) (h : (k, v) ∈ m) : get m k = some v := by
  induction m with
  | nil => cases h
  | cons p m ih =>
    have hw : WF m := by unfold WF keys at *; simp at hwf; exact hwf.2
    have hnot : p.1 ∉ keys m := by unfold WF keys at *; simp at hwf; simpa [keys] using hwf.1
    rw [get_cons]
    simp only [List.mem_cons] at h
    rcases h with h | h
    · subst h; simp
    · have : p.1 ≠ k := by
        intro e; apply hnot; rw [e]; unfold keys; exact List.mem_map.mpr ⟨(k, v), h, rfl⟩
      simp [this, ih hw h]

theorem wf_nil : WF ([] : KMap α) := by simp [WF, keys]

theorem wf_erase (m : KMap α) (k : Nat) (h : WF m) : WF (erase m k) := by
  unfold WF keys erase at *
  exact (List.Nodup.sublist ((List.filter_sublist).map _) h)

theorem wf_set (m : KMap α) (k : Nat) (v : α) (h : WF m) : WF (set m k v) := by
  have := wf_erase m k h
  unfold WF keys set erase at *
  simp only [List.map_cons, List.nodup_cons]
  refine ⟨?_, this⟩
  simp

theorem total_erase (m : KMap Int) (k : Nat) (h : WF m) :
    total (erase m k) = total m - (get m k).getD 0 := by
  induction m with
  | nil => simp [erase, total]
  | cons p m ih =>
    have hw : WF m := by unfold WF keys at *; simp at h; exact h.2
    have hnot : p.1 ∉ keys m := by unfold WF keys at *; simp at h; simpa [keys] using h.1
    unfold erase at *
    simp only [List.filter_cons]
    by_cases hk : p.1 = k
    · subst hk
      have hg : get m p.1 = none := get_none_of_not_mem m p.1 hnot
      have hm : total (List.filter (fun x => x.1 != p.1) m) = total m := by
        have := ih hw; rw [this]; simp [hg]
      simp [get_cons, total] at *; omega
    · have := ih hw
      simp [hk, get_cons, total] at *; omega

theorem total_set (m : KMap Int) (k : Nat) (v : Int) (h : WF m) :
    total (set m k v) = total m - (get m k).getD 0 + v := by
  have := total_erase m k h
  unfold set; simp [total] at *; omega

theorem length_erase_le (m : KMap α) (k : Nat) : (erase m k).length ≤ m.length := by
  unfold erase; exact List.length_filter_le _ _

theorem keys_erase (m : KMap α) (k j : Nat) : j ∈ keys (erase m k) ↔ j ∈ keys m ∧ j ≠ k := by
  unfold keys erase
  simp only [List.mem_map, List.mem_filter]
  constructor
  · rintro ⟨p, ⟨hp, hne⟩, rfl⟩
    exact ⟨⟨p, hp, rfl⟩, by simpa using hne⟩
  · rintro ⟨⟨p, hp, rfl⟩, hne⟩
    exact ⟨p, ⟨hp, by simpa using hne⟩, rfl⟩

end KMap
end Stretto
