import StrettoModel.Proofs.Cache
import StrettoModel.Proofs.Agree
import StrettoModel.Model.Lts
/-! # Frame lemmas: the configuration is fixed at construction -/
namespace Stretto
open Stretto

theorem evictVictims_cfg (vs : List (Nat × Int)) (c : Cache) : (c.evictVictims vs).cfg = c.cfg := by
  induction vs generalizing c with
  | nil => rfl
  | cons p rest ih =>
    obtain ⟨vk, vc⟩ := p
    simp only [Cache.evictVictims]
    cases (c.store.tryRemove vk 0).2 with
    | none => exact ih c
    | some e =>
      simp only
      split
      · rw [ih]; simp
      · rw [ih]

theorem handleItem_cfg (c : Cache) (su : Nat → Nat → Bool) (est : Nat → Int)
    (refills : List (List (Nat × Int))) (it : Item) :
    (c.handleItem su est refills it).cfg = c.cfg := by
  cases it with
  | wait w => rfl
  | update k cost ext => simp [Cache.handleItem]
  | delete k cf =>
    simp only [Cache.handleItem]
    cases (c.store.tryRemove k cf).2 <;> (simp only; split <;> simp)
  | new k cf cost v exp =>
    simp only [Cache.handleItem]
    split <;> (try rw [evictVictims_cfg]) <;> (split <;> (try split) <;> simp)

theorem drain_cfg (items : List Item) (c : Cache) : (items.foldl Cache.drainItem c).cfg = c.cfg := by
  induction items generalizing c with
  | nil => rfl
  | cons it rest ih =>
    simp only [List.foldl_cons]; rw [ih]
    cases it <;> simp [Cache.drainItem]

theorem sweepKeys_cfg (keys : List (Nat × Nat)) (c : Cache) (now : Nat) (acc : List CB) :
    (c.sweepKeys now keys acc).1.cfg = c.cfg := by
  induction keys generalizing c acc with
  | nil => rfl
  | cons p rest ih =>
    obtain ⟨k, cf⟩ := p
    simp only [Cache.sweepKeys]
    rw [ih]
    unfold Cache.sweepOne
    cases c.store.expiration k with
    | none => rfl
    | some t =>
      simp only; split
      · cases (c.store.tryRemove k cf).2 <;> simp
      · rfl

theorem deliverEvictions_cfg (cbs : List CB) (c : Cache) : (c.deliverEvictions cbs).cfg = c.cfg := by
  induction cbs generalizing c with
  | nil => rfl
  | cons cb rest ih =>
    simp only [Cache.deliverEvictions]
    rw [ih]
    cases cb with
    | exit v => rfl
    | reject k cf v cost => rfl
    | evict k cf v cost => simp only; split <;> simp

/-- the configuration is fixed at construction: no step of any actor changes it -/
theorem step_cfg (su : Nat → Nat → Bool) (c c' : Cache) (a : Act) (hs : c.step su a = some c') :
    c'.cfg = c.cfg := by
  cases a with
  | insert k cf v cost ttl now coster only =>
    simp only [Cache.step, Option.some.injEq] at hs; subst hs
    unfold Cache.insert Cache.insertBody
    split
    · rfl
    · simp only []
      split
      · rfl
      · split
        · split <;> rfl
        · split
          · rfl
          · split
            · rfl
            · simp
  | get k cf now =>
    simp only [Cache.step, Option.some.injEq] at hs; subst hs
    unfold Cache.get; split
    · rfl
    · simp only []; split <;> simp
  | getMut k cf now v =>
    simp only [Cache.step, Option.some.injEq] at hs; subst hs
    unfold Cache.getMutWrite; split
    · rfl
    · simp only []; split <;> simp
  | remove k cf =>
    simp only [Cache.step, Option.some.injEq] at hs; subst hs
    unfold Cache.remove
    split
    · rfl
    · simp only []
      cases (c.store.tryRemove k cf).2 <;> (simp only; split <;> rfl)
  | waitEnq w =>
    simp only [Cache.step, Option.some.injEq] at hs; subst hs
    unfold Cache.waitEnq; split
    · rfl
    · split <;> rfl
  | clearReq w =>
    simp only [Cache.step, Option.some.injEq] at hs; subst hs
    unfold Cache.clearReq; split <;> rfl
  | closeBegin w =>
    simp only [Cache.step, Option.some.injEq] at hs; subst hs
    unfold Cache.closeBegin; split <;> rfl
  | updateMaxCost mc =>
    simp only [Cache.step, Option.some.injEq] at hs; subst hs; rfl
  | procItem est refills =>
    simp only [Cache.step, Cache.procItem] at hs
    split at hs
    · cases hs
    · split at hs
      · cases hs
      · simp only [Option.some.injEq] at hs; subst hs
        rw [handleItem_cfg, (admitPending_frame _).2.2.2]
  | procClear =>
    simp only [Cache.step, Cache.procClear] at hs
    split at hs
    · cases hs
    · split at hs
      · cases hs
      · simp only [Option.some.injEq] at hs; subst hs
        simp only []
        rw [drain_cfg]
  | procTick now order =>
    simp only [Cache.step, Cache.procTick] at hs
    split at hs
    · cases hs
    · simp only [Option.some.injEq] at hs; subst hs
      rw [deliverEvictions_cfg, sweepKeys_cfg]
  | procStop =>
    simp only [Cache.step, Cache.procStop] at hs
    split at hs
    · cases hs
    · simp only [Option.some.injEq] at hs; subst hs; rfl
  | policyWorker =>
    simp only [Cache.step, Cache.policyWorkerStep] at hs
    cases hp : c.pq with
    | nil => simp [hp] at hs
    | cons b rest => simp only [hp, Option.map_some, Option.some.injEq] at hs; subst hs; rfl
  | policyClose =>
    simp only [Cache.step, Option.some.injEq] at hs; subst hs; rfl

theorem run_cfg (su : Nat → Nat → Bool) (acts : List Act) (c : Cache) : (Cache.run su c acts).cfg = c.cfg := by
  induction acts generalizing c with
  | nil => rfl
  | cons a rest ih =>
    simp only [Cache.run]
    rw [ih]
    cases hs : c.step su a with
    | none => rfl
    | some c' => exact step_cfg su c c' a hs

end Stretto
