import StrettoModel.Proofs.Metrics
/-! # Frames for the get-batch accounting (C15): who touches `gets_kept`, `gets_dropped`, the pending
batch and the policy's closed flag -/
namespace Stretto
namespace Cache

/-- the get-batch accounting state -/
def kd (c : Cache) : Nat × Nat × List Nat × Bool :=
  (c.metrics.keepGets, c.metrics.dropGets, c.ring, c.policyClosed)

theorem met_kd (c : Cache) (f : Metrics → Metrics)
    (hf : ∀ m, (f m).keepGets = m.keepGets ∧ (f m).dropGets = m.dropGets) : (c.met f).kd = c.kd := by
  unfold met kd
  split
  · obtain ⟨h1, h2⟩ := hf c.metrics
    simp [h1, h2]
  · rfl

macro "kd_frame" : tactic =>
  `(tactic| ((try dsimp only); rw [Cache.met_kd] <;> first | (intro m; exact ⟨rfl, rfl⟩) | skip))

theorem insert_kd (c : Cache) (su : Nat → Nat → Bool) (k cf v : Nat) (cost : Int) (ttl now : Nat)
    (coster : Int) (only : Bool) : (c.insert su k cf v cost ttl now coster only).1.kd = c.kd := by
  unfold insert
  split
  · rfl
  · unfold insertBody
    simp only []
    repeat' split
    all_goals first | rfl | (kd_frame; done) | (kd_frame; rfl)

theorem remove_kd (c : Cache) (k cf : Nat) : (c.remove k cf).1.kd = c.kd := by
  unfold remove
  split
  · rfl
  · simp only []
    cases (c.store.tryRemove k cf).2 <;> (simp only; split <;> rfl)

theorem waitEnq_kd (c : Cache) (id : Nat) : (c.waitEnq id).1.kd = c.kd := by
  unfold waitEnq; split
  · rfl
  · split <;> rfl

theorem clearReq_kd (c : Cache) (id : Nat) : (c.clearReq id).1.kd = c.kd := by
  unfold clearReq; split <;> rfl

theorem closeBegin_kd (c : Cache) (id : Nat) : (c.closeBegin id).1.kd = c.kd := by
  unfold closeBegin; split <;> rfl

theorem admitPending_kd (c : Cache) : c.admitPending.kd = c.kd := by
  unfold admitPending
  cases c.pendingSends with
  | nil => rfl
  | cons it rest => simp only; split <;> rfl

theorem evictVictims_kd (vs : List (Nat × Int)) (c : Cache) : (c.evictVictims vs).kd = c.kd := by
  induction vs generalizing c with
  | nil => rfl
  | cons p rest ih =>
    obtain ⟨vk, vc⟩ := p
    simp only [evictVictims]
    cases (c.store.tryRemove vk 0).2 with
    | none => exact ih c
    | some e =>
      simp only
      rw [ih]
      split
      · kd_frame; rfl
      · rfl

theorem deliverEvictions_kd (cbs : List CB) (c : Cache) : (c.deliverEvictions cbs).kd = c.kd := by
  induction cbs generalizing c with
  | nil => rfl
  | cons cb rest ih =>
    simp only [deliverEvictions]
    rw [ih]
    cases cb with
    | evict k cf v cost =>
      simp only
      split
      · simp only [kd, met_metrics, met_policyClosed, met_ring]; split <;> rfl
      · rfl
    | exit v => rfl
    | reject k cf v cost => rfl

theorem applyEvs_kd (c : Cache) (evs : List MEv) : (c.met fun m => m.applyEvs evs).kd = c.kd := by
  rw [met_kd]
  intro m
  exact ⟨(applyEvs_spec evs m).2.2.2.2.2.2.2.2.1, (applyEvs_spec evs m).2.2.2.2.2.2.2.1⟩

theorem handleItem_kd (c : Cache) (su : Nat → Nat → Bool) (est : Nat → Int)
    (refills : List (List (Nat × Int))) (it : Item) : (c.handleItem su est refills it).kd = c.kd := by
  cases it with
  | wait w => rfl
  | update k cost ext =>
    simp only [handleItem]
    exact (applyEvs_kd _ _).trans rfl
  | delete k cf =>
    simp only [handleItem]
    have key : (if ((c.store.tryRemove k cf).1.expiration k).isNone then
        ({ ({ c with store := (c.store.tryRemove k cf).1 } : Cache) with lfu := (policyRemove c.lfu k).1 }).met
          fun m => m.applyEvs (policyRemove c.lfu k).2
      else { c with store := (c.store.tryRemove k cf).1 }).kd = c.kd := by
      split
      · exact (applyEvs_kd _ _).trans rfl
      · rfl
    cases hr : (c.store.tryRemove k cf).2 with
    | none => simpa [hr] using key
    | some e => simp only; exact (rfl : _ = _).trans key
  | new k cf cost v exp =>
    simp only [handleItem]
    have key : ∀ (c1 : Cache) (o : Option (List (Nat × Int))), c1.kd = c.kd →
        (match o with | some vs => c1.evictVictims vs | none => c1).kd = c.kd := by
      intro c1 o h
      cases o with
      | none => exact h
      | some vs => exact (evictVictims_kd vs c1).trans h
    apply key
    split
    · split
      · exact (rfl : _ = _).trans ((applyEvs_kd _ _).trans rfl)
      · exact (rfl : _ = _).trans ((applyEvs_kd _ _).trans rfl)
    · exact (rfl : _ = _).trans ((applyEvs_kd _ _).trans rfl)

theorem sweepKeys_kd (keys : List (Nat × Nat)) (c : Cache) (now : Nat) (acc : List CB) :
    (c.sweepKeys now keys acc).1.kd = c.kd := by
  induction keys generalizing c acc with
  | nil => simp [sweepKeys]
  | cons p rest ih =>
    obtain ⟨k, cf⟩ := p
    simp only [sweepKeys]
    rw [ih]
    unfold sweepOne
    cases c.store.expiration k with
    | none => rfl
    | some t =>
      simp only
      split
      · cases (c.store.tryRemove k cf).2 <;> exact (rfl : _ = _).trans ((applyEvs_kd _ _).trans rfl)
      · rfl

theorem drain_kd (items : List Item) (c : Cache) : (items.foldl Cache.drainItem c).kd = c.kd := by
  induction items generalizing c with
  | nil => rfl
  | cons it rest ih =>
    simp only [List.foldl_cons]; rw [ih]
    cases it <;> simp [Cache.drainItem, kd]

end Cache
end Stretto
