import StrettoModel.Model.Bloom
/-! Lemmas about the Bloom filter model. -/
namespace Stretto
namespace Bloom

@[simp] theorem isSet_set (b : Bloom) (i j : Nat) : (b.set i).isSet j = (j == i || b.isSet j) := by
  simp [isSet, set]
  cases h : (j == i) <;> simp_all

@[simp] theorem set_exp (b : Bloom) (i : Nat) : (b.set i).exp = b.exp := rfl
@[simp] theorem set_k (b : Bloom) (i : Nat) : (b.set i).k = b.k := rfl

theorem foldl_set_exp_k (ps : List Nat) (b : Bloom) :
    (ps.foldl set b).exp = b.exp ∧ (ps.foldl set b).k = b.k := by
  induction ps generalizing b with
  | nil => exact ⟨rfl, rfl⟩
  | cons p ps ih => simp [List.foldl_cons, ih]

theorem isSet_foldl_set (ps : List Nat) (b : Bloom) (j : Nat) :
    (ps.foldl set b).isSet j = (ps.contains j || b.isSet j) := by
  induction ps generalizing b with
  | nil => simp
  | cons p ps ih =>
    simp only [List.foldl_cons, ih, isSet_set, List.contains_cons]
    cases (ps.contains j) <;> cases (j == p) <;> simp

@[simp] theorem add_exp (b : Bloom) (h : Nat) : (b.add h).exp = b.exp := (foldl_set_exp_k _ _).1
@[simp] theorem add_k (b : Bloom) (h : Nat) : (b.add h).k = b.k := (foldl_set_exp_k _ _).2

theorem probes_congr (b' b : Bloom) (he : b'.exp = b.exp) (hk : b'.k = b.k) (h : Nat) :
    b'.probes h = b.probes h := by
  unfold probes pos hi lo
  rw [he, hk]

/-- a bit is set after `add h` iff it is one of `h`'s probe positions or was set before -/
theorem isSet_add (b : Bloom) (h j : Nat) :
    (b.add h).isSet j = ((b.probes h).contains j || b.isSet j) := isSet_foldl_set _ _ _

/-- adding never clears a bit -/
theorem isSet_add_mono (b : Bloom) (h j : Nat) (hs : b.isSet j = true) : (b.add h).isSet j = true := by
  rw [isSet_add, hs]; simp

/-- `contains` is monotone under `add` -/
theorem contains_add_mono (b : Bloom) (h g : Nat) (hc : b.contains g = true) :
    (b.add h).contains g = true := by
  unfold contains at *
  rw [probes_congr (b.add h) b (add_exp b h) (add_k b h)]
  rw [List.all_eq_true] at *
  intro p hp
  exact isSet_add_mono b h p (hc p hp)

/-- a hash is reported present right after it was added -/
theorem contains_add_self (b : Bloom) (h : Nat) : (b.add h).contains h = true := by
  unfold contains
  rw [probes_congr (b.add h) b (add_exp b h) (add_k b h)]
  rw [List.all_eq_true]
  intro p hp
  rw [isSet_add]
  simp [hp]

/-- every probe position is a valid bit index: all accesses stay inside the vector -/
theorem pos_lt (b : Bloom) (h i : Nat) : b.pos h i < b.nbits := by
  unfold pos nbits
  exact Nat.mod_lt _ (Nat.two_pow_pos _)

theorem probes_lt (b : Bloom) (h p : Nat) (hp : p ∈ b.probes h) : p < b.nbits := by
  unfold probes at hp
  obtain ⟨i, _, rfl⟩ := List.mem_map.mp hp
  exact pos_lt b h i

/-- `contains` ⇔ all probe positions set (definitional, stated for the record) -/
theorem contains_iff_probes (b : Bloom) (h : Nat) :
    b.contains h = true ↔ ∀ i < b.k, b.isSet (b.pos h i) = true := by
  unfold contains probes
  simp [List.all_eq_true]

/-- an empty filter with at least one probe reports every hash absent -/
theorem contains_reset (b : Bloom) (hk : 0 < b.k) (h : Nat) : b.reset.contains h = false := by
  have : ¬ (b.reset.contains h = true) := by
    rw [contains_iff_probes]
    intro hall
    have := hall 0 hk
    simp [reset, isSet] at this
  simpa using this

theorem containsOrAdd_contains (b : Bloom) (h : Nat) : (b.containsOrAdd h).1.contains h = true := by
  unfold containsOrAdd
  split
  · assumption
  · exact contains_add_self b h

theorem containsOrAdd_mono (b : Bloom) (h g : Nat) (hc : b.contains g = true) :
    (b.containsOrAdd h).1.contains g = true := by
  unfold containsOrAdd
  split
  · exact hc
  · exact contains_add_mono b h g hc

@[simp] theorem containsOrAdd_exp (b : Bloom) (h : Nat) : (b.containsOrAdd h).1.exp = b.exp := by
  unfold containsOrAdd; split <;> simp
@[simp] theorem containsOrAdd_k (b : Bloom) (h : Nat) : (b.containsOrAdd h).1.k = b.k := by
  unfold containsOrAdd; split <;> simp

theorem containsOrAdd_added_iff (b : Bloom) (h : Nat) :
    (b.containsOrAdd h).2 = true ↔ b.contains h = false := by
  unfold containsOrAdd; split <;> simp_all

end Bloom
end Stretto
