import StrettoModel.Proofs.Policy
import StrettoModel.Proofs.Cache
/-!
# Accounting of the policy's metric events

What a list of `MEv` adds up to, what the eleven `u64` counters make of it (mod 2^64), and how the
policy's operations balance their events against `used` and the number of charged keys.
-/
namespace Stretto

/-- net cost reported: Σ CostAdd − Σ CostEvict -/
def evCost : List MEv → Int
  | [] => 0
  | .costAdd d :: r => d + evCost r
  | .costEvict c :: r => -c + evCost r
  | _ :: r => evCost r

/-- number of `KeyEvict` events -/
def nEvict : List MEv → Nat
  | [] => 0
  | .keyEvict :: r => 1 + nEvict r
  | _ :: r => nEvict r

/-- number of `RejectSets` events -/
def nReject : List MEv → Nat
  | [] => 0
  | .rejectSets :: r => 1 + nReject r
  | _ :: r => nReject r

theorem evCost_append (a b : List MEv) : evCost (a ++ b) = evCost a + evCost b := by
  induction a with
  | nil => simp [evCost]
  | cons x xs ih => cases x <;> simp [evCost, ih] <;> omega

theorem nEvict_append (a b : List MEv) : nEvict (a ++ b) = nEvict a + nEvict b := by
  induction a with
  | nil => simp [nEvict]
  | cons x xs ih => cases x <;> simp [nEvict, ih] <;> omega

theorem nReject_append (a b : List MEv) : nReject (a ++ b) = nReject a + nReject b := by
  induction a with
  | nil => simp [nReject]
  | cons x xs ih => cases x <;> simp [nReject, ih] <;> omega

theorem evCost_reverse (a : List MEv) : evCost a.reverse = evCost a := by
  induction a with
  | nil => rfl
  | cons x xs ih => rw [List.reverse_cons, evCost_append, ih]; cases x <;> simp [evCost] <;> omega

theorem nEvict_reverse (a : List MEv) : nEvict a.reverse = nEvict a := by
  induction a with
  | nil => rfl
  | cons x xs ih => rw [List.reverse_cons, nEvict_append, ih]; cases x <;> simp [nEvict] <;> omega

theorem nReject_reverse (a : List MEv) : nReject a.reverse = nReject a := by
  induction a with
  | nil => rfl
  | cons x xs ih => rw [List.reverse_cons, nReject_append, ih]; cases x <;> simp [nReject] <;> omega

theorem u64_cast (x : Int) : ((u64 x : Nat) : Int) = x % 18446744073709551616 := by
  unfold u64
  have : 0 ≤ x % 18446744073709551616 := Int.emod_nonneg _ (by decide)
  omega

/-- what the counters make of a list of events, modulo 2^64; the other counters are untouched -/
theorem applyEvs_spec (evs : List MEv) (m : Metrics) :
    (((m.applyEvs evs).costAdd : Int) - (m.applyEvs evs).costEvict - (m.costAdd - m.costEvict + evCost evs)) % 18446744073709551616 = 0 ∧
    (((m.applyEvs evs).keyEvict : Int) - (m.keyEvict + nEvict evs)) % 18446744073709551616 = 0 ∧
    (((m.applyEvs evs).rejectSets : Int) - (m.rejectSets + nReject evs)) % 18446744073709551616 = 0 ∧
    (m.applyEvs evs).keyAdd = m.keyAdd ∧ (m.applyEvs evs).hit = m.hit ∧ (m.applyEvs evs).miss = m.miss ∧
    (m.applyEvs evs).dropSets = m.dropSets ∧ (m.applyEvs evs).dropGets = m.dropGets ∧
    (m.applyEvs evs).keepGets = m.keepGets ∧ (m.applyEvs evs).lifeCount = m.lifeCount := by
  induction evs generalizing m with
  | nil => simp [Metrics.applyEvs, evCost, nEvict, nReject]
  | cons e rest ih =>
    have h := ih (m.applyEv e)
    simp only [Metrics.applyEvs, List.foldl_cons] at h ⊢
    obtain ⟨h1, h2, h3, h4, h5, h6, h7, h8, h9, h10⟩ := h
    cases e with
    | costAdd d =>
      simp only [Metrics.applyEv, evCost, nEvict, nReject] at *
      have := u64_cast (m.costAdd + d)
      refine ⟨by omega, by omega, by omega, h4, h5, h6, h7, h8, h9, h10⟩
    | costEvict c =>
      simp only [Metrics.applyEv, evCost, nEvict, nReject] at *
      have := u64_cast (m.costEvict + c)
      refine ⟨by omega, by omega, by omega, h4, h5, h6, h7, h8, h9, h10⟩
    | keyEvict =>
      simp only [Metrics.applyEv, evCost, nEvict, nReject] at *
      have := u64_cast (m.keyEvict + 1)
      refine ⟨by omega, by omega, by omega, h4, h5, h6, h7, h8, h9, h10⟩
    | keyUpdate =>
      simp only [Metrics.applyEv, evCost, nEvict, nReject] at *
      refine ⟨by omega, by omega, by omega, h4, h5, h6, h7, h8, h9, h10⟩
    | rejectSets =>
      simp only [Metrics.applyEv, evCost, nEvict, nReject] at *
      have := u64_cast (m.rejectSets + 1)
      refine ⟨by omega, by omega, by omega, h4, h5, h6, h7, h8, h9, h10⟩

namespace KMap
variable {α : Type}

theorem erase_of_get_none (m : KMap α) (k : Nat) (h : get m k = none) : erase m k = m := by
  induction m with
  | nil => rfl
  | cons p m ih =>
    rw [get_cons] at h
    split at h
    · cases h
    · rename_i hk
      unfold erase at *
      simp only [List.filter_cons]
      have : (p.1 != k) = true := by simpa using hk
      simp [this, ih h]

theorem length_erase_of_get_some (m : KMap α) (hwf : WF m) (k : Nat) (v : α) (h : get m k = some v) :
    (erase m k).length + 1 = m.length := by
  induction m with
  | nil => simp at h
  | cons p m ih =>
    have hw : WF m := by unfold WF keys at *; simp at hwf; exact hwf.2
    have hnot : p.1 ∉ keys m := by unfold WF keys at *; simp at hwf; simpa [keys] using hwf.1
    rw [get_cons] at h
    split at h
    · rename_i hk
      subst hk
      have hg : get m p.1 = none := get_none_of_not_mem m p.1 hnot
      have := erase_of_get_none m p.1 hg
      unfold erase at *
      simp only [List.filter_cons, bne_self_eq_false, Bool.false_eq_true, ↓reduceIte, List.length_cons]
      rw [this]
    · rename_i hk
      have := ih hw h
      unfold erase at *
      have hne : (p.1 != k) = true := by simpa using hk
      simp only [List.filter_cons, hne, ↓reduceIte, List.length_cons]
      omega

end KMap

/-- an operation of the policy balances its events against `used` and the number of charged keys -/
structure Bal (l l' : Lfu) (evs : List MEv) (added : Bool) : Prop where
  cost : l'.used = l.used + evCost evs
  keys : l'.costs.length + nEvict evs = l.costs.length + (if added then 1 else 0)

theorem Lfu.update_bal (l : Lfu) (k : Nat) (c : Int) (h : l.Inv) :
    Bal l (l.update k c).1 (l.update k c).2.2 false ∧ nReject (l.update k c).2.2 = 0 := by
  unfold Lfu.update
  cases hg : l.costs.get k with
  | none => exact ⟨⟨by simp [evCost], by simp [nEvict]⟩, rfl⟩
  | some prev =>
    have hl := KMap.length_erase_of_get_some l.costs h.1 k prev hg
    simp only
    split
    · refine ⟨⟨?_, ?_⟩, by simp [nReject]⟩
      · simp [evCost]; omega
      · simp [nEvict, KMap.set]; omega
    · refine ⟨⟨?_, ?_⟩, by simp [nReject]⟩
      · simp [evCost]
      · simp [nEvict, KMap.set]; omega

theorem policyRemove_bal (l : Lfu) (k : Nat) (h : l.Inv) :
    Bal l (policyRemove l k).1 (policyRemove l k).2 false ∧ nReject (policyRemove l k).2 = 0 := by
  unfold policyRemove Lfu.remove
  cases hg : l.costs.get k with
  | none => exact ⟨⟨by simp [evCost], by simp [nEvict]⟩, rfl⟩
  | some c =>
    have hl := KMap.length_erase_of_get_some l.costs h.1 k c hg
    refine ⟨⟨?_, ?_⟩, by simp [nReject]⟩
    · simp [evCost]; omega
    · simp [nEvict]; omega

theorem Lfu.increment_length (l : Lfu) (k : Nat) (c : Int) (hk : l.costs.get k = none) :
    (l.increment k c).costs.length = l.costs.length + 1 := by
  simp [Lfu.increment, KMap.set, KMap.erase_of_get_none l.costs k hk]

/-- the eviction loop, with its accumulators -/
theorem evictLoop_bal (est : Nat → Int) (incHits : Int) (key : Nat) (cost : Int)
    (refills : List (List (Nat × Int))) :
    ∀ (l : Lfu) (sample victims : List (Nat × Int)) (evs : List MEv) (log : List IterLog),
      l.Inv → l.costs.get key = none →
      let R := evictLoop est incHits key cost l sample victims evs log refills
      R.lfu.used - evCost R.events = l.used - evCost evs ∧
      R.lfu.costs.length + nEvict R.events = l.costs.length + nEvict evs + (if R.added then 1 else 0) ∧
      nReject R.events = nReject evs + (if R.added = false ∧ R.stuck = false then 1 else 0) := by
  induction refills with
  | nil =>
    intro l sample victims evs log hinv hk
    simp only [evictLoop]
    split
    · simp only [evCost_reverse, nEvict_reverse, nReject_reverse, evCost, nEvict, nReject,
        Lfu.increment_length l key cost hk]
      refine ⟨by simp [Lfu.increment]; omega, by simp; omega, by simp⟩
    · simp only [evCost_reverse, nEvict_reverse, nReject_reverse]
      refine ⟨by simp, by simp, by simp⟩
  | cons x xs ih =>
    intro l sample victims evs log hinv hk
    simp only [evictLoop]
    split
    · simp only [evCost_reverse, nEvict_reverse, nReject_reverse, evCost, nEvict, nReject,
        Lfu.increment_length l key cost hk]
      refine ⟨by simp [Lfu.increment]; omega, by simp; omega, by simp⟩
    · cases hmin : minEntry est (sample ++ x) with
      | none =>
        simp only [evCost_reverse, nEvict_reverse, nReject_reverse, evCost, nEvict, nReject]
        refine ⟨by simp, by simp, by simp; omega⟩
      | some r =>
        obtain ⟨i, ⟨vk, vc⟩, hh⟩ := r
        simp only
        split
        · simp only [evCost_reverse, nEvict_reverse, nReject_reverse, evCost, nEvict, nReject]
          refine ⟨by simp, by simp, by simp; omega⟩
        · cases hg : l.costs.get vk with
          | none =>
            have hr : l.remove vk = (l, none) := by simp [Lfu.remove, hg]
            simp only [hr]
            exact ih l _ _ evs _ hinv hk
          | some c =>
            have hr : l.remove vk = ({ l with costs := l.costs.erase vk, used := l.used - c }, some c) := by
              simp [Lfu.remove, hg]
            have hinv' := Lfu.remove_inv l vk hinv
            have hk' : (l.remove vk).1.costs.get key = none := by
              rw [Lfu.remove_get]; split <;> simp [hk]
            rw [hr] at hinv' hk'
            simp only [hr]
            have hl := KMap.length_erase_of_get_some l.costs hinv.1 vk c hg
            have := ih { l with costs := l.costs.erase vk, used := l.used - c } (swapRemove (sample ++ x) i)
              ((vk, vc) :: victims) (MEv.keyEvict :: MEv.costEvict c :: evs)
              (⟨l.roomLeft cost, sample ++ x, some (vk, vc)⟩ :: log) hinv' hk'
            simp only [evCost, nEvict, nReject] at this
            obtain ⟨h1, h2, h3⟩ := this
            refine ⟨by omega, by omega, by omega⟩

/-- `policy.add`, all branches: events balance, `RejectSets` exactly for a refusal by the loop -/
theorem policyAdd_bal (l : Lfu) (est : Nat → Int) (key : Nat) (cost : Int)
    (refills : List (List (Nat × Int))) (hinv : l.Inv) :
    let R := policyAdd l est key cost refills
    Bal l R.lfu R.events R.added ∧
    nReject R.events = (if R.victims.isSome ∧ R.added = false ∧ R.stuck = false then 1 else 0) := by
  unfold policyAdd
  by_cases hbig : cost > l.maxCost
  · simp only [hbig, if_true]
    exact ⟨⟨by simp [evCost], by simp [nEvict]⟩, by simp [nReject]⟩
  · simp only [hbig, if_false]
    cases hg : l.costs.get key with
    | some prev =>
      have hb := Lfu.update_bal l key cost hinv
      have hu : (l.update key cost).2.1 = true := (Lfu.update_true_iff l key cost).mpr ⟨prev, hg⟩
      cases hup : l.update key cost with
      | mk l' r =>
        obtain ⟨b, evs⟩ := r
        rw [hup] at hb hu
        simp only at hu; subst hu
        simp only
        exact ⟨hb.1, by simpa using hb.2⟩
    | none =>
      have hu : l.update key cost = (l, false, []) := by simp [Lfu.update, hg]
      simp only [hu]
      split
      · refine ⟨⟨by simp [evCost, Lfu.increment], ?_⟩, by simp [nReject]⟩
        simp [nEvict, Lfu.increment_length l key cost hg]
      · have := evictLoop_bal est (est key) key cost refills l [] [] [] [] hinv hg
        simp only [evCost, nEvict, nReject] at this
        obtain ⟨h1, h2, h3⟩ := this
        have hv : (evictLoop est (est key) key cost l [] [] [] [] refills).victims.isSome = true := by
          have : ∀ (rf : List (List (Nat × Int))) (l : Lfu) (s v : List (Nat × Int)) (e : List MEv) (lg : List IterLog),
              (evictLoop est (est key) key cost l s v e lg rf).victims.isSome = true := by
            intro rf
            induction rf with
            | nil => intro l s v e lg; simp only [evictLoop]; split <;> rfl
            | cons x xs ih =>
              intro l s v e lg
              simp only [evictLoop]
              split
              · rfl
              · cases hmin : minEntry est (s ++ x) with
                | none => rfl
                | some r =>
                  obtain ⟨i, ⟨vk, vc⟩, hh⟩ := r
                  simp only
                  split
                  · rfl
                  · exact ih _ _ _ _ _
          exact this _ _ _ _ _ _
        refine ⟨⟨by omega, by omega⟩, ?_⟩
        rw [h3]; simp [hv]

end Stretto

namespace Stretto

/-- the part of the state the conservation laws speak about -/
def Cache.mcore (c : Cache) : KMap Int × Int × Bool × Nat × Nat × Nat × Nat :=
  (c.lfu.costs, c.lfu.used, c.cfg.metricsOn, c.metrics.costAdd, c.metrics.costEvict, c.metrics.keyAdd,
   c.metrics.keyEvict)

/-- **C17 conservation invariant**: keys distinct and `used = Σ charges` in the policy; with metrics
on, `cost_added − cost_evicted ≡ used` and `keys_added − keys_evicted ≡ #charged` (the counters are
`u64`s, so modulo 2^64 — which is equality whenever the true values fit) -/
def MInvCore (t : KMap Int × Int × Bool × Nat × Nat × Nat × Nat) : Prop :=
  (t.1.WF ∧ t.2.1 = KMap.total t.1) ∧
  (t.2.2.1 = true →
    ((t.2.2.2.1 : Int) - t.2.2.2.2.1 - t.2.1) % 18446744073709551616 = 0 ∧
    ((t.2.2.2.2.2.1 : Int) - t.2.2.2.2.2.2 - t.1.length) % 18446744073709551616 = 0)

def MInv (c : Cache) : Prop := MInvCore c.mcore

theorem MInv.lfuInv {c : Cache} (h : MInv c) : c.lfu.Inv := h.1

theorem minv_transfer (c c' : Cache) (h : c'.mcore = c.mcore) (hi : MInv c) : MInv c' := by
  unfold MInv; rw [h]; exact hi

namespace Cache

theorem met_mcore (c : Cache) (f : Metrics → Metrics)
    (hf : ∀ m, (f m).costAdd = m.costAdd ∧ (f m).costEvict = m.costEvict ∧ (f m).keyAdd = m.keyAdd ∧
      (f m).keyEvict = m.keyEvict) : (c.met f).mcore = c.mcore := by
  unfold met mcore
  split
  · obtain ⟨h1, h2, h3, h4⟩ := hf c.metrics
    simp [h1, h2, h3, h4]
  · rfl

/-- discharge `(X.met f).mcore = …` for an `f` that leaves the four conservation counters alone -/
macro "met_frame" : tactic =>
  `(tactic| ((try dsimp only); rw [Cache.met_mcore] <;> first | (intro m; exact ⟨rfl, rfl, rfl, rfl⟩) | skip))

theorem ringPush_mcore (c : Cache) (k : Nat) : (c.ringPush k).mcore = c.mcore := by
  unfold ringPush
  simp only []
  repeat' split
  all_goals first | rfl | (met_frame; done) | (met_frame; rfl)

theorem insert_mcore (c : Cache) (su : Nat → Nat → Bool) (k cf v : Nat) (cost : Int) (ttl now : Nat)
    (coster : Int) (only : Bool) : (c.insert su k cf v cost ttl now coster only).1.mcore = c.mcore := by
  unfold insert
  split
  · rfl
  · unfold insertBody
    simp only []
    repeat' split
    all_goals first | rfl | (met_frame; done) | (met_frame; rfl)

theorem get_mcore (c : Cache) (k cf now : Nat) : (c.get k cf now).1.mcore = c.mcore := by
  unfold get
  split
  · rfl
  · simp only []
    split
    · met_frame; exact ringPush_mcore c k
    · met_frame; exact ringPush_mcore c k

theorem getMutWrite_mcore (c : Cache) (k cf now v : Nat) : (c.getMutWrite k cf now v).1.mcore = c.mcore := by
  unfold getMutWrite
  split
  · rfl
  · simp only []
    split
    · met_frame; exact ringPush_mcore c k
    · met_frame; exact ringPush_mcore c k

theorem remove_mcore (c : Cache) (k cf : Nat) : (c.remove k cf).1.mcore = c.mcore := by
  unfold remove
  split
  · rfl
  · simp only []
    cases (c.store.tryRemove k cf).2 <;> (simp only; split <;> rfl)

theorem waitEnq_mcore (c : Cache) (id : Nat) : (c.waitEnq id).1.mcore = c.mcore := by
  unfold waitEnq; split
  · rfl
  · split <;> rfl

theorem clearReq_mcore (c : Cache) (id : Nat) : (c.clearReq id).1.mcore = c.mcore := by
  unfold clearReq; split <;> rfl

theorem closeBegin_mcore (c : Cache) (id : Nat) : (c.closeBegin id).1.mcore = c.mcore := by
  unfold closeBegin; split <;> rfl

theorem admitPending_mcore (c : Cache) : c.admitPending.mcore = c.mcore := by
  unfold admitPending
  cases c.pendingSends with
  | nil => rfl
  | cons it rest => simp only; split <;> rfl

theorem evictVictims_mcore (vs : List (Nat × Int)) (c : Cache) : (c.evictVictims vs).mcore = c.mcore := by
  induction vs generalizing c with
  | nil => rfl
  | cons p rest ih =>
    obtain ⟨vk, vc⟩ := p
    simp only [evictVictims]
    cases (c.store.tryRemove vk 0).2 with
    | none => exact ih c
    | some e =>
      simp only
      rw [ih]
      split
      · met_frame; rfl
      · rfl

theorem deliverEvictions_mcore (cbs : List CB) (c : Cache) : (c.deliverEvictions cbs).mcore = c.mcore := by
  induction cbs generalizing c with
  | nil => rfl
  | cons cb rest ih =>
    simp only [deliverEvictions]
    rw [ih]
    cases cb with
    | evict k cf v cost =>
      simp only
      split
      · simp only [mcore, met_lfu, met_cfg, met_metrics]; split <;> rfl
      · rfl
    | exit v => rfl
    | reject k cf v cost => rfl

theorem drain_mcore (items : List Item) (c : Cache) : (items.foldl Cache.drainItem c).mcore = c.mcore := by
  induction items generalizing c with
  | nil => rfl
  | cons it rest ih =>
    simp only [List.foldl_cons]
    rw [ih]
    cases it <;> rfl

end Cache

/-- a policy operation whose events are applied to the counters (and `KeyAdd` bumped when a key was
added) re-establishes the conservation invariant -/
theorem minv_of_bal (c c' : Cache) (evs : List MEv) (added : Bool) (hi : MInv c)
    (hcfg : c'.cfg.metricsOn = c.cfg.metricsOn) (hinv' : c'.lfu.Inv)
    (hb : Bal c.lfu c'.lfu evs added)
    (hm : c.cfg.metricsOn = true →
      c'.metrics.costAdd = (c.metrics.applyEvs evs).costAdd ∧
      c'.metrics.costEvict = (c.metrics.applyEvs evs).costEvict ∧
      c'.metrics.keyEvict = (c.metrics.applyEvs evs).keyEvict ∧
      c'.metrics.keyAdd = (if added then u64 (c.metrics.keyAdd + 1) else c.metrics.keyAdd)) : MInv c' := by
  refine ⟨hinv', ?_⟩
  intro hon
  have hon' : c.cfg.metricsOn = true := by
    have : c'.cfg.metricsOn = true := hon
    rw [hcfg] at this; exact this
  obtain ⟨h1, h2, h3, h4⟩ := hm hon'
  obtain ⟨i1, i2⟩ := hi.2 hon'
  obtain ⟨s1, s2, _, s4, _⟩ := applyEvs_spec evs c.metrics
  have hc := hb.cost
  have hk := hb.keys
  simp only [Cache.mcore] at i1 i2 ⊢
  rw [h1, h2, h3, h4]
  constructor
  · omega
  · cases added with
    | false => simp only [Bool.false_eq_true, ↓reduceIte] at hk ⊢; rw [s4] at *; omega
    | true =>
      simp only [↓reduceIte] at hk ⊢
      have := u64_cast (c.metrics.keyAdd + 1)
      rw [s4] at *
      omega

end Stretto

namespace Stretto
namespace Cache

/-- the lookup counters -/
def hm (c : Cache) : Nat × Nat := (c.metrics.hit, c.metrics.miss)

theorem met_hm (c : Cache) (f : Metrics → Metrics)
    (hf : ∀ m, (f m).hit = m.hit ∧ (f m).miss = m.miss) : (c.met f).hm = c.hm := by
  unfold met hm
  split
  · obtain ⟨h1, h2⟩ := hf c.metrics
    simp [h1, h2]
  · rfl

macro "hm_frame" : tactic =>
  `(tactic| ((try dsimp only); rw [Cache.met_hm] <;> first | (intro m; exact ⟨rfl, rfl⟩) | skip))

theorem ringPush_hm (c : Cache) (k : Nat) : (c.ringPush k).hm = c.hm := by
  unfold ringPush
  simp only []
  repeat' split
  all_goals first | rfl | (hm_frame; done) | (hm_frame; rfl)

theorem insert_hm (c : Cache) (su : Nat → Nat → Bool) (k cf v : Nat) (cost : Int) (ttl now : Nat)
    (coster : Int) (only : Bool) : (c.insert su k cf v cost ttl now coster only).1.hm = c.hm := by
  unfold insert
  split
  · rfl
  · unfold insertBody
    simp only []
    repeat' split
    all_goals first | rfl | (hm_frame; done) | (hm_frame; rfl)

theorem remove_hm (c : Cache) (k cf : Nat) : (c.remove k cf).1.hm = c.hm := by
  unfold remove
  split
  · rfl
  · simp only []
    cases (c.store.tryRemove k cf).2 <;> (simp only; split <;> rfl)

theorem waitEnq_hm (c : Cache) (id : Nat) : (c.waitEnq id).1.hm = c.hm := by
  unfold waitEnq; split
  · rfl
  · split <;> rfl

theorem clearReq_hm (c : Cache) (id : Nat) : (c.clearReq id).1.hm = c.hm := by
  unfold clearReq; split <;> rfl

theorem closeBegin_hm (c : Cache) (id : Nat) : (c.closeBegin id).1.hm = c.hm := by
  unfold closeBegin; split <;> rfl

theorem admitPending_hm (c : Cache) : c.admitPending.hm = c.hm := by
  unfold admitPending
  cases c.pendingSends with
  | nil => rfl
  | cons it rest => simp only; split <;> rfl

theorem evictVictims_hm (vs : List (Nat × Int)) (c : Cache) : (c.evictVictims vs).hm = c.hm := by
  induction vs generalizing c with
  | nil => rfl
  | cons p rest ih =>
    obtain ⟨vk, vc⟩ := p
    simp only [evictVictims]
    cases (c.store.tryRemove vk 0).2 with
    | none => exact ih c
    | some e =>
      simp only
      rw [ih]
      split
      · hm_frame; rfl
      · rfl

theorem deliverEvictions_hm (cbs : List CB) (c : Cache) : (c.deliverEvictions cbs).hm = c.hm := by
  induction cbs generalizing c with
  | nil => rfl
  | cons cb rest ih =>
    simp only [deliverEvictions]
    rw [ih]
    cases cb with
    | evict k cf v cost =>
      simp only
      split
      · simp only [hm, met_metrics]; split <;> rfl
      · rfl
    | exit v => rfl
    | reject k cf v cost => rfl

theorem applyEvs_hm (c : Cache) (evs : List MEv) : (c.met fun m => m.applyEvs evs).hm = c.hm := by
  rw [met_hm]
  intro m
  exact ⟨(applyEvs_spec evs m).2.2.2.2.1, (applyEvs_spec evs m).2.2.2.2.2.1⟩

theorem handleItem_hm (c : Cache) (su : Nat → Nat → Bool) (est : Nat → Int)
    (refills : List (List (Nat × Int))) (it : Item) : (c.handleItem su est refills it).hm = c.hm := by
  cases it with
  | wait w => rfl
  | update k cost ext =>
    simp only [handleItem]
    exact (applyEvs_hm _ _).trans rfl
  | delete k cf =>
    simp only [handleItem]
    have key : (if ((c.store.tryRemove k cf).1.expiration k).isNone then
        ({ ({ c with store := (c.store.tryRemove k cf).1 } : Cache) with lfu := (policyRemove c.lfu k).1 }).met
          fun m => m.applyEvs (policyRemove c.lfu k).2
      else { c with store := (c.store.tryRemove k cf).1 }).hm = c.hm := by
      split
      · exact (applyEvs_hm _ _).trans rfl
      · rfl
    cases hr : (c.store.tryRemove k cf).2 with
    | none => simpa [hr] using key
    | some e => simp only; exact (rfl : _ = _).trans key
  | new k cf cost v exp =>
    simp only [handleItem]
    have key : ∀ (c1 : Cache) (o : Option (List (Nat × Int))), c1.hm = c.hm →
        (match o with | some vs => c1.evictVictims vs | none => c1).hm = c.hm := by
      intro c1 o h
      cases o with
      | none => exact h
      | some vs => exact (evictVictims_hm vs c1).trans h
    apply key
    split
    · split
      · exact (rfl : _ = _).trans ((applyEvs_hm _ _).trans rfl)
      · exact (rfl : _ = _).trans ((applyEvs_hm _ _).trans rfl)
    · exact (rfl : _ = _).trans ((applyEvs_hm _ _).trans rfl)

theorem sweepKeys_hm (keys : List (Nat × Nat)) (c : Cache) (now : Nat) (acc : List CB) :
    (c.sweepKeys now keys acc).1.hm = c.hm := by
  induction keys generalizing c acc with
  | nil => simp [sweepKeys]
  | cons p rest ih =>
    obtain ⟨k, cf⟩ := p
    simp only [sweepKeys]
    rw [ih]
    unfold sweepOne
    cases c.store.expiration k with
    | none => rfl
    | some t =>
      simp only
      split
      · cases (c.store.tryRemove k cf).2 <;> exact (rfl : _ = _).trans ((applyEvs_hm _ _).trans rfl)
      · rfl

end Cache
end Stretto
