import StrettoModel.Proofs.Policy
import StrettoModel.Proofs.Metrics
/-!
# The eviction loop of `policy.add` terminates

The Rust loop has no explicit bound: it runs while room is lacking, refills the sample from the cost
map (possibly with duplicates of keys already in the sample), evicts the least popular sample entry and
recomputes the room. Measure: `#charged · S + #stale`, where `S` is the sample size and an entry is
*stale* when its key is no longer charged. Every iteration that does not end the loop lowers it.
-/
namespace Stretto

theorem countP_set_add {α : Type} (P : α → Bool) : ∀ (l : List α) (i : Nat) (y x : α), l[i]? = some x →
    (l.set i y).countP P + (if P x then 1 else 0) = l.countP P + (if P y then 1 else 0)
  | [], i, y, x, h => by simp at h
  | a :: rest, 0, y, x, h => by
    simp only [List.getElem?_cons_zero, Option.some.injEq] at h
    subst h
    simp only [List.set_cons_zero, List.countP_cons]
    omega
  | a :: rest, i + 1, y, x, h => by
    simp only [List.getElem?_cons_succ] at h
    have := countP_set_add P rest i y x h
    simp only [List.set_cons_succ, List.countP_cons]
    omega

theorem countP_swapRemove_concat (P : Nat × Int → Bool) (a : List (Nat × Int)) (y : Nat × Int) (i : Nat)
    (x : Nat × Int) (hx : (a ++ [y])[i]? = some x) :
    (swapRemove (a ++ [y]) i).countP P + (if P x then 1 else 0) = (a ++ [y]).countP P ∧
    (swapRemove (a ++ [y]) i).length + 1 = (a ++ [y]).length := by
  have hgl : (a ++ [y]).getLast? = some y := by simp
  unfold swapRemove
  simp only [hgl]
  have hi : i < (a ++ [y]).length := (List.getElem?_eq_some_iff.mp hx).1
  simp only [List.length_append, List.length_singleton] at hi
  by_cases hil : i < a.length
  · have hs : (a ++ [y]).set i y = a.set i y ++ [y] := List.set_append_left _ _ hil
    have hxi : a[i]? = some x := by rw [← hx, List.getElem?_append_left hil]
    rw [hs, List.dropLast_concat]
    have h1 := countP_set_add P a i y x hxi
    refine ⟨?_, by simp⟩
    simp only [List.countP_append, List.countP_singleton]
    omega
  · have hie : i = a.length := by omega
    have hs : (a ++ [y]).set i y = a ++ [y] := by
      rw [hie, List.set_append_right _ _ (Nat.le_refl _)]; simp
    have hxl : x = y := by
      have : (a ++ [y])[i]? = some y := by
        rw [hie, List.getElem?_append_right (Nat.le_refl _)]; simp
      rw [hx] at this; exact Option.some.inj this
    rw [hs, List.dropLast_concat, hxl]
    refine ⟨?_, by simp⟩
    simp only [List.countP_append, List.countP_singleton]

/-- `swapRemove` removes exactly the entry at the index, as far as counting goes -/
theorem countP_swapRemove (P : Nat × Int → Bool) (s : List (Nat × Int)) (i : Nat) (x : Nat × Int)
    (hx : s[i]? = some x) :
    (swapRemove s i).countP P + (if P x then 1 else 0) = s.countP P ∧
    (swapRemove s i).length + 1 = s.length := by
  have hne : s ≠ [] := by intro h; subst h; simp at hx
  have hlast := List.dropLast_concat_getLast hne
  rw [← hlast] at hx ⊢
  exact countP_swapRemove_concat P _ _ i x hx

/-- sample entries whose key is no longer charged -/
def staleCount (l : Lfu) (s : List (Nat × Int)) : Nat := s.countP (fun p => (l.costs.get p.1).isNone)

/-- the termination measure -/
def loopMeasure (l : Lfu) (s : List (Nat × Int)) : Nat := l.costs.length * l.samples + staleCount l s

/-- **the eviction loop terminates**: with valid refills at every iteration, the loop needs at most
`#charged · S + #stale + 1` iterations — it never runs out of the iterations it is offered
(`stuck = false`) when that many are available. -/
theorem evictLoop_terminates (est : Nat → Int) (incHits : Int) (key : Nat) (cost : Int)
    (refills : List (List (Nat × Int))) :
    ∀ (l : Lfu) (sample victims : List (Nat × Int)) (evs : List MEv) (log : List IterLog),
      l.Inv → sample.length ≤ l.samples → RefillsOk est incHits cost l sample refills →
      loopMeasure l sample < refills.length →
      (evictLoop est incHits key cost l sample victims evs log refills).stuck = false := by
  induction refills with
  | nil => intro l sample victims evs log _ _ _ h; simp at h
  | cons extras more ih =>
    intro l sample victims evs log hinv hlen hok hmu
    simp only [evictLoop]
    split
    · rfl
    · rename_i hroom
      simp only [RefillsOk, hroom, ↓reduceIte] at hok
      obtain ⟨hvalid, hrest⟩ := hok
      -- what a valid refill gives: the sample stays within `S`, the new entries are charged
      have hfacts : (sample ++ extras).length ≤ l.samples ∧ ∀ p ∈ extras, (l.costs.get p.1).isNone = false := by
        unfold Lfu.validRefill at hvalid
        split at hvalid
        · have : extras = [] := by simpa using hvalid
          subst this
          exact ⟨by simpa using hlen, fun p hp => by cases hp⟩
        · rename_i hlt
          simp only [Bool.and_eq_true, List.all_eq_true, beq_iff_eq, decide_eq_true_eq] at hvalid
          refine ⟨?_, ?_⟩
          · have := hvalid.1.1.1
            simp only [List.length_append]
            omega
          · intro p hp
            rw [hvalid.1.2 p hp]; rfl
      have hstale : staleCount l (sample ++ extras) = staleCount l sample := by
        unfold staleCount
        rw [List.countP_append]
        have : extras.countP (fun p => (l.costs.get p.1).isNone) = 0 := by
          rw [List.countP_eq_zero]
          intro p hp; simp [hfacts.2 p hp]
        omega
      cases hmin : minEntry est (sample ++ extras) with
      | none => rfl
      | some r =>
        obtain ⟨i, ⟨vk, vc⟩, hh⟩ := r
        simp only [hmin] at hrest ⊢
        split
        · rfl
        · rename_i hnlt
          simp only [hnlt, ↓reduceIte] at hrest
          obtain ⟨hget, _, _⟩ := minEntry_spec est _ i (vk, vc) hh hmin
          have hcnt := countP_swapRemove (fun p => (l.costs.get p.1).isNone) (sample ++ extras) i (vk, vc) hget
          have hlen' : (swapRemove (sample ++ extras) i).length ≤ (l.remove vk).1.samples := by
            rw [(Lfu.remove_fields l vk).2]
            have := hcnt.2; have := hfacts.1; omega
          apply ih (l.remove vk).1 _ _ _ _ (Lfu.remove_inv l vk hinv) hlen' hrest
          -- the measure drops
          unfold loopMeasure at hmu ⊢
          rw [(Lfu.remove_fields l vk).2]
          simp only [List.length_cons] at hmu
          cases hg : l.costs.get vk with
          | none =>
            have hr : (l.remove vk).1 = l := by simp [Lfu.remove, hg]
            rw [hr]
            have h1 := hcnt.1
            simp only [hg, Option.isNone_none, ↓reduceIte] at h1
            unfold staleCount at hstale hmu ⊢
            omega
          | some c =>
            have hr : (l.remove vk).1.costs = l.costs.erase vk := by simp [Lfu.remove, hg]
            have hl := KMap.length_erase_of_get_some l.costs hinv.1 vk c hg
            have hst : staleCount (l.remove vk).1 (swapRemove (sample ++ extras) i) ≤
                (swapRemove (sample ++ extras) i).length := List.countP_le_length
            have := hcnt.2
            have := hfacts.1
            rw [hr]
            have hpos : 1 ≤ l.samples := by omega
            have hmul : (l.costs.erase vk).length * l.samples + l.samples = l.costs.length * l.samples := by
              rw [← hl]; simp [Nat.add_mul]
            omega

/-- `policy.add` as a whole: offered `#charged · S + 1` iterations with valid refills, it completes -/
theorem policyAdd_terminates (l : Lfu) (est : Nat → Int) (key : Nat) (cost : Int)
    (refills : List (List (Nat × Int))) (hinv : l.Inv)
    (hok : RefillsOk est (est key) cost l [] refills)
    (hmany : l.costs.length * l.samples < refills.length) :
    (policyAdd l est key cost refills).stuck = false := by
  unfold policyAdd
  split
  · rfl
  · cases hu : l.update key cost with
    | mk l' r =>
      obtain ⟨b, evs⟩ := r
      cases b with
      | true => rfl
      | false =>
        simp only
        split
        · rfl
        · exact evictLoop_terminates est (est key) key cost refills l [] [] [] [] hinv (by simp) hok
            (by simpa [loopMeasure, staleCount] using hmany)

end Stretto
