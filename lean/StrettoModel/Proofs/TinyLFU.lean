import StrettoModel.Model.TinyLFU
import StrettoModel.Proofs.Sketch
import StrettoModel.Proofs.Bloom
/-! Invariant of the TinyLFU estimator between two aging resets. -/
namespace Stretto
namespace TinyLFU

structure WF (t : TinyLFU) : Prop where
  sk : t.sk.WF
  depth : t.sk.rows ≠ []
  probes : 0 < t.dk.k

/-- ghost version of `increment`: also maintains the list of keys recorded since the last reset -/
def incrementG (t : TinyLFU) (since : List Nat) (h : Nat) : Option (TinyLFU × List Nat) :=
  (t.increment h).map (fun t' => (t', if t.w + 1 ≥ t.samples then [] else h :: since))

def runG (t : TinyLFU) (since : List Nat) : List Nat → Option (TinyLFU × List Nat)
  | [] => some (t, since)
  | h :: hs => match incrementG t since h with
    | none => none
    | some (t', since') => runG t' since' hs

/-- `since.count k ≥ 1 → doorkeeper has k`, and every counter of `k` is ≥ `min (count - 1) 15` -/
def Inv (t : TinyLFU) (since : List Nat) : Prop :=
  t.WF ∧ ∀ k, (0 < since.count k → t.dk.contains k = true) ∧
    t.sk.LB k (min (since.count k - 1) 15)

theorem inv_nil (t : TinyLFU) (hwf : t.WF) : Inv t [] :=
  ⟨hwf, fun k => ⟨by simp, by simpa using Sketch.LB_zero t.sk hwf.sk k⟩⟩

theorem reset_WF (t : TinyLFU) (hwf : t.WF) : t.reset.WF :=
  ⟨Sketch.reset_WF _ hwf.sk, by simpa [reset, Sketch.reset] using hwf.depth,
   by simpa [reset, Bloom.reset] using hwf.probes⟩

theorem clear_WF (t : TinyLFU) (hwf : t.WF) : t.clear.WF :=
  ⟨Sketch.clear_WF _ hwf.sk, by simpa [clear, Sketch.clear] using hwf.depth,
   by simpa [clear, Bloom.reset] using hwf.probes⟩

theorem tryReset_inv (t : TinyLFU) (since : List Nat) (h : Inv t since) :
    Inv t.tryReset (if t.w + 1 ≥ t.samples then [] else since) := by
  unfold tryReset
  simp only
  by_cases hr : t.w + 1 ≥ t.samples
  · simp only [hr, if_true]
    apply inv_nil
    exact reset_WF _ ⟨h.1.sk, h.1.depth, h.1.probes⟩
  · simp only [hr, if_false]
    exact ⟨⟨h.1.sk, h.1.depth, h.1.probes⟩, h.2⟩

/-- one recorded access preserves the invariant and never panics -/
theorem incrementG_inv (t : TinyLFU) (since : List Nat) (h : Nat) (hinv : Inv t since) :
    ∃ t' since', incrementG t since h = some (t', since') ∧ Inv t' since' := by
  obtain ⟨hwf, hk⟩ := hinv
  unfold incrementG increment
  by_cases hc : t.dk.contains h = true
  · -- already in the doorkeeper: the sketch is incremented
    have hco : t.dk.containsOrAdd h = (t.dk, false) := by simp [Bloom.containsOrAdd, hc]
    obtain ⟨sk', hsk', hwf', _, hlen, hmono, hself⟩ := Sketch.increment_spec t.sk hwf.sk h
    simp only [hco, hsk', Option.map_some, Bool.false_eq_true, if_false]
    refine ⟨_, _, rfl, ?_⟩
    have hmid : Inv { t with dk := t.dk, sk := sk' } (h :: since) := by
      refine ⟨⟨hwf', ?_, hwf.probes⟩, ?_⟩
      · intro hnil; apply hwf.depth
        have hnil' : sk'.rows = [] := hnil
        have : sk'.rows.length = 0 := by simp [hnil']
        exact List.eq_nil_of_length_eq_zero (by omega)
      · intro k
        by_cases hkh : k = h
        · subst hkh
          refine ⟨fun _ => hc, ?_⟩
          have h1 := hself _ (hk k).2
          simp only [List.count_cons_self]
          apply Sketch.LB_mono _ _ _ _ _ h1
          split <;> omega
        · have hcnt : (h :: since).count k = since.count k := by
            simp [Ne.symm hkh]
          rw [hcnt]
          exact ⟨(hk k).1, hmono _ _ (hk k).2⟩
    have := tryReset_inv _ _ hmid
    by_cases hr : t.w + 1 ≥ t.samples <;> simpa [hr] using this
  · -- first sighting since the reset: only the doorkeeper changes
    have hcf : t.dk.contains h = false := by simpa using hc
    have hco : t.dk.containsOrAdd h = (t.dk.add h, true) := by simp [Bloom.containsOrAdd, hcf]
    simp only [hco, if_true, Option.map_some]
    refine ⟨_, _, rfl, ?_⟩
    have hzero : since.count h = 0 := by
      cases hz : since.count h with
      | zero => rfl
      | succ n => have := (hk h).1 (by omega); rw [this] at hcf; cases hcf
    have hmid : Inv { t with dk := t.dk.add h } (h :: since) := by
      refine ⟨⟨hwf.sk, hwf.depth, by simpa using hwf.probes⟩, ?_⟩
      intro k
      by_cases hkh : k = h
      · subst hkh
        refine ⟨fun _ => Bloom.contains_add_self _ _, ?_⟩
        simp only [List.count_cons_self, hzero]
        simpa using Sketch.LB_zero t.sk hwf.sk k
      · have hcnt : (h :: since).count k = since.count k := by
          simp [Ne.symm hkh]
        rw [hcnt]
        exact ⟨fun hpos => Bloom.contains_add_mono _ _ _ ((hk k).1 hpos), (hk k).2⟩
    have := tryReset_inv _ _ hmid
    by_cases hr : t.w + 1 ≥ t.samples <;> simpa [hr] using this

theorem runG_inv (t : TinyLFU) (since hs : List Nat) (hinv : Inv t since) :
    ∃ t' since', runG t since hs = some (t', since') ∧ Inv t' since' := by
  induction hs generalizing t since with
  | nil => exact ⟨t, since, rfl, hinv⟩
  | cons h hs ih =>
    obtain ⟨t1, s1, h1, hinv1⟩ := incrementG_inv t since h hinv
    obtain ⟨t2, s2, h2, hinv2⟩ := ih t1 s1 hinv1
    exact ⟨t2, s2, by simp [runG, h1, h2], hinv2⟩

/-- what the invariant says about estimates -/
theorem estimate_of_inv (t : TinyLFU) (since : List Nat) (hinv : Inv t since) (k : Nat) :
    ∃ e, t.estimate k = some e ∧ min (since.count k) 16 ≤ e ∧ e ≤ 16 := by
  obtain ⟨hwf, hk⟩ := hinv
  obtain ⟨e0, he0, hle0⟩ :=
    Sketch.estimate_ge_of_LB t.sk hwf.sk k _ (by omega) (hk k).2
  have h15 := Sketch.estimate_le_15 t.sk hwf.sk hwf.depth k e0 he0
  unfold estimate
  simp only [he0, Option.map_some]
  refine ⟨_, rfl, ?_, ?_⟩
  · by_cases hpos : 0 < since.count k
    · simp only [(hk k).1 hpos, if_true]; omega
    · have : since.count k = 0 := by omega
      simp [this]
  · split <;> omega

-- aging -----------------------------------------------------------------------------------

/-- ghost version counting the aging resets -/
def runR (t : TinyLFU) (n : Nat) : List Nat → Option (TinyLFU × Nat)
  | [] => some (t, n)
  | h :: hs => match t.increment h with
    | none => none
    | some t' => runR t' (if t.w + 1 ≥ t.samples then n + 1 else n) hs

theorem increment_w (t t' : TinyLFU) (h : Nat) (hi : t.increment h = some t') :
    t'.samples = t.samples ∧ t'.w = (if t.w + 1 ≥ t.samples then 0 else t.w + 1) ∧
    (t.w + 1 ≥ t.samples → t'.dk.bits = [] ) := by
  unfold increment at hi
  simp only at hi
  split at hi
  · cases hi
    unfold tryReset reset Bloom.reset
    simp only
    by_cases hr : t.w + 1 ≥ t.samples <;> simp [hr]
  · cases hs : t.sk.increment h with
    | none => simp [hs] at hi
    | some sk' =>
      simp only [hs, Option.map_some, Option.some.injEq] at hi
      subst hi
      unfold tryReset reset Bloom.reset
      simp only
      by_cases hr : t.w + 1 ≥ t.samples <;> simp [hr]

/-- the reset fires exactly at every `samples`-th recorded access -/
theorem runR_spec (t t' : TinyLFU) (n n' : Nat) (hs : List Nat) (hpos : 0 < t.samples)
    (hw : t.w < t.samples) (hr : runR t n hs = some (t', n')) :
    t'.samples = t.samples ∧ t'.w = (t.w + hs.length) % t.samples ∧
    n' = n + (t.w + hs.length) / t.samples := by
  induction hs generalizing t n with
  | nil =>
    simp only [runR, Option.some.injEq, Prod.mk.injEq] at hr
    obtain ⟨rfl, rfl⟩ := hr
    simp [Nat.mod_eq_of_lt hw, Nat.div_eq_of_lt hw]
  | cons h hs ih =>
    simp only [runR] at hr
    cases hi : t.increment h with
    | none => simp [hi] at hr
    | some t1 =>
      simp only [hi] at hr
      obtain ⟨hs1, hw1, _⟩ := increment_w t t1 h hi
      have hw1' : t1.w < t1.samples := by rw [hs1, hw1]; split <;> omega
      obtain ⟨h1, h2, h3⟩ := ih t1 _ (by omega) hw1' hr
      rw [hs1] at h1 h2 h3
      refine ⟨h1, ?_, ?_⟩
      · rw [h2, hw1, List.length_cons]
        by_cases hfire : t.w + 1 ≥ t.samples
        · have : t.w + 1 = t.samples := by omega
          simp only [hfire, if_true]
          rw [show t.w + (hs.length + 1) = hs.length + t.samples by omega, Nat.add_mod_right]
          simp
        · simp only [hfire, if_false]
          congr 1; omega
      · rw [h3, hw1, List.length_cons]
        by_cases hfire : t.w + 1 ≥ t.samples
        · have : t.w + 1 = t.samples := by omega
          simp only [hfire, if_true]
          rw [show t.w + (hs.length + 1) = hs.length + t.samples by omega,
            Nat.add_div_right _ hpos]
          simp only [Nat.zero_add]
          omega
        · simp only [hfire, if_false]
          congr 2; omega

end TinyLFU
end Stretto
