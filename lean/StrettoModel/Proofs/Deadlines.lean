import StrettoModel.Proofs.Agree
import StrettoModel.Props.C04
import StrettoModel.Props.C02
/-!
# Provenance with deadlines (for C03)

C03 speaks of "the TTL `d` … since *that insert*": the deadline an entry is judged by must be the one
the write that produced its value carried. This file proves, over every step of every actor, that each
resident entry's `(value, expiry)` pair is that of a write under the same key — an insert's own
`(ttl, now)`, or, for a write through `get_mut`, the deadline of the entry it overwrote.
(Mirrors `Props/C02.lean`'s provenance proof, strengthened by the expiry component.)
-/
namespace Stretto.Deadlines
open Stretto

/-- the writes an action performs in state `c`, each with the deadline it carries: an insert brings
its own `(ttl, now)`; a write through `get_mut` keeps the deadline of the entry it overwrites -/
def writeOfT (c : Cache) : Act → List (Nat × Nat × Time)
  | .insert k _ v _ ttl now _ _ => [(k, v, ⟨ttl, now⟩)]
  | .getMut k cf now v => match c.store.lookup k cf now with
    | some e => [(k, v, e.exp)]
    | none => []
  | _ => []

/-- provenance with deadlines: every resident entry carries a value written under that very key *together
with the deadline that write carried*, and so does every insert on its way to the store -/
structure ProvT (K : Nat → Bool) (W : List (Nat × Nat × Time)) (c : Cache) : Prop where
  resident : ∀ k e, K k = true → c.store.items.get k = some e → (k, e.val, e.exp) ∈ W
  buffered : ∀ k cf cost v exp, K k = true → Item.new k cf cost v exp ∈ c.buf ++ c.pendingSends → (k, v, exp) ∈ W

theorem provT_mono (K : Nat → Bool) (W W' : List (Nat × Nat × Time)) (c : Cache) (h : ProvT K W c) (hsub : ∀ p ∈ W, p ∈ W') : ProvT K W' c :=
  ⟨fun k e hK he => hsub _ (h.resident k e hK he), fun k cf cost v exp hK hm => hsub _ (h.buffered k cf cost v exp hK hm)⟩

theorem tryInsert_get (s : Store) (su : Nat → Nat → Bool) (k v cf : Nat) (t : Time) (j : Nat) (e : Entry)
    (h : (s.tryInsert su k v cf t).items.get j = some e) :
    s.items.get j = some e ∨ (j = k ∧ e.val = v ∧ e.exp = t) := by
  unfold Store.tryInsert at h
  cases hg : s.items.get k with
  | none =>
    simp only [hg, KMap.get_set] at h
    split at h
    · right; rename_i hjk; exact ⟨hjk, by cases h; rfl, by cases h; rfl⟩
    · left; exact h
  | some e0 =>
    simp only [hg] at h
    split at h
    · left; exact h
    · split at h
      · left; exact h
      · simp only [KMap.get_set] at h
        split at h
        · right; rename_i hjk; exact ⟨hjk, by cases h; rfl, by cases h; rfl⟩
        · left; exact h

/-- **provenance is preserved by every step** (the action's own writes join the set) -/
theorem step_provT (su : Nat → Nat → Bool) (K : Nat → Bool) (W : List (Nat × Nat × Time)) (c c' : Cache) (a : Act)
    (hs : c.step su a = some c') (h : ProvT K W c) : ProvT K (W ++ writeOfT c a) c' := by
  have hmono : ProvT K (W ++ writeOfT c a) c := provT_mono K W _ c h (fun p hp => by simp [hp])
  cases a with
  | insert k cf v cost ttl now coster only =>
    simp only [Cache.step, Option.some.injEq] at hs; subst hs
    unfold Cache.insert
    split
    · exact hmono
    · unfold Cache.insertBody
      simp only []
      split
      · exact hmono
      · have hstore : ∀ j e, (c.store.tryUpdate su k v cf { d := ttl, created := now }).1.items.get j = some e →
            c.store.items.get j = some e ∨ (j = k ∧ e.val = v ∧ e.exp = { d := ttl, created := now }) := by
          intro j e hje
          unfold Store.tryUpdate at hje
          cases hg : c.store.items.get k with
          | none => simp only [hg] at hje; left; exact hje
          | some e0 =>
            simp only [hg] at hje
            split at hje
            · left; exact hje
            · split at hje
              · left; exact hje
              · simp only [KMap.get_set] at hje
                split at hje
                · right; rename_i hjk; exact ⟨hjk, by cases hje; rfl, by cases hje; rfl⟩
                · left; exact hje
        have hres : ∀ j e, K j = true → (c.store.tryUpdate su k v cf { d := ttl, created := now }).1.items.get j = some e →
            (j, e.val, e.exp) ∈ W ++ writeOfT c (Act.insert k cf v cost ttl now coster only) := by
          intro j e hK hje
          rcases hstore j e hje with h1 | ⟨h1, h2, h3⟩
          · simp [h.resident j e hK h1]
          · subst h1; simp [writeOfT, h2, h3]
        split
        · split
          · refine ⟨hres, ?_⟩
            intro k' cf' cost' v' exp' hK hm
            simp only [List.append_assoc, List.mem_append, List.mem_cons, List.not_mem_nil, or_false] at hm
            rcases hm with hm | hm | hm
            · exact hmono.buffered k' cf' cost' v' exp' hK (by simp [hm])
            · cases hm
            · exact hmono.buffered k' cf' cost' v' exp' hK (by simp [hm])
          · exact ⟨hres, hmono.buffered⟩
        · split
          · exact hmono
          · split
            · refine ⟨hmono.resident, ?_⟩
              intro k' cf' cost' v' exp' hK hm
              simp only [List.append_assoc, List.mem_append, List.mem_cons, List.not_mem_nil, or_false] at hm
              rcases hm with hm | hm | hm
              · exact hmono.buffered k' cf' cost' v' exp' hK (by simp [hm])
              · cases hm; simp [writeOfT]
              · exact hmono.buffered k' cf' cost' v' exp' hK (by simp [hm])
            · exact ⟨by simpa using hmono.resident, by simpa using hmono.buffered⟩
  | get k cf now =>
    simp only [Cache.step, Option.some.injEq] at hs; subst hs
    unfold Cache.get
    split
    · exact hmono
    · simp only []
      split <;> exact ⟨by simpa using hmono.resident, by simpa using hmono.buffered⟩
  | getMut k cf now v =>
    simp only [Cache.step, Option.some.injEq] at hs; subst hs
    unfold Cache.getMutWrite
    split
    · exact hmono
    · simp only []
      split
      · exact ⟨by simpa using hmono.resident, by simpa using hmono.buffered⟩
      · refine ⟨?_, by simpa using hmono.buffered⟩
        intro j e hK hje
        simp only [Cache.met_store, Cache.ringPush_store] at hje
        unfold Store.getMutWrite at hje
        cases hl : c.store.lookup k cf now with
        | none => simp only [hl] at hje; exact hmono.resident j e hK hje
        | some e0 =>
          simp only [hl, KMap.get_set] at hje
          split at hje
          · rename_i hjk; subst hjk; cases hje; simp [writeOfT, hl]
          · exact hmono.resident j e hK hje
  | remove k cf =>
    simp only [Cache.step, Option.some.injEq] at hs; subst hs
    unfold Cache.remove
    split
    · exact hmono
    · simp only []
      have hres : ∀ j e, (c.store.tryRemove k cf).1.items.get j = some e → c.store.items.get j = some e := by
        intro j e hje
        rw [Store.tryRemove_get] at hje
        split at hje
        · cases hje
        · exact hje
      have hbuf : ∀ (buf' pend' : List Item),
          (∀ x, x ∈ buf' ++ pend' → x ∈ c.buf ++ c.pendingSends ∨ x = Item.delete k cf) →
          ∀ k' cf' cost' v' exp', K k' = true → Item.new k' cf' cost' v' exp' ∈ buf' ++ pend' →
            (k', v', exp') ∈ W ++ writeOfT c (Act.remove k cf) := by
        intro buf' pend' hsub k' cf' cost' v' exp' hK hm
        rcases hsub _ hm with h1 | h1
        · exact hmono.buffered k' cf' cost' v' exp' hK h1
        · cases h1
      cases hr : (c.store.tryRemove k cf).2 with
      | none =>
        simp only
        split
        · exact ⟨hmono.resident, hbuf _ _ (by intro x hx; simp only [List.mem_append, List.mem_singleton] at hx ⊢; rcases hx with (h1 | h1) | h1 <;> simp [h1])⟩
        · exact ⟨hmono.resident, hbuf _ _ (by intro x hx; simp only [List.mem_append, List.mem_singleton] at hx ⊢; rcases hx with h1 | h1 | h1 <;> simp [h1])⟩
      | some e0 =>
        simp only
        split
        · exact ⟨fun j e hK hje => hmono.resident j e hK (hres j e hje), hbuf _ _ (by intro x hx; simp only [List.mem_append, List.mem_singleton] at hx ⊢; rcases hx with (h1 | h1) | h1 <;> simp [h1])⟩
        · exact ⟨fun j e hK hje => hmono.resident j e hK (hres j e hje), hbuf _ _ (by intro x hx; simp only [List.mem_append, List.mem_singleton] at hx ⊢; rcases hx with h1 | h1 | h1 <;> simp [h1])⟩
  | waitEnq id =>
    simp only [Cache.step, Option.some.injEq] at hs; subst hs
    unfold Cache.waitEnq
    split
    · exact hmono
    · split
      · refine ⟨hmono.resident, ?_⟩
        intro k' cf' cost' v' exp' hK hm
        simp only [List.append_assoc, List.mem_append, List.mem_cons, List.not_mem_nil, or_false] at hm
        rcases hm with hm | hm | hm
        · exact hmono.buffered k' cf' cost' v' exp' hK (by simp [hm])
        · cases hm
        · exact hmono.buffered k' cf' cost' v' exp' hK (by simp [hm])
      · exact hmono
  | clearReq id =>
    simp only [Cache.step, Option.some.injEq] at hs; subst hs
    unfold Cache.clearReq; split <;> exact ⟨hmono.resident, hmono.buffered⟩
  | closeBegin id =>
    simp only [Cache.step, Option.some.injEq] at hs; subst hs
    unfold Cache.closeBegin; split <;> exact ⟨hmono.resident, hmono.buffered⟩
  | updateMaxCost mc =>
    simp only [Cache.step, Option.some.injEq] at hs; subst hs; exact ⟨hmono.resident, hmono.buffered⟩
  | procItem est refills =>
    simp only [Cache.step, Cache.procItem] at hs
    split at hs
    · cases hs
    · split at hs
      · cases hs
      · rename_i it rest hb
        simp only [Option.some.injEq] at hs; subst hs
        simp only [writeOfT, List.append_nil]
        -- after the pop: same store, the remaining items are a subset of the old ones
        have hf := admitPending_frame ({ c with buf := rest } : Cache)
        have hpop : ∀ x, x ∈ (({ c with buf := rest } : Cache).admitPending).buf ++
            (({ c with buf := rest } : Cache).admitPending).pendingSends → x ∈ c.buf ++ c.pendingSends := by
          intro x hx
          rw [admitPending_mem] at hx
          rw [hb]
          simp only [List.cons_append, List.mem_cons]
          right; exact hx
        have hhead : it ∈ c.buf ++ c.pendingSends := by rw [hb]; simp
        have hbufH : ∀ (c1 : Cache) (it : Item), (c1.handleItem su est refills it).buf = c1.buf :=
          fun c1 it => handleItem_buf c1 su est refills it
        have hpendH : ∀ (c1 : Cache) (it : Item), (c1.handleItem su est refills it).pendingSends = c1.pendingSends := by
          intro c1 it
          cases it with
          | wait w => rfl
          | update k cost ext => simp [Cache.handleItem]
          | delete k cf =>
            simp only [Cache.handleItem]
            cases (c1.store.tryRemove k cf).2 <;> (simp only; split <;> simp)
          | new k cf cost v exp =>
            simp only [Cache.handleItem]
            split <;> (try rw [(evictVictims_spec _ _).2.2.1]) <;> (split <;> (try split) <;> simp)
        refine ⟨?_, ?_⟩
        · intro j e hK hje
          cases it with
          | wait w => exact h.resident j e hK (by simpa [Cache.handleItem, hf.1] using hje)
          | update k cost ext => exact h.resident j e hK (by simpa [Cache.handleItem, hf.1] using hje)
          | delete k cf =>
            simp only [Cache.handleItem] at hje
            have : (({ c with buf := rest } : Cache).admitPending.store.tryRemove k cf).1.items.get j = some e := by
              cases hr : (({ c with buf := rest } : Cache).admitPending.store.tryRemove k cf).2 <;>
                (simp only [hr] at hje; split at hje <;> simpa using hje)
            rw [Store.tryRemove_get] at this
            split at this
            · cases this
            · rw [hf.1] at this; exact h.resident j e hK this
          | new k cf cost v exp =>
            have hnew : K k = true → (k, v, exp) ∈ W := fun hk => h.buffered k cf cost v exp hk hhead
            simp only [Cache.handleItem] at hje
            -- peel off the eviction of the victims, then the (possible) store insert
            have hpre : ∀ (c2 : Cache), c2.store = ({ c with buf := rest } : Cache).admitPending.store ∨
                c2.store = (({ c with buf := rest } : Cache).admitPending.store.tryInsert su k v cf exp) →
                c2.store.items.get j = some e → (j, e.val, e.exp) ∈ W := by
              intro c2 hc2 hj2
              rcases hc2 with hc2 | hc2
              · rw [hc2, hf.1] at hj2; exact h.resident j e hK hj2
              · rw [hc2] at hj2
                rcases tryInsert_get _ su k v cf exp j e hj2 with h1 | ⟨h1, h2, h3⟩
                · rw [hf.1] at h1; exact h.resident j e hK h1
                · subst h1; rw [h2, h3]; exact hnew hK
            split at hje
            · have hje' := C02.evictVictims_get _ _ j e hje
              split at hje'
              · split at hje'
                · exact hpre _ (Or.inr (by simp)) hje'
                · exact hpre _ (Or.inr (by simp)) hje'
              · exact hpre _ (Or.inl (by simp)) hje'
            · split at hje
              · split at hje
                · exact hpre _ (Or.inr (by simp)) hje
                · exact hpre _ (Or.inr (by simp)) hje
              · exact hpre _ (Or.inl (by simp)) hje
        · intro k' cf' cost' v' exp' hK hm
          rw [hbufH, hpendH] at hm
          exact h.buffered k' cf' cost' v' exp' hK (hpop _ hm)
  | procClear =>
    simp only [Cache.step] at hs
    obtain ⟨h1, h2, h3⟩ := C02.procClear_empty c c' hs
    refine ⟨(fun j e _ hje => by rw [h1 j] at hje; cases hje), ?_⟩
    intro k' cf' cost' v' exp' hK hm
    rw [h2, h3] at hm
    exact hmono.buffered k' cf' cost' v' exp' hK (by simp at hm; simp [hm])
  | procTick now order =>
    simp only [Cache.step, Cache.procTick] at hs
    split at hs
    · cases hs
    · simp only [Option.some.injEq] at hs; subst hs
      simp only [writeOfT, List.append_nil]
      have hd := deliverEvictions_frame
        ((({ c with store := { c.store with em := (c.store.em.tryCleanup now).1 } } : Cache).sweepKeys now order []).2.reverse)
        (({ c with store := { c.store with em := (c.store.em.tryCleanup now).1 } } : Cache).sweepKeys now order []).1
      have hk := sweepKeys_frame order ({ c with store := { c.store with em := (c.store.em.tryCleanup now).1 } } : Cache) now []
      refine ⟨?_, ?_⟩
      · intro j e hK hje
        rw [hd.1] at hje
        exact h.resident j e hK (by simpa using C02.sweepKeys_get order _ now [] j e hje)
      · intro k' cf' cost' v' exp' hK hm
        rw [hd.2.2.1, hd.2.2.2, hk.1] at hm
        have hp : (({ c with store := { c.store with em := (c.store.em.tryCleanup now).1 } } : Cache).sweepKeys now order []).1.pendingSends = c.pendingSends := by
          have : ∀ (keys : List (Nat × Nat)) (c0 : Cache) (acc : List CB), (c0.sweepKeys now keys acc).1.pendingSends = c0.pendingSends := by
            intro keys
            induction keys with
            | nil => intro c0 acc; simp [Cache.sweepKeys]
            | cons p rest ih =>
              intro c0 acc
              obtain ⟨k, cf⟩ := p
              simp only [Cache.sweepKeys]
              rw [ih]
              unfold Cache.sweepOne
              cases c0.store.expiration k with
              | none => rfl
              | some t => simp only; split
                          · cases (c0.store.tryRemove k cf).2 <;> simp
                          · rfl
          exact this order _ []
        rw [hp] at hm
        exact h.buffered k' cf' cost' v' exp' hK hm
  | procStop =>
    simp only [Cache.step, Cache.procStop] at hs
    split at hs
    · cases hs
    · simp only [Option.some.injEq] at hs; subst hs
      refine ⟨hmono.resident, ?_⟩
      intro k' cf' cost' v' exp' hK hm
      simp only [List.nil_append] at hm
      exact hmono.buffered k' cf' cost' v' exp' hK (by simp [hm])
  | policyWorker =>
    simp only [Cache.step, Cache.policyWorkerStep] at hs
    cases hp : c.pq with
    | nil => simp [hp] at hs
    | cons b rest => simp only [hp, Option.map_some, Option.some.injEq] at hs; subst hs; exact ⟨hmono.resident, hmono.buffered⟩
  | policyClose =>
    simp only [Cache.step, Option.some.injEq] at hs; subst hs; exact ⟨hmono.resident, hmono.buffered⟩


/-- the writes (with their deadlines) of a whole action sequence executed from `c` -/
def writesExec (su : Nat → Nat → Bool) : Cache → List Act → List (Nat × Nat × Time)
  | _, [] => []
  | c, a :: rest => writeOfT c a ++ writesExec su ((c.step su a).getD c) rest

theorem exec_provT (su : Nat → Nat → Bool) (K : Nat → Bool) (acts : List Act) :
    ∀ (W : List (Nat × Nat × Time)) (c : Cache), ProvT K W c →
      ProvT K (W ++ writesExec su c acts) (Cache.run su c acts) := by
  induction acts with
  | nil => intro W c h; simpa [writesExec, Cache.run] using h
  | cons a rest ih =>
    intro W c h
    simp only [Cache.run, writesExec]
    have hstep : ProvT K (W ++ writeOfT c a) ((c.step su a).getD c) := by
      cases hs : c.step su a with
      | none => exact provT_mono K W _ c h (fun p hp => by simp [hp])
      | some c' => exact step_provT su K W c c' a hs h
    have := ih (W ++ writeOfT c a) _ hstep
    simpa [List.append_assoc] using this

end Stretto.Deadlines
