import StrettoModel.Proofs.Agree
import StrettoModel.Proofs.Metrics
/-!
# Where a value is: resident, on its way to the store, or handed to a callback

`tok w c` counts the places value `w` occupies in state `c`. Conservation (C08) is stated on it.
-/
namespace Stretto

/-- the resident values -/
def vals (m : KMap Entry) : List Nat := m.map (·.2.val)

/-- the values carried by buffered `New` items -/
def newVals : List Item → List Nat
  | [] => []
  | .new _ _ _ v _ :: r => v :: newVals r
  | .update .. :: r => newVals r
  | .delete .. :: r => newVals r
  | .wait _ :: r => newVals r

/-- the values handed to callbacks so far -/
def cbVals (cbs : List CB) : List Nat := cbs.map CB.val

/-- the number of places value `w` occupies -/
def tok (w : Nat) (c : Cache) : Nat :=
  (vals c.store.items).count w + (newVals (c.buf ++ c.pendingSends)).count w + (cbVals c.cbs).count w

theorem newVals_append (a b : List Item) : newVals (a ++ b) = newVals a ++ newVals b := by
  induction a with
  | nil => rfl
  | cons x xs ih => cases x <;> simp [newVals, ih]

/-- indicator -/
def ind (p : Bool) : Nat := if p then 1 else 0

namespace KMap

theorem count_vals_erase (m : KMap Entry) (hwf : WF m) (k w : Nat) :
    (vals (erase m k)).count w + (match get m k with | some e => ind (e.val == w) | none => 0) =
      (vals m).count w := by
  induction m with
  | nil => simp [erase, vals, get]
  | cons p m ih =>
    have hw : WF m := by unfold WF keys at *; simp at hwf; exact hwf.2
    have hnot : p.1 ∉ keys m := by unfold WF keys at *; simp at hwf; simpa [keys] using hwf.1
    have := ih hw
    by_cases hk : p.1 = k
    · subst hk
      have hg : get m p.1 = none := get_none_of_not_mem m p.1 hnot
      have he : erase m p.1 = m := KMap.erase_of_get_none m p.1 hg
      have he' : erase (p :: m) p.1 = m := by
        unfold erase at *; simp only [List.filter_cons, bne_self_eq_false, Bool.false_eq_true, ↓reduceIte]; exact he
      rw [he', get_cons]
      simp only [↓reduceIte, vals, List.map_cons, List.count_cons, ind]
    · have hne : (p.1 != k) = true := by simpa using hk
      have he' : erase (p :: m) k = p :: erase m k := by
        unfold erase; simp only [List.filter_cons, hne, ↓reduceIte]
      rw [he', get_cons]
      simp only [hk, ↓reduceIte, vals, List.map_cons, List.count_cons] at *
      omega

theorem count_vals_set (m : KMap Entry) (k : Nat) (e : Entry) (w : Nat) :
    (vals (set m k e)).count w = (vals (erase m k)).count w + ind (e.val == w) := by
  simp only [set, vals, List.map_cons, List.count_cons, ind]

end KMap

namespace Store

/-- `try_update`: when it replaces, the old value leaves and the new one enters; otherwise nothing moves -/
theorem tryUpdate_count (s : Store) (su : Nat → Nat → Bool) (k v cf : Nat) (t : Time) (hwf : s.items.WF) (w : Nat) :
    (match (s.tryUpdate su k v cf t).2 with
     | .update old => (vals (s.tryUpdate su k v cf t).1.items).count w + ind (old == w) =
                        (vals s.items).count w + ind (v == w)
     | _ => (s.tryUpdate su k v cf t).1 = s) ∧ (s.tryUpdate su k v cf t).1.items.WF := by
  unfold tryUpdate
  cases hg : s.items.get k with
  | none => exact ⟨rfl, hwf⟩
  | some e =>
    by_cases hc : conflictOk cf e = true
    · by_cases hs : su e.val v = true
      · simp only [hc, hs, Bool.not_true, Bool.false_eq_true, ↓reduceIte]
        refine ⟨?_, KMap.wf_set _ _ _ hwf⟩
        have h1 := KMap.count_vals_erase s.items hwf k w
        have h2 := KMap.count_vals_set s.items k { e with val := v, exp := t } w
        rw [hg] at h1
        simp only at h1 h2
        omega
      · simp only [hc, hs, Bool.not_true, Bool.false_eq_true, ↓reduceIte, Bool.not_false]
        exact ⟨trivial, hwf⟩
    · simp only [hc, Bool.not_false, ↓reduceIte]
      exact ⟨trivial, hwf⟩

theorem getMutWrite_count (s : Store) (k cf now v : Nat) (hwf : s.items.WF) (w : Nat) :
    (match (s.getMutWrite k cf now v).2 with
     | some old => (vals (s.getMutWrite k cf now v).1.items).count w + ind (old == w) =
                     (vals s.items).count w + ind (v == w)
     | none => (s.getMutWrite k cf now v).1 = s) ∧ (s.getMutWrite k cf now v).1.items.WF := by
  unfold getMutWrite
  cases hl : s.lookup k cf now with
  | none => exact ⟨rfl, hwf⟩
  | some e =>
    have hg := (lookup_some s k cf now e hl).1
    refine ⟨?_, KMap.wf_set _ _ _ hwf⟩
    have h1 := KMap.count_vals_erase s.items hwf k w
    have h2 := KMap.count_vals_set s.items k { e with val := v } w
    rw [hg] at h1
    simp only at h1 h2 ⊢
    omega

theorem tryRemove_count (s : Store) (k cf : Nat) (hwf : s.items.WF) (w : Nat) :
    (match (s.tryRemove k cf).2 with
     | some e => (vals (s.tryRemove k cf).1.items).count w + ind (e.val == w) = (vals s.items).count w
     | none => (s.tryRemove k cf).1 = s) ∧ (s.tryRemove k cf).1.items.WF := by
  unfold tryRemove
  cases hg : s.items.get k with
  | none => exact ⟨rfl, hwf⟩
  | some e =>
    by_cases hc : conflictOk cf e = true
    · simp only [hc, Bool.not_true, Bool.false_eq_true, ↓reduceIte]
      refine ⟨?_, KMap.wf_erase _ _ hwf⟩
      have h1 := KMap.count_vals_erase s.items hwf k w
      rw [hg] at h1
      simpa using h1
    · simp only [hc, Bool.not_false, ↓reduceIte]
      exact ⟨trivial, hwf⟩

theorem tryInsert_absent_count (s : Store) (su : Nat → Nat → Bool) (k v cf : Nat) (t : Time)
    (habs : s.items.get k = none) (w : Nat) :
    (vals (s.tryInsert su k v cf t).items).count w = (vals s.items).count w + ind (v == w) := by
  unfold tryInsert
  simp only [habs]
  rw [KMap.count_vals_set, KMap.erase_of_get_none s.items k habs]

end Store
end Stretto

namespace Stretto

theorem count_newVals_snoc (buf pend : List Item) (x : Item) (w : Nat) :
    (newVals ((buf ++ [x]) ++ pend)).count w = (newVals (buf ++ pend)).count w + (newVals [x]).count w := by
  simp only [newVals_append, List.count_append]; omega

theorem count_newVals_pend_snoc (buf pend : List Item) (x : Item) (w : Nat) :
    (newVals (buf ++ (pend ++ [x]))).count w = (newVals (buf ++ pend)).count w + (newVals [x]).count w := by
  simp only [newVals_append, List.count_append]; omega

@[simp] theorem ind_false : ind false = 0 := rfl
@[simp] theorem ind_true : ind true = 1 := rfl
@[simp] theorem ind_false_and (b : Bool) : ind (false && b) = 0 := rfl
@[simp] theorem ind_true_and (b : Bool) : ind (true && b) = ind b := by simp [ind]

namespace Cache

theorem insert_tok (c : Cache) (su : Nat → Nat → Bool) (k cf v : Nat) (cost : Int) (ttl now : Nat)
    (coster : Int) (only : Bool) (hwf : c.store.items.WF) (w : Nat) :
    tok w (c.insert su k cf v cost ttl now coster only).1 =
      tok w c + ind ((c.insert su k cf v cost ttl now coster only).2 && v == w) ∧
    (c.insert su k cf v cost ttl now coster only).1.store.items.WF := by
  unfold insert
  split
  · exact ⟨by simp, hwf⟩
  · unfold insertBody
    simp only []
    split
    · exact ⟨by simp, hwf⟩
    · have hu := Store.tryUpdate_count c.store su k v cf { d := ttl, created := now } hwf w
      cases hr : (c.store.tryUpdate su k v cf { d := ttl, created := now }).2 with
      | update old =>
        rw [hr] at hu
        obtain ⟨h1, h2⟩ := hu
        simp only at h1 ⊢
        split
        · refine ⟨?_, h2⟩
          simp only [tok, count_newVals_snoc, newVals, cbVals, List.map_cons, List.count_cons, CB.val,
            ind_true_and, List.count_nil] at *
          simp only [ind] at *
          omega
        · refine ⟨?_, h2⟩
          simp only [tok, cbVals, List.map_cons, List.count_cons, CB.val, ind_true_and] at *
          simp only [ind] at *
          omega
      | notExist =>
        simp only
        split
        · exact ⟨by simp, hwf⟩
        · split
          · refine ⟨?_, hwf⟩
            simp only [tok, count_newVals_snoc, newVals, List.count_cons, List.count_nil, Bool.true_and, ind]
            omega
          · exact ⟨by simp [tok], by simpa using hwf⟩
      | reject =>
        simp only
        split
        · exact ⟨by simp, hwf⟩
        · split
          · refine ⟨?_, hwf⟩
            simp only [tok, count_newVals_snoc, newVals, List.count_cons, List.count_nil, Bool.true_and, ind]
            omega
          · exact ⟨by simp [tok], by simpa using hwf⟩
      | conflict =>
        simp only
        split
        · exact ⟨by simp, hwf⟩
        · split
          · refine ⟨?_, hwf⟩
            simp only [tok, count_newVals_snoc, newVals, List.count_cons, List.count_nil, Bool.true_and, ind]
            omega
          · exact ⟨by simp [tok], by simpa using hwf⟩

end Cache
end Stretto

namespace Stretto
namespace Cache

/-- the part of the state `tok` looks at -/
def tcore (c : Cache) : KMap Entry × List Item × List Item × List CB :=
  (c.store.items, c.buf, c.pendingSends, c.cbs)

theorem tok_of_tcore (c c' : Cache) (h : c'.tcore = c.tcore) (w : Nat) : tok w c' = tok w c := by
  have h1 : c'.store.items = c.store.items := congrArg (·.1) h
  have h2 : c'.buf = c.buf := congrArg (·.2.1) h
  have h3 : c'.pendingSends = c.pendingSends := congrArg (·.2.2.1) h
  have h4 : c'.cbs = c.cbs := congrArg (·.2.2.2) h
  simp only [tok, h1, h2, h3, h4]

theorem wf_of_tcore (c c' : Cache) (h : c'.tcore = c.tcore) (hwf : c.store.items.WF) : c'.store.items.WF := by
  have h1 : c'.store.items = c.store.items := congrArg (·.1) h
  rw [h1]; exact hwf

@[simp] theorem met_tcore (c : Cache) (f : Metrics → Metrics) : (c.met f).tcore = c.tcore := by
  simp [tcore]

@[simp] theorem ringPush_tcore (c : Cache) (k : Nat) : (c.ringPush k).tcore = c.tcore := by
  simp [tcore]

theorem get_tcore (c : Cache) (k cf now : Nat) : (c.get k cf now).1.tcore = c.tcore := by
  unfold get
  split
  · rfl
  · simp only []
    split <;> simp

theorem getMutWrite_tok (c : Cache) (k cf now v : Nat) (hwf : c.store.items.WF) (w : Nat) :
    tok w (c.getMutWrite k cf now v).1 +
        (match (c.getMutWrite k cf now v).2 with | some old => ind (old == w) | none => 0) =
      tok w c + ind ((c.getMutWrite k cf now v).2.isSome && v == w) ∧
    (c.getMutWrite k cf now v).1.store.items.WF := by
  unfold getMutWrite
  split
  · exact ⟨by simp, hwf⟩
  · simp only []
    have hg := Store.getMutWrite_count c.store k cf now v hwf w
    simp only [ringPush_store]
    cases hr : (c.store.getMutWrite k cf now v).2 with
    | none =>
      simp only
      refine ⟨?_, by simpa [tcore] using hwf⟩
      simp [tok]
    | some old =>
      rw [hr] at hg
      obtain ⟨h1, h2⟩ := hg
      simp only at h1 ⊢
      refine ⟨?_, by simpa using h2⟩
      simp only [tok, met_store, met_buf, met_pendingSends, met_cbs, ringPush_buf, ringPush_pendingSends,
        ringPush_cbs, Option.isSome_some, Bool.true_and]
      omega

theorem remove_tok (c : Cache) (k cf : Nat) (hwf : c.store.items.WF) (w : Nat) :
    tok w (c.remove k cf).1 = tok w c ∧ (c.remove k cf).1.store.items.WF := by
  unfold remove
  split
  · exact ⟨rfl, hwf⟩
  · simp only []
    have hg := Store.tryRemove_count c.store k cf hwf w
    cases hr : (c.store.tryRemove k cf).2 with
    | none =>
      simp only
      split
      · refine ⟨?_, hwf⟩
        simp only [tok, count_newVals_snoc, newVals, List.count_nil]; omega
      · refine ⟨?_, hwf⟩
        simp only [tok, count_newVals_pend_snoc, newVals, List.count_nil]; omega
    | some e =>
      rw [hr] at hg
      obtain ⟨h1, h2⟩ := hg
      simp only at h1 ⊢
      split
      · refine ⟨?_, h2⟩
        simp only [tok, count_newVals_snoc, newVals, List.count_nil, cbVals, List.map_cons, List.count_cons, CB.val] at *
        simp only [ind] at *
        omega
      · refine ⟨?_, h2⟩
        simp only [tok, count_newVals_pend_snoc, newVals, List.count_nil, cbVals, List.map_cons, List.count_cons, CB.val] at *
        simp only [ind] at *
        omega

theorem waitEnq_tok (c : Cache) (id : Nat) (w : Nat) : tok w (c.waitEnq id).1 = tok w c ∧
    (c.waitEnq id).1.store.items = c.store.items := by
  unfold waitEnq
  split
  · exact ⟨rfl, rfl⟩
  · split
    · exact ⟨by simp only [tok, count_newVals_snoc, newVals, List.count_nil]; omega, rfl⟩
    · exact ⟨rfl, rfl⟩

theorem clearReq_tcore (c : Cache) (id : Nat) : (c.clearReq id).1.tcore = c.tcore := by
  unfold clearReq; split <;> rfl

theorem closeBegin_tcore (c : Cache) (id : Nat) : (c.closeBegin id).1.tcore = c.tcore := by
  unfold closeBegin; split <;> rfl

end Cache
end Stretto

namespace Stretto
namespace Cache

theorem admitPending_tok (c : Cache) (w : Nat) :
    tok w c.admitPending = tok w c ∧ c.admitPending.store = c.store := by
  unfold admitPending
  cases hp : c.pendingSends with
  | nil => exact ⟨rfl, rfl⟩
  | cons it rest =>
    simp only
    split
    · refine ⟨?_, rfl⟩
      simp only [tok, hp, List.append_assoc, List.singleton_append]
    · exact ⟨by simp only [tok, hp], rfl⟩

theorem evictVictims_tok (vs : List (Nat × Int)) (c : Cache) (hwf : c.store.items.WF) (w : Nat) :
    tok w (c.evictVictims vs) = tok w c ∧ (c.evictVictims vs).store.items.WF := by
  induction vs generalizing c with
  | nil => exact ⟨rfl, hwf⟩
  | cons p rest ih =>
    obtain ⟨vk, vc⟩ := p
    simp only [evictVictims]
    have hg := Store.tryRemove_count c.store vk 0 hwf w
    cases hr : (c.store.tryRemove vk 0).2 with
    | none => exact ih c hwf
    | some e =>
      rw [hr] at hg
      obtain ⟨h1, h2⟩ := hg
      simp only at h1 ⊢
      have key : ∀ c2 : Cache, c2.tcore = ((c.store.tryRemove vk 0).1.items, c.buf, c.pendingSends,
          CB.evict vk e.conflict e.val vc :: c.cbs) → tok w (c2.evictVictims rest) = tok w c ∧
          (c2.evictVictims rest).store.items.WF := by
        intro c2 hc2
        have h1' : c2.store.items = (c.store.tryRemove vk 0).1.items := congrArg (·.1) hc2
        have h2' : c2.buf = c.buf := congrArg (·.2.1) hc2
        have h3' : c2.pendingSends = c.pendingSends := congrArg (·.2.2.1) hc2
        have h4' : c2.cbs = CB.evict vk e.conflict e.val vc :: c.cbs := congrArg (·.2.2.2) hc2
        have := ih c2 (by rw [h1']; exact h2)
        refine ⟨?_, this.2⟩
        rw [this.1]
        simp only [tok, h1', h2', h3', h4', cbVals, List.map_cons, List.count_cons, CB.val] at *
        simp only [ind] at *
        omega
      split
      · exact key _ (by simp [tcore])
      · exact key _ rfl

theorem deliverEvictions_tok (cbs : List CB) (c : Cache) (w : Nat) :
    tok w (c.deliverEvictions cbs) = tok w c + (cbVals cbs).count w ∧
    (c.deliverEvictions cbs).store = c.store := by
  induction cbs generalizing c with
  | nil => exact ⟨by simp [deliverEvictions, cbVals], rfl⟩
  | cons cb rest ih =>
    simp only [deliverEvictions]
    have key : ∀ c2 : Cache, c2.tcore = (c.store.items, c.buf, c.pendingSends, cb :: c.cbs) → c2.store = c.store →
        tok w (c2.deliverEvictions rest) = tok w c + (cbVals (cb :: rest)).count w ∧
        (c2.deliverEvictions rest).store = c.store := by
      intro c2 hc2 hst
      have h1' : c2.store.items = c.store.items := congrArg (·.1) hc2
      have h2' : c2.buf = c.buf := congrArg (·.2.1) hc2
      have h3' : c2.pendingSends = c.pendingSends := congrArg (·.2.2.1) hc2
      have h4' : c2.cbs = cb :: c.cbs := congrArg (·.2.2.2) hc2
      have := ih c2
      refine ⟨?_, this.2.trans hst⟩
      rw [this.1]
      simp only [tok, h1', h2', h3', h4', cbVals, List.map_cons, List.count_cons]
      omega
    cases cb with
    | evict k cf v cost =>
      simp only
      split
      · exact key _ (by simp [tcore]) (by simp)
      · exact key _ rfl rfl
    | exit v => exact key _ rfl rfl
    | reject k cf v cost => exact key _ rfl rfl

theorem drain_tok (items : List Item) (c : Cache) (w : Nat) :
    tok w (items.foldl drainItem c) = tok w c + (newVals items).count w ∧
    (items.foldl drainItem c).store = c.store ∧ (items.foldl drainItem c).buf = c.buf ∧
    (items.foldl drainItem c).pendingSends = c.pendingSends := by
  induction items generalizing c with
  | nil => exact ⟨by simp [newVals], rfl, rfl, rfl⟩
  | cons it rest ih =>
    simp only [List.foldl_cons]
    obtain ⟨h1, h2, h3, h4⟩ := ih (c.drainItem it)
    cases it with
    | new k cf cost v exp =>
      refine ⟨?_, h2, h3, h4⟩
      rw [h1]
      simp only [tok, drainItem, newVals, cbVals, List.map_cons, List.count_cons, CB.val]
      omega
    | update k cost ext => exact ⟨by rw [h1]; simp [drainItem, newVals], h2, h3, h4⟩
    | delete k cf => exact ⟨by rw [h1]; simp [drainItem, newVals], h2, h3, h4⟩
    | wait id => exact ⟨by rw [h1]; simp [drainItem, newVals, tok], h2, h3, h4⟩

theorem sweepOne_tok (c : Cache) (now k cf : Nat) (hwf : c.store.items.WF) (w : Nat) :
    tok w (c.sweepOne now k cf).1 +
        (match (c.sweepOne now k cf).2 with | some cb => ind (cb.val == w) | none => 0) = tok w c ∧
    (c.sweepOne now k cf).1.store.items.WF := by
  unfold sweepOne
  cases c.store.expiration k with
  | none => exact ⟨rfl, hwf⟩
  | some t =>
    simp only
    split
    · have hg := Store.tryRemove_count c.store k cf hwf w
      cases hr : (c.store.tryRemove k cf).2 with
      | none => exact ⟨by simp [tok], by simpa using hwf⟩
      | some e =>
        rw [hr] at hg
        obtain ⟨h1, h2⟩ := hg
        simp only at h1 ⊢
        refine ⟨?_, h2⟩
        simp only [tok, met_buf, met_pendingSends, met_cbs, CB.val] at *
        omega
    · exact ⟨rfl, hwf⟩

theorem sweepKeys_tok (keys : List (Nat × Nat)) (c : Cache) (now : Nat) (acc : List CB)
    (hwf : c.store.items.WF) (w : Nat) :
    tok w (c.sweepKeys now keys acc).1 + (cbVals (c.sweepKeys now keys acc).2).count w =
      tok w c + (cbVals acc).count w ∧
    (c.sweepKeys now keys acc).1.store.items.WF := by
  induction keys generalizing c acc with
  | nil => exact ⟨rfl, hwf⟩
  | cons p rest ih =>
    obtain ⟨k, cf⟩ := p
    simp only [sweepKeys]
    obtain ⟨h1, h2⟩ := sweepOne_tok c now k cf hwf w
    obtain ⟨h3, h4⟩ := ih (c.sweepOne now k cf).1
      (match (c.sweepOne now k cf).2 with | some cb => cb :: acc | none => acc) h2
    refine ⟨h3.trans ?_, h4⟩
    cases hs : (c.sweepOne now k cf).2 with
    | none => rw [hs] at h1; simp only at h1 ⊢; omega
    | some cb =>
      rw [hs] at h1
      simp only [cbVals, List.map_cons, List.count_cons, ind] at h1 ⊢
      omega

end Cache
end Stretto

namespace Stretto
namespace Cache

/-- `handle_item` moves the value of the handled item — into the store, or to exactly one callback —
and moves every value it takes out of the store to exactly one callback. The hypothesis on `New`
(an admitted key is not resident) is what C06's invariant provides. -/
theorem handleItem_tok (c : Cache) (su : Nat → Nat → Bool) (est : Nat → Int)
    (refills : List (List (Nat × Int))) (it : Item) (hwf : c.store.items.WF) (w : Nat)
    (hnew : ∀ k cf cost v exp, it = Item.new k cf cost v exp →
      (policyAdd c.lfu est k (c.internalCost cost) refills).added = true → c.store.items.get k = none) :
    tok w (c.handleItem su est refills it) = tok w c + (newVals [it]).count w ∧
    (c.handleItem su est refills it).store.items.WF := by
  cases it with
  | wait id => exact ⟨by simp [handleItem, tok, newVals], hwf⟩
  | update k cost ext => exact ⟨by simp [handleItem, tok, newVals], by simpa [handleItem] using hwf⟩
  | delete k cf =>
    simp only [handleItem]
    have hg := Store.tryRemove_count c.store k cf hwf w
    cases hr : (c.store.tryRemove k cf).2 with
    | none =>
      rw [hr] at hg
      simp only at hg ⊢
      split
      · exact ⟨by simp [tok, newVals, hg.1], by simpa using hg.2⟩
      · exact ⟨by simp [tok, newVals, hg.1], by simpa using hg.2⟩
    | some e =>
      rw [hr] at hg
      obtain ⟨h1, h2⟩ := hg
      simp only at h1 ⊢
      split
      · refine ⟨?_, by simpa using h2⟩
        simp only [tok, met_store, met_buf, met_pendingSends, met_cbs, cbVals, List.map_cons, List.count_cons,
          CB.val, newVals, List.count_nil] at *
        simp only [ind] at *
        omega
      · refine ⟨?_, h2⟩
        simp only [tok, cbVals, List.map_cons, List.count_cons, CB.val, newVals, List.count_nil] at *
        simp only [ind] at *
        omega
  | new k cf cost v exp =>
    simp only [handleItem]
    have habs := hnew k cf cost v exp rfl
    -- the state before the victims are taken out
    have key : ∀ c3 : Cache, (tok w c3 = tok w c + ind (v == w) ∧ c3.store.items.WF) →
        tok w (match (policyAdd c.lfu est k (c.internalCost cost) refills).victims with
          | some vs => c3.evictVictims vs
          | none => c3) = tok w c + (newVals [Item.new k cf cost v exp]).count w ∧
        (match (policyAdd c.lfu est k (c.internalCost cost) refills).victims with
          | some vs => c3.evictVictims vs
          | none => c3).store.items.WF := by
      intro c3 ⟨h1, h2⟩
      have hn : (newVals [Item.new k cf cost v exp]).count w = ind (v == w) := by
        simp [newVals, List.count_cons, ind]
      rw [hn]
      cases (policyAdd c.lfu est k (c.internalCost cost) refills).victims with
      | none => exact ⟨h1, h2⟩
      | some vs =>
        obtain ⟨e1, e2⟩ := evictVictims_tok vs c3 h2 w
        exact ⟨e1.trans h1, e2⟩
    apply key
    cases hadd : (policyAdd c.lfu est k (c.internalCost cost) refills).added with
    | true =>
      have hk := habs hadd
      have hc := Store.tryInsert_absent_count c.store su k v cf exp hk w
      have hw' := Store.tryInsert_wf c.store su k v cf exp hwf
      simp only [↓reduceIte, met_cfg, met_store]
      split
      · exact ⟨by simp only [tok, met_buf, met_pendingSends, met_cbs, hc]; omega, hw'⟩
      · exact ⟨by simp only [tok, met_buf, met_pendingSends, met_cbs, hc]; omega, hw'⟩
    | false =>
      simp only [Bool.false_eq_true, ↓reduceIte]
      refine ⟨?_, by simpa using hwf⟩
      simp only [tok, met_store, met_buf, met_pendingSends, met_cbs, cbVals, List.map_cons, List.count_cons, CB.val, ind]
      omega

end Cache
end Stretto

namespace Stretto
namespace Cache

/-- the callback log only grows -/
def CbsMono (c c' : Cache) : Prop := ∀ x, x ∈ c.cbs → x ∈ c'.cbs

theorem CbsMono.refl (c : Cache) : CbsMono c c := fun _ h => h
theorem CbsMono.trans {a b c : Cache} (h1 : CbsMono a b) (h2 : CbsMono b c) : CbsMono a c :=
  fun x h => h2 x (h1 x h)
theorem CbsMono.of_eq {c c' : Cache} (h : c'.cbs = c.cbs) : CbsMono c c' := fun x hx => by rw [h]; exact hx
theorem CbsMono.of_cons {c c' : Cache} (y : CB) (h : c'.cbs = y :: c.cbs) : CbsMono c c' :=
  fun x hx => by rw [h]; exact List.mem_cons_of_mem _ hx

theorem insert_cbsMono (c : Cache) (su : Nat → Nat → Bool) (k cf v : Nat) (cost : Int) (ttl now : Nat)
    (coster : Int) (only : Bool) : CbsMono c (c.insert su k cf v cost ttl now coster only).1 := by
  unfold insert
  split
  · exact CbsMono.refl c
  · unfold insertBody
    simp only []
    repeat' split
    all_goals first | exact CbsMono.refl c | exact CbsMono.of_cons _ rfl | exact CbsMono.of_eq (by simp)

theorem remove_cbsMono (c : Cache) (k cf : Nat) : CbsMono c (c.remove k cf).1 := by
  unfold remove
  split
  · exact CbsMono.refl c
  · simp only []
    cases (c.store.tryRemove k cf).2 <;> (simp only; split) <;>
      first | exact CbsMono.of_eq rfl | exact CbsMono.of_cons _ rfl

theorem evictVictims_cbsMono (vs : List (Nat × Int)) (c : Cache) : CbsMono c (c.evictVictims vs) := by
  induction vs generalizing c with
  | nil => exact CbsMono.refl c
  | cons p rest ih =>
    obtain ⟨vk, vc⟩ := p
    simp only [evictVictims]
    cases (c.store.tryRemove vk 0).2 with
    | none => exact ih c
    | some e =>
      simp only
      refine CbsMono.trans ?_ (ih _)
      split
      · exact CbsMono.of_cons (CB.evict vk e.conflict e.val vc) (by simp)
      · exact CbsMono.of_cons (CB.evict vk e.conflict e.val vc) rfl

theorem deliverEvictions_cbsMono (cbs : List CB) (c : Cache) : CbsMono c (c.deliverEvictions cbs) := by
  induction cbs generalizing c with
  | nil => exact CbsMono.refl c
  | cons cb rest ih =>
    simp only [deliverEvictions]
    refine CbsMono.trans ?_ (ih _)
    cases cb with
    | evict k cf v cost =>
      simp only
      split
      · exact CbsMono.of_cons (CB.evict k cf v cost) (by simp)
      · exact CbsMono.of_cons (CB.evict k cf v cost) rfl
    | exit v => exact CbsMono.of_cons _ rfl
    | reject k cf v cost => exact CbsMono.of_cons _ rfl

theorem drain_cbsMono (items : List Item) (c : Cache) : CbsMono c (items.foldl drainItem c) := by
  induction items generalizing c with
  | nil => exact CbsMono.refl c
  | cons it rest ih =>
    simp only [List.foldl_cons]
    refine CbsMono.trans ?_ (ih _)
    cases it with
    | new k cf cost v exp => exact CbsMono.of_cons _ rfl
    | update k cost ext => exact CbsMono.refl c
    | delete k cf => exact CbsMono.refl c
    | wait id => exact CbsMono.of_eq rfl

theorem sweepKeys_cbs (keys : List (Nat × Nat)) (c : Cache) (now : Nat) (acc : List CB) :
    (c.sweepKeys now keys acc).1.cbs = c.cbs := by
  induction keys generalizing c acc with
  | nil => rfl
  | cons p rest ih =>
    obtain ⟨k, cf⟩ := p
    simp only [sweepKeys]
    rw [ih]
    unfold sweepOne
    cases c.store.expiration k with
    | none => rfl
    | some t =>
      simp only
      split
      · cases (c.store.tryRemove k cf).2 <;> simp
      · rfl

theorem handleItem_cbsMono (c : Cache) (su : Nat → Nat → Bool) (est : Nat → Int)
    (refills : List (List (Nat × Int))) (it : Item) : CbsMono c (c.handleItem su est refills it) := by
  cases it with
  | wait id => exact CbsMono.of_eq rfl
  | update k cost ext => exact CbsMono.of_eq (by simp [handleItem])
  | delete k cf =>
    simp only [handleItem]
    cases (c.store.tryRemove k cf).2 with
    | none => simp only; split <;> exact CbsMono.of_eq (by simp)
    | some e => simp only; split <;> exact CbsMono.of_cons (CB.exit e.val) (by simp)
  | new k cf cost v exp =>
    simp only [handleItem]
    have key : ∀ (c3 : Cache) (o : Option (List (Nat × Int))), CbsMono c c3 →
        CbsMono c (match o with | some vs => c3.evictVictims vs | none => c3) := by
      intro c3 o h
      cases o with
      | none => exact h
      | some vs => exact h.trans (evictVictims_cbsMono vs c3)
    apply key
    split
    · split <;> exact CbsMono.of_eq (by simp)
    · exact CbsMono.of_cons (CB.reject k cf v (c.internalCost cost)) (by simp)

end Cache
end Stretto
