import StrettoModel.Model.Policy
import StrettoModel.Proofs.KMap
/-! Invariants of the sampled-LFU bookkeeping and the eviction loop. -/
namespace Stretto
namespace Lfu

/-- keys distinct and `used` is the sum of the charges -/
def Inv (l : Lfu) : Prop := l.costs.WF ∧ l.used = KMap.total l.costs

/-- every charge is non-negative (domain assumption on costs, preserved by every operation) -/
def NonNeg (l : Lfu) : Prop := ∀ k c, l.costs.get k = some c → 0 ≤ c

theorem increment_inv (l : Lfu) (k : Nat) (c : Int) (h : l.Inv) (hk : l.costs.get k = none) :
    (l.increment k c).Inv := by
  refine ⟨KMap.wf_set _ _ _ h.1, ?_⟩
  simp only [increment]
  rw [KMap.total_set _ _ _ h.1, hk, h.2]; simp

theorem increment_nonneg (l : Lfu) (k : Nat) (c : Int) (h : l.NonNeg) (hc : 0 ≤ c) :
    (l.increment k c).NonNeg := by
  intro j cj hj
  simp only [increment, KMap.get_set] at hj
  split at hj
  · cases hj; exact hc
  · exact h j cj hj

theorem remove_inv (l : Lfu) (k : Nat) (h : l.Inv) : (l.remove k).1.Inv := by
  unfold remove
  cases hg : l.costs.get k with
  | none => exact h
  | some c =>
    refine ⟨KMap.wf_erase _ _ h.1, ?_⟩
    simp only
    rw [KMap.total_erase _ _ h.1, hg, h.2]; simp

theorem remove_get (l : Lfu) (k j : Nat) :
    (l.remove k).1.costs.get j = if j = k then none else l.costs.get j := by
  unfold remove
  cases hg : l.costs.get k with
  | none => simp only; split <;> simp_all
  | some c => simp

theorem remove_nonneg (l : Lfu) (k : Nat) (h : l.NonNeg) : (l.remove k).1.NonNeg := by
  intro j cj hj
  rw [remove_get] at hj
  split at hj
  · cases hj
  · exact h j cj hj

theorem remove_used_le (l : Lfu) (k : Nat) (h : l.NonNeg) : (l.remove k).1.used ≤ l.used := by
  unfold remove
  cases hg : l.costs.get k with
  | none => simp
  | some c => have := h k c hg; simp only; omega

theorem remove_fields (l : Lfu) (k : Nat) :
    (l.remove k).1.maxCost = l.maxCost ∧ (l.remove k).1.samples = l.samples := by
  unfold remove; cases l.costs.get k <;> simp

theorem update_inv (l : Lfu) (k : Nat) (c : Int) (h : l.Inv) : (l.update k c).1.Inv := by
  unfold update
  cases hg : l.costs.get k with
  | none => exact h
  | some prev =>
    refine ⟨KMap.wf_set _ _ _ h.1, ?_⟩
    simp only
    rw [KMap.total_set _ _ _ h.1, hg, h.2]; simp; omega

theorem update_true_iff (l : Lfu) (k : Nat) (c : Int) :
    (l.update k c).2.1 = true ↔ ∃ prev, l.costs.get k = some prev := by
  unfold update
  cases hg : l.costs.get k <;> simp

theorem clear_inv (l : Lfu) : l.clear.Inv := ⟨KMap.wf_nil, by simp [clear, KMap.total]⟩

theorem updateMaxCost_inv (l : Lfu) (mc : Int) (h : l.Inv) : (l.updateMaxCost mc).Inv := h

end Lfu

-- minEntry --------------------------------------------------------------------------------

theorem minEntryFirst_none (est : Nat → Int) (s : List (Nat × Int)) : minEntryFirst est s = none ↔ s = [] := by
  cases s with
  | nil => simp [minEntryFirst]
  | cons p rest =>
    simp only [minEntryFirst]
    cases minEntryFirst est rest with
    | none => simp
    | some r => obtain ⟨i, q, h⟩ := r; simp only; split <;> simp

/-- the chosen entry is in the sample, carries the minimum estimate of the whole sample -/
theorem minEntryFirst_spec (est : Nat → Int) (s : List (Nat × Int)) (i : Nat) (q : Nat × Int) (h : Int)
    (hm : minEntryFirst est s = some (i, q, h)) :
    s[i]? = some q ∧ h = est q.1 ∧ ∀ p ∈ s, h ≤ est p.1 := by
  induction s generalizing i q h with
  | nil => simp [minEntryFirst] at hm
  | cons p rest ih =>
    simp only [minEntryFirst] at hm
    cases hr : minEntryFirst est rest with
    | none =>
      simp only [hr, Option.some.injEq, Prod.mk.injEq] at hm
      obtain ⟨rfl, rfl, rfl⟩ := hm
      have : rest = [] := (minEntryFirst_none est rest).mp hr
      subst this
      exact ⟨rfl, rfl, by simp⟩
    | some r =>
      obtain ⟨i', q', h'⟩ := r
      obtain ⟨h1, h2, h3⟩ := ih i' q' h' hr
      simp only [hr] at hm
      split at hm
      · rename_i hle
        simp only [Option.some.injEq, Prod.mk.injEq] at hm
        obtain ⟨rfl, rfl, rfl⟩ := hm
        refine ⟨rfl, rfl, ?_⟩
        intro x hx
        simp only [List.mem_cons] at hx
        rcases hx with rfl | hx
        · exact Int.le_refl _
        · exact Int.le_trans hle (h3 x hx)
      · rename_i hle
        simp only [Option.some.injEq, Prod.mk.injEq] at hm
        obtain ⟨rfl, rfl, rfl⟩ := hm
        refine ⟨by simpa using h1, h2, ?_⟩
        intro x hx
        simp only [List.mem_cons] at hx
        rcases hx with rfl | hx
        · omega
        · exact h3 x hx

theorem minEntry_none (est : Nat → Int) (s : List (Nat × Int)) : minEntry est s = none ↔ s = [] := by
  unfold minEntry
  cases hf : minEntryFirst est s with
  | none => simpa using (minEntryFirst_none est s).mp hf
  | some r =>
    obtain ⟨i, q, h⟩ := r
    have hne : s ≠ [] := fun he => by
      have := (minEntryFirst_none est s).mpr he
      rw [this] at hf; cases hf
    simp only
    cases s[tiePick est s]? with
    | none => simpa using hne
    | some q' => simp only; split <;> simpa using hne

/-- the chosen entry is in the sample and carries the minimum estimate of the whole sample — whichever of
the equally unpopular entries the tie-break oracle proposed -/
theorem minEntry_spec (est : Nat → Int) (s : List (Nat × Int)) (i : Nat) (q : Nat × Int) (h : Int)
    (hm : minEntry est s = some (i, q, h)) :
    s[i]? = some q ∧ h = est q.1 ∧ ∀ p ∈ s, h ≤ est p.1 := by
  unfold minEntry at hm
  cases hf : minEntryFirst est s with
  | none => simp [hf] at hm
  | some r =>
    obtain ⟨i0, q0, h0⟩ := r
    obtain ⟨h1, h2, h3⟩ := minEntryFirst_spec est s i0 q0 h0 hf
    simp only [hf] at hm
    cases hp : s[tiePick est s]? with
    | none =>
      simp only [hp, Option.some.injEq, Prod.mk.injEq] at hm
      obtain ⟨rfl, rfl, rfl⟩ := hm
      exact ⟨h1, h2, h3⟩
    | some q' =>
      simp only [hp] at hm
      split at hm
      · rename_i heq
        simp only [Option.some.injEq, Prod.mk.injEq] at hm
        obtain ⟨rfl, rfl, rfl⟩ := hm
        exact ⟨hp, heq.symm, h3⟩
      · simp only [Option.some.injEq, Prod.mk.injEq] at hm
        obtain ⟨rfl, rfl, rfl⟩ := hm
        exact ⟨h1, h2, h3⟩

end Stretto

namespace Stretto

/-- what C07 demands of one iteration of the eviction loop -/
def IterOK (est : Nat → Int) (incHits : Int) (it : IterLog) : Prop :=
  it.room < 0 ∧
  match it.victim with
  | some v => v ∈ it.sample ∧ (∀ p ∈ it.sample, est v.1 ≤ est p.1) ∧ est v.1 ≤ incHits
  | none => ∀ p ∈ it.sample, incHits < est p.1

structure LoopSpec (est : Nat → Int) (incHits : Int) (key : Nat) (cost : Int) (l : Lfu)
    (R : AddResult) : Prop where
  inv : R.lfu.Inv
  maxCost : R.lfu.maxCost = l.maxCost
  samples : R.lfu.samples = l.samples
  iters : ∀ it ∈ R.log, IterOK est incHits it
  victims : R.victims = some (R.log.filterMap (·.victim))
  admitted : R.added = true → R.lfu.used ≤ R.lfu.maxCost ∧ R.lfu.costs.get key = some cost ∧ R.stuck = false
  refused : R.added = false → R.lfu.costs.get key = none
  reject_iff : R.stuck = false → (R.added = false ↔ ∃ it ∈ R.log, it.victim = none)
  only_released : ∀ j, j ≠ key → R.lfu.costs.get j = none ∨ R.lfu.costs.get j = l.costs.get j
  released : ∀ it ∈ R.log, ∀ v, it.victim = some v → v.1 ≠ key → R.lfu.costs.get v.1 = none
  /-- a charge that disappeared belongs to a victim of some iteration -/
  only_victims : ∀ j, j ≠ key → (l.costs.get j).isSome → R.lfu.costs.get j = none →
    ∃ it ∈ R.log, ∃ vc, it.victim = some (j, vc)

/-- log entries accumulated so far are part of the final log -/
theorem evictLoop_log_mono (est : Nat → Int) (incHits : Int) (key : Nat) (cost : Int)
    (l : Lfu) (sample victims : List (Nat × Int)) (evs : List MEv) (log : List IterLog)
    (refills : List (List (Nat × Int))) (it : IterLog) (h : it ∈ log) :
    it ∈ (evictLoop est incHits key cost l sample victims evs log refills).log := by
  induction refills generalizing l sample victims evs log with
  | nil => simp only [evictLoop]; split <;> simpa using h
  | cons x xs ih =>
    simp only [evictLoop]
    split
    · simpa using h
    · cases hmin : minEntry est (sample ++ x) with
      | none => simp [h]
      | some r =>
        obtain ⟨i, ⟨vk, vc⟩, hh⟩ := r
        simp only
        split
        · simp [h]
        · apply ih; simp [h]

theorem evictLoop_spec (est : Nat → Int) (incHits : Int) (key : Nat) (cost : Int)
    (refills : List (List (Nat × Int))) :
    ∀ (l : Lfu) (sample victims : List (Nat × Int)) (evs : List MEv) (log : List IterLog),
      l.Inv → l.costs.get key = none →
      (∀ it ∈ log, IterOK est incHits it) →
      (∀ it ∈ log, it.victim ≠ none) →
      victims = log.filterMap (·.victim) →
      (∀ it ∈ log, ∀ v, it.victim = some v → v.1 ≠ key → l.costs.get v.1 = none) →
      LoopSpec est incHits key cost l (evictLoop est incHits key cost l sample victims evs log refills) := by
  induction refills with
  | nil =>
    intro l sample victims evs log hinv hkey hlog hsome hvic hrel
    simp only [evictLoop]
    split
    · rename_i hroom
      refine ⟨Lfu.increment_inv l key cost hinv hkey, rfl, rfl, by simpa using hlog, ?_, ?_, by simp, ?_, ?_, ?_, ?_⟩
      · simp [hvic, List.filterMap_reverse]
      · intro _
        refine ⟨?_, by simp [Lfu.increment], rfl⟩
        simp only [Lfu.increment, Lfu.roomLeft] at *; omega
      · intro _
        simp only [Bool.true_eq_false, false_iff, not_exists, not_and, List.mem_reverse]
        intro it hit; exact hsome it hit
      · intro j hj; right; simp [Lfu.increment, hj]
      · intro it hit v hv hne
        simp only [List.mem_reverse] at hit
        simp [Lfu.increment, hne, hrel it hit v hv hne]
      · intro j hj hs hn
        simp only [Lfu.increment, KMap.get_set, hj, if_false] at hn
        rw [hn] at hs; cases hs
    · refine ⟨hinv, rfl, rfl, by simpa using hlog, ?_, by simp, fun _ => hkey, by simp, ?_, ?_, ?_⟩
      · simp [hvic, List.filterMap_reverse]
      · intro j _; right; rfl
      · intro it hit v hv hne
        simp only [List.mem_reverse] at hit
        exact hrel it hit v hv hne
      · intro j _ hs hn
        rw [hn] at hs; cases hs
  | cons extras more ih =>
    intro l sample victims evs log hinv hkey hlog hsome hvic hrel
    simp only [evictLoop]
    split
    · rename_i hroom
      refine ⟨Lfu.increment_inv l key cost hinv hkey, rfl, rfl, by simpa using hlog, ?_, ?_, by simp, ?_, ?_, ?_, ?_⟩
      · simp [hvic, List.filterMap_reverse]
      · intro _
        refine ⟨?_, by simp [Lfu.increment], rfl⟩
        simp only [Lfu.increment, Lfu.roomLeft] at *; omega
      · intro _
        simp only [Bool.true_eq_false, false_iff, not_exists, not_and, List.mem_reverse]
        intro it hit; exact hsome it hit
      · intro j hj; right; simp [Lfu.increment, hj]
      · intro it hit v hv hne
        simp only [List.mem_reverse] at hit
        simp [Lfu.increment, hne, hrel it hit v hv hne]
      · intro j hj hs hn
        simp only [Lfu.increment, KMap.get_set, hj, if_false] at hn
        rw [hn] at hs; cases hs
    · rename_i hroom
      have hroom' : l.roomLeft cost < 0 := by omega
      -- rejection record, shared by the two rejecting branches
      have hrej : ∀ (hall : ∀ p ∈ sample ++ extras, incHits < est p.1),
          LoopSpec est incHits key cost l
            { lfu := l, victims := some victims.reverse, added := false,
              events := (MEv.rejectSets :: evs).reverse,
              log := (⟨l.roomLeft cost, sample ++ extras, none⟩ :: log).reverse } := by
        intro hall
        refine ⟨hinv, rfl, rfl, ?_, ?_, by simp, fun _ => hkey, ?_, ?_, ?_, ?_⟩
        · intro it hit
          simp only [List.mem_reverse, List.mem_cons] at hit
          rcases hit with rfl | hit
          · exact ⟨hroom', hall⟩
          · exact hlog it hit
        · simp [hvic, List.filterMap_reverse]
        · intro _; simp
        · intro j _; right; rfl
        · intro it hit v hv hne
          simp only [List.mem_reverse, List.mem_cons] at hit
          rcases hit with rfl | hit
          · simp at hv
          · exact hrel it hit v hv hne
        · intro j _ hs hn
          rw [hn] at hs; cases hs
      cases hmin : minEntry est (sample ++ extras) with
      | none =>
        simp only
        apply hrej
        have : sample ++ extras = [] := (minEntry_none est _).mp hmin
        intro p hp; rw [this] at hp; cases hp
      | some r =>
        obtain ⟨i, ⟨vk, vc⟩, h⟩ := r
        obtain ⟨hget, hh, hle⟩ := minEntry_spec est _ i (vk, vc) h hmin
        simp only
        split
        · rename_i hlt
          apply hrej
          intro p hp
          exact Int.lt_of_lt_of_le hlt (hle p hp)
        · rename_i hnlt
          have hmem : (vk, vc) ∈ sample ++ extras := List.mem_of_getElem? hget
          have hspec := ih (l.remove vk).1 (swapRemove (sample ++ extras) i) ((vk, vc) :: victims)
            (match (l.remove vk).2 with
              | some c => MEv.keyEvict :: MEv.costEvict c :: evs
              | none => evs)
            (⟨l.roomLeft cost, sample ++ extras, some (vk, vc)⟩ :: log)
            (Lfu.remove_inv l vk hinv)
            (by rw [Lfu.remove_get]; split <;> simp [hkey])
            (by
              intro it hit
              simp only [List.mem_cons] at hit
              rcases hit with rfl | hit
              · refine ⟨hroom', hmem, ?_, ?_⟩
                · intro p hp; simp only; rw [← hh]; exact hle p hp
                · simp only; rw [← hh]; omega
              · exact hlog it hit)
            (by
              intro it hit
              simp only [List.mem_cons] at hit
              rcases hit with rfl | hit
              · simp
              · exact hsome it hit)
            (by simp [hvic])
            (by
              intro it hit v hv hne
              rw [Lfu.remove_get]
              simp only [List.mem_cons] at hit
              rcases hit with rfl | hit
              · simp only [Option.some.injEq] at hv; subst hv; simp
              · split
                · rfl
                · exact hrel it hit v hv hne)
          have hf := Lfu.remove_fields l vk
          refine ⟨hspec.inv, hspec.maxCost.trans hf.1, hspec.samples.trans hf.2, hspec.iters,
            hspec.victims, hspec.admitted, hspec.refused, hspec.reject_iff, ?_, hspec.released, ?_⟩
          · intro j hj
            rcases hspec.only_released j hj with h0 | h0
            · left; exact h0
            · rw [Lfu.remove_get] at h0
              by_cases hjv : j = vk
              · exact Or.inl (h0.trans (by simp [hjv]))
              · exact Or.inr (h0.trans (by simp [hjv]))
          · intro j hj hs hn
            by_cases hjv : j = vk
            · -- j is the victim of this very iteration: its log entry is in the result's log
              refine ⟨⟨l.roomLeft cost, sample ++ extras, some (vk, vc)⟩,
                evictLoop_log_mono est incHits key cost _ _ _ _ _ _ _ (List.mem_cons_self ..), vc, ?_⟩
              rw [hjv]
            · have hs' : ((l.remove vk).1.costs.get j).isSome := by
                rw [Lfu.remove_get]; simp [hjv, hs]
              exact hspec.only_victims j hj hs' hn

end Stretto

namespace Stretto

theorem evictLoop_nonneg (est : Nat → Int) (incHits : Int) (key : Nat) (cost : Int) (hc : 0 ≤ cost)
    (refills : List (List (Nat × Int))) :
    ∀ (l : Lfu) (sample victims : List (Nat × Int)) (evs : List MEv) (log : List IterLog),
      l.NonNeg →
      let R := evictLoop est incHits key cost l sample victims evs log refills
      R.lfu.NonNeg ∧ (R.added = false → R.lfu.used ≤ l.used) := by
  induction refills with
  | nil =>
    intro l sample victims evs log hnn
    simp only [evictLoop]
    split
    · exact ⟨Lfu.increment_nonneg l key cost hnn hc, by simp⟩
    · exact ⟨hnn, fun _ => Int.le_refl _⟩
  | cons extras more ih =>
    intro l sample victims evs log hnn
    simp only [evictLoop]
    split
    · exact ⟨Lfu.increment_nonneg l key cost hnn hc, by simp⟩
    · cases hmin : minEntry est (sample ++ extras) with
      | none => exact ⟨hnn, fun _ => Int.le_refl _⟩
      | some r =>
        obtain ⟨i, ⟨vk, vc⟩, h⟩ := r
        simp only
        split
        · exact ⟨hnn, fun _ => Int.le_refl _⟩
        · exact ⟨(ih _ _ _ _ _ (Lfu.remove_nonneg l vk hnn)).1,
            fun hf => Int.le_trans ((ih _ _ _ _ _ (Lfu.remove_nonneg l vk hnn)).2 hf)
              (Lfu.remove_used_le l vk hnn)⟩

/-- `policy.add`, all branches -/
structure AddSpec (est : Nat → Int) (l : Lfu) (key : Nat) (cost : Int) (R : AddResult) : Prop where
  inv : R.lfu.Inv
  maxCost : R.lfu.maxCost = l.maxCost
  /-- an entry whose own cost exceeds `max_cost` is never admitted and nothing changes -/
  oversize : cost > l.maxCost → R.added = false ∧ R.lfu = l ∧ R.victims = none
  /-- an already charged key is re-charged in place, nothing is evicted -/
  update : cost ≤ l.maxCost → (∃ prev, l.costs.get key = some prev) →
    R.added = false ∧ R.victims = none ∧ R.lfu.costs.get key = some cost ∧
    ∀ j, j ≠ key → R.lfu.costs.get j = l.costs.get j
  /-- when there is room a new key is admitted and nothing is evicted -/
  room : cost ≤ l.maxCost → l.costs.get key = none → l.roomLeft cost ≥ 0 →
    R.added = true ∧ R.victims = none ∧ R.lfu.costs.get key = some cost ∧
    ∀ j, j ≠ key → R.lfu.costs.get j = l.costs.get j
  /-- every admission of a new key re-establishes `used ≤ max_cost` -/
  admitted : R.added = true → R.lfu.used ≤ R.lfu.maxCost ∧ R.lfu.costs.get key = some cost ∧
    l.costs.get key = none
  /-- the eviction loop follows the sampled-LFU rule at every iteration -/
  iters : ∀ it ∈ R.log, IterOK est (est key) it
  victims_log : R.log ≠ [] → R.victims = some (R.log.filterMap (·.victim))
  victims_eq : ∀ vs, R.victims = some vs → vs = R.log.filterMap (·.victim)
  reject_iff : cost ≤ l.maxCost → l.costs.get key = none → l.roomLeft cost < 0 → R.stuck = false →
    (R.added = false ↔ ∃ it ∈ R.log, it.victim = none)
  only_released : ∀ j, j ≠ key → R.lfu.costs.get j = none ∨ R.lfu.costs.get j = l.costs.get j
  released : ∀ it ∈ R.log, ∀ v, it.victim = some v → v.1 ≠ key → R.lfu.costs.get v.1 = none
  only_victims : ∀ j, j ≠ key → (l.costs.get j).isSome → R.lfu.costs.get j = none →
    ∃ it ∈ R.log, ∃ vc, it.victim = some (j, vc)
  /-- a new key that is not admitted is not charged -/
  refused : R.added = false → l.costs.get key = none → R.lfu.costs.get key = none

theorem policyAdd_spec (l : Lfu) (est : Nat → Int) (key : Nat) (cost : Int)
    (refills : List (List (Nat × Int))) (hinv : l.Inv) :
    AddSpec est l key cost (policyAdd l est key cost refills) := by
  unfold policyAdd
  by_cases hbig : cost > l.maxCost
  · simp only [hbig, if_true]
    exact ⟨hinv, rfl, fun _ => ⟨rfl, rfl, rfl⟩, fun h => by omega, fun h => by omega, by simp,
      by simp, by simp, by simp, fun h => by omega, fun j _ => Or.inr rfl, by simp,
      (fun j _ hs hn => by rw [hn] at hs; cases hs), fun _ h => h⟩
  · simp only [hbig, if_false]
    cases hg : l.costs.get key with
    | some prev =>
      have hu : l.update key cost =
          ({ l with costs := l.costs.set key cost, used := l.used + (cost - prev) }, true,
           if prev = cost then [MEv.keyUpdate] else [MEv.keyUpdate, MEv.costAdd (cost - prev)]) := by
        simp [Lfu.update, hg]
      have hinv' := Lfu.update_inv l key cost hinv
      rw [hu] at hinv'
      simp only [hu]
      refine ⟨hinv', rfl, fun h => absurd h hbig, ?_, (fun _ h => by rw [hg] at h; cases h), by simp,
        by simp, by simp, by simp, (fun _ h => by rw [hg] at h; cases h), ?_, by simp, ?_, ?_⟩
      · intro _ _
        refine ⟨rfl, rfl, by simp, ?_⟩
        intro j hj; simp [hj]
      · intro j hj; right; simp [hj]
      · intro j hj hs hn
        simp only [KMap.get_set, hj, if_false] at hn
        rw [hn] at hs; cases hs
      · intro _ h0; rw [hg] at h0; cases h0
    | none =>
      have hu : l.update key cost = (l, false, []) := by simp [Lfu.update, hg]
      simp only [hu]
      by_cases hroom : l.roomLeft cost ≥ 0
      · simp only [hroom, if_true]
        refine ⟨Lfu.increment_inv l key cost hinv hg, rfl, fun h => absurd h hbig,
          (fun _ h => by obtain ⟨x, hx⟩ := h; rw [hg] at hx; cases hx), ?_, ?_,
          by simp, by simp, by simp, (fun _ _ h => by omega), ?_, by simp, ?_, (by simp)⟩
        · intro _ _ _
          refine ⟨rfl, rfl, by simp [Lfu.increment], ?_⟩
          intro j hj; simp [Lfu.increment, hj]
        · intro _
          refine ⟨?_, by simp [Lfu.increment], hg⟩
          simp only [Lfu.increment, Lfu.roomLeft] at *; omega
        · intro j hj; right; simp [Lfu.increment, hj]
        · intro j hj hs hn
          simp only [Lfu.increment, KMap.get_set, hj, if_false] at hn
          rw [hn] at hs; cases hs
      · simp only [hroom, if_false]
        have hs := evictLoop_spec est (est key) key cost refills l [] [] [] [] hinv hg
          (by simp) (by simp) (by simp) (by simp)
        refine ⟨hs.inv, hs.maxCost, fun h => absurd h hbig,
          (fun _ h => by obtain ⟨x, hx⟩ := h; rw [hg] at hx; cases hx), fun _ _ h => absurd h hroom, ?_,
          hs.iters, fun _ => hs.victims, (fun vs hv => by rw [hs.victims] at hv; exact (Option.some.inj hv).symm),
          fun _ _ _ hst => hs.reject_iff hst, hs.only_released, hs.released, hs.only_victims,
          fun ha _ => hs.refused ha⟩
        intro ha
        exact ⟨(hs.admitted ha).1, (hs.admitted ha).2.1, hg⟩

end Stretto

namespace Stretto

/-- guard on the oracle input of the eviction loop: at every iteration the appended sample entries
are what `fill_sample` may append for the *current* bookkeeping (`Lfu.validRefill`) -/
def RefillsOk (est : Nat → Int) (incHits : Int) (cost : Int) :
    Lfu → List (Nat × Int) → List (List (Nat × Int)) → Prop
  | _, _, [] => True
  | l, sample, extras :: more =>
    if l.roomLeft cost ≥ 0 then True
    else l.validRefill sample.length extras = true ∧
      (match minEntry est (sample ++ extras) with
       | none => True
       | some (i, (vk, _), h) =>
         if incHits < h then True
         else RefillsOk est incHits cost (l.remove vk).1 (swapRemove (sample ++ extras) i) more)

theorem mem_of_mem_dropLast' {α : Type} : ∀ (l : List α) (x : α), x ∈ l.dropLast → x ∈ l
  | [], _, h => by cases h
  | [_], _, h => by cases h
  | a :: b :: rest, x, h => by
    rw [List.dropLast_cons_cons] at h
    rcases List.mem_cons.mp h with rfl | h1
    · exact List.mem_cons_self
    · exact List.mem_cons_of_mem _ (mem_of_mem_dropLast' (b :: rest) x h1)

theorem mem_swapRemove (s : List (Nat × Int)) (i : Nat) (x : Nat × Int) (h : x ∈ swapRemove s i) : x ∈ s := by
  unfold swapRemove at h
  cases hl : s.getLast? with
  | none => simpa [hl] using h
  | some last =>
    simp only [hl] at h
    have h1 := mem_of_mem_dropLast' _ _ h
    rcases List.mem_or_eq_of_mem_set h1 with h2 | h2
    · exact h2
    · rw [h2]; exact List.mem_of_getLast? hl

/-- every victim of the loop is reported with the cost it was charged before the call -/
theorem evictLoop_victims_charged (est : Nat → Int) (incHits : Int) (key : Nat) (cost : Int) (l0 : Lfu)
    (refills : List (List (Nat × Int))) :
    ∀ (l : Lfu) (sample victims : List (Nat × Int)) (evs : List MEv) (log : List IterLog),
      (∀ j c, l.costs.get j = some c → l0.costs.get j = some c) →
      (∀ p ∈ sample, l0.costs.get p.1 = some p.2) →
      (∀ p ∈ victims, l0.costs.get p.1 = some p.2) →
      RefillsOk est incHits cost l sample refills →
      ∀ vs, (evictLoop est incHits key cost l sample victims evs log refills).victims = some vs →
        ∀ p ∈ vs, l0.costs.get p.1 = some p.2 := by
  induction refills with
  | nil =>
    intro l sample victims evs log _ _ hv _ vs hvs p hp
    simp only [evictLoop] at hvs
    split at hvs <;> (simp only [Option.some.injEq] at hvs; subst hvs; exact hv p (by simpa using hp))
  | cons extras more ih =>
    intro l sample victims evs log hsub hs hv hok vs hvs p hp
    simp only [evictLoop] at hvs
    split at hvs
    · simp only [Option.some.injEq] at hvs; subst hvs; exact hv p (by simpa using hp)
    · rename_i hroom
      simp only [RefillsOk, hroom, ↓reduceIte] at hok
      obtain ⟨hvalid, hrest⟩ := hok
      -- the refilled sample still carries the original charges
      have hs' : ∀ q ∈ sample ++ extras, l0.costs.get q.1 = some q.2 := by
        intro q hq
        rcases List.mem_append.mp hq with h1 | h1
        · exact hs q h1
        · unfold Lfu.validRefill at hvalid
          split at hvalid
          · have : extras = [] := by simpa using hvalid
            rw [this] at h1; cases h1
          · simp only [Bool.and_eq_true, List.all_eq_true, beq_iff_eq] at hvalid
            exact hsub _ _ (hvalid.1.2 q h1)
      cases hmin : minEntry est (sample ++ extras) with
      | none =>
        simp only [hmin] at hvs
        simp only [Option.some.injEq] at hvs; subst hvs; exact hv p (by simpa using hp)
      | some r =>
        obtain ⟨i, ⟨vk, vc⟩, hh⟩ := r
        simp only [hmin] at hvs hrest
        split at hvs
        · simp only [Option.some.injEq] at hvs; subst hvs; exact hv p (by simpa using hp)
        · rename_i hnlt
          simp only [hnlt, ↓reduceIte] at hrest
          obtain ⟨hget, _, _⟩ := minEntry_spec est _ i (vk, vc) hh hmin
          have hmem : (vk, vc) ∈ sample ++ extras := List.mem_of_getElem? hget
          refine ih (l.remove vk).1 (swapRemove (sample ++ extras) i) ((vk, vc) :: victims) _ _ ?_ ?_ ?_ hrest vs hvs p hp
          · intro j c hj
            rw [Lfu.remove_get] at hj
            split at hj
            · cases hj
            · exact hsub j c hj
          · intro q hq; exact hs' q (mem_swapRemove _ _ _ hq)
          · intro q hq
            rcases List.mem_cons.mp hq with rfl | h1
            · exact hs' _ hmem
            · exact hv q h1

/-- `policy.add`: every victim is reported with its charge before the call -/
theorem policyAdd_victims_charged (l : Lfu) (est : Nat → Int) (key : Nat) (cost : Int)
    (refills : List (List (Nat × Int)))
    (hok : RefillsOk est (est key) cost l [] refills) :
    ∀ vs, (policyAdd l est key cost refills).victims = some vs → ∀ p ∈ vs, l.costs.get p.1 = some p.2 := by
  unfold policyAdd
  split
  · intro vs h; cases h
  · cases hu : l.update key cost with
    | mk l' r =>
      obtain ⟨b, evs⟩ := r
      cases b with
      | true => intro vs h; cases h
      | false =>
        simp only
        split
        · intro vs h; cases h
        · exact evictLoop_victims_charged est (est key) key cost l refills l [] [] [] []
            (fun _ _ h => h) (fun p hp => by cases hp) (fun p hp => by cases hp) hok

end Stretto
