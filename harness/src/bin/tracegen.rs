use stretto_verif_harness::rng::Rng;
use stretto_verif_harness::*;

fn main() {
    let args: Vec<String> = std::env::args().collect();
    if args.len() < 2 {
        eprintln!("usage: tracegen <component> [--seed N] [--ops N] [--out file]");
        std::process::exit(2);
    }
    silence_panics();
    let seed = arg_u64(&args, "--seed", 1);
    let ops = arg_u64(&args, "--ops", 200) as usize;
    let mut out = match arg(&args, "--out") {
        Some(p) => Out::file(&p),
        None => Out::stdout(),
    };
    let mut rng = Rng::new(seed);
    // stepped generators: a step of the implementation that never completes ends the trace with a HANG line
    if matches!(args[1].as_str(), "cache" | "acache" | "replay-cache") {
        watch::arm(arg(&args, "--out"), std::time::Duration::from_secs(arg_u64(&args, "--hang-secs", 45)));
    }
    // implementation-vs-oracle runs: a scenario that never completes (a deadlock in the implementation) is
    // itself the finding; the deadline scales with the number of rounds asked for
    if matches!(args[1].as_str(), "live" | "flavour") {
        let rounds = arg_u64(&args, "--rounds", 200);
        let limit = arg_u64(&args, "--max-secs", 300 + rounds / 10);
        let what = arg(&args, "--scenario").unwrap_or_else(|| args[1].clone());
        let kind = args[1].clone();
        std::thread::spawn(move || {
            std::thread::sleep(std::time::Duration::from_secs(limit));
            if kind == "live" {
                println!("live scenario={} rounds=0 violations=1 detail=the_scenario_did_not_complete_within_{}_s:_some_call_or_worker_blocks_for_ever", what, limit);
            } else {
                println!("flavour-mismatch the_differential_run_did_not_complete_within_{}_s:_some_call_blocks_for_ever_on_one_of_the_executors", limit);
                println!("flavour scripts=0 steps=0 mismatches=1 seed_mismatch=0 detail=did_not_complete_within_{}_s", limit);
            }
            std::process::exit(0);
        });
    }
    match args[1].as_str() {
        // C13: rows exhaustively, then TinyLFU lives over the num_counters sweep
        "sketch" => {
            tiny::rows_exhaustive(&mut out);
            tiny::rows_random(&mut out, &mut rng, 200);
            let lives = arg_u64(&args, "--lives", 40) as usize;
            for i in 0..lives {
                let nc = if i < 24 { [1usize, 2, 3, 4, 5, 6, 7, 8, 9, 15, 16, 17, 31, 32, 33, 63, 64, 65, 70, 100, 127, 128, 129, 10][i] } else { rng.range(1, 130) as usize };
                tiny::tiny_trace(&mut out, &mut rng, nc, ops);
            }
        }
        // C14: Bloom filter lives
        "bloom" => {
            let lives = arg_u64(&args, "--lives", 30) as usize;
            for _ in 0..lives {
                tiny::bloom_trace(&mut out, &mut rng, ops);
            }
        }
        // C14: false-positive measurement, one line per (n, p)
        "bloomfp" => {
            let probes = arg_u64(&args, "--probes", 200_000) as usize;
            for &(n, p) in &[(50usize, 0.01f64), (1000, 0.01), (10_000, 0.01), (2000, 0.05), (500, 0.001), (100_000, 0.01)] {
                let (fp, pr, fneg) = tiny::fp_measure(&mut rng, n, p, probes);
                out.line(&format!("fp n={} p={} probes={} false_pos={} false_neg={}", n, p, pr, fp, fneg));
            }
            // structured families: hashes that differ only in their high bits, only in their low bits,
            // and plain small integers (what `TransparentKeyBuilder` feeds the doorkeeper); `n` members
            // are added, every other member of the family is probed
            for &(n, p) in &[(50usize, 0.01f64), (1000, 0.01), (10_000, 0.01), (2000, 0.05), (500, 0.001)] {
                let c_lo = rng.next() & 0xffff_ffff;
                let c_hi = rng.next() & 0xffff_ffff_0000_0000;
                let fams: Vec<(&str, u64, Box<dyn Fn(u64) -> u64>)> = vec![
                    ("high16", 1 << 16, Box::new(move |j| (j << 48) | c_lo)),
                    ("low16", 1 << 16, Box::new(move |j| c_hi | j)),
                    ("ints", 1 << 17, Box::new(move |j| j)),
                ];
                for (name, uni, make) in fams.iter() {
                    let (fp, pr, fneg) = tiny::fp_family(&mut rng, n, p, *uni, make.as_ref());
                    out.line(&format!("fpfam family={} n={} p={} probes={} false_pos={} false_neg={} c_lo={} c_hi={}", name, n, p, pr, fp, fneg, c_lo, c_hi));
                }
            }
        }
        // C01, C07: policy lives
        "policy" => {
            let lives = arg_u64(&args, "--lives", 30) as usize;
            for _ in 0..lives {
                policy::policy_trace(&mut out, &mut rng, ops);
            }
        }
        // cache-level stepped traces
        "cache" => {
            let lives = arg_u64(&args, "--lives", 20) as usize;
            let g = cache::GenOpts {
                ops,
                w_clear: arg_u64(&args, "--w-clear", 3),
                w_wait: arg_u64(&args, "--w-wait", 3),
                w_close: arg_u64(&args, "--w-close", 1),
                w_ttl: arg_u64(&args, "--w-ttl", 30),
                collisions: arg_u64(&args, "--collisions", 0) == 1,
            };
            let sweep = arg_u64(&args, "--sweep", 0) == 1;
            if sweep {
                // finalize() verdicts over the boundary configurations
                for &nc in &[0usize, 1, 2, 70] {
                    for &mc in &[0i64, 1, -1, 100] {
                        for &bs in &[0usize, 1, 64] {
                            out.line(&cache::finalize_line(nc, mc, bs));
                        }
                    }
                }
            }
            for i in 0..lives {
                let cfg = if sweep { cache::sweep_config(&mut rng, i) } else { cache::random_config(&mut rng) };
                // a panic escaping a life (e.g. inside a snapshot) is itself an observation
                if catch(|| cache::cache_life(&mut out, &mut rng, &cfg, &g)).is_none() {
                    out.line(&format!("c.life counters={} | PANIC", cfg.num_counters));
                }
            }
        }
        // re-execute the actions of a recorded cache trace
        "replay-cache" => {
            let path = arg(&args, "--script").expect("--script file");
            let script = std::fs::read_to_string(&path).expect("read script");
            cache::replay_script(&mut out, &script);
        }
        // C18: key builders
        "keys" => keys::keys_trace(&mut out, &mut rng, ops),
        // AsyncCache on a current-thread runtime, stepped: same protocol and model as `cache`
        "acache" => {
            let lives = arg_u64(&args, "--lives", 20) as usize;
            let g = acache::AGenOpts { ops, w_ttl: arg_u64(&args, "--w-ttl", 40), collisions: arg_u64(&args, "--collisions", 0) == 1 };
            acache::acache_trace(&mut out, &mut rng, lives, &g);
        }
        // C17: the histogram type behind life_expectancy_seconds(), through its public API
        "hist" => {
            let lives = arg_u64(&args, "--lives", 30) as usize;
            for _ in 0..lives {
                hist::hist_trace(&mut out, &mut rng, ops);
            }
        }
        // C19: sync vs async differential
        "flavour" => {
            let scripts = arg_u64(&args, "--scripts", 12) as usize;
            let r = flavour::differential(&mut rng, scripts, ops);
            for d in &r.details {
                out.line(&format!("flavour-mismatch {}", d.replace(' ', "_")));
            }
            out.line(&format!(
                "flavour scripts={} steps={} mismatches={} seed_mismatch={} detail={}",
                r.scripts, r.steps, r.mismatches, r.skipped_seed_mismatch,
                if r.detail.is_empty() { "-".to_string() } else { r.detail.replace(' ', "_") }
            ));
            out.flush();
            std::process::exit(0);
        }
        // live mode: real threads, implementation-vs-oracle tests
        "live" => {
            let rounds = arg_u64(&args, "--rounds", 200);
            let which = arg(&args, "--scenario").unwrap_or_else(|| "all".to_string());
            // stdout must be flushed before a stalled scenario makes us exit
            let mut run = |name: &str, out: &mut Out| {
                let r = match name {
                    "barrier" => live::barrier(rounds),
                    "close_race" => live::close_race(rounds.min(400), seed),
                    "protocol_storm" => live::protocol_storm((rounds / 4).max(10), seed),
                    "ttl_mix" => live::ttl_mix(rounds * 1500),
                    "workers_exit" => live::workers_exit((rounds / 5).max(12)),
                    "async_barrier" => live::async_barrier(rounds),
                    "clear_burst" => live::clear_burst((rounds / 10).max(10), false),
                    "clear_held_ref" => live::clear_held_ref((rounds / 30).max(6), &arg(&args, "--prop").unwrap_or_else(|| "all".to_string())),
                    "async_clear_ack" => live2::async_clear_ack((rounds / 60).max(4), &arg(&args, "--prop").unwrap_or_else(|| "all".to_string())),
                    "sweep_refresh_race" => live2::sweep_refresh_race((rounds / 100).max(2), &arg(&args, "--prop").unwrap_or_else(|| "all".to_string())),
                    "async_sweep_refresh_race" => live2::async_sweep_refresh_race((rounds / 100).max(2), &arg(&args, "--prop").unwrap_or_else(|| "all".to_string())),
                    "double_clear" => live2::double_clear((rounds / 25).max(8)),
                    "clear_after_removes" => live2::clear_after_removes((rounds / 3).max(30), &arg(&args, "--prop").unwrap_or_else(|| "all".to_string())),
                    "transparent_keys" => live2::transparent_keys(rounds),
                    "iip_race" => live2::iip_race((rounds / 20).max(10), &arg(&args, "--prop").unwrap_or_else(|| "all".to_string())),
                    "reentrant_callbacks" => live2::reentrant_callbacks((rounds / 8).max(30)),
                    "validator_race" => live2::validator_race((rounds / 15).max(12)),
                    "metrics_contention" => live2::metrics_contention((rounds / 60).max(5)),
                    "ring_contention" => live2::ring_contention((rounds / 75).max(4)),
                    "policy_busy_lookups" => live2::policy_busy_lookups((rounds / 100).max(3)),
                    "tiny_cleanup_interval" => live::tiny_cleanup_interval((rounds / 25).max(12)),
                    "cleanup_interval_honoured" => live::cleanup_interval_honoured((rounds / 150).max(2)),
                    "async_clear_burst" => live::clear_burst((rounds / 10).max(10), true),
                    "async_ring_accounting" => live::async_ring_accounting((rounds / 30).max(8)),
                    "async_sweep_race" => live::async_sweep_race((rounds / 300).max(1)),
                    "async_sweep_under_traffic" => live::async_sweep_under_traffic(),
                    "async_protocol_storm" => live::async_protocol_storm((rounds / 4).max(10), seed),
                    "invariants" => invariants::sync_invariants((rounds / 10).max(10), seed, &arg(&args, "--prop").unwrap_or_else(|| "all".to_string())),
                    "async_invariants" => invariants::async_invariants((rounds / 10).max(10), seed, &arg(&args, "--prop").unwrap_or_else(|| "all".to_string())),
                    "remove_full" => live::remove_full((rounds / 10).max(10), false),
                    "async_remove_full" => live::remove_full((rounds / 10).max(10), true),
                    _ => return,
                };
                out.line(&r.line());
                out.flush();
            };
            if which == "all" {
                for n in ["barrier", "close_race", "protocol_storm", "workers_exit", "ttl_mix"] {
                    run(n, &mut out);
                }
            } else {
                run(&which, &mut out);
            }
            out.flush();
            // threads of a wedged scenario may still be blocked: leave without joining them
            std::process::exit(0);
        }
        other => {
            eprintln!("unknown component {}", other);
            std::process::exit(2);
        }
    }
    out.flush();
}
