//! Stepped traces for `AsyncCache` (same line protocol and same Lean model as `cache.rs`).
//!
//! The cache runs on a tokio *current-thread* runtime: its two background tasks only run when the
//! client task yields. Client calls that do not wait (insert, lookups, remove with room in the
//! buffer) therefore execute atomically, and "the processor catches up" is one explicit step
//! (`a.drain`: yield until the insert buffer and the policy queue are empty). What the processor did
//! in between is not observable item by item; the driver replays the buffered items through the
//! model (with the eviction loop's observations, taken from the same cfg-gated log as the sync
//! harness) and compares at the end of the step. `wait()`, `clear()` and `close()` are composite
//! steps (`a.wait`, `a.clear`, `a.close`): request, the processor's part, return.
use crate::cache::{mk_key, snap_str, RecCallback, SplitKeyBuilder, TableCoster, TableValidator, SEC};
use crate::policy::DetHasher;
use crate::rng::Rng;
use crate::Out;
use std::time::Duration;
use stretto::verif::{self, Obs};
use stretto::{AsyncCache, AsyncCacheBuilder};

type ACache = AsyncCache<u64, u64, SplitKeyBuilder, TableCoster, TableValidator, RecCallback, DetHasher>;

#[derive(Clone, Debug)]
pub struct ACfg {
    pub num_counters: usize,
    pub max_cost: i64,
    pub buf_size: usize,
    pub buf_items: usize,
    pub metrics: bool,
    pub ignore_internal: bool,
    pub coster: u8,
    pub validator: u8,
    /// a real-time ticker of 1 ms (sweeps follow every clock move) or none at all (expired entries
    /// stay unswept for the whole life)
    pub ticker: bool,
    /// call the type-changing setters after the plain ones
    pub late_setters: bool,
    /// the callback leaves `on_reject` to the trait's default
    pub default_reject: bool,
}

pub fn random_acfg(rng: &mut Rng) -> ACfg {
    ACfg {
        num_counters: *rng.pick(&[16usize, 64, 256]),
        max_cost: *rng.pick(&[30i64, 100, 100, 400, 1000, 100000]),
        buf_size: *rng.pick(&[1usize, 2, 3, 8, 64]),
        buf_items: *rng.pick(&[0usize, 1, 2, 4, 64]),
        metrics: rng.chance(2, 3),
        ignore_internal: rng.chance(1, 2),
        coster: rng.below(2) as u8,
        validator: *rng.pick(&[0u8, 0, 0, 1, 2, 3]),
        ticker: rng.chance(1, 2),
        late_setters: rng.chance(1, 2),
        default_reject: rng.chance(1, 4),
    }
}

struct AStepper<'a> {
    c: ACache,
    cb: RecCallback,
    cfg: ACfg,
    coster: TableCoster,
    out: &'a mut Out,
    now: u64,
    next_val: u64,
    next_id: u64,
    closed: bool,
}

fn groups_str(events: Vec<Obs>) -> (String, String) {
    // (groups of the eviction loops in order, keys the sweep looked at)
    let mut groups: Vec<String> = Vec::new();
    let mut cur: Option<(u64, i64, Vec<Vec<(u64, i64, i64)>>)> = None;
    let mut sweep = Vec::new();
    for o in events {
        match o {
            Obs::AddEvictBegin { key, inc_hits, .. } => {
                if let Some((k, inc, samples)) = cur.take() {
                    groups.push(format!("{}@{}@{}", k, inc, crate::policy::obs_str(&samples)));
                }
                cur = Some((key, inc_hits, Vec::new()));
            }
            Obs::AddSample { sample } => {
                if let Some((_, _, s)) = cur.as_mut() {
                    s.push(sample);
                }
            }
            Obs::SweepKey { key, conflict } => sweep.push(format!("{}:{}", key, conflict)),
        }
    }
    if let Some((k, inc, samples)) = cur.take() {
        groups.push(format!("{}@{}@{}", k, inc, crate::policy::obs_str(&samples)));
    }
    (
        if groups.is_empty() { "-".to_string() } else { groups.join("/") },
        if sweep.is_empty() { "-".to_string() } else { sweep.join(",") },
    )
}

impl<'a> AStepper<'a> {
    fn snap(&self) -> String {
        snap_str(&verif::async_cache_snapshot(&self.c, |v| *v))
    }

    fn emit(&mut self, act: &str, ans: &str) {
        let cbs = self.cb.drain_str();
        let snap = self.snap();
        self.out.line(&format!("{} | {} cbs={} vseen={} {}", act, ans, cbs, crate::cache::validator_log_drain(), snap));
    }

    fn pending(&self) -> (usize, usize) {
        let s = verif::async_cache_snapshot(&self.c, |v| *v);
        (s.insert_buf_len, s.policy_queue_len)
    }

    /// let the background tasks run until they have nothing left to do
    async fn settle(&mut self) {
        for _ in 0..100_000 {
            tokio::task::yield_now().await;
            let (b, q) = self.pending();
            if b == 0 && q == 0 {
                // one more round: a task may have dequeued its last item without having applied it
                tokio::task::yield_now().await;
                break;
            }
        }
    }

    /// `a.drain`: the processor and the policy worker catch up
    async fn drain(&mut self) {
        let (b, q) = self.pending();
        if b == 0 && q == 0 {
            return;
        }
        self.settle().await;
        let (groups, sweep) = groups_str(verif::obs_drain());
        self.emit(&format!("a.drain groups={} sweep={}", groups, sweep), "ok=1");
    }

    fn clock(&mut self, adv: u64) {
        self.now += adv;
        verif::clock::set_manual(self.now);
        self.out.line(&format!("c.clock {}", self.now));
    }

    /// after a clock move in a life with a ticker: wait for the sweep of whatever became due
    async fn tick(&mut self) {
        if !self.cfg.ticker || self.closed {
            return;
        }
        for _ in 0..2000 {
            std::thread::sleep(Duration::from_millis(2));
            tokio::task::yield_now().await;
            tokio::task::yield_now().await;
            let s = verif::async_cache_snapshot(&self.c, |v| *v);
            if s.store.buckets.iter().all(|(b, _)| *b > (self.now / SEC) as i64) {
                break;
            }
        }
        let (_, sweep) = groups_str(verif::obs_drain());
        self.emit(&format!("p.tick order={}", sweep), "ok=1");
    }

    async fn insert(&mut self, idx: u64, conf: u64, cost: i64, ttl_ns: u64, only: bool) {
        let v = self.next_val;
        self.next_val += 1;
        let coster = self.coster.value(v);
        let key = mk_key(idx, conf);
        let variant = v % 4;
        let c = &self.c;
        let r = if only {
            if variant % 2 == 0 { c.try_insert_if_present(key, v, cost).await } else { Ok(c.insert_if_present(key, v, cost).await) }
        } else if ttl_ns == 0 {
            match variant {
                0 => c.try_insert(key, v, cost).await,
                1 => Ok(c.insert(key, v, cost).await),
                2 => c.try_insert_with_ttl(key, v, cost, Duration::ZERO).await,
                _ => Ok(c.insert_with_ttl(key, v, cost, Duration::ZERO).await),
            }
        } else if variant % 2 == 0 {
            c.try_insert_with_ttl(key, v, cost, Duration::from_nanos(ttl_ns)).await
        } else {
            Ok(c.insert_with_ttl(key, v, cost, Duration::from_nanos(ttl_ns)).await)
        };
        let ans = match r {
            Ok(b) => format!("ret={}", b as u8),
            Err(_) => "ret=err".to_string(),
        };
        self.emit(&format!("c.insert {} {} {} {} {} {} {}", idx, conf, v, cost, ttl_ns, coster, only as u8), &ans);
    }

    async fn get(&mut self, idx: u64, conf: u64) {
        self.next_id += 1;
        let key = mk_key(idx, conf);
        let r = match self.next_id % 3 {
            0 => self.c.get(&key).await.map(|v| *v.value()),
            1 => {
                let c2 = self.c.clone();
                let r = c2.get(&key).await.map(|v| v.read());
                drop(c2);
                r
            }
            _ => self.c.get(&key).await.map(|v| *v.as_ref()),
        };
        let ans = match r {
            Some(v) => format!("ret={}", v),
            None => "ret=none".to_string(),
        };
        self.emit(&format!("c.get {} {}", idx, conf), &ans);
    }

    async fn get_held(&mut self, idx: u64, conf: u64, adv: u64) {
        // with a real-time ticker the sweep that follows the clock move cannot be told apart from the other
        // background work that runs at the next yield: such lives use the plain lookup
        if self.cfg.ticker {
            return self.get(idx, conf).await;
        }
        let key = mk_key(idx, conf);
        let now = self.now;
        let r = self.c.get(&key).await.map(|v| {
            let t0 = v.ttl();
            verif::clock::set_manual(now + adv);
            let t1 = v.ttl();
            (*v.value(), t0, t1)
        });
        self.now += adv;
        verif::clock::set_manual(self.now);
        let show = |d: Duration| if d == Duration::MAX { "max".to_string() } else { d.as_nanos().to_string() };
        let ans = match r {
            Some((v, t0, t1)) => format!("ret={} ttl0={} ttl1={}", v, show(t0), show(t1)),
            None => "ret=none ttl0=- ttl1=-".to_string(),
        };
        self.emit(&format!("c.getheld {} {} {}", idx, conf, adv), &ans);
        // the clock moved: in a life with a ticker the sweep of whatever became due follows
        if adv > 0 {
            self.tick().await;
        }
    }

    async fn get_mut(&mut self, idx: u64, conf: u64) {
        let v = self.next_val;
        self.next_val += 1;
        let r = self.c.get_mut(&mk_key(idx, conf)).await.map(|mut r| {
            let old = *r.value();
            r.write(v);
            old
        });
        let ans = match r {
            Some(old) => format!("ret={}", old),
            None => "ret=none".to_string(),
        };
        self.emit(&format!("c.getmut {} {} {}", idx, conf, v), &ans);
    }

    fn get_ttl(&mut self, idx: u64, conf: u64) {
        let ans = match self.c.get_ttl(&mk_key(idx, conf)) {
            Some(d) if d == Duration::MAX => "ret=max".to_string(),
            Some(d) => format!("ret={}", d.as_nanos()),
            None => "ret=none".to_string(),
        };
        self.emit(&format!("c.getttl {} {}", idx, conf), &ans);
    }

    async fn remove(&mut self, idx: u64, conf: u64) {
        // the send waits for room: make sure there is some, so that the call is one atomic step
        if self.pending().0 >= self.cfg.buf_size {
            self.drain().await;
        }
        let id = self.next_id;
        self.next_id += 1;
        let r = self.c.try_remove(&mk_key(idx, conf)).await;
        self.emit(&format!("c.remove {} {} {}", idx, conf, id), if r.is_ok() { "ret=ok" } else { "ret=err" });
    }

    async fn wait(&mut self) {
        let id = self.next_id;
        self.next_id += 1;
        let full = self.pending().0 >= self.cfg.buf_size;
        let r = self.c.wait().await;
        let (groups, _) = groups_str(verif::obs_drain());
        let ret = if r.is_ok() { "ret=ok" } else { "ret=err" };
        if self.closed || full {
            // returned at once: closed cache, or no room for the marker
            self.emit(&format!("c.wait {}", id), ret);
        } else {
            self.emit(&format!("a.wait {} groups={}", id, groups), ret);
        }
    }

    async fn clear(&mut self) {
        self.drain().await;
        let id = self.next_id;
        self.next_id += 1;
        let r = self.c.clear().await;
        let ret = if r.is_ok() { "ret=ok" } else { "ret=err" };
        if self.closed {
            self.emit(&format!("c.clear {}", id), ret);
        } else {
            self.emit(&format!("a.clear {}", id), ret);
        }
    }

    async fn close(&mut self) {
        self.drain().await;
        let id = self.next_id;
        self.next_id += 1;
        let r = self.c.close().await;
        let ret = if r.is_ok() { "ret=ok" } else { "ret=err" };
        if self.closed {
            self.emit(&format!("c.close {}", id), ret);
        } else {
            self.emit(&format!("a.close {}", id), ret);
        }
        self.closed = true;
    }

    fn max_cost(&mut self, mc: i64) {
        self.c.update_max_cost(mc);
        self.emit(&format!("c.maxcost {}", mc), "ret=ok");
    }

    fn len(&mut self) {
        let n = self.c.len();
        self.emit("c.len", &format!("ret={}", n));
    }
}

pub struct AGenOpts {
    pub ops: usize,
    pub w_ttl: u64,
    pub collisions: bool,
}

async fn life(out: &mut Out, rng: &mut Rng, cfg: &ACfg, g: &AGenOpts) {
    let cb = RecCallback(Default::default(), cfg.default_reject, Default::default());
    let cleanup = if cfg.ticker { Duration::from_millis(1) } else { Duration::from_secs(3600) };
    let _ = verif::take_processor_config();
    let built = if cfg.late_setters {
        AsyncCacheBuilder::<u64, u64>::new(cfg.num_counters, cfg.max_cost)
            .set_buffer_size(cfg.buf_size)
            .set_buffer_items(cfg.buf_items)
            .set_metrics(cfg.metrics)
            .set_ignore_internal_cost(cfg.ignore_internal)
            .set_cleanup_duration(cleanup)
            .set_hasher(DetHasher::default())
            .set_key_builder(SplitKeyBuilder)
            .set_coster(TableCoster(cfg.coster))
            .set_update_validator(TableValidator(cfg.validator))
            .set_callback(cb.clone())
            .finalize(tokio::spawn)
    } else {
        AsyncCacheBuilder::<u64, u64>::new(cfg.num_counters, cfg.max_cost)
            .set_key_builder(SplitKeyBuilder)
            .set_coster(TableCoster(cfg.coster))
            .set_update_validator(TableValidator(cfg.validator))
            .set_callback(cb.clone())
            .set_hasher(DetHasher::default())
            .set_buffer_size(cfg.buf_size)
            .set_buffer_items(cfg.buf_items)
            .set_metrics(cfg.metrics)
            .set_ignore_internal_cost(cfg.ignore_internal)
            .set_cleanup_duration(cleanup)
            .finalize(tokio::spawn)
    };
    let proc_cfg = verif::take_processor_config();
    let c: ACache = match built {
        Ok(c) => c,
        Err(e) => {
            out.line(&format!("# async cache config rejected: {:?} {}", cfg, e));
            return;
        }
    };
    out.line(&format!("# async cache {:?}", cfg));
    let start = 1_700_000_000 * SEC + rng.below(SEC);
    verif::clock::set_manual(start);
    verif::obs_enable(true);
    verif::obs_drain();
    let bufcap = verif::async_cache_buffer_cap(&c);
    let (eff_counters, eff_ring) = verif::async_cache_effective_sizes(&c);
    let snap0 = verif::async_cache_snapshot(&c, |v| *v);
    let plain = format!(
        "bufsize:{};items:{};metrics:{};ignore:{};cleanup:{}",
        cfg.buf_size,
        cfg.buf_items,
        cfg.metrics as u8,
        cfg.ignore_internal as u8,
        cleanup.as_nanos() as u64
    );
    let setters = if cfg.late_setters {
        format!("{};hasher;keybuilder;coster;validator;callback", plain)
    } else {
        format!("keybuilder;coster;validator;callback;hasher;{}", plain)
    };
    let eff = format!(
        " new_counters={} new_max={} setters={} eff_ignore={} eff_cleanup={} cfgcleanup={} eff_counters={} eff_ringcap={} eff_metrics={} cfgmax={} defrej={} late={}",
        cfg.num_counters,
        cfg.max_cost,
        setters,
        proc_cfg.map_or(cfg.ignore_internal as u8, |p| p.0 as u8),
        proc_cfg.map_or(cleanup.as_nanos() as u64, |p| p.1),
        cleanup.as_nanos() as u64,
        eff_counters,
        eff_ring,
        snap0.metrics.is_some() as u8,
        cfg.max_cost,
        cfg.default_reject as u8,
        cfg.late_setters as u8
    );
    out.line(&(format!(
        "c.init itemsize={} ignore={} bufcap={} ringcap={} pqcap=inf metrics={} max={} samples=5 validator={} coster={} counters={} cfgbuf={} flavour=async",
        verif::async_cache_item_size(&c),
        cfg.ignore_internal as u8,
        bufcap.unwrap_or(0),
        cfg.buf_items,
        cfg.metrics as u8,
        cfg.max_cost,
        cfg.validator,
        cfg.coster,
        cfg.num_counters,
        cfg.buf_size
    ) + &eff));
    out.line(&format!("c.clock {}", start));
    let mut s = AStepper { c, cb, cfg: cfg.clone(), coster: TableCoster(cfg.coster), out, now: start, next_val: 1, next_id: 1, closed: false };
    let universe = rng.range(2, 10);
    // the key range starts at a different index hash in different lives: striped structures (the
    // metrics counters live in 25 stripes picked by `hash % 25`) must be exercised on every stripe
    let base = *rng.pick(&[0u64, 0, 20, 23, 45, 70, 250, 254, 506, 1020, 65_530, 4_294_967_280]);
    let item = if cfg.ignore_internal { 0 } else { verif::async_cache_item_size(&s.c) as i64 };
    let unit = (cfg.max_cost / 6).max(1);
    // conflict hashes of a life without forced collisions: all zero (what `TransparentKeyBuilder` yields) or
    // non-zero and different from key to key (what `DefaultKeyBuilder` yields): one conflict per index
    let conf_mode = rng.below(2);
    let cf = move |i: u64| if conf_mode == 0 { 0 } else { 1 + i % 5 };
    for _ in 0..g.ops {
        let idx = base + rng.below(universe);
        let conf = if g.collisions { rng.range(1, 2) } else { cf(idx) };
        let r = rng.below(100);
        if r < 30 {
            s.drain().await;
            continue;
        }
        if r < 38 {
            // clock moves: the buffer is drained first so that a sweep never interleaves with items
            s.drain().await;
            let adv = *rng.pick(&[1u64, 999, SEC / 2, SEC - 1, SEC, SEC + 1, 2 * SEC, 5 * SEC, 250_000_000]);
            s.clock(adv);
            s.tick().await;
            continue;
        }
        // expiry window on one key (see cache.rs)
        if !s.closed && g.w_ttl > 0 && rng.chance(1, 25) {
            let ttl = *rng.pick(&[2u64, 999_999, SEC / 2, SEC, SEC + 1]);
            s.insert(idx, conf, 1, ttl, false).await;
            s.drain().await;
            let adv = match rng.below(4) {
                0 => ttl - 1,
                1 => ttl,
                2 => ttl + 1,
                _ => ttl + SEC / 3,
            };
            s.clock(adv);
            s.tick().await;
            for _ in 0..rng.range(1, 4) {
                match rng.below(7) {
                    0 => {
                        if rng.chance(1, 2) {
                            s.get(idx, conf).await
                        } else {
                            s.get_held(idx, conf, *rng.pick(&[1u64, 2, SEC / 3, SEC])).await
                        }
                    }
                    1 | 2 => s.get_mut(idx, conf).await,
                    3 => s.get_ttl(idx, conf),
                    4 => s.insert(idx, conf, 1, 0, true).await,
                    5 => s.remove(idx, conf).await,
                    _ => s.insert(idx, conf, 1, *rng.pick(&[0u64, SEC]), false).await,
                }
            }
            continue;
        }
        // zero-cost TTL entries, swept and used again
        if !s.closed && g.w_ttl > 0 && rng.chance(1, 40) {
            s.insert(idx, conf, 0, SEC / 2, false).await;
            s.drain().await;
            s.clock(2 * SEC);
            s.tick().await;
            s.get(idx, conf).await;
            s.insert(idx, conf, 1, 0, false).await;
            s.drain().await;
            s.get(idx, conf).await;
            continue;
        }
        // churn: remove right behind the insert
        if !s.closed && rng.chance(1, 30) {
            s.insert(idx, conf, 1, 0, false).await;
            s.remove(idx, conf).await;
            s.drain().await;
            s.get(idx, conf).await;
            continue;
        }
        match rng.below(24) {
            0..=8 => {
                let cost = match rng.below(6) {
                    0 => 0,
                    1 => 1,
                    2 => unit,
                    3 => (cfg.max_cost - item).max(1),
                    4 => cfg.max_cost + 1,
                    _ => rng.range(1, (2 * unit) as u64) as i64,
                };
                let ttl = if rng.below(100) < g.w_ttl {
                    *rng.pick(&[1u64, 500_000, SEC / 2, 700_000_000, SEC - 1, SEC, SEC + 1, 2 * SEC, 3 * SEC + 7, 3600 * SEC])
                } else {
                    0
                };
                s.insert(idx, conf, cost, ttl, false).await;
            }
            9 => {
                let cost = rng.range(0, unit as u64) as i64;
                s.insert(idx, conf, cost, 0, true).await;
            }
            10..=13 => s.get(idx, conf).await,
            14 => s.get_held(idx, conf, *rng.pick(&[0u64, 1, 1000, SEC / 2, 2 * SEC])).await,
            15 => s.get_mut(idx, conf).await,
            16 => s.get_ttl(idx, conf),
            17..=18 => s.remove(idx, conf).await,
            19 => s.wait().await,
            20 => {
                if rng.chance(1, 3) {
                    s.clear().await
                } else {
                    s.len()
                }
            }
            21 => {
                if rng.chance(1, 4) {
                    let mc = *rng.pick(&[cfg.max_cost, cfg.max_cost / 2 + 1, cfg.max_cost * 2]);
                    s.max_cost(mc);
                } else {
                    s.len();
                }
            }
            22 => {
                if rng.chance(1, 6) {
                    s.close().await
                } else {
                    s.drain().await
                }
            }
            _ => s.drain().await,
        }
    }
    s.drain().await;
    if !s.closed {
        s.close().await;
    }
    s.get(0, 0).await;
    s.insert(0, 0, 1, 0, false).await;
    verif::clock::set_real();
}

pub fn acache_trace(out: &mut Out, rng: &mut Rng, lives: usize, g: &AGenOpts) {
    crate::live::mark_client_pub();
    for _ in 0..lives {
        let cfg = random_acfg(rng);
        let rt = tokio::runtime::Builder::new_current_thread().build().expect("tokio");
        rt.block_on(life(out, rng, &cfg, g));
        drop(rt);
    }
}
