//! Traces for the sampled-LFU policy (C01, C07).
use crate::rng::Rng;
use crate::{catch, csv, Out};
use std::collections::hash_map::DefaultHasher;
use std::hash::BuildHasherDefault;
use std::sync::Arc;
use stretto::verif::{self, Obs, ParkedPolicyWorker, PolicySnap, VPolicy};
use stretto::Metrics;

pub type DetHasher = BuildHasherDefault<DefaultHasher>;

fn pairs(v: &[(u64, i64)]) -> String {
    if v.is_empty() {
        "-".into()
    } else {
        v.iter().map(|(k, c)| format!("{}:{}", k, c)).collect::<Vec<_>>().join(",")
    }
}

pub fn snap_str(s: &PolicySnap, metrics: &Option<Arc<Metrics>>) -> String {
    let met = match metrics {
        None => "-".to_string(),
        Some(m) => match catch(|| {
            vec![
                m.get_cost_added().unwrap(),
                m.get_cost_evicted().unwrap(),
                m.get_keys_evicted().unwrap(),
                m.get_keys_updated().unwrap(),
                m.get_sets_rejected().unwrap(),
            ]
        }) {
            Some(v) => csv(&v),
            None => "PANIC".to_string(),
        },
    };
    format!("charges={} used={} max={} met={}", pairs(&s.charges), s.used, s.max_cost, met)
}

/// drain the observation log of one `add`: (inc_hits, samples per iteration)
pub fn drain_add_obs() -> (Option<i64>, Vec<Vec<(u64, i64, i64)>>) {
    let mut inc = None;
    let mut samples = Vec::new();
    for o in verif::obs_drain() {
        match o {
            Obs::AddEvictBegin { inc_hits, .. } => inc = Some(inc_hits),
            Obs::AddSample { sample } => samples.push(sample),
            _ => {}
        }
    }
    (inc, samples)
}

pub fn obs_str(samples: &[Vec<(u64, i64, i64)>]) -> String {
    if samples.is_empty() {
        "-".into()
    } else {
        samples
            .iter()
            .map(|s| s.iter().map(|(k, c, h)| format!("{}:{}:{}", k, c, h)).collect::<Vec<_>>().join(","))
            .collect::<Vec<_>>()
            .join(";")
    }
}

/// one policy life
pub fn policy_trace(out: &mut Out, rng: &mut Rng, ops: usize) {
    let max_cost: i64 = *rng.pick(&[1i64, 5, 20, 20, 50, 100, 100, 1000, -5]);
    let ctrs = *rng.pick(&[8usize, 32, 64, 256]);
    let with_metrics = rng.chance(1, 2);
    verif::set_parked(true);
    let metrics = if with_metrics { Some(Arc::new(Metrics::new_op())) } else { None };
    let p: VPolicy<DetHasher> = match &metrics {
        Some(m) => VPolicy::with_metrics(ctrs, max_cost, DetHasher::default(), m.clone()).unwrap(),
        None => VPolicy::with_hasher(ctrs, max_cost, DetHasher::default()).unwrap(),
    };
    let _worker = ParkedPolicyWorker::<DetHasher>::take();
    verif::set_parked(false);
    verif::obs_enable(true);
    verif::obs_drain();
    out.line(&format!("# policy max_cost={} counters={} metrics={}", max_cost, ctrs, with_metrics));
    out.line(&format!("pol.init max={} samples=5 metrics={}", max_cost, with_metrics as u8));
    let universe = rng.range(3, 40);
    let hot = rng.range(1, universe.min(6));
    let mc = max_cost.max(1);
    let mut cur_max = max_cost;
    for _ in 0..ops {
        let key = if rng.chance(1, 3) { rng.below(hot) } else { rng.below(universe) };
        match rng.below(100) {
            0..=59 => {
                // cost chosen relative to max_cost and what is left
                let cap = p.cap();
                let cost: i64 = match rng.below(12) {
                    0 => 0,
                    1 => 1,
                    2 => (mc / 5).max(1),
                    3 => cap.max(0),                 // exactly fills
                    4 => cap.max(0) + 1,             // one over
                    5 => cur_max.max(0),             // the whole cache
                    6 => cur_max.max(0) + 1,         // oversize
                    7 => (mc / 2).max(1),            // needs several victims
                    8 => rng.range(1, mc as u64) as i64,
                    _ => rng.range(1, (mc as u64 / 4).max(1)) as i64,
                };
                verif::obs_drain();
                let res = catch(|| p.add(key, cost));
                let (inc, samples) = drain_add_obs();
                let inc = inc.unwrap_or_else(|| p.estimate(key));
                match res {
                    Some((victims, added)) => {
                        let v = match &victims {
                            None => "none".to_string(),
                            Some(v) => pairs(v),
                        };
                        out.line(&format!(
                            "pol.add {} {} inc={} obs={} | added={} victims={} {}",
                            key,
                            cost,
                            inc,
                            obs_str(&samples),
                            added as u8,
                            v,
                            snap_str(&p.snapshot(), &metrics)
                        ));
                    }
                    None => {
                        out.line(&format!("pol.add {} {} inc={} obs={} | PANIC", key, cost, inc, obs_str(&samples)));
                        return;
                    }
                }
            }
            60..=67 => {
                p.remove(key);
                out.line(&format!("pol.remove {} | {}", key, snap_str(&p.snapshot(), &metrics)));
            }
            68..=77 => {
                let cost = rng.range(0, (mc as u64).min(60)) as i64;
                p.update(key, cost);
                out.line(&format!("pol.update {} {} | {}", key, cost, snap_str(&p.snapshot(), &metrics)));
            }
            78..=80 => {
                let used = p.snapshot().used;
                let m = match rng.below(4) {
                    0 => (used / 2).max(1),
                    1 => used + rng.range(0, 10) as i64,
                    2 => max_cost,
                    _ => rng.range(1, (2 * mc) as u64) as i64,
                };
                p.update_max_cost(m);
                cur_max = m;
                out.line(&format!("pol.maxcost {} | {}", m, snap_str(&p.snapshot(), &metrics)));
            }
            81 => {
                p.clear();
                out.line(&format!("pol.clear | {}", snap_str(&p.snapshot(), &metrics)));
            }
            82..=86 => out.line(&format!("pol.cost {} | {}", key, p.cost(key))),
            87..=89 => out.line(&format!("pol.cap | {}", p.cap())),
            _ => {
                // popularity: a burst of accesses, hot keys more often
                let n = rng.range(1, 12);
                let keys: Vec<u64> = (0..n)
                    .map(|_| if rng.chance(2, 3) { rng.below(hot) } else { rng.below(universe) })
                    .collect();
                p.record(keys.clone());
                out.line(&format!("pol.record {}", csv(&keys)));
            }
        }
    }
    verif::obs_enable(false);
}
