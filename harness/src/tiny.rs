//! Traces for the count-min sketch, the Bloom filter and TinyLFU (C13, C14).
use crate::rng::Rng;
use crate::{bit_positions, catch, csv, csvs, Out};
use stretto::verif::{VBloom, VRow, VTinyLFU};

fn u8s(v: &[u8]) -> String {
    csv(&v.iter().map(|b| *b as u64).collect::<Vec<_>>())
}

/// every byte value × both nibbles, exhaustively, through the real `CountMinRow`
pub fn rows_exhaustive(out: &mut Out) -> usize {
    let mut n = 0;
    for b in 0u32..256 {
        let bytes = [b as u8];
        for i in 0..2u64 {
            let row = VRow::from_bytes(&bytes);
            out.line(&format!("row {} get {} | {}", u8s(&bytes), i, row.get(i)));
            let mut row = VRow::from_bytes(&bytes);
            match catch(|| {
                row.increment(i);
                row.bytes()
            }) {
                Some(after) => out.line(&format!("row {} inc {} | {}", u8s(&bytes), i, u8s(&after))),
                None => out.line(&format!("row {} inc {} | PANIC", u8s(&bytes), i)),
            }
            n += 2;
        }
        let mut row = VRow::from_bytes(&bytes);
        row.reset();
        out.line(&format!("row {} reset | {}", u8s(&bytes), u8s(&row.bytes())));
        n += 1;
    }
    n
}

/// random multi-byte rows
pub fn rows_random(out: &mut Out, rng: &mut Rng, cases: usize) {
    for _ in 0..cases {
        let len = rng.range(1, 6) as usize;
        let bytes: Vec<u8> = (0..len).map(|_| rng.next() as u8).collect();
        let i = rng.below(2 * len as u64);
        let row = VRow::from_bytes(&bytes);
        out.line(&format!("row {} get {} | {}", u8s(&bytes), i, row.get(i)));
        let mut row = VRow::from_bytes(&bytes);
        row.increment(i);
        out.line(&format!("row {} inc {} | {}", u8s(&bytes), i, u8s(&row.bytes())));
        let mut row = VRow::from_bytes(&bytes);
        row.reset();
        out.line(&format!("row {} reset | {}", u8s(&bytes), u8s(&row.bytes())));
    }
}

/// inverse of the 64-bit finalizer the Bloom filter applies to a hash before deriving its probes: with
/// it the structured families below can be aimed at the *mixed* hash (low bits zero, high bits zero, ...)
pub fn unmix64(x: u64) -> u64 {
    let mut x = x;
    x = (x ^ (x >> 31) ^ (x >> 62)).wrapping_mul(0x3196_42b2_d24d_8ec3);
    x = (x ^ (x >> 27) ^ (x >> 54)).wrapping_mul(0x96de_1b17_3f11_9089);
    x ^ (x >> 30) ^ (x >> 60)
}

/// hash families: uniformly mixed, low bits only, high bits only, a few fixed values; families 5.. are
/// the same patterns as seen *after* the filter's mixing step
pub fn gen_hash(rng: &mut Rng, family: u64, universe: u64) -> u64 {
    if family >= 5 {
        return unmix64(gen_hash(rng, family - 4, universe));
    }
    let x = rng.below(universe);
    match family {
        0 => Rng::new(x).next(),                // mixed, but from a small universe so repeats happen
        1 => x,                                 // low bits only
        2 => x << 48,                           // high bits only
        3 => (x << 56) | x,                     // both ends
        _ => [0u64, u64::MAX, 1 << 63, 0x5555_5555_5555_5555][x as usize % 4],
    }
}

pub fn bloom_trace(out: &mut Out, rng: &mut Rng, ops: usize) {
    let caps = [1usize, 7, 64, 100, 511, 512, 513, 1000, 3000];
    let fps = [0.01f64, 0.1, 0.001, 0.3];
    let cap = *rng.pick(&caps);
    let fp = *rng.pick(&fps);
    let mut b = VBloom::new(cap, fp);
    let (exp, _size, k, _shift) = b.params();
    out.line(&format!("# bloom cap={} fp={}", cap, fp));
    out.line(&format!("bloom.init exp={} k={}", exp, k));
    let family = rng.below(9);
    let universe = rng.range(4, 200);
    for _ in 0..ops {
        let h = gen_hash(rng, family, universe);
        match rng.below(20) {
            0..=6 => {
                b.add(h);
                out.line(&format!("bloom.add {} | bits={}", h, csv(&bit_positions(&b.words()))));
            }
            7..=11 => {
                let added = b.contains_or_add(h);
                out.line(&format!(
                    "bloom.coa {} | added={} bits={}",
                    h,
                    added as u8,
                    csv(&bit_positions(&b.words()))
                ));
            }
            12..=18 => {
                out.line(&format!("bloom.has {} | {}", h, b.contains(h) as u8));
            }
            _ => {
                if rng.chance(1, 2) {
                    b.reset();
                } else {
                    b.clear();
                }
                out.line(&format!("bloom.reset | bits={}", csv(&bit_positions(&b.words()))));
            }
        }
    }
}

fn tiny_state(t: &VTinyLFU) -> String {
    let s = t.snapshot();
    let rows: Vec<Vec<u64>> = s.rows.iter().map(|r| r.iter().map(|b| *b as u64).collect()).collect();
    format!("rows={} bits={} w={}", csvs(&rows), csv(&bit_positions(&s.bloom_words)), s.w)
}

/// one TinyLFU life: `num_counters` from the sweep, keys from a small universe so that counts
/// reach saturation and resets happen.
pub fn tiny_trace(out: &mut Out, rng: &mut Rng, num_counters: usize, ops: usize) {
    let mut t = match VTinyLFU::new(num_counters) {
        Ok(t) => t,
        Err(_) => {
            out.line(&format!("# tiny num_counters={} rejected", num_counters));
            return;
        }
    };
    let s = t.snapshot();
    out.line(&format!("# tiny num_counters={}", num_counters));
    out.line(&format!(
        "tiny.init num_counters={} width={} mask={} seeds={} exp={} k={} samples={}",
        num_counters,
        s.rows.get(0).map_or(0, |r| r.len()),
        s.mask,
        csv(&s.seeds),
        s.bloom_params.0,
        s.bloom_params.2,
        s.samples
    ));
    let family = rng.below(9);
    let universe = rng.range(1, 12);
    for _ in 0..ops {
        let h = gen_hash(rng, family, universe);
        match rng.below(20) {
            0..=11 => match catch(|| t.increment(h)) {
                Some(()) => out.line(&format!("tiny.inc {} | {}", h, tiny_state(&t))),
                None => {
                    out.line(&format!("tiny.inc {} | PANIC", h));
                    return;
                }
            },
            // a whole batch at once, as the policy worker hands it over (`TinyLFU::increments`)
            12 => {
                let n = rng.range(1, 9) as usize;
                let hs: Vec<u64> = (0..n).map(|_| gen_hash(rng, family, universe)).collect();
                match catch(|| t.increments(hs.clone())) {
                    Some(()) => out.line(&format!("tiny.incs {} | {}", crate::csv(&hs), tiny_state(&t))),
                    None => {
                        out.line(&format!("tiny.incs {} | PANIC", crate::csv(&hs)));
                        return;
                    }
                }
            }
            13..=18 => match catch(|| t.estimate(h)) {
                Some(e) => out.line(&format!("tiny.est {} | {}", h, e)),
                None => {
                    out.line(&format!("tiny.est {} | PANIC", h));
                    return;
                }
            },
            _ => {
                t.clear();
                out.line(&format!("tiny.clear | {}", tiny_state(&t)));
            }
        }
    }
}

/// False-positive measurement on the real filter (an implementation-vs-oracle test, not a proof):
/// add `n` uniformly mixed hashes to a filter sized for `(n, p)`, probe `probes` fresh ones.
/// Returns (false positives, probes, false negatives).
pub fn fp_measure(rng: &mut Rng, n: usize, p: f64, probes: usize) -> (usize, usize, usize) {
    let mut b = VBloom::new(n, p);
    let mut added = Vec::with_capacity(n);
    for _ in 0..n {
        let h = rng.next();
        b.add(h);
        added.push(h);
    }
    let fneg = added.iter().filter(|h| !b.contains(**h)).count();
    let mut fp = 0;
    for _ in 0..probes {
        // fresh 64-bit values: a collision with an added one has probability ~ n / 2^64
        if b.contains(rng.next()) {
            fp += 1;
        }
    }
    (fp, probes, fneg)
}

/// false positives on a structured family of hashes: `make(j)` for j in 0..universe; `n` distinct
/// members (chosen by the PRNG) are added, every other member is probed
pub fn fp_family(rng: &mut Rng, n: usize, p: f64, universe: u64, make: &dyn Fn(u64) -> u64) -> (usize, usize, usize) {
    let mut b = VBloom::new(n, p);
    let mut chosen = std::collections::HashSet::new();
    while chosen.len() < n {
        chosen.insert(rng.below(universe));
    }
    for j in &chosen {
        b.add(make(*j));
    }
    let fneg = chosen.iter().filter(|j| !b.contains(make(**j))).count();
    let mut fp = 0;
    let mut probes = 0;
    for j in 0..universe {
        if chosen.contains(&j) {
            continue;
        }
        probes += 1;
        if b.contains(make(j)) {
            fp += 1;
        }
    }
    (fp, probes, fneg)
}
