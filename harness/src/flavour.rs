//! C19: the same scripted history, with quiescence (`wait()`) after every operation, run against
//! `Cache` and against `AsyncCache` on several executors; every observable — return values, lookups,
//! remaining TTLs, callbacks, metrics, resident entries, charges — is compared step by step.
//! This is an implementation-vs-implementation (differential) test; `Cache` itself is tied to the
//! Lean model by the stepped correspondence.
use crate::cache::{mk_key, snap_str, RecCallback, SplitKeyBuilder, TableCoster, TableValidator, SEC};
use crate::live::SlowWorkerHasher;
use crate::rng::Rng;
use std::time::Duration;
use stretto::verif;
use stretto::{AsyncCache, AsyncCacheBuilder, Cache, CacheBuilder};

#[derive(Clone, Debug)]
pub enum Op {
    Insert { idx: u64, conf: u64, val: u64, cost: i64, ttl: u64, only: bool },
    Get { idx: u64, conf: u64 },
    GetMut { idx: u64, conf: u64, val: u64 },
    GetTtl { idx: u64, conf: u64 },
    Remove { idx: u64, conf: u64 },
    Clear,
    MaxCost(i64),
    Clock(u64),
    Len,
    Close,
}

#[derive(Clone, Debug)]
pub struct FCfg {
    pub num_counters: usize,
    pub max_cost: i64,
    pub buf_size: usize,
    pub buf_items: usize,
    pub metrics: bool,
    pub ignore_internal: bool,
    pub coster: u8,
    pub validator: u8,
    pub slow_us: u64,
    /// cleanup interval in real milliseconds (0 = an hour: the ticker never fires)
    pub tick_ms: u64,
}

pub fn gen_script(rng: &mut Rng, n: usize) -> (FCfg, Vec<Op>) {
    let cfg = FCfg {
        num_counters: *rng.pick(&[16usize, 64, 256]),
        max_cost: *rng.pick(&[100i64, 300, 1000, 100000]),
        buf_size: *rng.pick(&[2usize, 8, 64]),
        buf_items: *rng.pick(&[0usize, 1, 4, 64]),
        metrics: true,
        ignore_internal: rng.chance(1, 2),
        coster: rng.below(2) as u8,
        validator: *rng.pick(&[0u8, 0, 2, 3]),
        slow_us: *rng.pick(&[0u64, 200, 400]),
        tick_ms: *rng.pick(&[0u64, 0, 15]),
    };
    let universe = rng.range(2, 9);
    let unit = (cfg.max_cost / 6).max(1);
    let mut ops = Vec::new();
    let mut val = 1;
    for _ in 0..n {
        let idx = rng.below(universe);
        let conf = rng.below(3);
        let op = match rng.below(24) {
            0..=8 => {
                val += 1;
                let cost = match rng.below(5) {
                    0 => 0,
                    1 => 1,
                    2 => unit,
                    3 => cfg.max_cost + 1,
                    _ => rng.range(1, (2 * unit) as u64) as i64,
                };
                let ttl = if rng.chance(1, 3) { *rng.pick(&[SEC / 2, SEC, 2 * SEC + 7, 3600 * SEC]) } else { 0 };
                Op::Insert { idx, conf, val, cost, ttl, only: rng.chance(1, 8) }
            }
            9..=13 => Op::Get { idx, conf },
            14 => {
                val += 1;
                Op::GetMut { idx, conf, val }
            }
            15..=16 => Op::GetTtl { idx, conf },
            17..=18 => Op::Remove { idx, conf },
            19 => Op::Clear,
            20 => Op::MaxCost(*rng.pick(&[cfg.max_cost, cfg.max_cost / 2 + 1, cfg.max_cost * 2])),
            21..=22 => Op::Clock(*rng.pick(&[1u64, SEC / 2, SEC, 2 * SEC])),
            _ => Op::Len,
        };
        ops.push(op);
    }
    // expiry window: a key's TTL runs out and (when no ticker runs) it stays unswept; then it is looked up,
    // written conditionally and unconditionally — both flavours must treat the dead entry alike
    if rng.chance(1, 2) {
        let at = rng.below(ops.len() as u64 + 1) as usize;
        let idx = rng.below(universe);
        let conf = rng.below(3);
        let block = vec![
            Op::Insert { idx, conf, val: val + 1, cost: 1, ttl: SEC / 2, only: false },
            Op::Clock(SEC),
            Op::Get { idx, conf },
            Op::Insert { idx, conf, val: val + 2, cost: 1, ttl: 0, only: true },
            Op::Get { idx, conf },
            Op::GetTtl { idx, conf },
            Op::Insert { idx, conf, val: val + 3, cost: 1, ttl: 2 * SEC, only: false },
            Op::GetTtl { idx, conf },
        ];
        val += 3;
        for (i, op) in block.into_iter().enumerate() {
            ops.insert(at + i, op);
        }
    }
    ops.push(Op::Close);
    ops.push(Op::Get { idx: 0, conf: 0 });
    ops.push(Op::Insert { idx: 0, conf: 0, val: val + 1, cost: 1, ttl: 0, only: false });
    (cfg, ops)
}

const START: u64 = 1_700_000_000 * SEC + 123_456_789;

type SCache = Cache<u64, u64, SplitKeyBuilder, TableCoster, TableValidator, RecCallback, SlowWorkerHasher>;
type ACache = AsyncCache<u64, u64, SplitKeyBuilder, TableCoster, TableValidator, RecCallback, SlowWorkerHasher>;

fn dur(ns: u64) -> Duration {
    Duration::from_nanos(ns)
}

/// observable result of one step: the call's answer, the callbacks made, the quiescent snapshot
fn obs(ans: String, cb: &RecCallback, snap: String) -> String {
    // the callbacks of one step are compared as a multiset: a sweep reports the keys of a bucket in
    // hash-map order
    let d = cb.drain_str();
    let mut toks: Vec<&str> = d.split(',').collect();
    toks.sort();
    format!("{} cbs={} {}", ans, toks.join(","), snap)
}

fn cleanup_duration(cfg: &FCfg) -> Duration {
    if cfg.tick_ms == 0 {
        Duration::from_secs(3600)
    } else {
        Duration::from_millis(cfg.tick_ms)
    }
}

/// every lookup that was kept for the policy has been applied to the estimator: the queue is empty and
/// the access counter `w` (which restarts at every aging reset) agrees with the `gets_kept` counter.
/// Admission decisions depend on the estimates, so both flavours are only compared once the policy
/// worker has caught up.
fn policy_caught_up(s: &verif::CacheSnap) -> bool {
    let kept = s.metrics.map_or(0, |m| m[10]);
    let samples = s.policy.tiny.samples.max(1) as u64;
    s.policy_queue_len == 0 && s.policy.tiny.w as u64 == kept % samples
}

/// no expiry bucket that is due at virtual time `now` is left: the ticker has caught up
fn swept(s: &verif::CacheSnap, now: u64) -> bool {
    s.store.buckets.iter().all(|(b, _)| *b > (now / SEC) as i64)
}

fn strip_seeds(s: &str) -> String {
    s.to_string()
}

pub fn run_sync(cfg: &FCfg, ops: &[Op]) -> (Vec<String>, [u64; 4]) {
    verif::clock::set_manual(START);
    let mut now = START;
    let cb = RecCallback::default();
    let c: SCache = CacheBuilder::<u64, u64>::new(cfg.num_counters, cfg.max_cost)
        .set_key_builder(SplitKeyBuilder)
        .set_coster(TableCoster(cfg.coster))
        .set_update_validator(TableValidator(cfg.validator))
        .set_callback(cb.clone())
        .set_hasher(SlowWorkerHasher { micros: cfg.slow_us })
        .set_buffer_size(cfg.buf_size)
        .set_buffer_items(cfg.buf_items)
        .set_metrics(cfg.metrics)
        .set_ignore_internal_cost(cfg.ignore_internal)
        .set_cleanup_duration(cleanup_duration(cfg))
        .finalize()
        .expect("sync cache");
    let seeds = verif::cache_snapshot(&c, |v| *v).policy.tiny.seeds;
    let mut out = Vec::new();
    for op in ops {
        let ans = match op {
            Op::Insert { idx, conf, val, cost, ttl, only } => {
                let k = mk_key(*idx, *conf);
                let r = if *only { c.try_insert_if_present(k, *val, *cost) } else { c.try_insert_with_ttl(k, *val, *cost, dur(*ttl)) };
                format!("insert={:?}", r.ok())
            }
            Op::Get { idx, conf } => format!("get={:?}", c.get(&mk_key(*idx, *conf)).map(|v| *v.value())),
            Op::GetMut { idx, conf, val } => format!(
                "getmut={:?}",
                c.get_mut(&mk_key(*idx, *conf)).map(|mut r| {
                    let old = *r.value();
                    r.write(*val);
                    old
                })
            ),
            Op::GetTtl { idx, conf } => format!("ttl={:?}", c.get_ttl(&mk_key(*idx, *conf))),
            Op::Remove { idx, conf } => format!("remove={:?}", c.try_remove(&mk_key(*idx, *conf)).is_ok()),
            Op::Clear => format!("clear={:?}", c.clear().is_ok()),
            Op::MaxCost(m) => {
                c.update_max_cost(*m);
                format!("maxcost={}", c.max_cost())
            }
            Op::Clock(d) => {
                now += d;
                verif::clock::set_manual(now);
                "clock".to_string()
            }
            Op::Len => format!("len={}", c.len()),
            Op::Close => format!("close={:?}", c.close().is_ok()),
        };
        // let the processor take the item out of the buffer before the barrier is asked for
        if cfg.slow_us > 0 {
            std::thread::sleep(Duration::from_micros(cfg.slow_us / 2 + (out.len() as u64 * 37) % cfg.slow_us));
        }
        let w = c.wait().is_ok();
        {
            let t0 = std::time::Instant::now();
            let mut last = usize::MAX;
            loop {
                let sn = verif::cache_snapshot(&c, |v| *v);
                if sn.closed || policy_caught_up(&sn) {
                    break;
                }
                // (a clear() can separate the two counters for good: then settle for a quiet worker)
                if t0.elapsed() > Duration::from_millis(30) && sn.policy_queue_len == 0 && sn.policy.tiny.w == last {
                    break;
                }
                last = sn.policy.tiny.w;
                std::thread::sleep(Duration::from_micros(300));
                if t0.elapsed() > Duration::from_secs(2) {
                    break;
                }
            }
        }
        if cfg.tick_ms > 0 && w {
            // let the real-time ticker catch up with the virtual clock before looking
            for _ in 0..200 {
                if swept(&verif::cache_snapshot(&c, |v| *v), now) {
                    break;
                }
                std::thread::sleep(Duration::from_millis(cfg.tick_ms));
                let _ = c.wait();
            }
            // the buckets leave the index before their entries leave the store: a barrier after the
            // tick makes sure the whole sweep (removals and callbacks) is behind us
            let _ = c.wait();
        }
        let snap = snap_str(&verif::cache_snapshot(&c, |v| *v));
        out.push(obs(format!("{} wait={}", ans, w), &cb, strip_seeds(&snap)));
    }
    let _ = c.close();
    (out, seeds)
}

pub enum Exec {
    /// one OS thread per background task, `futures::executor::block_on` everywhere
    Threads,
    /// tokio multi-thread pool
    TokioMulti,
    /// tokio current-thread runtime: the background tasks only run while the client awaits
    TokioSingle,
}

async fn step_async(c: &ACache, op: &Op, now: &mut u64) -> String {
    match op {
        Op::Insert { idx, conf, val, cost, ttl, only } => {
            let k = mk_key(*idx, *conf);
            let r = if *only { c.try_insert_if_present(k, *val, *cost).await } else { c.try_insert_with_ttl(k, *val, *cost, dur(*ttl)).await };
            format!("insert={:?}", r.ok())
        }
        Op::Get { idx, conf } => format!("get={:?}", c.get(&mk_key(*idx, *conf)).await.map(|v| *v.value())),
        Op::GetMut { idx, conf, val } => format!(
            "getmut={:?}",
            c.get_mut(&mk_key(*idx, *conf)).await.map(|mut r| {
                let old = *r.value();
                r.write(*val);
                old
            })
        ),
        Op::GetTtl { idx, conf } => format!("ttl={:?}", c.get_ttl(&mk_key(*idx, *conf))),
        Op::Remove { idx, conf } => format!("remove={:?}", c.try_remove(&mk_key(*idx, *conf)).await.is_ok()),
        Op::Clear => format!("clear={:?}", c.clear().await.is_ok()),
        Op::MaxCost(m) => {
            c.update_max_cost(*m);
            format!("maxcost={}", c.max_cost())
        }
        Op::Clock(d) => {
            *now += d;
            verif::clock::set_manual(*now);
            "clock".to_string()
        }
        Op::Len => format!("len={}", c.len()),
        Op::Close => format!("close={:?}", c.close().await.is_ok()),
    }
}

fn async_builder(cfg: &FCfg, cb: &RecCallback) -> AsyncCacheBuilder<u64, u64, SplitKeyBuilder, TableCoster, TableValidator, RecCallback, SlowWorkerHasher> {
    AsyncCacheBuilder::<u64, u64>::new(cfg.num_counters, cfg.max_cost)
        .set_key_builder(SplitKeyBuilder)
        .set_coster(TableCoster(cfg.coster))
        .set_update_validator(TableValidator(cfg.validator))
        .set_callback(cb.clone())
        .set_hasher(SlowWorkerHasher { micros: cfg.slow_us })
        .set_buffer_size(cfg.buf_size)
        .set_buffer_items(cfg.buf_items)
        .set_metrics(cfg.metrics)
        .set_ignore_internal_cost(cfg.ignore_internal)
        .set_cleanup_duration(cleanup_duration(cfg))
}

async fn drive(c: ACache, cb: RecCallback, ops: Vec<Op>, slow_us: u64, tick_ms: u64) -> (Vec<String>, [u64; 4]) {
    let seeds = verif::async_cache_snapshot(&c, |v| *v).policy.tiny.seeds;
    let mut now = START;
    let mut out = Vec::new();
    for op in &ops {
        let ans = step_async(&c, op, &mut now).await;
        if slow_us > 0 {
            // (a plain sleep: on the current-thread runtime the background tasks do not run meanwhile)
            std::thread::sleep(Duration::from_micros(slow_us / 2 + (out.len() as u64 * 37) % slow_us));
        }
        let w = c.wait().await.is_ok();
        {
            let t0 = std::time::Instant::now();
            let mut last = usize::MAX;
            loop {
                let sn = verif::async_cache_snapshot(&c, |v| *v);
                if sn.closed || policy_caught_up(&sn) {
                    break;
                }
                if t0.elapsed() > Duration::from_millis(30) && sn.policy_queue_len == 0 && sn.policy.tiny.w == last {
                    break;
                }
                last = sn.policy.tiny.w;
                // yield to the policy task (it may share this thread), then give it real time
                let _ = c.wait().await;
                std::thread::sleep(Duration::from_micros(300));
                if t0.elapsed() > Duration::from_secs(2) {
                    break;
                }
            }
        }
        if tick_ms > 0 && w {
            for _ in 0..200 {
                if swept(&verif::async_cache_snapshot(&c, |v| *v), now) {
                    break;
                }
                std::thread::sleep(Duration::from_millis(tick_ms));
                let _ = c.wait().await;
            }
            let _ = c.wait().await;
        }
        let snap = snap_str(&verif::async_cache_snapshot(&c, |v| *v));
        out.push(obs(format!("{} wait={}", ans, w), &cb, strip_seeds(&snap)));
    }
    let _ = c.close().await;
    (out, seeds)
}

pub fn run_async(cfg: &FCfg, ops: &[Op], exec: &Exec) -> (Vec<String>, [u64; 4]) {
    verif::clock::set_manual(START);
    let cb = RecCallback::default();
    let ops = ops.to_vec();
    match exec {
        Exec::Threads => {
            let c: ACache = async_builder(cfg, &cb)
                .finalize(|fut| {
                    std::thread::spawn(move || futures::executor::block_on(fut));
                })
                .expect("async cache");
            futures::executor::block_on(drive(c, cb, ops, cfg.slow_us, cfg.tick_ms))
        }
        Exec::TokioMulti => {
            let rt = tokio::runtime::Builder::new_multi_thread().worker_threads(4).build().expect("tokio");
            let cfg = cfg.clone();
            rt.block_on(async move {
                let c: ACache = async_builder(&cfg, &cb).finalize(tokio::spawn).expect("async cache");
                drive(c, cb, ops, cfg.slow_us, cfg.tick_ms).await
            })
        }
        Exec::TokioSingle => {
            let rt = tokio::runtime::Builder::new_current_thread().build().expect("tokio");
            let cfg = cfg.clone();
            rt.block_on(async move {
                let c: ACache = async_builder(&cfg, &cb).finalize(tokio::spawn).expect("async cache");
                drive(c, cb, ops, cfg.slow_us, cfg.tick_ms).await
            })
        }
    }
}

pub struct FlavourResult {
    pub scripts: usize,
    pub steps: usize,
    pub mismatches: usize,
    pub skipped_seed_mismatch: usize,
    pub detail: String,
    /// one entry per script that disagreed (its first disagreeing step)
    pub details: Vec<String>,
}

/// the policy-queue capacity differs between the flavours (bounded 3 vs unbounded): `pq=` and the
/// gets-kept / gets-dropped split are expected to differ and are masked out of the comparison
fn mask(s: &str) -> String {
    let mut out = Vec::new();
    for tok in s.split_whitespace() {
        if tok.starts_with("pq=") {
            continue;
        }
        if let Some(m) = tok.strip_prefix("met=") {
            let parts: Vec<&str> = m.split(',').collect();
            if parts.len() == 11 {
                let kept_plus_dropped: u64 = parts[9].parse::<u64>().unwrap_or(0) + parts[10].parse::<u64>().unwrap_or(0);
                out.push(format!("met={},gets={}", parts[..9].join(","), kept_plus_dropped));
                continue;
            }
        }
        out.push(tok.to_string());
    }
    out.join(" ")
}

pub fn differential(rng: &mut Rng, scripts: usize, len: usize) -> FlavourResult {
    crate::live::mark_client_pub();
    let mut res = FlavourResult { scripts: 0, steps: 0, mismatches: 0, skipped_seed_mismatch: 0, detail: String::new(), details: Vec::new() };
    for si in 0..scripts {
        let (cfg, ops) = gen_script(rng, len);
        let exec = match si % 3 {
            0 => Exec::Threads,
            1 => Exec::TokioMulti,
            _ => Exec::TokioSingle,
        };
        let exec_name = match exec {
            Exec::Threads => "thread-per-task",
            Exec::TokioMulti => "tokio-multi-thread",
            Exec::TokioSingle => "tokio-current-thread",
        };
        // the sketch seeds derive from the wall-clock second: both instances must have drawn the same
        let mut attempt = 0;
        let (s_out, a_out) = loop {
            let (s_out, s_seeds) = run_sync(&cfg, &ops);
            let (a_out, a_seeds) = run_async(&cfg, &ops, &exec);
            if s_seeds == a_seeds || attempt >= 3 {
                if s_seeds != a_seeds {
                    res.skipped_seed_mismatch += 1;
                }
                break (s_out, a_out);
            }
            attempt += 1;
        };
        res.scripts += 1;
        for (i, (s, a)) in s_out.iter().zip(a_out.iter()).enumerate() {
            res.steps += 1;
            if mask(s) != mask(a) {
                res.mismatches += 1;
                let d = format!(
                    "script {} on {} ({:?}), step {} {:?}: Cache gave [{}] but AsyncCache gave [{}]",
                    si, exec_name, cfg, i, ops[i], mask(s), mask(a)
                );
                if res.detail.is_empty() {
                    res.detail = d.clone();
                }
                if res.details.len() < 16 {
                    res.details.push(d);
                }
                break;
            }
        }
    }
    verif::clock::set_real();
    res
}
