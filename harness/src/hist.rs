//! Histogram traces (C17: "the life-expectancy histogram, whose count equals the sum of its
//! buckets"; `Histogram::mean / percentile / Display` are the observation points). Only the public
//! API is used: the state is read back from `Display`, `mean()` and `percentile()`.
use crate::rng::Rng;
use crate::{catch, csv, Out};
use stretto::Histogram;

fn state(h: &Histogram, bounds: &[i64]) -> String {
    let s = format!("{}", h);
    let mut min = 0i64;
    let mut max = 0i64;
    let mut count = 0i64;
    let mut buckets = vec![0i64; bounds.len() + 1];
    let mut unparsed = 0;
    for line in s.lines() {
        let line = line.trim();
        if let Some(x) = line.strip_prefix("Min value: ") {
            min = x.parse().unwrap_or(i64::MIN);
        } else if let Some(x) = line.strip_prefix("Max value: ") {
            max = x.parse().unwrap_or(i64::MIN);
        } else if let Some(x) = line.strip_prefix("Count: ") {
            count = x.parse().unwrap_or(i64::MIN);
        } else if line.starts_with('[') {
            // "[lb, ub) ct page% cum%"
            let toks: Vec<&str> = line.split_whitespace().collect();
            if toks.len() >= 3 {
                let ub = toks[1].trim_end_matches(')');
                let ct: i64 = toks[2].parse().unwrap_or(i64::MIN);
                let idx = if ub == "infinity" {
                    Some(bounds.len())
                } else {
                    ub.parse::<i64>().ok().and_then(|u| bounds.iter().position(|b| *b == u))
                };
                match idx {
                    Some(i) => buckets[i] = ct,
                    None => unparsed += 1,
                }
            }
        }
    }
    format!(
        "count={} min={} max={} mean={} buckets={} p50={} p75={} unparsed={}",
        count,
        min,
        max,
        h.mean().to_bits(),
        csv(&buckets),
        h.percentile(0.5) as i64,
        h.percentile(0.75) as i64,
        unparsed
    )
}

/// one histogram life: strictly increasing positive bounds, values around them
pub fn hist_trace(out: &mut Out, rng: &mut Rng, ops: usize) {
    let bounds: Vec<i64> = match rng.below(3) {
        // the life-expectancy bounds of the metrics: powers of two
        0 => (0..16).map(|i| 1i64 << i).collect(),
        1 => {
            let n = rng.range(1, 10);
            let mut b = Vec::new();
            let mut x = rng.range(1, 5) as i64;
            for _ in 0..n {
                b.push(x);
                x += rng.range(1, 20) as i64;
            }
            b
        }
        _ => vec![rng.range(1, 100) as i64],
    };
    let h = Histogram::new(bounds.iter().map(|b| *b as f64).collect());
    out.line(&format!("h.new {} | {}", csv(&bounds), state(&h, &bounds)));
    for _ in 0..ops {
        match rng.below(20) {
            0 => {
                h.clear();
                out.line(&format!("h.clear | {}", state(&h, &bounds)));
            }
            _ => {
                let b = *rng.pick(&bounds);
                let v = match rng.below(8) {
                    0 => b - 1,
                    1 => b,
                    2 => b + 1,
                    3 => 0,
                    4 => *bounds.last().unwrap() + rng.range(0, 1000) as i64,
                    5 => -(rng.range(1, 5) as i64),
                    _ => rng.range(0, (*bounds.last().unwrap() as u64) + 3) as i64,
                };
                match catch(|| h.update(v)) {
                    Some(()) => out.line(&format!("h.update {} | {}", v, state(&h, &bounds))),
                    None => {
                        out.line(&format!("h.update {} | PANIC", v));
                        return;
                    }
                }
            }
        }
    }
}
