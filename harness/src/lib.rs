//! Correspondence harness: drives the real stretto crate (built from /repo's working tree with
//! `--cfg transparencies_stretto_verif`) and prints line-protocol traces for the Lean model driver.
pub mod rng;
pub mod tiny;
pub mod policy;
pub mod cache;
pub mod live;
pub mod flavour;
pub mod keys;
pub mod hist;
pub mod invariants;
pub mod acache;

use std::io::Write;

/// Trace sink: buffered stdout or a file.
pub struct Out {
    w: Box<dyn Write>,
    pub lines: usize,
}

impl Out {
    pub fn stdout() -> Self {
        Out { w: Box::new(std::io::BufWriter::new(std::io::stdout())), lines: 0 }
    }
    pub fn file(path: &str) -> Self {
        Out { w: Box::new(std::io::BufWriter::new(std::fs::File::create(path).expect("create trace file"))), lines: 0 }
    }
    pub fn line(&mut self, s: &str) {
        self.lines += 1;
        writeln!(self.w, "{}", s).unwrap();
    }
    pub fn flush(&mut self) {
        self.w.flush().unwrap();
    }
}

pub fn csv<T: std::fmt::Display>(v: &[T]) -> String {
    if v.is_empty() {
        "-".to_string()
    } else {
        v.iter().map(|x| x.to_string()).collect::<Vec<_>>().join(",")
    }
}

pub fn csvs<T: std::fmt::Display>(v: &[Vec<T>]) -> String {
    if v.is_empty() {
        "-".to_string()
    } else {
        v.iter().map(|r| csv(r)).collect::<Vec<_>>().join(";")
    }
}

/// positions of the set bits of a little-endian word vector
pub fn bit_positions(words: &[u64]) -> Vec<u64> {
    let mut out = Vec::new();
    for (wi, w) in words.iter().enumerate() {
        let mut w = *w;
        while w != 0 {
            let b = w.trailing_zeros() as u64;
            out.push(wi as u64 * 64 + b);
            w &= w - 1;
        }
    }
    out
}

/// Run `f`, turning a panic into `None` (the default panic message is silenced).
pub fn catch<T>(f: impl FnOnce() -> T) -> Option<T> {
    std::panic::catch_unwind(std::panic::AssertUnwindSafe(f)).ok()
}

pub fn silence_panics() {
    std::panic::set_hook(Box::new(|_| {}));
}

/// simple argument lookup: `--name value`
pub fn arg(args: &[String], name: &str) -> Option<String> {
    args.iter().position(|a| a == name).and_then(|i| args.get(i + 1).cloned())
}

pub fn arg_u64(args: &[String], name: &str, default: u64) -> u64 {
    arg(args, name).and_then(|s| s.parse().ok()).unwrap_or(default)
}
