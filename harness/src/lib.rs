//! Correspondence harness: drives the real stretto crate (built from /repo's working tree with
//! `--cfg transparencies_stretto_verif`) and prints line-protocol traces for the Lean model driver.
pub mod rng;
pub mod tiny;
pub mod policy;
pub mod cache;
pub mod live;
pub mod live2;
pub mod flavour;
pub mod keys;
pub mod hist;
pub mod invariants;
pub mod acache;

use std::io::Write;

/// Trace sink: buffered stdout or a file.
pub struct Out {
    w: Box<dyn Write>,
    pub lines: usize,
}

impl Out {
    pub fn stdout() -> Self {
        Out { w: Box::new(std::io::BufWriter::new(std::io::stdout())), lines: 0 }
    }
    pub fn file(path: &str) -> Self {
        Out { w: Box::new(std::io::BufWriter::new(std::fs::File::create(path).expect("create trace file"))), lines: 0 }
    }
    pub fn line(&mut self, s: &str) {
        self.lines += 1;
        writeln!(self.w, "{}", s).unwrap();
        if watch::armed() {
            // the watchdog may have to finish the file on our behalf: keep it complete
            self.w.flush().unwrap();
            watch::progress();
        }
    }
    pub fn flush(&mut self) {
        self.w.flush().unwrap();
    }
}

pub fn csv<T: std::fmt::Display>(v: &[T]) -> String {
    if v.is_empty() {
        "-".to_string()
    } else {
        v.iter().map(|x| x.to_string()).collect::<Vec<_>>().join(",")
    }
}

pub fn csvs<T: std::fmt::Display>(v: &[Vec<T>]) -> String {
    if v.is_empty() {
        "-".to_string()
    } else {
        v.iter().map(|r| csv(r)).collect::<Vec<_>>().join(";")
    }
}

/// positions of the set bits of a little-endian word vector
pub fn bit_positions(words: &[u64]) -> Vec<u64> {
    let mut out = Vec::new();
    for (wi, w) in words.iter().enumerate() {
        let mut w = *w;
        while w != 0 {
            let b = w.trailing_zeros() as u64;
            out.push(wi as u64 * 64 + b);
            w &= w - 1;
        }
    }
    out
}

/// Run `f`, turning a panic into `None` (the default panic message is silenced).
pub fn catch<T>(f: impl FnOnce() -> T) -> Option<T> {
    std::panic::catch_unwind(std::panic::AssertUnwindSafe(f)).ok()
}

pub fn silence_panics() {
    std::panic::set_hook(Box::new(|_| {}));
}

/// simple argument lookup: `--name value`
pub fn arg(args: &[String], name: &str) -> Option<String> {
    args.iter().position(|a| a == name).and_then(|i| args.get(i + 1).cloned())
}

pub fn arg_u64(args: &[String], name: &str, default: u64) -> u64 {
    arg(args, name).and_then(|s| s.parse().ok()).unwrap_or(default)
}


/// Watchdog of the stepped generators: when a step of the implementation does not complete (a worker
/// stuck in a blocking receive, a deadlock), the trace so far is completed with a `HANG` line that names
/// the step and the process exits; the driver turns that line into a violation with the trace as the
/// failing input.
pub mod watch {
    use std::io::Write;
    use std::sync::Mutex;
    use std::time::{Duration, Instant};

    struct State {
        path: Option<String>,
        last: Instant,
        note: String,
        limit: Duration,
    }

    static STATE: Mutex<Option<State>> = Mutex::new(None);

    pub fn armed() -> bool {
        STATE.lock().unwrap().is_some()
    }

    pub fn arm(path: Option<String>, limit: Duration) {
        *STATE.lock().unwrap() = Some(State { path, last: Instant::now(), note: "start".into(), limit });
        std::thread::spawn(|| loop {
            std::thread::sleep(Duration::from_millis(250));
            let hang = {
                let g = STATE.lock().unwrap();
                match g.as_ref() {
                    Some(st) if st.last.elapsed() > st.limit => Some((st.path.clone(), st.note.clone(), st.limit)),
                    _ => None,
                }
            };
            if let Some((path, note, limit)) = hang {
                let line = format!("c.hang {} | HANG after={}s", note.replace(' ', "_"), limit.as_secs());
                match path {
                    Some(p) => {
                        if let Ok(mut f) = std::fs::OpenOptions::new().append(true).open(&p) {
                            let _ = writeln!(f, "{}", line);
                        }
                    }
                    None => println!("{}", line),
                }
                std::process::exit(0);
            }
        });
    }

    /// the step about to be taken
    pub fn note(s: &str) {
        if let Some(st) = STATE.lock().unwrap().as_mut() {
            st.note = s.to_string();
            st.last = Instant::now();
        }
    }

    pub fn progress() {
        if let Some(st) = STATE.lock().unwrap().as_mut() {
            st.last = Instant::now();
        }
    }
}
