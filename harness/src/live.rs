//! Live mode (mode B): real worker threads, real client threads, windows widened through the
//! user-supplied pieces (hasher, Coster). These are implementation-vs-oracle tests that support the
//! failing-input search for properties about races; they are not proofs and are reported apart
//! from model disagreements.
use crate::cache::{mk_key, RecCallback, SplitKeyBuilder, TableValidator};
use crate::rng::Rng;
use std::cell::Cell;
use std::collections::hash_map::DefaultHasher;
use std::hash::BuildHasher;
use std::sync::atomic::{AtomicBool, AtomicU64, Ordering};
use std::sync::Arc;
use std::time::{Duration, Instant};
use stretto::{Cache, CacheBuilder, Coster};

thread_local! {
    /// set on client threads: the slow pieces only slow the background workers down
    static IS_CLIENT: Cell<bool> = Cell::new(false);
}

fn mark_client() {
    IS_CLIENT.with(|c| c.set(true));
}

pub fn mark_client_pub() {
    mark_client();
}

/// a deterministic hasher that makes every hash computed on a worker thread take a while
#[derive(Clone, Default)]
pub struct SlowWorkerHasher {
    pub micros: u64,
}

impl BuildHasher for SlowWorkerHasher {
    type Hasher = DefaultHasher;
    fn build_hasher(&self) -> DefaultHasher {
        if self.micros > 0 && !IS_CLIENT.with(|c| c.get()) {
            std::thread::sleep(Duration::from_micros(self.micros));
        }
        DefaultHasher::new()
    }
}

/// Coster that dawdles on client threads (it runs between the closed-check and the buffer send)
#[derive(Clone)]
pub struct SlowCoster {
    pub micros: u64,
}

impl Coster for SlowCoster {
    type Value = u64;
    fn cost(&self, _v: &u64) -> i64 {
        if self.micros > 0 {
            std::thread::sleep(Duration::from_micros(self.micros));
        }
        1
    }
}

type LCache = Cache<u64, u64, SplitKeyBuilder, SlowCoster, TableValidator, RecCallback, SlowWorkerHasher>;

fn build(max_cost: i64, buf: usize, hasher_us: u64, coster_us: u64) -> LCache {
    CacheBuilder::<u64, u64>::new(256, max_cost)
        .set_key_builder(SplitKeyBuilder)
        .set_coster(SlowCoster { micros: coster_us })
        .set_update_validator(TableValidator(0))
        .set_callback(RecCallback::default())
        .set_hasher(SlowWorkerHasher { micros: hasher_us })
        .set_buffer_size(buf)
        .set_buffer_items(64)
        .set_ignore_internal_cost(true)
        .set_cleanup_duration(Duration::from_secs(3600))
        .finalize()
        .expect("cache")
}

pub struct LiveResult {
    pub scenario: &'static str,
    pub rounds: u64,
    pub violations: u64,
    pub detail: String,
}

impl LiveResult {
    pub fn line(&self) -> String {
        format!(
            "live scenario={} rounds={} violations={} detail={}",
            self.scenario,
            self.rounds,
            self.violations,
            if self.detail.is_empty() { "-".to_string() } else { self.detail.replace(' ', "_") }
        )
    }
}

/// C10: `wait()` is a barrier. A client inserts a fresh key into a cache with ample room, calls
/// `wait()`, and must then find the key. The processor is slowed down so that an item is "in
/// flight" (dequeued, not yet applied) for a noticeable time.
pub fn barrier(rounds: u64) -> LiveResult {
    mark_client();
    let c = build(1_000_000, 64, 150, 0);
    let mut violations = 0;
    let mut detail = String::new();
    let mut done = 0;
    for r in 0..rounds {
        let key = mk_key(r + 1, 0);
        let v = r + 1000;
        if !c.insert(key, v, 1) {
            continue;
        }
        done += 1;
        // give the processor time to take the item out of the buffer on some rounds
        if r % 2 == 0 {
            std::thread::sleep(Duration::from_micros(60));
        }
        if c.wait().is_err() {
            continue;
        }
        let got = c.get(&key).map(|x| *x.value());
        if got != Some(v) {
            violations += 1;
            if detail.is_empty() {
                detail = format!("round {}: insert(key {}) returned true, wait() returned Ok, get = {:?}", r, r + 1, got);
            }
        }
    }
    let _ = c.close();
    LiveResult { scenario: "barrier", rounds: done, violations, detail }
}

/// C12: once `close()` has returned Ok, lookups return nothing, even for inserts that raced it.
pub fn close_race(rounds: u64, seed: u64) -> LiveResult {
    mark_client();
    let mut rng = Rng::new(seed);
    let mut violations = 0;
    let mut detail = String::new();
    for r in 0..rounds {
        let c = build(1_000_000, 8, 0, 300);
        let stop = Arc::new(AtomicBool::new(false));
        let inserter = {
            let c = c.clone();
            let stop = stop.clone();
            std::thread::spawn(move || {
                mark_client();
                let mut k = 1u64;
                while !stop.load(Ordering::SeqCst) && k < 64 {
                    // cost 0: the Coster runs between the closed-check and the send
                    let _ = c.try_insert(mk_key(k, 0), k + 500, 0);
                    k += 1;
                }
                k
            })
        };
        std::thread::sleep(Duration::from_micros(200 + rng.below(1500)));
        let closed_ok = c.close().is_ok();
        stop.store(true, Ordering::SeqCst);
        let upto = inserter.join().unwrap_or(1);
        // let a still-running processor finish whatever it has
        std::thread::sleep(Duration::from_millis(2));
        if closed_ok {
            for k in 1..upto {
                let key = mk_key(k, 0);
                let got = c.get(&key).map(|x| *x.value());
                let got_mut = c.get_mut(&key).map(|x| *x.value());
                if got.is_some() || got_mut.is_some() {
                    violations += 1;
                    if detail.is_empty() {
                        detail = format!("round {}: close() returned Ok, then get(key {}) = {:?}, get_mut = {:?}", r, k, got, got_mut);
                    }
                    break;
                }
            }
            if c.insert(mk_key(99, 0), 1, 1) {
                violations += 1;
                if detail.is_empty() {
                    detail = format!("round {}: insert returned true after close() returned Ok", r);
                }
            }
            if c.wait().is_err() || c.clear().is_err() || c.close().is_err() || c.try_remove(&mk_key(1, 0)).is_err() {
                violations += 1;
                if detail.is_empty() {
                    detail = format!("round {}: wait/clear/close/remove after close() did not return Ok", r);
                }
            }
        }
    }
    LiveResult { scenario: "close_race", rounds, violations, detail }
}

/// C10 / C12: `wait()`, `clear()`, inserts and `close()` from different threads: every call returns.
/// A watchdog reports calls that are still blocked long after every other party has finished.
pub fn protocol_storm(rounds: u64, seed: u64) -> LiveResult {
    mark_client();
    let mut rng = Rng::new(seed);
    let mut violations = 0;
    let mut detail = String::new();
    for r in 0..rounds {
        let c = build(1000, 4, 20, 0);
        let mut handles = Vec::new();
        let progress = Arc::new(AtomicU64::new(0));
        for t in 0..3u64 {
            let c = c.clone();
            let progress = progress.clone();
            let delay = rng.below(300);
            handles.push(std::thread::spawn(move || {
                mark_client();
                std::thread::sleep(Duration::from_micros(delay));
                for i in 0..20u64 {
                    match (t + i) % 3 {
                        0 => {
                            let _ = c.try_insert(mk_key(i % 7, 0), i, 1);
                        }
                        1 => {
                            let _ = c.wait();
                        }
                        _ => {
                            if i % 5 == 0 {
                                let _ = c.clear();
                            } else {
                                let _ = c.try_remove(&mk_key(i % 7, 0));
                            }
                        }
                    }
                    progress.fetch_add(1, Ordering::SeqCst);
                }
            }));
        }
        let closer = {
            let c = c.clone();
            let delay = rng.below(2000);
            std::thread::spawn(move || {
                mark_client();
                std::thread::sleep(Duration::from_micros(delay));
                let _ = c.close();
            })
        };
        handles.push(closer);
        let t0 = Instant::now();
        let mut hung = false;
        for h in handles {
            while !h.is_finished() {
                if t0.elapsed() > Duration::from_secs(15) {
                    hung = true;
                    break;
                }
                std::thread::sleep(Duration::from_millis(1));
            }
            if hung {
                std::mem::forget(h);
            } else {
                let _ = h.join();
            }
        }
        if hung {
            violations += 1;
            if detail.is_empty() {
                detail = format!("round {}: a wait()/clear()/close()/remove() call is still blocked 15 s after start (progress {})", r, progress.load(Ordering::SeqCst));
            }
            // the cache of this round is wedged: leak it
            std::mem::forget(c);
            break;
        }
    }
    LiveResult { scenario: "protocol_storm", rounds, violations, detail }
}

/// C20: every operation completes. Threads mix `get_ttl` and `insert_with_ttl` on one key; a
/// watchdog reports a stall (no operation completing for 8 s) — the shard-lock re-entry deadlock.
pub fn ttl_mix(ops_per_thread: u64) -> LiveResult {
    mark_client();
    let c = build(1_000_000, 64, 0, 0);
    let progress = Arc::new(AtomicU64::new(0));
    let mut handles = Vec::new();
    for t in 0..4u64 {
        let c = c.clone();
        let progress = progress.clone();
        handles.push(std::thread::spawn(move || {
            mark_client();
            let key = mk_key(7, 0);
            for i in 0..ops_per_thread {
                if (i + t) % 2 == 0 {
                    let _ = c.get_ttl(&key);
                } else {
                    let _ = c.try_insert_with_ttl(key, i, 1, Duration::from_secs(60));
                }
                progress.fetch_add(1, Ordering::Relaxed);
            }
        }));
    }
    let mut last = 0;
    let mut last_change = Instant::now();
    let total = 4 * ops_per_thread;
    let mut stalled = false;
    loop {
        let p = progress.load(Ordering::Relaxed);
        if p >= total {
            break;
        }
        if p != last {
            last = p;
            last_change = Instant::now();
        } else if last_change.elapsed() > Duration::from_secs(8) {
            stalled = true;
            break;
        }
        std::thread::sleep(Duration::from_millis(5));
    }
    if stalled {
        for h in handles {
            std::mem::forget(h);
        }
        std::mem::forget(c);
        return LiveResult {
            scenario: "ttl_mix",
            rounds: last,
            violations: 1,
            detail: format!("4 threads mixing get_ttl and insert_with_ttl on one key stalled after {} operations: no call completed for 8 s", last),
        };
    }
    for h in handles {
        let _ = h.join();
    }
    let _ = c.close();
    LiveResult { scenario: "ttl_mix", rounds: total, violations: 0, detail: String::new() }
}

fn thread_count() -> usize {
    std::fs::read_dir("/proc/self/task").map(|d| d.count()).unwrap_or(0)
}

/// C12: the background workers terminate after `close()`, and also when every handle is dropped.
pub fn workers_exit(rounds: u64) -> LiveResult {
    mark_client();
    let mut violations = 0;
    let mut detail = String::new();
    for r in 0..rounds {
        let base = thread_count();
        let closing = r % 2 == 0;
        // (a roomy buffer for the busy rounds: thousands of items are still queued at the drop)
        // the busy rounds also slow the workers down (every hash they compute takes 20 µs): the backlog
        // at the moment of the drop does not depend on how fast this machine happens to be
        let c = build(1000, if closing { 8 } else { 16384 }, if closing { 0 } else { 20 }, 0);
        let c2 = c.clone();
        // a handle dropped while the processor is still busy: the workers find their channels
        // disconnected in the middle of the work, not when idle
        // (crossbeam's select! draws from a per-thread generator with a fixed seed: vary the amount of
        // work so that the rounds do not all present the workers with the same sequence of choices)
        let burst = if closing { 10u64 } else { 1500 + (r * 977) % 3000 };
        // crossbeam's select! draws from a per-thread generator with a fixed seed, and every cache has a
        // fresh processor thread: let the processor make a different number of choices in every round
        // before the interesting one, or all rounds would see the same draw
        for i in 0..(r * 5 + r / 2) % 23 {
            let _ = c.insert(mk_key(100 + i, 0), i, 1);
            let _ = c.wait();
        }
        for i in 0..burst {
            let _ = c.insert(mk_key(i % 50, 0), i, 1);
        }
        let with_workers = thread_count();
        if let Ok(f) = std::env::var("VERIF_DEBUG_FILE") {
            use std::io::Write;
            let backlog = stretto::verif::cache_snapshot(&c, |v| *v).insert_buf_len;
            if let Ok(mut fh) = std::fs::OpenOptions::new().create(true).append(true).open(f) {
                let _ = writeln!(fh, "round {} closing {} burst {} backlog {}", r, closing, burst, backlog);
            }
        }
        if closing {
            let _ = c.close();
        }
        drop(c);
        drop(c2);
        let t0 = Instant::now();
        let mut after = thread_count();
        while after > base && t0.elapsed() < Duration::from_secs(6) {
            std::thread::sleep(Duration::from_millis(2));
            after = thread_count();
        }
        if after > base || with_workers < base + 2 {
            violations += 1;
            if detail.is_empty() {
                detail = format!(
                    "round {} ({}): {} threads before, {} with the cache, {} still there 6 s after",
                    r,
                    if closing { "close() then drop" } else { "drop of every handle without close()" },
                    base,
                    with_workers,
                    after
                );
            }
            // leaked workers may be spinning: two such rounds are evidence enough
            if violations >= 2 {
                break;
            }
        }
    }
    LiveResult { scenario: "workers_exit", rounds, violations, detail }
}

// ---- scenarios that also exercise AsyncCache ------------------------------------------------------

use stretto::{AsyncCache, AsyncCacheBuilder};

type LACache = AsyncCache<u64, u64, SplitKeyBuilder, SlowCoster, TableValidator, RecCallback, SlowWorkerHasher>;

fn build_async<SP, R>(max_cost: i64, buf: usize, hasher_us: u64, spawner: SP) -> LACache
where
    SP: Fn(futures::future::BoxFuture<'static, ()>) -> R + Send + Sync + 'static + Copy,
{
    AsyncCacheBuilder::<u64, u64>::new(256, max_cost)
        .set_key_builder(SplitKeyBuilder)
        .set_coster(SlowCoster { micros: 0 })
        .set_update_validator(TableValidator(0))
        .set_callback(RecCallback::default())
        .set_hasher(SlowWorkerHasher { micros: hasher_us })
        .set_buffer_size(buf)
        .set_buffer_items(64)
        .set_ignore_internal_cost(true)
        .set_cleanup_duration(Duration::from_secs(3600))
        .finalize(spawner)
        .expect("async cache")
}

/// C10 for AsyncCache on a multi-threaded executor: insert of a fresh key into a cache with ample
/// room returned true, `wait().await` returned Ok, then the key must be found. The processor (a task
/// on another worker thread) is slowed down so that an item is in flight for a noticeable time.
pub fn async_barrier(rounds: u64) -> LiveResult {
    mark_client();
    let rt = tokio::runtime::Builder::new_multi_thread().worker_threads(4).build().expect("tokio");
    let (done, violations, detail) = rt.block_on(async move {
        let c = build_async(1_000_000, 64, 150, tokio::spawn);
        let mut violations = 0u64;
        let mut detail = String::new();
        let mut done = 0u64;
        for r in 0..rounds {
            let key = mk_key(r + 1, 0);
            let v = r + 1000;
            if !c.insert(key, v, 1).await {
                continue;
            }
            done += 1;
            if r % 2 == 0 {
                std::thread::sleep(Duration::from_micros(60));
            }
            if c.wait().await.is_err() {
                continue;
            }
            let got = c.get(&key).await.map(|x| *x.value());
            if got != Some(v) {
                violations += 1;
                if detail.is_empty() {
                    detail = format!("AsyncCache on tokio multi-thread, round {}: insert(key {}) returned true, wait().await returned Ok, get = {:?}", r, r + 1, got);
                }
            }
        }
        let _ = c.close().await;
        (done, violations, detail)
    });
    LiveResult { scenario: "async_barrier", rounds: done, violations, detail }
}

/// C02 / C06 / C10: `remove(k)` issued while the insert of `k` is still buffered and the buffer is
/// full. Whatever the timing, once `remove` and a following `wait()` have returned the key must be
/// gone, and (C06) nothing may be charged for it. The processor is stalled on an earlier item so that
/// the buffer really is full when `remove` is called. Run against `Cache` and against `AsyncCache`.
pub fn remove_full(rounds: u64, asynchronous: bool) -> LiveResult {
    mark_client();
    let name: &'static str = if asynchronous { "async_remove_full" } else { "remove_full" };
    let mut violations = 0u64;
    let mut detail = String::new();
    let mut done = 0u64;
    if asynchronous {
        let rt = tokio::runtime::Builder::new_multi_thread().worker_threads(4).build().expect("tokio");
        let (d, v, det) = rt.block_on(async move {
            let mut violations = 0u64;
            let mut detail = String::new();
            let mut done = 0u64;
            for r in 0..rounds {
                let c = build_async(1_000_000, 2, 2500, tokio::spawn);
                let base = 10 * (r + 1);
                let k = mk_key(base + 1, 0);
                // the processor takes the first item at once and stalls on it
                let _ = c.insert(mk_key(base, 0), 1, 1).await;
                std::thread::sleep(Duration::from_micros(300));
                let a = c.insert(k, 70, 1).await;
                let _ = c.insert(mk_key(base + 2, 0), 2, 1).await;
                c.remove(&k).await;
                let mut waited = false;
                for _ in 0..200 {
                    if c.wait().await.is_ok() {
                        waited = true;
                        break;
                    }
                    std::thread::sleep(Duration::from_millis(1));
                }
                if !waited {
                    continue;
                }
                done += 1;
                let got = c.get(&k).await.map(|x| *x.value());
                let snap = stretto::verif::async_cache_snapshot(&c, |v| *v);
                let charged = snap.policy.charges.iter().any(|(kk, _)| *kk == base + 1);
                if got.is_some() || charged {
                    violations += 1;
                    if detail.is_empty() {
                        detail = format!(
                            "AsyncCache, round {}: insert(k)={} while the processor was busy, buffer (capacity 2) filled, remove(k) and wait() returned: get(k) = {:?}, k still charged = {}",
                            r, a, got, charged
                        );
                    }
                }
                let _ = c.close().await;
            }
            (done, violations, detail)
        });
        done = d;
        violations = v;
        detail = det;
    } else {
        for r in 0..rounds {
            let c = build(1_000_000, 2, 2500, 0);
            let base = 10 * (r + 1);
            let k = mk_key(base + 1, 0);
            let _ = c.insert(mk_key(base, 0), 1, 1);
            std::thread::sleep(Duration::from_micros(300));
            let a = c.insert(k, 70, 1);
            let _ = c.insert(mk_key(base + 2, 0), 2, 1);
            c.remove(&k);
            let mut waited = false;
            for _ in 0..200 {
                if c.wait().is_ok() {
                    waited = true;
                    break;
                }
                std::thread::sleep(Duration::from_millis(1));
            }
            if !waited {
                continue;
            }
            done += 1;
            let got = c.get(&k).map(|x| *x.value());
            let snap = stretto::verif::cache_snapshot(&c, |v| *v);
            let charged = snap.policy.charges.iter().any(|(kk, _)| *kk == base + 1);
            if got.is_some() || charged {
                violations += 1;
                if detail.is_empty() {
                    detail = format!(
                        "Cache, round {}: insert(k)={} while the processor was busy, buffer (capacity 2) filled, remove(k) and wait() returned: get(k) = {:?}, k still charged = {}",
                        r, a, got, charged
                    );
                }
            }
            let _ = c.close();
        }
    }
    LiveResult { scenario: name, rounds: done, violations, detail }
}

/// C10 / C12 for AsyncCache: `wait()`, `clear()`, `remove()`, inserts and `close()` from different
/// tasks on a multi-threaded runtime: every call returns (a watchdog reports tasks still pending long
/// after the others have finished), and once a `close()` has returned Ok the cache is inert: insert
/// returns false, lookups return nothing, `wait`/`clear`/`close` return Ok.
pub fn async_protocol_storm(rounds: u64, seed: u64) -> LiveResult {
    mark_client();
    let mut rng = Rng::new(seed ^ 0xa57);
    let rt = tokio::runtime::Builder::new_multi_thread().worker_threads(4).build().expect("tokio");
    let mut violations = 0;
    let mut detail = String::new();
    for r in 0..rounds {
        let delays: Vec<u64> = (0..4).map(|_| rng.below(300)).collect();
        let close_delay = rng.below(2000);
        let buf = *rng.pick(&[1usize, 4, 64]);
        let (tx, rx) = std::sync::mpsc::channel::<Result<Vec<String>, String>>();
        let fin = Arc::new(AtomicU64::new(0));
        let fin2 = fin.clone();
        rt.spawn(async move {
            let c = build_async(1000, buf, 20, tokio::spawn);
            let mut hs = Vec::new();
            for t in 0..3u64 {
                let c = c.clone();
                let d = delays[t as usize];
                let fin = fin2.clone();
                hs.push(tokio::spawn(async move {
                    std::thread::sleep(Duration::from_micros(d));
                    for i in 0..20u64 {
                        match (t + i) % 3 {
                            0 => {
                                let _ = c.try_insert(mk_key(i % 7, 0), i, 1).await;
                            }
                            1 => {
                                let _ = c.wait().await;
                            }
                            _ => {
                                if i % 5 == 0 {
                                    let _ = c.clear().await;
                                } else {
                                    let _ = c.try_remove(&mk_key(i % 7, 0)).await;
                                }
                            }
                        }
                    }
                    fin.fetch_add(1, Ordering::SeqCst);
                }));
            }
            let closer = {
                let c = c.clone();
                let fin = fin2.clone();
                tokio::spawn(async move {
                    std::thread::sleep(Duration::from_micros(close_delay));
                    let ok = c.close().await.is_ok();
                    fin.fetch_add(1, Ordering::SeqCst);
                    ok
                })
            };
            let closed_ok = closer.await.unwrap_or(false);
            let mut bad = Vec::new();
            if closed_ok {
                if c.insert(mk_key(99, 0), 1, 1).await {
                    bad.push("insert returned true after close() had returned Ok".to_string());
                }
                for k in 0..7u64 {
                    if c.get(&mk_key(k, 0)).await.is_some() {
                        bad.push(format!("get(key {}) returned a value after close() had returned Ok", k));
                        break;
                    }
                }
                if c.wait().await.is_err() || c.clear().await.is_err() || c.close().await.is_err() {
                    bad.push("wait/clear/close after close() did not return Ok".to_string());
                }
            }
            for h in hs {
                let _ = h.await;
            }
            let _ = tx.send(Ok(bad));
        });
        match rx.recv_timeout(Duration::from_secs(15)) {
            Ok(Ok(bad)) => {
                if !bad.is_empty() {
                    violations += 1;
                    if detail.is_empty() {
                        detail = format!("AsyncCache round {}: {}", r, bad.join("; "));
                    }
                }
            }
            _ => {
                violations += 1;
                if detail.is_empty() {
                    detail = format!(
                        "AsyncCache round {}: a wait()/clear()/remove()/close() call is still pending 15 s after start ({} of 4 tasks finished)",
                        r,
                        fin.load(Ordering::SeqCst)
                    );
                }
                // the runtime of this round is wedged: stop here (the process exits without joining it)
                break;
            }
        }
    }
    std::mem::forget(rt);
    LiveResult { scenario: "async_protocol_storm", rounds, violations, detail }
}

// ---- more scenarios for races the stepped harnesses cannot schedule ---------------------------------

fn build_async_ttl(max_cost: i64, buf: usize, buf_items: usize, cleanup_ms: u64, cb: RecCallback, metrics: bool) -> LACache {
    AsyncCacheBuilder::<u64, u64>::new(4096, max_cost)
        .set_key_builder(SplitKeyBuilder)
        .set_coster(SlowCoster { micros: 0 })
        .set_update_validator(TableValidator(0))
        .set_callback(cb)
        .set_hasher(SlowWorkerHasher { micros: 0 })
        .set_buffer_size(buf)
        .set_buffer_items(buf_items)
        .set_metrics(metrics)
        .set_ignore_internal_cost(true)
        .set_cleanup_duration(Duration::from_millis(cleanup_ms))
        .finalize(tokio::spawn)
        .expect("async cache")
}

/// C11: inserts issued back to back (no quiescence), then `clear()`: once `clear()` and a following
/// `wait()` have returned nothing inserted before the clear is retrievable and `len()` is 0.
pub fn clear_burst(rounds: u64, asynchronous: bool) -> LiveResult {
    mark_client();
    let name: &'static str = if asynchronous { "async_clear_burst" } else { "clear_burst" };
    let mut violations = 0u64;
    let mut detail = String::new();
    if asynchronous {
        // (current-thread runtime: the burst really is buffered when the clear request arrives)
        for r in 0..rounds {
            let rt = tokio::runtime::Builder::new_current_thread().build().expect("tokio");
            let bad = rt.block_on(async move {
                let c = build_async(1_000_000, 256, 0, tokio::spawn);
                let n = 16 + (r % 5) * 16;
                for k in 0..n {
                    let _ = c.insert_with_ttl(mk_key(k, 0), k, 1, if k % 3 == 0 { Duration::from_secs(60) } else { Duration::ZERO }).await;
                }
                let cleared = c.clear().await.is_ok();
                let waited = c.wait().await.is_ok();
                let len = c.len();
                let mut seen = 0;
                for k in 0..n {
                    if c.get(&mk_key(k, 0)).await.is_some() {
                        seen += 1;
                    }
                }
                let _ = c.close().await;
                if cleared && waited && (len != 0 || seen != 0) {
                    Some(format!("AsyncCache round {}: {} inserts back to back, clear() Ok, wait() Ok: len() = {}, {} keys still retrievable", r, n, len, seen))
                } else {
                    None
                }
            });
            if let Some(b) = bad {
                violations += 1;
                if detail.is_empty() {
                    detail = b;
                }
            }
        }
    } else {
        for r in 0..rounds {
            let c = build(1_000_000, 256, 40, 0);
            let n = 16 + (r % 5) * 16;
            for k in 0..n {
                let _ = c.insert_with_ttl(mk_key(k, 0), k, 1, if k % 3 == 0 { Duration::from_secs(60) } else { Duration::ZERO });
            }
            let cleared = c.clear().is_ok();
            let waited = c.wait().is_ok();
            let len = c.len();
            let seen = (0..n).filter(|k| c.get(&mk_key(*k, 0)).is_some()).count();
            let _ = c.close();
            if cleared && waited && (len != 0 || seen != 0) {
                violations += 1;
                if detail.is_empty() {
                    detail = format!("Cache round {}: {} inserts back to back, clear() Ok, wait() Ok: len() = {}, {} keys still retrievable", r, n, len, seen);
                }
            }
        }
    }
    LiveResult { scenario: name, rounds, violations, detail }
}

/// C15: every recorded lookup is accounted exactly once. Several tasks look keys up concurrently;
/// afterwards gets_kept + gets_dropped + (lookups still pending in the stripes) = lookups made.
pub fn async_ring_accounting(rounds: u64) -> LiveResult {
    mark_client();
    let rt = tokio::runtime::Builder::new_multi_thread().worker_threads(4).build().expect("tokio");
    let mut violations = 0u64;
    let mut detail = String::new();
    for r in 0..rounds {
        let items = [1usize, 4, 8, 64][(r % 4) as usize];
        let bad = rt.block_on(async move {
            let c = build_async_ttl(1_000_000, 64, items, 3_600_000, RecCallback::default(), true);
            let per = 12_000u64;
            let tasks = 6u64;
            // start gate: under load the runtime may otherwise run the tasks one after another (a
            // worker woken late finds the others finished), and then nothing overlaps
            let started = Arc::new(AtomicU64::new(0));
            let mut hs = Vec::new();
            for t in 0..tasks {
                let c = c.clone();
                let started = started.clone();
                hs.push(tokio::spawn(async move {
                    started.fetch_add(1, Ordering::SeqCst);
                    let t0 = Instant::now();
                    while started.load(Ordering::SeqCst) < 4 && t0.elapsed() < Duration::from_secs(5) {
                        tokio::task::yield_now().await;
                    }
                    for i in 0..per {
                        let _ = c.get(&mk_key((t * 7 + i) % 50, 0)).await;
                        if i % 1024 == 1023 {
                            tokio::task::yield_now().await;
                        }
                    }
                }));
            }
            for h in hs {
                let _ = h.await;
            }
            let _ = c.wait().await;
            for _ in 0..50 {
                tokio::task::yield_now().await;
            }
            std::thread::sleep(Duration::from_millis(5));
            let snap = stretto::verif::async_cache_snapshot(&c, |v| *v);
            let m = snap.metrics.unwrap_or([0; 11]);
            let total = m[9] + m[10] + snap.ring.len() as u64;
            let _ = c.close().await;
            if total != per * tasks {
                Some(format!(
                    "AsyncCache round {} (buffer_items {}): {} lookups were made, gets_kept {} + gets_dropped {} + pending {} = {}",
                    r, items, per * tasks, m[10], m[9], snap.ring.len(), total
                ))
            } else {
                None
            }
        });
        if let Some(b) = bad {
            violations += 1;
            if detail.is_empty() {
                detail = b;
            }
        }
    }
    LiveResult { scenario: "async_ring_accounting", rounds, violations, detail }
}

/// C11: `clear()` while another thread still holds a `ValueRef` (a read guard on one shard of the
/// store). Once `clear()` has returned — however long it had to wait for the reader — nothing inserted
/// before it is retrievable and `len()` is 0. Sound for every timing: no insert follows the clear.
pub fn clear_held_ref(rounds: u64, prop: &str) -> LiveResult {
    mark_client();
    let mut violations = 0u64;
    let mut detail = String::new();
    for r in 0..rounds {
        let cb = RecCallback::default();
        // C08's part uses a validator that refuses every replacement: a value written over a survivor of the
        // clear would be dropped without a callback
        let c = CacheBuilder::<u64, u64>::new(256, 1_000_000)
            .set_key_builder(SplitKeyBuilder)
            .set_coster(SlowCoster { micros: 0 })
            .set_update_validator(TableValidator(if r % 2 == 1 || prop == "C08" { 1 } else { 0 }))
            .set_callback(cb.clone())
            .set_hasher(SlowWorkerHasher { micros: 0 })
            .set_buffer_size(256)
            .set_buffer_items(64)
            .set_metrics(true)
            .set_ignore_internal_cost(true)
            .set_cleanup_duration(Duration::from_secs(3600))
            .finalize()
            .expect("cache");
        // keys spread over several shards; `held` shares its shard (index mod 256) with held + 256
        let held = 1 + (r % 7);
        let keys: Vec<u64> = vec![held, held + 256, held + 512, 100 + r % 50, 3, 200];
        for k in &keys {
            let _ = c.insert(mk_key(*k, 0), *k, 1);
        }
        let _ = c.wait();
        let holding = Arc::new(AtomicBool::new(false));
        let reader = {
            let c = c.clone();
            let holding = holding.clone();
            std::thread::spawn(move || {
                let guard = c.get(&mk_key(held, 0));
                holding.store(true, Ordering::SeqCst);
                std::thread::sleep(Duration::from_millis(60 + (r % 3) * 40));
                drop(guard);
            })
        };
        let t0 = Instant::now();
        while !holding.load(Ordering::SeqCst) && t0.elapsed() < Duration::from_secs(5) {
            std::thread::yield_now();
        }
        let cleared = c.clear().is_ok();
        let len = c.len();
        let seen: Vec<u64> = keys.iter().copied().filter(|k| c.get(&mk_key(*k, 0)).is_some()).collect();
        let _ = reader.join();
        // C08: a value accepted after the clear has returned is resident or was handed to a callback
        let v_new = 900_000 + r;
        let ins = c.insert(mk_key(held, 0), v_new, 1);
        let _ = c.wait();
        let now_resident = c.get(&mk_key(held, 0)).map(|v| *v.value()) == Some(v_new);
        let called_back = cb.0.lock().unwrap().iter().any(|e| match e {
            crate::cache::CbEv::Exit(v) | crate::cache::CbEv::Evict(_, _, v, _) | crate::cache::CbEv::Reject(_, _, v, _) => *v == v_new,
        });
        let _ = c.close();
        if matches!(prop, "all" | "C08") && cleared && ins && !now_resident && !called_back {
            violations += 1;
            if detail.is_empty() {
                detail = format!(
                    "Cache round {}: another thread held the ValueRef of key {} while clear() ran and returned Ok; then insert({}, {}) = true, wait() = Ok: the value is neither resident nor was it handed to on_exit / on_evict / on_reject",
                    r, held, held, v_new
                );
            }
        }
        if matches!(prop, "all" | "C11") && cleared && (len != 0 || !seen.is_empty()) {
            violations += 1;
            if detail.is_empty() {
                detail = format!(
                    "Cache round {}: keys {:?} resident, another thread holds the ValueRef of key {} while clear() is called; clear() returned Ok, yet len() = {} and keys {:?} are still retrievable",
                    r, keys, held, len, seen
                );
            }
        }
    }
    LiveResult { scenario: "clear_held_ref", rounds, violations, detail }
}

/// C20 (and C05's "every cleanup interval"): a cache built with a very short cleanup interval (down to
/// one nanosecond) still completes a small workload: inserts with TTL, lookups, a remove, `wait()`,
/// `clear()`, `close()`. A watchdog bounds each phase; a phase that does not complete is a violation.
pub fn tiny_cleanup_interval(rounds: u64) -> LiveResult {
    mark_client();
    let mut violations = 0u64;
    let mut detail = String::new();
    for r in 0..rounds {
        let nanos = [1u64, 7, 40, 100, 1000, 50_000][(r % 6) as usize];
        let done = Arc::new(AtomicU64::new(0));
        let h = {
            let done = done.clone();
            std::thread::spawn(move || {
                let c = CacheBuilder::<u64, u64>::new(256, 1000)
                    .set_key_builder(SplitKeyBuilder)
                    .set_coster(SlowCoster { micros: 0 })
                    .set_update_validator(TableValidator(0))
                    .set_callback(RecCallback::default())
                    .set_hasher(SlowWorkerHasher { micros: 0 })
                    .set_buffer_size(64)
                    .set_buffer_items(8)
                    .set_metrics(true)
                    .set_ignore_internal_cost(true)
                    .set_cleanup_duration(Duration::from_nanos(nanos))
                    .finalize()
                    .expect("cache");
                for k in 0..20u64 {
                    let _ = c.insert_with_ttl(mk_key(k, 0), k, 1, if k % 2 == 0 { Duration::from_millis(5) } else { Duration::ZERO });
                }
                done.store(1, Ordering::SeqCst);
                let _ = c.wait();
                done.store(2, Ordering::SeqCst);
                for k in 0..20u64 {
                    let _ = c.get(&mk_key(k, 0));
                }
                let _ = c.try_remove(&mk_key(3, 0));
                let _ = c.wait();
                done.store(3, Ordering::SeqCst);
                let _ = c.clear();
                done.store(4, Ordering::SeqCst);
                let _ = c.close();
                done.store(5, Ordering::SeqCst);
            })
        };
        let t0 = Instant::now();
        while done.load(Ordering::SeqCst) < 5 && t0.elapsed() < Duration::from_secs(20) {
            std::thread::sleep(Duration::from_millis(2));
        }
        let phase = done.load(Ordering::SeqCst);
        if phase < 5 {
            violations += 1;
            if detail.is_empty() {
                let what = ["the inserts", "wait()", "the lookups, remove() and wait()", "clear()", "close()"][phase as usize];
                detail = format!("Cache built with set_cleanup_duration({} ns): {} did not complete within 20 s", nanos, what);
            }
            // the stuck thread is left behind; stop here
            break;
        }
        let _ = h.join();
    }
    LiveResult { scenario: "tiny_cleanup_interval", rounds, violations, detail }
}

/// C05: the cleanup interval given to the builder is the one in effect, whatever the order of the
/// builder calls. The interval is set to 50 ms *before* the type-changing setters; an entry with a
/// 300 ms TTL must be reclaimed (len() drops, on_evict fires) within one bucket width (1 s) plus one
/// interval after its deadline — checked 0.9 s after that bound, and retried twice before it counts
/// (a stalled machine must not raise an alarm; the default 2 s interval misses the bound by up to 1.95 s
/// whenever the deadline's second does not end on one of its ticks, which the rounds' phases vary).
pub fn cleanup_interval_honoured(rounds: u64) -> LiveResult {
    mark_client();
    let mut violations = 0u64;
    let mut detail = String::new();
    for r in 0..rounds {
        let mut late = 0;
        let mut last = String::new();
        for attempt in 0..3u64 {
            let cb = RecCallback::default();
            let c = CacheBuilder::<u64, u64>::new(256, 1000)
                .set_cleanup_duration(Duration::from_millis(50))
                .set_buffer_size(64)
                .set_buffer_items(8)
                .set_ignore_internal_cost(true)
                .set_key_builder(SplitKeyBuilder)
                .set_coster(SlowCoster { micros: 0 })
                .set_update_validator(TableValidator(0))
                .set_hasher(SlowWorkerHasher { micros: 0 })
                .set_callback(cb.clone())
                .finalize()
                .expect("cache");
            let built = Instant::now();
            // place the deadline half a second before the first whole second B that follows "build + 2 s":
            // the entry's bucket becomes due at B, so a 50 ms ticker reclaims it by B + 50 ms, while the
            // ticks of a 2 s interval (build + 2 s: too early, build + 4 s: at least a second late) do not
            let w = std::time::SystemTime::now().duration_since(std::time::UNIX_EPOCH).unwrap();
            let w_ns = w.as_nanos() as u64;
            let b_ns = ((w_ns + 2_000_000_000) / 1_000_000_000 + 1) * 1_000_000_000;
            let insert_in = b_ns - 800_000_000 - w_ns;
            std::thread::sleep(Duration::from_nanos(insert_in));
            let _ = c.insert_with_ttl(mk_key(1, 0), 1, 1, Duration::from_millis(300));
            let _ = c.insert(mk_key(2, 0), 2, 1);
            let _ = c.wait();
            let inserted_at = built.elapsed();
            let _ = (r, attempt);
            // until B + interval + slack
            let now_ns = std::time::SystemTime::now().duration_since(std::time::UNIX_EPOCH).unwrap().as_nanos() as u64;
            std::thread::sleep(Duration::from_nanos((b_ns + 50_000_000 + 900_000_000).saturating_sub(now_ns)));
            let len = c.len();
            let evicted = cb.0.lock().unwrap().iter().filter(|e| matches!(e, crate::cache::CbEv::Evict(..))).count();
            let _ = c.close();
            if len > 1 || evicted == 0 {
                late += 1;
                last = format!(
                    "builder: set_cleanup_duration(50 ms) .. set_callback(cb); entry inserted {:?} after the build with TTL 300 ms, so that its expiry bucket becomes due at a whole second B: at B + 50 ms interval + 0.9 s len() = {} and on_evict was called {} times",
                    inserted_at, len, evicted
                );
            } else {
                break;
            }
        }
        if late == 3 {
            violations += 1;
            if detail.is_empty() {
                detail = last;
            }
        }
    }
    LiveResult { scenario: "cleanup_interval_honoured", rounds, violations, detail }
}

/// C03 / C05: the periodic sweep racing TTL refreshes, with real time. Many keys share a deadline;
/// while their bucket is being swept some of them are re-inserted with a long TTL. Afterwards every
/// refreshed key is still retrievable (the sweep never removes an entry that has not expired) and
/// every other key has been reclaimed within the bound (nothing leaks).
pub fn async_sweep_race(rounds: u64) -> LiveResult {
    mark_client();
    let rt = tokio::runtime::Builder::new_multi_thread().worker_threads(4).enable_time().build().expect("tokio");
    let mut violations = 0u64;
    let mut detail = String::new();
    for r in 0..rounds {
        let bad = rt.block_on(async move {
            let cb = RecCallback::default();
            let c = build_async_ttl(10_000_000, 65536, 64, 20, cb.clone(), false);
            let n = 40_000u64;
            // all keys expire inside the same second; the sweep reaches their bucket one second later
            let now_ns = std::time::SystemTime::now().duration_since(std::time::UNIX_EPOCH).unwrap().subsec_nanos() as u64;
            // start shortly after a second boundary so that the whole batch shares one bucket
            if now_ns > 300_000_000 {
                std::thread::sleep(Duration::from_nanos(1_000_000_000 - now_ns + 20_000_000));
            }
            for k in 0..n {
                let _ = c.insert_with_ttl(mk_key(k, 0), k, 1, Duration::from_millis(300)).await;
            }
            let _ = c.wait().await;
            // the bucket becomes due at the second boundary after the deadline's second + 1
            let refresher = {
                let c = c.clone();
                tokio::spawn(async move {
                    let t0 = Instant::now();
                    let mut refreshed = Vec::new();
                    let mut k = 0u64;
                    while t0.elapsed() < Duration::from_millis(2300) {
                        if t0.elapsed() > Duration::from_millis(600) {
                            // about twenty refreshes per millisecond: the sweep of 40 000 keys overlaps hundreds
                            for _ in 0..20 {
                                let key = (k * 37) % n;
                                if c.insert_with_ttl(mk_key(key, 0), key + 1_000_000, 1, Duration::from_secs(3600)).await {
                                    refreshed.push(key);
                                }
                                k += 1;
                            }
                        }
                        tokio::time::sleep(Duration::from_millis(1)).await;
                    }
                    refreshed
                })
            };
            let refreshed = refresher.await.unwrap_or_default();
            let _ = c.wait().await;
            tokio::time::sleep(Duration::from_millis(1200)).await;
            let _ = c.wait().await;
            let mut uniq = refreshed.clone();
            uniq.sort();
            uniq.dedup();
            let mut missing = 0;
            for key in &uniq {
                if c.get(&mk_key(*key, 0)).await.is_none() {
                    missing += 1;
                }
            }
            let len = c.len();
            let _ = c.close().await;
            if missing > 0 {
                Some(format!("AsyncCache round {}: {} of {} keys re-inserted with a one-hour TTL while their old bucket was being swept are gone", r, missing, uniq.len()))
            } else if len != uniq.len() {
                Some(format!("AsyncCache round {}: {} entries are resident 2 s after every non-refreshed key expired, {} were refreshed: expired entries were not reclaimed", r, len, uniq.len()))
            } else {
                None
            }
        });
        if let Some(b) = bad {
            violations += 1;
            if detail.is_empty() {
                detail = b;
            }
            break;
        }
    }
    LiveResult { scenario: "async_sweep_race", rounds, violations, detail }
}

/// C05: the sweep is not starved by traffic. One key expires while other keys are inserted every few
/// milliseconds; within bucket width + cleanup interval (+ slack) it has been handed to `on_evict`.
pub fn async_sweep_under_traffic() -> LiveResult {
    mark_client();
    let rt = tokio::runtime::Builder::new_multi_thread().worker_threads(2).enable_time().build().expect("tokio");
    let (violations, detail) = rt.block_on(async move {
        let cb = RecCallback::default();
        let c = build_async_ttl(1_000_000, 1024, 64, 500, cb.clone(), false);
        let _ = c.insert_with_ttl(mk_key(7, 0), 700, 1, Duration::from_millis(400)).await;
        let t0 = Instant::now();
        let mut i = 0u64;
        // deadline + bucket width (1 s) + one interval (0.5 s) + slack
        while t0.elapsed() < Duration::from_millis(3600) {
            let _ = c.insert(mk_key(100 + (i % 200), 0), i, 1).await;
            i += 1;
            tokio::time::sleep(Duration::from_millis(10)).await;
        }
        let evicted = cb.0.lock().unwrap().iter().any(|e| matches!(e, crate::cache::CbEv::Evict(_, _, 700, _)));
        let _ = c.close().await;
        if evicted {
            (0, String::new())
        } else {
            (1, "AsyncCache: an entry whose TTL (0.4 s) ran out was not reclaimed within 3.6 s while other keys were inserted every 10 ms (cleanup interval 0.5 s)".to_string())
        }
    });
    LiveResult { scenario: "async_sweep_under_traffic", rounds: 1, violations, detail }
}
